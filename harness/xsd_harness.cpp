// Binder T for the SchemaStruct specification (property C08).
//   xsd_harness t                 stdin: TLC lines [template, params, schema, [load, loadFull], [[instance, [kinds]] ...]]   (SchemaStructGen)
//   xsd_harness render            stdin: the same lines; prints the XSD text and the first instances (debug aid)
//   xsd_harness one <xsd> <xml>   validate one instance file against one schema file with every configuration (debug / replay aid)
// Output: {"t":"mismatch",...} lines, one {"t":"summary",...} line per input line (numeric counters, summed by the
// orchestration) and the Supervisor's final summary.
//
// Everything expected comes from the TLC line (the specification's verdict and error kinds, the expected schema load
// result, the expected type names / defaulted attributes). The renderers are tables from the schema / instance records
// to XSD / XML text. Each schema is loaded ONCE per configuration (loadGrammar + grammar caching) and all its instances
// are validated against the cached grammar.
#include "vh.hpp"
#include <xercesc/parsers/SAX2XMLReaderImpl.hpp>
#include <xercesc/parsers/XercesDOMParser.hpp>
#include <xercesc/sax/ErrorHandler.hpp>
#include <xercesc/sax/SAXParseException.hpp>
#include <xercesc/sax2/DefaultHandler.hpp>
#include <xercesc/sax2/Attributes.hpp>
#include <xercesc/framework/MemBufInputSource.hpp>
#include <xercesc/framework/XMLValidityCodes.hpp>
#include <xercesc/framework/XMLErrorCodes.hpp>
#include <xercesc/framework/psvi/PSVIHandler.hpp>
#include <xercesc/framework/psvi/PSVIElement.hpp>
#include <xercesc/framework/psvi/PSVIAttributeList.hpp>
#include <xercesc/framework/psvi/XSTypeDefinition.hpp>
#include <xercesc/framework/psvi/XSElementDeclaration.hpp>
#include <xercesc/validators/common/Grammar.hpp>
#include <xercesc/util/XMLUni.hpp>
#include <xercesc/util/XMLException.hpp>
#include <xercesc/util/OutOfMemoryException.hpp>
#include <xercesc/dom/DOM.hpp>
#include <algorithm>
#include <fstream>
#include <sstream>
#include <set>
using namespace vh;
using namespace XERCES_CPP_NAMESPACE;

// ------------------------------------------------------------------------------------------------
// observation of one parse / one schema load
// ------------------------------------------------------------------------------------------------
struct Rec {
    int hWarn = 0, hErr = 0, hFatal = 0;          // ErrorHandler callbacks (the public observation)
    std::vector<std::pair<char, int>> codes;      // ('V' validity | 'X' XML errors | 'O' other domain, code) of errors and fatals
    std::string exc;
    std::string rootType;                         // DOMTypeInfo / PSVI type name of the root element ("" if none)
    json rootAttrs = json::array();               // [[name, value, specified] ...] of the root element, sorted
    std::string rootText;                         // character content delivered for the root element
    void clear() { *this = Rec(); }
    std::string codeStr() const {
        std::set<std::string> s;
        for (auto& c : codes) s.insert(std::string(1, c.first) + std::to_string(c.second));
        std::string o;
        for (auto& x : s) { if (!o.empty()) o += ","; o += x; }
        return o;
    }
};
static Rec* gRec = nullptr;

static void noteReport(unsigned int code, const XMLCh* domain, XMLErrorReporter::ErrTypes type) {
    if (!gRec) return;
    char d = XMLString::equals(domain, XMLUni::fgValidityDomain) ? 'V' : XMLString::equals(domain, XMLUni::fgXMLErrDomain) ? 'X' : 'O';
    if (type != XMLErrorReporter::ErrType_Warning) gRec->codes.emplace_back(d, (int)code);
}

struct CountingHandler : public ErrorHandler {
    void warning(const SAXParseException&) override { if (gRec) gRec->hWarn++; }
    void error(const SAXParseException&) override { if (gRec) gRec->hErr++; }
    void fatalError(const SAXParseException&) override { if (gRec) gRec->hFatal++; }
    void resetErrors() override {}
};

struct MySAX2 : public SAX2XMLReaderImpl {
    void error(const unsigned int code, const XMLCh* const dom, const XMLErrorReporter::ErrTypes type, const XMLCh* const text,
               const XMLCh* const sys, const XMLCh* const pub, const XMLFileLoc line, const XMLFileLoc col) override {
        noteReport(code, dom, type);
        SAX2XMLReaderImpl::error(code, dom, type, text, sys, pub, line, col);
    }
};
struct MyDOM : public XercesDOMParser {
    void error(const unsigned int code, const XMLCh* const dom, const XMLErrorReporter::ErrTypes type, const XMLCh* const text,
               const XMLCh* const sys, const XMLCh* const pub, const XMLFileLoc line, const XMLFileLoc col) override {
        noteReport(code, dom, type);
        XercesDOMParser::error(code, dom, type, text, sys, pub, line, col);
    }
};

// SAX2 content handler: attributes and text of the root element; PSVI handler: its type name
struct RootTap : public DefaultHandler, public PSVIHandler {
    int depth = 0;
    void startElement(const XMLCh* const, const XMLCh* const, const XMLCh* const, const Attributes& attrs) override {
        if (depth++ == 0 && gRec) {
            std::vector<json> as;
            for (XMLSize_t i = 0; i < attrs.getLength(); i++) {
                std::string qn = to8(attrs.getQName(i));
                if (qn.compare(0, 5, "xmlns") == 0 || qn.compare(0, 4, "xsi:") == 0) continue;
                as.push_back(json::array({qn, to8(attrs.getValue(i))}));
            }
            std::sort(as.begin(), as.end());
            gRec->rootAttrs = as;
        }
    }
    void endElement(const XMLCh* const, const XMLCh* const, const XMLCh* const) override { depth--; }
    void characters(const XMLCh* const chars, const XMLSize_t length) override { if (depth == 1 && gRec) gRec->rootText += to8(chars, length); }
    void ignorableWhitespace(const XMLCh* const chars, const XMLSize_t length) override { if (depth == 1 && gRec) gRec->rootText += to8(chars, length); }
    void startDocument() override { depth = 0; }
    int pdepth = 0;
    void handleElementPSVI(const XMLCh* const, const XMLCh* const, PSVIElement* info) override {
        pdepth--;
        if (pdepth == 0 && gRec && info) {
            XSTypeDefinition* t = info->getTypeDefinition();
            gRec->rootType = t ? to8(t->getName()) : std::string();
        }
    }
    void handleAttributesPSVI(const XMLCh* const, const XMLCh* const, PSVIAttributeList*) override { pdepth++; }
    void handlePartialElementPSVI(const XMLCh* const, const XMLCh* const, PSVIElement*) override {}
};

struct Cfg { const char* name; int api; bool sg; };
static const Cfg kCfgs[] = {
    {"dom-IG", 0, false},
    {"dom-SG", 0, true},
    {"sax2-IG", 1, false},
    {"sax2-SG", 1, true},
};
static const int kNCfg = sizeof(kCfgs) / sizeof(kCfgs[0]);

struct Parsers {
    CountingHandler eh;
    RootTap tap;
    MyDOM* dom[2] = {nullptr, nullptr};
    MySAX2* sax[2] = {nullptr, nullptr};
    Parsers() {
        for (int sg = 0; sg < 2; sg++) {
            const XMLCh* sc = sg ? XMLUni::fgSGXMLScanner : XMLUni::fgIGXMLScanner;
            dom[sg] = new MyDOM();
            dom[sg]->useScanner(sc);
            dom[sg]->setErrorHandler(&eh);
            dom[sg]->setDoNamespaces(true);
            dom[sg]->setDoSchema(true);
            dom[sg]->setValidationScheme(XercesDOMParser::Val_Always);
            dom[sg]->useCachedGrammarInParse(true);
            dom[sg]->setLoadExternalDTD(false);
            dom[sg]->setCreateEntityReferenceNodes(false);
            dom[sg]->setCreateSchemaInfo(true);
            sax[sg] = new MySAX2();
            sax[sg]->setProperty(XMLUni::fgXercesScannerName, (void*)sc);
            sax[sg]->setErrorHandler(&eh);
            sax[sg]->setContentHandler(&tap);
            sax[sg]->setPSVIHandler(&tap);
            sax[sg]->setFeature(XMLUni::fgSAX2CoreNameSpaces, true);
            sax[sg]->setFeature(XMLUni::fgSAX2CoreValidation, true);
            sax[sg]->setFeature(XMLUni::fgXercesDynamic, false);
            sax[sg]->setFeature(XMLUni::fgXercesSchema, true);
            sax[sg]->setFeature(XMLUni::fgXercesUseCachedGrammarInParse, true);
            sax[sg]->setFeature(XMLUni::fgXercesLoadExternalDTD, false);
        }
    }
    template <class F>
    void guarded(Rec& rec, F f) {
        rec.clear();
        gRec = &rec;
        try { f();
        } catch (const OutOfMemoryException&) { rec.exc = "OutOfMemoryException";
        } catch (const XMLException& e) { rec.exc = "XMLException:" + to8(e.getType());
        } catch (const SAXParseException&) { rec.exc = "SAXParseException";
        } catch (const SAXException&) { rec.exc = "SAXException";
        } catch (const DOMException&) { rec.exc = "DOMException";
        } catch (...) { rec.exc = "unknown"; }
        gRec = nullptr;
    }
    // load the schema into the parser's (emptied) grammar cache
    void load(const Cfg& c, bool full, const std::string& xsd, Rec& rec) {
        guarded(rec, [&]() {
            MemBufInputSource src((const XMLByte*)xsd.data(), xsd.size(), "urn:verif:schema.xsd", false);
            if (c.api == 0) {
                MyDOM* p = dom[c.sg];
                p->resetCachedGrammarPool();
                p->setValidationSchemaFullChecking(full);
                p->loadGrammar(src, Grammar::SchemaGrammarType, true);
            } else {
                MySAX2* p = sax[c.sg];
                p->resetCachedGrammarPool();
                p->setFeature(XMLUni::fgXercesSchemaFullChecking, full);
                p->loadGrammar(src, Grammar::SchemaGrammarType, true);
            }
        });
    }
    void parse(const Cfg& c, const std::string& doc, Rec& rec) {
        guarded(rec, [&]() {
            MemBufInputSource src((const XMLByte*)doc.data(), doc.size(), "urn:verif:instance.xml", false);
            if (c.api == 0) {
                MyDOM* p = dom[c.sg];
                p->parse(src);
                DOMDocument* d = p->getDocument();
                DOMElement* r = d ? d->getDocumentElement() : nullptr;
                if (r) {
                    const DOMTypeInfo* ti = r->getSchemaTypeInfo();
                    rec.rootType = ti ? to8(ti->getTypeName()) : std::string();
                    std::vector<json> as;
                    DOMNamedNodeMap* m = r->getAttributes();
                    for (XMLSize_t i = 0; m && i < m->getLength(); i++) {
                        DOMAttr* a = (DOMAttr*)m->item(i);
                        std::string qn = to8(a->getName());
                        if (qn.compare(0, 5, "xmlns") == 0 || qn.compare(0, 4, "xsi:") == 0) continue;
                        as.push_back(json::array({qn, to8(a->getValue())}));
                    }
                    std::sort(as.begin(), as.end());
                    rec.rootAttrs = as;
                    for (DOMNode* k = r->getFirstChild(); k; k = k->getNextSibling())
                        if (k->getNodeType() == DOMNode::TEXT_NODE || k->getNodeType() == DOMNode::CDATA_SECTION_NODE) rec.rootText += to8(k->getNodeValue());
                }
                p->resetDocumentPool();
            } else {
                tap.depth = 0;
                tap.pdepth = 0;
                sax[c.sg]->parse(src);
            }
        });
    }
};
static Parsers* P = nullptr;

// ------------------------------------------------------------------------------------------------
// renderers (tables)
// ------------------------------------------------------------------------------------------------
static const char* kXsdHead =
    "<xs:schema xmlns:xs=\"http://www.w3.org/2001/XMLSchema\" xmlns:t=\"urn:t\" targetNamespace=\"urn:t\" "
    "elementFormDefault=\"qualified\" attributeFormDefault=\"unqualified\">\n";
static const char* kDocNs =
    " xmlns:t=\"urn:t\" xmlns:o=\"urn:o\" xmlns:xs=\"http://www.w3.org/2001/XMLSchema\" xmlns:xsi=\"http://www.w3.org/2001/XMLSchema-instance\"";

static std::string typeRef(const std::string& n) { return n.compare(0, 3, "xs:") == 0 ? n : "t:" + n; }
static std::string nsUri(const std::string& w) {          // namespace constraint tokens are XSD syntax already, except the symbolic other namespace
    return w;
}
static std::string occurs(const json& p) {
    int mn = p[1].get<int>(), mx = p[2].get<int>();
    std::string s;
    if (mn != 1) s += " minOccurs=\"" + std::to_string(mn) + "\"";
    if (mx != 1) s += " maxOccurs=\"" + (mx == 99 ? std::string("unbounded") : std::to_string(mx)) + "\"";
    return s;
}
static std::string join(const json& set, const char* sep) {
    std::string s;
    for (auto& e : set) { if (!s.empty()) s += sep; s += e.get<std::string>(); }
    return s;
}
static std::string renderParticle(const json& p) {
    const std::string op = p[0];
    if (op == "elem") {
        if (p[4] == "ref") return "<xs:element ref=\"t:" + p[3].get<std::string>() + "\"" + occurs(p) + "/>";
        return "<xs:element name=\"" + p[3].get<std::string>() + "\" type=\"" + typeRef(p[4]) + "\"" + occurs(p) + "/>";
    }
    if (op == "any") return "<xs:any namespace=\"" + nsUri(p[3]) + "\" processContents=\"" + p[4].get<std::string>() + "\"" + occurs(p) + "/>";
    const char* tag = op == "seq" ? "xs:sequence" : op == "choice" ? "xs:choice" : op == "all" ? "xs:all" : nullptr;
    if (!tag) throw std::runtime_error("particle operator " + op);
    std::string s = std::string("<") + tag + occurs(p) + ">";
    for (auto& k : p[5]) s += renderParticle(k);
    return s + "</" + tag + ">";
}
static std::string valueConstraint(const json& d) {
    const std::string vc = d["vc"];
    if (vc.empty()) return "";
    return " " + vc + "=\"" + d["val"].get<std::string>() + "\"";
}
static std::string renderAttrUse(const json& a, bool global) {
    std::string s = "<xs:attribute name=\"" + a["name"].get<std::string>() + "\" type=\"" + typeRef(a["stype"]) + "\"";
    if (!global && a["use"] != "optional") s += " use=\"" + a["use"].get<std::string>() + "\"";
    return s + valueConstraint(a) + "/>";
}
static std::string renderTypeBody(const json& t) {
    std::string s;
    const json& part = t["part"];
    if (!part.empty()) {
        const std::string op = part[0];
        s += (op == "elem" || op == "any") ? "<xs:sequence>" + renderParticle(part) + "</xs:sequence>" : renderParticle(part);
    }
    for (auto& a : t["attrs"]) s += renderAttrUse(a, false);
    if (!t["anyAttr"].empty())
        s += "<xs:anyAttribute namespace=\"" + nsUri(t["anyAttr"][0]) + "\" processContents=\"" + t["anyAttr"][1].get<std::string>() + "\"/>";
    return s;
}
static std::string renderType(const json& t) {
    std::string s = "<xs:complexType name=\"" + t["name"].get<std::string>() + "\"";
    if (t["abstract"].get<bool>()) s += " abstract=\"true\"";
    if (!t["block"].empty()) s += " block=\"" + join(t["block"], " ") + "\"";
    const std::string kind = t["kind"], deriv = t["deriv"];
    if (kind == "mixed") s += " mixed=\"true\"";
    s += ">";
    if (kind == "simple" && deriv.empty())
        s += "<xs:simpleContent><xs:extension base=\"" + typeRef(t["stype"]) + "\">" + renderTypeBody(t) + "</xs:extension></xs:simpleContent>";
    else if (!deriv.empty()) {
        const char* tag = deriv == "ext" ? "xs:extension" : "xs:restriction";
        const char* wrap = kind == "simple" ? "xs:simpleContent" : "xs:complexContent";
        s += std::string("<") + wrap + "><" + tag + " base=\"" + typeRef(t["base"]) + "\">" + renderTypeBody(t) + "</" + tag + "></" + wrap + ">";
    } else
        s += renderTypeBody(t);
    return s + "</xs:complexType>\n";
}
static std::string renderElemDecl(const json& d) {
    std::string s = "<xs:element name=\"" + d["name"].get<std::string>() + "\" type=\"" + typeRef(d["type"]) + "\"";
    if (d["nillable"].get<bool>()) s += " nillable=\"true\"";
    if (d["abstract"].get<bool>()) s += " abstract=\"true\"";
    if (!d["subst"].get<std::string>().empty()) s += " substitutionGroup=\"t:" + d["subst"].get<std::string>() + "\"";
    if (!d["block"].empty()) s += " block=\"" + join(d["block"], " ") + "\"";
    return s + valueConstraint(d) + "/>\n";
}
static std::string renderSchema(const json& S) {
    std::string s = kXsdHead;
    for (auto& d : S["elems"]) s += renderElemDecl(d);
    for (auto& a : S["gattrs"]) s += renderAttrUse(a, true) + "\n";
    for (auto& t : S["types"]) s += renderType(t);
    return s + "</xs:schema>\n";
}

static std::string qname(const std::string& ns, const std::string& local) { return ns.empty() ? local : ns + ":" + local; }
static std::string renderNode(const json& n, bool root) {
    const std::string ns = n[0], name = n[1];
    if (ns == "#") {
        if (name == "text") return "x";
        if (name == "num") return "7";
        if (name == "ws") return " ";
        if (name == "cmt") return "<!--c-->";
        throw std::runtime_error("item " + name);
    }
    std::string q = qname(ns, name);
    std::string s = "<" + q;
    if (root) s += kDocNs;
    if (!n[2].get<std::string>().empty()) s += " xsi:type=\"" + typeRef(n[2]) + "\"";
    if (!n[3].get<std::string>().empty()) s += " xsi:nil=\"" + n[3].get<std::string>() + "\"";
    for (auto& a : n[4]) s += " " + qname(a[0], a[1]) + "=\"" + a[2].get<std::string>() + "\"";
    if (n[5].empty()) return s + "/>";
    s += ">";
    for (auto& k : n[5]) s += renderNode(k, false);
    return s + "</" + q + ">";
}

// error kinds of the specification -> validity codes that report them
static const std::map<std::string, std::set<int>> kKindCodes = {
    {"content", {XMLValid::ElementNotValidForContent, XMLValid::NotEnoughElemsForCM, XMLValid::EmptyNotValidForContent, XMLValid::EmptyElemHasContent}},
    {"chardata", {XMLValid::NoCharDataInCM, XMLValid::EmptyElemHasContent, XMLValid::NonWSContent}},
    {"undeclared", {XMLValid::ElementNotDefined, XMLValid::GrammarNotFound}},
    {"simplechild", {XMLValid::SimpleTypeHasChild}},
    {"nil-notallowed", {XMLValid::NillNotAllowed}},
    {"nil-notempty", {XMLValid::NilAttrNotEmpty, XMLValid::NoCharDataInCM, XMLValid::ElementNotValidForContent, XMLValid::SimpleTypeHasChild}},
    {"nil-fixed", {XMLValid::NilAttrNotEmpty}},
    {"abstract-elem", {XMLValid::NoDirectUseAbstractElement}},
    {"abstract-type", {XMLValid::NoUseAbstractType, XMLValid::NoAbstractInXsiType}},
    {"xsitype-bad", {XMLValid::BadXsiType}},
    {"xsitype-nonderived", {XMLValid::NonDerivedXsiType}},
    {"xsitype-block", {XMLValid::ElemNoSubforBlock, XMLValid::TypeNoSubforBlock}},
    {"attr-required", {XMLValid::RequiredAttrNotProvided}},
    {"attr-notallowed", {XMLValid::AttNotDefined, XMLValid::AttNotDefinedForElement, XMLValid::ProhibitedAttributePresent}},
    {"attr-fixed", {XMLValid::NotSameAsFixedValue}},
    {"attr-value", {XMLValid::DatatypeError, XMLValid::DatatypeValidationFailure, XMLValid::InvalidEmptyAttValue}},
    {"value", {XMLValid::DatatypeError, XMLValid::DatatypeValidationFailure}},
    {"elem-fixed", {XMLValid::FixedDifferentFromActual}},
};

struct Counters {
    std::map<std::string, long> c;
    void add(const std::string& k, long n = 1) { c[k] += n; }
    std::string line() const {
        json j = {{"t", "summary"}};
        for (auto& kv : c) j[kv.first] = kv.second;
        return dumpLine(j);
    }
};

static std::string kindsStr(const json& kinds) {
    std::vector<std::string> v;
    for (auto& k : kinds) v.push_back(k.get<std::string>());
    std::sort(v.begin(), v.end());
    std::string s;
    for (auto& k : v) { if (!s.empty()) s += ","; s += k; }
    return s;
}

// compact signature of an instance and a few derived features (known findings are matched on them)
static std::string docSig(const json& n) {
    std::string s;
    if (!n[2].get<std::string>().empty()) s += "[type=" + n[2].get<std::string>() + "]";
    if (!n[3].get<std::string>().empty()) s += "[nil=" + n[3].get<std::string>() + "]";
    for (auto& a : n[4]) s += "@" + qname(a[0], a[1]) + "=" + a[2].get<std::string>();
    for (auto& k : n[5]) {
        const std::string ns = k[0], name = k[1];
        if (ns == "#") s += name == "text" ? "#x" : name == "num" ? "#7" : name == "ws" ? "#_" : "#c";
        else {
            s += "<" + (ns == "t" ? name : qname(ns.empty() ? "-" : ns, name));
            std::string in = docSig(k);
            if (!in.empty()) s += "(" + in + ")";
            s += ">";
        }
    }
    return s;
}
static std::string gRootType;      // declared type of the root element of the current schema line
static void addFeatures(json& cls, const json& par, const json& n) {
    cls["rtype"] = gRootType;
    std::string p = par.dump();
    cls["par"] = p.size() <= 64 ? p : p.substr(0, 61) + "...";
    if (!n[3].get<std::string>().empty()) cls["nil"] = n[3];
    if (!n[2].get<std::string>().empty()) cls["xtype"] = n[2];
    int kids = 0, text = 0, ws = 0;
    for (auto& k : n[5]) {
        if (k[0] != "#") kids++;
        else if (k[1] == "ws") ws++;
        else if (k[1] != "cmt") text++;
    }
    cls["kids"] = kids;
    cls["chars"] = text ? "text" : ws ? "ws" : "none";
}

static std::string handleLine(const std::string& line, std::string& stat, bool& tainted, int cfgMask) {
    json j;
    Counters cnt;
    if (!decode_tlc_line(line, j) || !j.is_array() || j.size() < 5) { cnt.add("torn"); return cnt.line(); }
    const std::string tmpl = j[0];
    const json& par = j[1];
    const json& S = j[2];
    const json& loadExp = j[3];
    const json& docs = j[4];
    std::string out;
    std::string xsd;
    try { xsd = renderSchema(S); } catch (const std::exception& e) { cnt.add("render_failures"); return cnt.line(); }
    std::vector<std::string> xml(docs.size());
    for (size_t i = 0; i < docs.size(); i++) xml[i] = renderNode(docs[i][0], true);
    gRootType.clear();
    if (!docs.empty())
        for (auto& d : S["elems"]) if (d["name"] == docs[0][0][1]) gRootType = d["type"].get<std::string>();
    cnt.add("schemas");
    cnt.add("instances", (long)docs.size());
    cnt.add("tmpl:" + tmpl);
    std::map<std::string, int> reported;
    auto report = [&](const json& cls, const json& cas, const std::string& why) {
        cnt.add("mismatches");
        cnt.add("mm:" + cls["what"].get<std::string>());
        // every distinct class once per configuration-independent key, so that the output stays small
        json key = cls;
        if (reported[key.dump()]++ < 1) out += dumpLine({{"t", "mismatch"}, {"cls", cls}, {"case", cas}, {"why", why}});
    };
    for (int ci = 0; ci < kNCfg; ci++) {
        if (!(cfgMask & (1 << ci))) continue;
        const Cfg& c = kCfgs[ci];
        for (int full = 0; full < 2; full++) {
            Rec lr;
            P->load(c, full != 0, xsd, lr);
            cnt.add("loads");
            const std::string expLoad = loadExp[full];
            std::string gotLoad = !lr.exc.empty() ? "exception" : (lr.hErr + lr.hFatal > 0) ? "error" : "ok";
            if (expLoad != "ok") cnt.add("exp_load_error");
            if (gotLoad != expLoad) {
                report({{"tmpl", tmpl}, {"what", "load"}, {"full", full}, {"exp", expLoad}, {"got", gotLoad}, {"codes", lr.codeStr()}},
                       {{"mode", "T"}, {"tmpl", tmpl}, {"par", par}, {"cfg", c.name}, {"full", full}, {"xsd", xsd}, {"exc", lr.exc}, {"schema", S}, {"load", loadExp}},
                       "loading the schema: expected " + expLoad + ", got " + gotLoad + " (" + lr.codeStr() + ")");
            }
            if (expLoad != "ok" || gotLoad != "ok") continue;
            for (size_t i = 0; i < docs.size(); i++) {
                const json& kinds = docs[i][1];
                const bool expValid = kinds.empty();
                Rec r;
                P->parse(c, xml[i], r);
                cnt.add("parses");
                cnt.add(expValid ? "exp_valid" : "exp_invalid");
                std::string got = !r.exc.empty() ? "exception" : r.hFatal > 0 ? "fatal" : r.hErr > 0 ? "invalid" : "valid";
                json cas = {{"mode", "T"}, {"tmpl", tmpl}, {"par", par}, {"cfg", c.name}, {"full", full}, {"doc", docs[i][0]}, {"xml", xml[i]},
                            {"xsd", xsd}, {"kinds", kinds}, {"codes", r.codeStr()}, {"exc", r.exc}, {"schema", S}, {"load", loadExp}};
                if (got != (expValid ? "valid" : "invalid")) {
                    json cls = {{"tmpl", tmpl}, {"what", "verdict"}, {"exp", expValid ? "valid" : "invalid"}, {"got", got},
                                {"kinds", kindsStr(kinds)}, {"codes", r.codeStr()}, {"full", full}};
                    addFeatures(cls, par, docs[i][0]);
                    cas["sig"] = docSig(docs[i][0]);
                    report(cls, cas, "the specification says " + std::string(expValid ? "valid" : "invalid (" + kindsStr(kinds) + ")") + ", xerces-c reports " + got +
                                    " (" + r.codeStr() + ")");
                    continue;
                }
                if (expValid && docs[i].size() > 2 && docs[i][2].is_array() && docs[i][2].size() == 3) {
                    // reported type information and defaults correspond to the governing declarations
                    const json& info = docs[i][2];
                    std::string expType = info[0];
                    if (expType.compare(0, 3, "xs:") == 0) expType = expType.substr(3);
                    std::vector<json> ea;
                    for (auto& a : info[1]) ea.push_back(json::array({qname(a[0], a[1]), a[2]}));
                    std::sort(ea.begin(), ea.end());
                    json expAttrs = ea;
                    cnt.add("info_checked");
                    std::string bad;
                    if (r.rootType != expType) bad = "type";
                    else if (r.rootAttrs != expAttrs) bad = "attrs";
                    else if (info[2] != "-" && r.rootText != info[2].get<std::string>()) bad = "default-text";
                    if (!bad.empty()) {
                        json cls = {{"tmpl", tmpl}, {"what", "info"}, {"field", bad}, {"api", c.api == 0 ? "dom" : "sax2"}};
                        addFeatures(cls, par, docs[i][0]);
                        cas["sig"] = docSig(docs[i][0]);
                        cas["info"] = info;
                        cas["got_info"] = json::array({r.rootType, r.rootAttrs, r.rootText});
                        report(cls, cas, "valid as expected, but the reported " + bad + " differs: expected " + info.dump() + ", got " + cas["got_info"].dump());
                    }
                }
                if (!expValid) {
                    // the reported codes must include one that stands for one of the specification's error kinds
                    bool hit = false;
                    for (auto& k : kinds) {
                        auto it = kKindCodes.find(k.get<std::string>());
                        if (it == kKindCodes.end()) continue;
                        const bool valueKind = k == "value" || k == "attr-value";
                        for (auto& cd : r.codes)
                            if ((cd.first == 'V' && it->second.count(cd.second)) || (valueKind && cd.first == 'O')) hit = true;   // datatype errors carry the exception's own code
                    }
                    cnt.add("kind_checked");
                    if (!hit) {
                        json cls = {{"tmpl", tmpl}, {"what", "kind"}, {"kinds", kindsStr(kinds)}, {"codes", r.codeStr()}};
                        addFeatures(cls, par, docs[i][0]);
                        cas["sig"] = docSig(docs[i][0]);
                        report(cls, cas,
                               "invalid as expected, but none of the reported codes (" + r.codeStr() + ") stands for an expected kind (" + kindsStr(kinds) + ")");
                    }
                }
            }
        }
    }
    out += cnt.line();
    return out;
}

static int modeT(int cfgMask) {
    Supervisor sup;
    sup.timeoutSec = 600;
    sup.batch = 1;
    sup.initChild = [&]() { XMLPlatformUtils::Initialize(); P = new Parsers(); };
    sup.handle = [&](const std::string& line, std::string& stat, bool& tainted) -> std::string { return handleLine(line, stat, tainted, cfgMask); };
    sup.onFail = [&](const std::string& line, const std::string& what) -> std::string {
        json j, par, tmpl = "?";
        if (decode_tlc_line(line, j) && j.is_array() && j.size() >= 2) { tmpl = j[0]; par = j[1]; }
        return dumpLine({{"t", "mismatch"}, {"cls", {{"tmpl", tmpl}, {"what", "crash"}, {"got", what}}},
                         {"why", "the implementation crashed or hung while loading / validating: " + what},
                         {"case", {{"mode", "T"}, {"tmpl", tmpl}, {"par", par}, {"line", line}}}});
    };
    return sup.run();
}

static int modeRender() {
    std::string line;
    while (std::getline(std::cin, line)) {
        json j;
        if (!decode_tlc_line(line, j)) continue;
        printf("=== %s %s\n%s", j[0].dump().c_str(), j[1].dump().c_str(), renderSchema(j[2]).c_str());
        size_t n = 0;
        for (auto& d : j[4]) {
            if (n++ >= 12) break;
            printf("%s   => %s\n", renderNode(d[0], true).c_str(), d[1].dump().c_str());
        }
    }
    return 0;
}

static std::string slurp(const char* path) {
    std::ifstream f(path);
    std::stringstream ss;
    ss << f.rdbuf();
    return ss.str();
}
static int modeOne(const char* xsdPath, const char* xmlPath) {
    XMLPlatformUtils::Initialize();
    P = new Parsers();
    std::string xsd = slurp(xsdPath), xml = slurp(xmlPath);
    for (int ci = 0; ci < kNCfg; ci++)
        for (int full = 0; full < 2; full++) {
            Rec lr, r;
            P->load(kCfgs[ci], full != 0, xsd, lr);
            P->parse(kCfgs[ci], xml, r);
            emit({{"cfg", kCfgs[ci].name}, {"full", full}, {"load_codes", lr.codeStr()}, {"load_err", lr.hErr + lr.hFatal}, {"load_exc", lr.exc},
                  {"err", r.hErr}, {"fatal", r.hFatal}, {"warn", r.hWarn}, {"codes", r.codeStr()}, {"exc", r.exc}, {"type", r.rootType},
                  {"attrs", r.rootAttrs}, {"text", r.rootText}});
        }
    return 0;
}

int main(int argc, char** argv) {
    std::string mode = argc > 1 ? argv[1] : "";
    if (mode == "t") return modeT(argc > 2 ? atoi(argv[2]) : 15);
    if (mode == "render") return modeRender();
    if (mode == "one" && argc >= 4) return modeOne(argv[2], argv[3]);
    fprintf(stderr, "usage: xsd_harness t [cfgmask] | render | one <xsd> <xml>\n");
    return 2;
}
