// Binder T for the ContentModel / DtdValidity specifications (property C07).
//   dtd_harness cm          stdin: TLC lines [cspec, [[items, verdict] ...]]              (ContentModelGen)
//   dtd_harness dv          stdin: TLC lines {dtd.., doc.., kinds.., atts..}              (DtdValidityGen)
//   dtd_harness one <cfg> <validate 0|1> <file.xml>     parse one file, print the observation (debug / replay aid)
// Output: {"t":"mismatch",...} lines, per input line one {"t":"summary",...} line with numeric counters
// (summed by the orchestration), and the Supervisor's final summary.
//
// Everything expected comes from the TLC line. The renderers below are tables from abstract items /
// AST operators / attribute types to XML text.
#include "vh.hpp"
#include <xercesc/parsers/SAXParser.hpp>
#include <xercesc/parsers/SAX2XMLReaderImpl.hpp>
#include <xercesc/parsers/XercesDOMParser.hpp>
#include <xercesc/sax/ErrorHandler.hpp>
#include <xercesc/sax/EntityResolver.hpp>
#include <xercesc/sax/SAXParseException.hpp>
#include <xercesc/sax/HandlerBase.hpp>
#include <xercesc/sax2/DefaultHandler.hpp>
#include <xercesc/framework/MemBufInputSource.hpp>
#include <xercesc/framework/XMLDocumentHandler.hpp>
#include <xercesc/framework/XMLContentModel.hpp>
#include <xercesc/framework/XMLElementDecl.hpp>
#include <xercesc/framework/XMLAttr.hpp>
#include <xercesc/framework/XMLValidityCodes.hpp>
#include <xercesc/framework/XMLErrorCodes.hpp>
#include <xercesc/validators/DTD/DTDGrammar.hpp>
#include <xercesc/validators/common/Grammar.hpp>
#include <xercesc/internal/XMLScanner.hpp>
#include <xercesc/util/QName.hpp>
#include <xercesc/util/XMLUni.hpp>
#include <xercesc/util/XMLException.hpp>
#include <xercesc/util/OutOfMemoryException.hpp>
#include <xercesc/dom/DOM.hpp>
#include <algorithm>
#include <fstream>
#include <sstream>
#include <set>
using namespace vh;
using namespace XERCES_CPP_NAMESPACE;

// ------------------------------------------------------------------------------------------------
// observation of one parse
// ------------------------------------------------------------------------------------------------
struct Rec {
    int hWarn = 0, hErr = 0, hFatal = 0;          // ErrorHandler callbacks (the public observation)
    int rWarn = 0, rErr = 0, rFatal = 0;          // XMLErrorReporter level (same events, with codes)
    std::vector<std::pair<char, int>> codes;      // ('V' validity domain | 'X' XML errors domain | 'O' other, code) of errors and fatals
    std::string exc;                              // exception that left parse(), if any
    json elems = json::array();                   // [[name, [[attr, value, specified(0/1)] ...sorted by attr]] ...] in document order
    void clear() { *this = Rec(); }
    std::string codeStr() const {
        std::string s;
        for (auto& c : codes) { if (!s.empty()) s += ","; s += c.first; s += std::to_string(c.second); }
        return s;
    }
    bool hasV(int code) const { for (auto& c : codes) if (c.first == 'V' && c.second == code) return true; return false; }
};
static Rec* gRec = nullptr;

static void noteReport(unsigned int code, const XMLCh* domain, XMLErrorReporter::ErrTypes type) {
    if (!gRec) return;
    char d = XMLString::equals(domain, XMLUni::fgValidityDomain) ? 'V' : XMLString::equals(domain, XMLUni::fgXMLErrDomain) ? 'X' : 'O';
    if (type == XMLErrorReporter::ErrType_Warning) gRec->rWarn++;
    else if (type == XMLErrorReporter::ErrType_Error) { gRec->rErr++; gRec->codes.emplace_back(d, (int)code); }
    else { gRec->rFatal++; gRec->codes.emplace_back(d, (int)code); }
}

struct CountingHandler : public ErrorHandler {
    void warning(const SAXParseException&) override { if (gRec) gRec->hWarn++; }
    void error(const SAXParseException&) override { if (gRec) gRec->hErr++; }
    void fatalError(const SAXParseException&) override { if (gRec) gRec->hFatal++; }
    void resetErrors() override {}
};

// the advanced document handler sees XMLAttr (value, specified flag) for SAX1/SAX2
struct AttrTap : public XMLDocumentHandler {
    void docCharacters(const XMLCh* const, const XMLSize_t, const bool) override {}
    void docComment(const XMLCh* const) override {}
    void docPI(const XMLCh* const, const XMLCh* const) override {}
    void endDocument() override {}
    void endElement(const XMLElementDecl&, const unsigned int, const bool, const XMLCh* const) override {}
    void endEntityReference(const XMLEntityDecl&) override {}
    void ignorableWhitespace(const XMLCh* const, const XMLSize_t, const bool) override {}
    void resetDocument() override {}
    void startDocument() override {}
    void startElement(const XMLElementDecl& decl, const unsigned int, const XMLCh* const, const RefVectorOf<XMLAttr>& attrs,
                      const XMLSize_t attrCount, const bool, const bool) override {
        if (!gRec) return;
        std::vector<json> as;
        for (XMLSize_t i = 0; i < attrCount; i++) {
            const XMLAttr* a = attrs.elementAt(i);
            as.push_back(json::array({to8(a->getQName()), to8(a->getValue()), a->getSpecified() ? 1 : 0}));
        }
        std::sort(as.begin(), as.end());
        gRec->elems.push_back(json::array({to8(decl.getFullName()), as}));
    }
    void startEntityReference(const XMLEntityDecl&) override {}
    void XMLDecl(const XMLCh* const, const XMLCh* const, const XMLCh* const, const XMLCh* const) override {}
};

struct MySAX1 : public SAXParser {
    void error(const unsigned int code, const XMLCh* const dom, const XMLErrorReporter::ErrTypes type, const XMLCh* const text,
               const XMLCh* const sys, const XMLCh* const pub, const XMLFileLoc line, const XMLFileLoc col) override {
        noteReport(code, dom, type);
        SAXParser::error(code, dom, type, text, sys, pub, line, col);
    }
    unsigned int emptyNs() const { return getScanner().getEmptyNamespaceId(); }
};
struct MySAX2 : public SAX2XMLReaderImpl {
    void error(const unsigned int code, const XMLCh* const dom, const XMLErrorReporter::ErrTypes type, const XMLCh* const text,
               const XMLCh* const sys, const XMLCh* const pub, const XMLFileLoc line, const XMLFileLoc col) override {
        noteReport(code, dom, type);
        SAX2XMLReaderImpl::error(code, dom, type, text, sys, pub, line, col);
    }
};
struct MyDOM : public XercesDOMParser {
    void error(const unsigned int code, const XMLCh* const dom, const XMLErrorReporter::ErrTypes type, const XMLCh* const text,
               const XMLCh* const sys, const XMLCh* const pub, const XMLFileLoc line, const XMLFileLoc col) override {
        noteReport(code, dom, type);
        XercesDOMParser::error(code, dom, type, text, sys, pub, line, col);
    }
};

static EntityResolver* gResolverPtr();
struct Cfg { const char* name; int api; bool dg; bool ns; };
static const Cfg kCfgs[] = {
    {"sax1-IG", 0, false, false},      // IGXMLScanner::scanStartTag
    {"sax2-IG-ns", 1, false, true},    // IGXMLScanner::scanStartTagNS + buildAttList
    {"sax1-DG", 0, true, false},       // DGXMLScanner
    {"dom-DG-ns", 2, true, true},      // DGXMLScanner, namespaces, DOM builder
    {"dom-IG", 2, false, false},
};
static const int kNCfg = sizeof(kCfgs) / sizeof(kCfgs[0]);

struct Parsers {
    CountingHandler eh;
    AttrTap tap;
    MySAX1* s1[2] = {nullptr, nullptr};      // [dg]
    MySAX2* s2[2] = {nullptr, nullptr};
    MyDOM* dom[2] = {nullptr, nullptr};
    MySAX1* loader = nullptr;
    Parsers() {
        for (int dg = 0; dg < 2; dg++) {
            const XMLCh* sc = dg ? XMLUni::fgDGXMLScanner : XMLUni::fgIGXMLScanner;
            s1[dg] = new MySAX1();
            s1[dg]->useScanner(sc);
            s1[dg]->setErrorHandler(&eh);
            s1[dg]->installAdvDocHandler(&tap);
            s1[dg]->setDoSchema(false);
            s1[dg]->setEntityResolver(gResolverPtr());
            s2[dg] = new MySAX2();
            s2[dg]->setProperty(XMLUni::fgXercesScannerName, (void*)sc);
            s2[dg]->setErrorHandler(&eh);
            s2[dg]->installAdvDocHandler(&tap);
            s2[dg]->setFeature(XMLUni::fgXercesSchema, false);
            s2[dg]->setFeature(XMLUni::fgXercesDynamic, false);
            s2[dg]->setEntityResolver(gResolverPtr());
            dom[dg] = new MyDOM();
            dom[dg]->useScanner(sc);
            dom[dg]->setErrorHandler(&eh);
            dom[dg]->setDoSchema(false);
            dom[dg]->setCreateEntityReferenceNodes(false);
            dom[dg]->setEntityResolver(gResolverPtr());
        }
        loader = new MySAX1();
        loader->setErrorHandler(&eh);
    }
    static void domElems(DOMNode* n, json& out) {
        for (; n; n = n->getNextSibling()) {
            if (n->getNodeType() != DOMNode::ELEMENT_NODE) continue;
            std::vector<json> as;
            DOMNamedNodeMap* m = n->getAttributes();
            for (XMLSize_t i = 0; m && i < m->getLength(); i++) {
                DOMAttr* a = (DOMAttr*)m->item(i);
                as.push_back(json::array({to8(a->getName()), to8(a->getValue()), a->getSpecified() ? 1 : 0}));
            }
            std::sort(as.begin(), as.end());
            out.push_back(json::array({to8(n->getNodeName()), as}));
            domElems(n->getFirstChild(), out);
        }
    }
    void parse(const Cfg& c, bool validate, const std::string& doc, Rec& rec) {
        rec.clear();
        gRec = &rec;
        MemBufInputSource src((const XMLByte*)doc.data(), doc.size(), "mem.xml", false);
        try {
            if (c.api == 0) {
                MySAX1* p = s1[c.dg];
                p->setDoNamespaces(c.ns);
                p->setValidationScheme(validate ? SAXParser::Val_Always : SAXParser::Val_Never);
                p->parse(src);
            } else if (c.api == 1) {
                MySAX2* p = s2[c.dg];
                p->setFeature(XMLUni::fgSAX2CoreNameSpaces, c.ns);
                p->setFeature(XMLUni::fgSAX2CoreValidation, validate);
                p->parse(src);
            } else {
                MyDOM* p = dom[c.dg];
                p->setDoNamespaces(c.ns);
                p->setValidationScheme(validate ? XercesDOMParser::Val_Always : XercesDOMParser::Val_Never);
                p->parse(src);
                DOMDocument* d = p->getDocument();
                if (d) domElems(d->getFirstChild(), rec.elems);
                p->resetDocumentPool();
            }
        } catch (const OutOfMemoryException&) { rec.exc = "OutOfMemoryException";
        } catch (const XMLException& e) { rec.exc = "XMLException:" + to8(e.getType());
        } catch (const SAXParseException&) { rec.exc = "SAXParseException";
        } catch (const SAXException&) { rec.exc = "SAXException";
        } catch (const DOMException&) { rec.exc = "DOMException";
        } catch (...) { rec.exc = "unknown"; }
        gRec = nullptr;
    }
};
static Parsers* P = nullptr;

// ------------------------------------------------------------------------------------------------
// renderers (tables)
// ------------------------------------------------------------------------------------------------
static const char* kElemName[] = {"?", "a", "b", "c", "d", "e", "f"};      // element name n (1..); the name after the declared ones is never declared
static std::string elemName(int n) { return (n >= 1 && n <= 6) ? kElemName[n] : "z" + std::to_string(n); }

// items < 1, two renderings each (variant 0 / 1)
static const char* kItemText[4][2] = {
    {"x", "&amp;"},                       //  0 TEXT   non-blank character data
    {" ", "\n"},                          // -1 WS
    {"<!--c-->", "<?p q?>"},              // -2 MISC
    {"<![CDATA[ ]]>", "&#32;"},           // -3 ESCWS  white space not matching S
};
static const char* kItemKey[4] = {"TEXT", "WS", "MISC", "ESCWS"};

static std::string renderItem(int it, int variant) {
    if (it >= 1) return variant ? "<" + elemName(it) + "></" + elemName(it) + ">" : "<" + elemName(it) + "/>";
    return kItemText[-it][variant];
}

static std::string renderCM(const json& e, bool top) {
    const std::string op = e[0];
    if (op == "leaf") return top ? "(" + elemName(e[1].get<int>()) + ")" : elemName(e[1].get<int>());
    if (op == "seq" || op == "choice")
        return "(" + renderCM(e[2], false) + (op == "seq" ? "," : "|") + renderCM(e[3], false) + ")";
    const char* suf = op == "opt" ? "?" : op == "star" ? "*" : op == "plus" ? "+" : nullptr;
    if (!suf) throw std::runtime_error("renderCM: operator " + op);
    const json& c = e[2];
    const std::string cop = c[0];
    std::string inner = renderCM(c, false);
    if (cop == "seq" || cop == "choice") return inner + suf;                 // already a group
    if (cop == "leaf" && !top) return inner + suf;
    return "(" + inner + ")" + suf;
}

static std::string renderSpec(const json& cs) {
    const std::string k = cs[0];
    if (k == "empty") return "EMPTY";
    if (k == "any") return "ANY";
    if (k == "mixed") {
        if (cs[1].empty()) return "(#PCDATA)";
        std::string s = "(#PCDATA";
        for (auto& n : cs[1]) s += "|" + elemName(n.get<int>());
        return s + ")*";
    }
    return renderCM(cs[2], true);
}

static int maxLeaf(const json& e) {
    if (!e.is_array() || e.empty()) return 0;
    if (e[0] == "leaf") return e[1].get<int>();
    return std::max(maxLeaf(e[2]), maxLeaf(e[3]));
}

// ------------------------------------------------------------------------------------------------
// mode cm
// ------------------------------------------------------------------------------------------------
struct Counters {
    std::map<std::string, long> c;
    void add(const std::string& k, long n = 1) { c[k] += n; }
    std::string line() const {
        json j = {{"t", "summary"}};
        for (auto& kv : c) j[kv.first] = kv.second;
        return dumpLine(j);
    }
};

static std::string verdictOf(const Rec& r) {
    if (!r.exc.empty()) return "exception";
    if (r.hFatal || r.rFatal) return "fatal";
    if (r.hErr || r.rErr) return "invalid";
    return "valid";
}

static std::string specials(const json& items) {
    std::set<int> s;
    for (auto& i : items) if (i.get<int>() < 1) s.insert(-i.get<int>());
    std::string o;
    for (int k : s) { if (!o.empty()) o += ","; o += kItemKey[k]; }
    return o;
}

static std::string handleCM(const std::string& line, std::string& stat, bool& tainted, int nDeclared) {
    json j;
    if (!decode_tlc_line(line, j)) { stat = "torn"; return ""; }
    stat = "lines_cm";
    const json& cs = j[0];
    const json& pairs = j[1];
    std::string out;
    Counters cnt;
    int reported = 0;
    const std::string kind = cs[0];
    const std::string specText = renderSpec(cs);
    // declared element types: 1..nDeclared (the generator's Names); nDeclared + 1 is the undeclared one
    int nd = nDeclared;
    std::string dtd = "<!ELEMENT r " + specText + ">";
    for (int n = 1; n <= nd; n++) dtd += "<!ELEMENT " + elemName(n) + " EMPTY>";
    cnt.add("specs");
    cnt.add("spec:" + kind);

    // direct path: the XMLContentModel object of the loaded grammar
    const XMLContentModel* cm = nullptr;
    unsigned int emptyNs = 0;
    if (kind == "children" || kind == "mixed") {
        Rec lr;
        gRec = &lr;
        try {
            MemBufInputSource dsrc((const XMLByte*)dtd.data(), dtd.size(), "mem.dtd", false);
            Grammar* g = P->loader->loadGrammar(dsrc, Grammar::DTDGrammarType, false);
            if (g && g->getGrammarType() == Grammar::DTDGrammarType) {
                XMLElementDecl* ed = ((DTDGrammar*)g)->getElemDecl(0, 0, X("r"), Grammar::TOP_LEVEL_SCOPE);
                if (ed) cm = ed->getContentModel();
                emptyNs = P->loader->emptyNs();
            }
        } catch (...) { lr.exc = "exception"; }
        gRec = nullptr;
        if (!cm || lr.rErr || lr.rFatal || !lr.exc.empty()) {
            cnt.add("mismatches");
            out += dumpLine({{"t", "mismatch"}, {"cls", {{"action", "loadGrammar"}, {"kind", kind}, {"got", lr.exc.empty() ? (cm ? "errors" : "no-model") : lr.exc}}},
                             {"why", "loadGrammar of the rendered DTD failed or reported errors"}, {"case", {{"mode", "cm"}, {"spec", cs}, {"dtd", dtd}, {"codes", lr.codeStr()}}}});
            cm = nullptr;
        }
    }

    for (auto& pr : pairs) {
        const json& items = pr[0];
        const bool expectValid = pr[1].get<bool>();
        cnt.add("cases");
        cnt.add(expectValid ? "expect_valid" : "expect_invalid");
        const std::string sp = specials(items);
        // which renderings: empty sequence as <r/> and <r></r>; sequences with non-element items in both item variants
        std::vector<std::string> docs;
        const int nvar = sp.empty() ? 1 : 2;
        for (int v = 0; v < nvar; v++) {
            std::string body;
            for (auto& it : items) body += renderItem(it.get<int>(), v);
            docs.push_back("<!DOCTYPE r [" + dtd + "]><r>" + body + "</r>");
        }
        if (items.empty()) docs.push_back("<!DOCTYPE r [" + dtd + "]><r/>");
        for (size_t di = 0; di < docs.size(); di++) {
            for (int ci = 0; ci < kNCfg; ci++) {
                Rec r;
                P->parse(kCfgs[ci], true, docs[di], r);
                cnt.add("parses");
                const std::string got = verdictOf(r);
                std::string why;
                if (got == "exception" || got == "fatal") why = "a validity violation (or a valid document) produced a " + got + ", the specification allows validity errors only";
                else if ((got == "valid") != expectValid) why = std::string("document is ") + (expectValid ? "valid" : "invalid") + " by the specification, reported " + got;
                else if (r.hErr != r.rErr || r.hFatal != r.rFatal) why = "ErrorHandler callbacks and XMLErrorReporter events disagree";
                if (why.empty()) { cnt.add(std::string("ok_") + got); continue; }
                cnt.add("mismatches");
                if (got == "exception" || got == "fatal") tainted = true;
                if (reported++ < 6)
                    out += dumpLine({{"t", "mismatch"},
                                     {"cls", {{"action", "content"}, {"kind", kind}, {"cfg", kCfgs[ci].name}, {"via", "parse"}, {"expected", expectValid ? "valid" : "invalid"},
                                              {"got", got}, {"special", sp}, {"emptyTag", items.empty() && di == docs.size() - 1}, {"codes", r.codeStr()}}},
                                     {"why", why},
                                     {"case", {{"mode", "cm"}, {"spec", cs}, {"model", specText}, {"items", items}, {"doc", docs[di]}, {"exc", r.exc}}}});
            }
        }
        // direct call (element and PCDATA children only)
        if (cm) {
            bool usable = true;
            for (auto& it : items) if (it.get<int>() < 0) usable = false;
            if (usable) {
                std::vector<QName*> kids;
                for (auto& it : items) {
                    int n = it.get<int>();
                    kids.push_back(n == 0 ? new QName(X("#PCDATA"), XMLElementDecl::fgPCDataElemId) : new QName(X(elemName(n)), emptyNs));
                }
                XMLSize_t fail = 0;
                bool ok = false;
                std::string exc;
                try { ok = cm->validateContent(kids.data(), kids.size(), emptyNs, &fail); } catch (...) { exc = "exception"; }
                for (QName* q : kids) delete q;
                cnt.add("direct_calls");
                // the content model object judges the child sequence only; an undeclared child is rejected by both
                if (!exc.empty() || ok != expectValid) {
                    cnt.add("mismatches");
                    if (reported++ < 6)
                        out += dumpLine({{"t", "mismatch"},
                                         {"cls", {{"action", "content"}, {"kind", kind}, {"cfg", "direct"}, {"via", "direct"}, {"expected", expectValid ? "valid" : "invalid"},
                                                  {"got", !exc.empty() ? exc : ok ? "valid" : "invalid"}, {"special", sp}}},
                                         {"why", "XMLContentModel::validateContent disagrees with the specification's language verdict"},
                                         {"case", {{"mode", "cm"}, {"spec", cs}, {"model", specText}, {"items", items}, {"failIndex", (long)fail}}}});
                }
            }
        }
    }
    out += cnt.line();
    return out;
}

static int modeCM(int nDeclared) {
    Supervisor sup;
    sup.timeoutSec = 60;
    sup.initChild = [&]() { XMLPlatformUtils::Initialize(); P = new Parsers(); };
    sup.handle = [&](const std::string& line, std::string& stat, bool& tainted) -> std::string {
        return handleCM(line, stat, tainted, nDeclared);
    };
    sup.onFail = [&](const std::string& line, const std::string& what) -> std::string {
        json j;
        json cs;
        if (decode_tlc_line(line, j)) cs = j[0];
        return dumpLine({{"t", "mismatch"}, {"cls", {{"action", "content"}, {"got", what}, {"why", "call did not return"}}},
                         {"why", "the implementation crashed or hung while validating: " + what}, {"case", {{"mode", "cm"}, {"spec", cs}}}});
    };
    return sup.run();
}


// ------------------------------------------------------------------------------------------------
// mode dv: attribute / ID / IDREF / root / standalone scenarios of DtdValidity
// ------------------------------------------------------------------------------------------------
static const char* kElType[] = {"?", "r", "e"};
static const char* kAttName[] = {"?", "p", "q", "s"};
static const char* kTok[] = {"?", "x", "y", "7", "!"};       // 1,2 Names; 3 Nmtoken only; 4 neither
static const char* kPrelude = "<!NOTATION x SYSTEM \"nx\"><!ENTITY x SYSTEM \"ux\" NDATA x><!ELEMENT r ANY><!ELEMENT e ANY>";
struct TypeRow { const char* ty; const char* text; bool list; };
static const TypeRow kTypes[] = {
    {"CDATA", "CDATA", false}, {"ID", "ID", false}, {"IDREF", "IDREF", false}, {"IDREFS", "IDREFS", false},
    {"NMTOKEN", "NMTOKEN", false}, {"NMTOKENS", "NMTOKENS", false}, {"ENTITY", "ENTITY", false}, {"ENTITIES", "ENTITIES", false},
    {"NOTATION", "NOTATION ", true}, {"ENUM", "", true},
};
// constraint kind -> the XMLValid codes that report it
struct KindRow { const char* kind; std::vector<int> codes; };
static const KindRow kKinds[] = {
    {"Root", {XMLValid::RootElemNotLikeDocType}},
    {"Required", {XMLValid::RequiredAttrNotProvided}},
    {"Fixed", {XMLValid::NotSameAsFixedValue}},
    {"AttrDeclared", {XMLValid::AttNotDefinedForElement}},
    {"AttrValue", {XMLValid::InvalidEmptyAttValue, XMLValid::AttrValNotName, XMLValid::NoMultipleValues, XMLValid::DoesNotMatchEnumList, XMLValid::ColonNotValidWithNS}},
    {"IDUnique", {XMLValid::ReusedIDValue}},
    {"IDREF", {XMLValid::IDNotDeclared}},
    {"Entity", {XMLValid::UnknownEntityRefAttr, XMLValid::BadEntityRefAttr}},
    {"IDDefault", {XMLValid::BadIDAttrDefType}},
    {"OneID", {XMLValid::MultipleIdAttrs}},
    {"NotationDecl", {XMLValid::UnknownNotRefAttr}},
    {"DupToken", {XMLValid::AttrDupToken}},
    {"Standalone", {XMLValid::NoDefAttForStandalone, XMLValid::NoAttNormForStandalone, XMLValid::NoWSForStandalone}},
};

static std::string gExternalSubset;
struct MemResolver : public EntityResolver {
    InputSource* resolveEntity(const XMLCh* const, const XMLCh* const) override {
        return new MemBufInputSource((const XMLByte*)gExternalSubset.data(), gExternalSubset.size(), "ext.dtd", false);
    }
};
static MemResolver gResolver;
static EntityResolver* gResolverPtr() { return &gResolver; }

static std::string renderValue(const json& toks, bool pad) {
    std::string s = pad ? " " : "";
    for (size_t i = 0; i < toks.size(); i++) { if (i) s += pad ? "  " : " "; s += kTok[toks[i].get<int>()]; }
    return s;
}
static std::string renderDecl(const json& d) {
    std::string s = std::string("<!ATTLIST ") + kElType[d["el"].get<int>()] + " " + kAttName[d["att"].get<int>()] + " ";
    const std::string ty = d["ty"];
    const TypeRow* row = nullptr;
    for (auto& r : kTypes) if (ty == r.ty) row = &r;
    if (!row) throw std::runtime_error("type " + ty);
    s += row->text;
    if (row->list) {
        s += "(";
        for (size_t i = 0; i < d["en"].size(); i++) { if (i) s += "|"; s += kTok[d["en"][i].get<int>()]; }
        s += ")";
    }
    const std::string df = d["df"];
    if (df == "required") s += " #REQUIRED";
    else if (df == "implied") s += " #IMPLIED";
    else if (df == "fixed") s += " #FIXED \"" + renderValue(d["dv"], false) + "\"";
    else s += " \"" + renderValue(d["dv"], false) + "\"";
    return s + ">";
}
static std::string renderElemTag(const json& e, bool selfClose) {
    std::string s = std::string("<") + kElType[e["el"].get<int>()];
    for (auto& a : e["atts"]) s += std::string(" ") + kAttName[a["att"].get<int>()] + "=\"" + renderValue(a["v"], a["pad"].get<bool>()) + "\"";
    return s + (selfClose ? "/>" : ">");
}
static json renderEff(const json& eff) {
    json out = json::array();
    for (auto& e : eff) {
        std::vector<json> as;
        for (auto& q : e[1]) as.push_back(json::array({kAttName[q[0].get<int>()], renderValue(q[1], q[2].get<bool>()), q[3].get<bool>() ? 1 : 0}));
        std::sort(as.begin(), as.end());
        out.push_back(json::array({kElType[e[0].get<int>()], as}));
    }
    return out;
}

static std::string handleDV(const std::string& line, std::string& stat, bool& tainted) {
    json j;
    if (!decode_tlc_line(line, j)) { stat = "torn"; return ""; }
    stat = "lines_dv";
    const json& S = j[0];
    std::string out;
    Counters cnt;
    int reported = 0;
    std::string internal = kPrelude, external;
    bool anyExt = false;
    for (auto& d : S["decls"]) {
        if (d["ext"].get<bool>()) { external += renderDecl(d); anyExt = true; }
        else internal += renderDecl(d);
    }
    const json& d0 = S["decls"][0];
    const std::string head = std::string(S["sa"].get<bool>() ? "<?xml version=\"1.0\" standalone=\"yes\"?>" : "") + "<!DOCTYPE " +
                             kElType[S["doctype"].get<int>()] + (anyExt ? " SYSTEM \"ext.dtd\"" : "") + " [" + internal + "]>";
    gExternalSubset = external;
    cnt.add("scenarios");
    for (auto& c : j[1]) {
        const json& doc = c[0];
        const json& kinds = c[1];
        const json expEff = renderEff(c[2]);
        std::string text = head;
        if (doc.size() == 1) text += renderElemTag(doc[0], true);
        else {
            text += renderElemTag(doc[0], false);
            for (size_t i = 1; i < doc.size(); i++) text += renderElemTag(doc[i], true);
            text += std::string("</") + kElType[doc[0]["el"].get<int>()] + ">";
        }
        cnt.add("cases");
        cnt.add(kinds.empty() ? "expect_valid" : "expect_invalid");
        for (auto& k : kinds) cnt.add("kind:" + k.get<std::string>());
        for (int validate = 1; validate >= 0; validate--) {
            for (int ci = 0; ci < kNCfg; ci++) {
                Rec r;
                P->parse(kCfgs[ci], validate != 0, text, r);
                cnt.add("parses");
                const std::string got = verdictOf(r);
                std::vector<std::pair<std::string, std::string>> bad;    // (what, detail)
                if (got == "exception" || got == "fatal") bad.push_back({"fatal", "the parse ended with a " + got + " (" + r.exc + "); validity violations must be reported as errors only"});
                else if (!validate) { if (got != "valid") bad.push_back({"verdict", "errors reported with validation off"}); }
                else {
                    if ((got == "valid") != kinds.empty())
                        bad.push_back({"verdict", std::string("document is ") + (kinds.empty() ? "valid" : "invalid") + " by the specification, reported " + got});
                    for (auto& k : kinds) {
                        bool seen = false;
                        for (auto& row : kKinds) if (k == row.kind) for (int code : row.codes) if (r.hasV(code)) seen = true;
                        if (!seen) bad.push_back({"kind:" + k.get<std::string>(), "violated constraint " + k.get<std::string>() + " produced no validity error of its kind"});
                    }
                    if (r.hErr != r.rErr || r.hFatal != r.rFatal) bad.push_back({"handler", "ErrorHandler callbacks and XMLErrorReporter events disagree"});
                }
                if (got != "exception" && got != "fatal") {
                    cnt.add("atts_compared");
                    if (r.elems != expEff) bad.push_back({"atts", "attributes reported (specified + defaulted, normalised) differ from the specification"});
                }
                if (bad.empty()) { cnt.add(std::string("ok_") + got); continue; }
                if (got == "exception" || got == "fatal") tainted = true;
                // operand relations that identify known findings (computed from the abstract case only)
                bool paddedSpecified = false, multiInList = false;
                auto allInList = [&](const json& v) {
                    if (v.size() < 2) return false;
                    for (auto& t : v) { bool in = false; for (auto& e : d0["en"]) if (e == t) in = true; if (!in) return false; }
                    return true;
                };
                const bool listType = d0["ty"] == "ENUM" || d0["ty"] == "NOTATION";
                for (auto& e : doc) for (auto& a : e["atts"]) {
                    if (a["pad"].get<bool>() && a["att"] == d0["att"]) paddedSpecified = true;
                    if (listType && a["att"] == d0["att"] && allInList(a["v"])) multiInList = true;
                }
                if (listType && (d0["df"] == "fixed" || d0["df"] == "default") && allInList(d0["dv"])) multiInList = true;
                for (auto& b : bad) {
                    cnt.add("mismatches");
                    if (reported++ >= 8) continue;
                    out += dumpLine({{"t", "mismatch"},
                                     {"cls", {{"action", "attrs"}, {"what", b.first}, {"cfg", kCfgs[ci].name}, {"validate", validate}, {"ty", d0["ty"]}, {"df", d0["df"]},
                                              {"ext", d0["ext"]}, {"sa", S["sa"]}, {"expected", kinds.empty() ? "valid" : "invalid"}, {"got", got}, {"codes", r.codeStr()},
                                              {"paddedValue", paddedSpecified},
                                              {"multiTokenAllInList", (b.first == "verdict" || b.first == "kind:AttrValue") && multiInList}}},
                                     {"why", b.second},
                                     {"case", {{"mode", "dv"}, {"scenario", S}, {"document", doc}, {"kinds", kinds}, {"doc", text}, {"external", external}, {"validate", validate},
                                               {"expected_atts", expEff}, {"got_atts", r.elems}, {"exc", r.exc}}}});
                }
            }
        }
    }
    out += cnt.line();
    return out;
}

static int modeDV() {
    Supervisor sup;
    sup.timeoutSec = 120;
    sup.initChild = [&]() { XMLPlatformUtils::Initialize(); P = new Parsers(); };
    sup.handle = [&](const std::string& line, std::string& stat, bool& tainted) -> std::string { return handleDV(line, stat, tainted); };
    sup.onFail = [&](const std::string& line, const std::string& what) -> std::string {
        json j, S;
        if (decode_tlc_line(line, j)) S = j[0];
        return dumpLine({{"t", "mismatch"}, {"cls", {{"action", "attrs"}, {"what", "fatal"}, {"got", what}, {"why", "call did not return"}}},
                         {"why", "the implementation crashed or hung while parsing: " + what}, {"case", {{"mode", "dv"}, {"scenario", S}}}});
    };
    return sup.run();
}

static int modeOne(const char* cfgName, bool validate, const char* path, const char* extPath) {
    XMLPlatformUtils::Initialize();
    P = new Parsers();
    std::ifstream f(path);
    std::stringstream ss;
    ss << f.rdbuf();
    if (extPath) { std::ifstream g(extPath); std::stringstream es; es << g.rdbuf(); gExternalSubset = es.str(); }
    for (int ci = 0; ci < kNCfg; ci++) {
        if (strcmp(cfgName, "all") && strcmp(cfgName, kCfgs[ci].name)) continue;
        Rec r;
        P->parse(kCfgs[ci], validate, ss.str(), r);
        emit({{"cfg", kCfgs[ci].name}, {"verdict", verdictOf(r)}, {"codes", r.codeStr()}, {"warn", r.hWarn}, {"err", r.hErr}, {"fatal", r.hFatal},
              {"exc", r.exc}, {"elems", r.elems}});
    }
    return 0;
}

int main(int argc, char** argv) {
    std::string mode = argc > 1 ? argv[1] : "";
    if (mode == "cm") return modeCM(argc > 2 ? atoi(argv[2]) : 3);
    if (mode == "dv") return modeDV();
    if (mode == "one" && argc >= 5) return modeOne(argv[2], atoi(argv[3]) != 0, argv[4], argc > 5 ? argv[5] : nullptr);
    fprintf(stderr, "usage: dtd_harness cm <ndeclared> | dv | one <cfg|all> <0|1> <file> [external-subset-file]\n");
    return 2;
}
