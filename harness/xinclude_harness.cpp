// Binder T for the XInclude specification (property C20).
//   xinclude_harness t <scratch-base>       stdin: TLC lines (one case = file system + expected result)  -> mismatch / summary lines
//   xinclude_harness probe <main-file>      parse one file from disk with both parsers and print the projections (development aid)
//
// A case (emitted by spec/XIncludeGen.tla) is
//   {"fs":[[kind,dir,content],...], "res":"ok"|"err", "tree":[items], "err":class, "loads":[file ids], "warn":n}
//   kind "xml": content = item (the document element);  "text": content = string;  "none": the file does not exist
//   item  ["el",name,[items]] | ["tx",string] | ["inc",target,parse,xptr,[[items]...fallback bodies],bad] | ["fb",[items]]
//   expected tree items: ["el",name,dir,[items]] | ["tx",string]     (dir = directory the element's base URI must point into)
// The renderer below is a dumb table: one XML fragment per item kind, hrefs from the (directory of the including file, directory of
// the target) table. File 1 is the document handed to the parser.
#include "vh.hpp"
#include <xercesc/dom/DOM.hpp>
#include <xercesc/parsers/XercesDOMParser.hpp>
#include <xercesc/sax/ErrorHandler.hpp>
#include <xercesc/sax/SAXParseException.hpp>
#include <xercesc/util/XMLFileMgr.hpp>
#include <xercesc/util/XMLUni.hpp>
#include <xercesc/util/XMLException.hpp>
#include <xercesc/util/OutOfMemoryException.hpp>
#include <xercesc/framework/XMLErrorCodes.hpp>
#include <sys/stat.h>
#include <set>
using namespace vh;
using namespace XERCES_CPP_NAMESPACE;

static const char* XI_NS = "http://www.w3.org/2001/XInclude";
static const char* DIRS[] = {"", "d/"};                       // directory 0 = scratch root, 1 = sub-directory d
// href of a file in directory `to` seen from a document in directory `from`
static const char* RELDIR[2][2] = {{"", "d/"}, {"../", ""}};

static std::string fileName(int id, const std::string& kind) { return "f" + std::to_string(id) + (kind == "text" ? ".txt" : ".xml"); }

static std::string esc(const std::string& s) {
    std::string o;
    for (char c : s) {
        if (c == '<') o += "&lt;"; else if (c == '&') o += "&amp;"; else if (c == '>') o += "&gt;"; else o.push_back(c);
    }
    return o;
}

struct Renderer {
    const json& fs;
    explicit Renderer(const json& f) : fs(f) {}
    std::string href(int fromDir, int target) const {
        const json& f = fs[target - 1];
        return std::string(RELDIR[fromDir][f[1].get<int>()]) + fileName(target, f[0].get<std::string>());
    }
    void items(const json& a, int dir, std::string& o) const { for (auto& x : a) item(x, dir, false, o); }
    void item(const json& it, int dir, bool root, std::string& o) const {
        const std::string k = it[0];
        const std::string ns = root ? std::string(" xmlns:xi=\"") + XI_NS + "\"" : std::string();
        if (k == "tx") o += esc(it[1].get<std::string>());
        else if (k == "el") {
            const std::string n = it[1];
            o += "<" + n + ns + ">";
            items(it[2], dir, o);
            o += "</" + n + ">";
        } else if (k == "fb") {
            o += "<xi:fallback" + ns + ">";
            items(it[1], dir, o);
            o += "</xi:fallback>";
        } else if (k == "inc") {
            o += "<xi:include" + ns + " href=\"" + href(dir, it[1].get<int>()) + "\"";
            const std::string parse = it[2];
            if (parse != "none") o += " parse=\"" + parse + "\"";
            if (it[3].get<int>()) o += " xpointer=\"x\"";
            o += ">";
            const std::string bad = it[5];
            if (bad == "inc") o += "<xi:include href=\"" + href(dir, it[1].get<int>()) + "\"/>";
            else if (bad == "other") o += "<xi:foo/>";
            for (auto& fb : it[4]) {
                o += "<xi:fallback>";
                items(fb, dir, o);
                o += "</xi:fallback>";
            }
            o += "</xi:include>";
        }
    }
};

// ---- observation ---------------------------------------------------------------------------------
static const char* classOfCode(unsigned code) {
    switch (code) {
        case XMLErrs::XIncludeResourceErrorWarning: return "resource-warning";
        case XMLErrs::XIncludeCannotOpenFile: return "cannot-open";
        case XMLErrs::XIncludeIncludeFailedResourceError: return "resource";
        case XMLErrs::XIncludeOrphanFallback: return "orphan-fallback";
        case XMLErrs::XIncludeNoHref: return "no-href";
        case XMLErrs::XIncludeXPointerNotSupported: return "xpointer";
        case XMLErrs::XIncludeInvalidParseVal: return "bad-parse";
        case XMLErrs::XIncludeMultipleFallbackElems: return "multi-fallback";
        case XMLErrs::XIncludeIncludeFailedNoFallback: return "no-fallback";
        case XMLErrs::XIncludeCircularInclusionLoop: return "loop";
        case XMLErrs::XIncludeCircularInclusionDocIncludesSelf: return "loop";
        case XMLErrs::XIncludeDisallowedChild: return "bad-child";
        default: return "other";
    }
}
// DOMLSParser shows only the message text of a DOMError: the class is found from the fixed head of the message
static const std::pair<const char*, const char*> MSGHEAD[] = {
    {"unable to include document", "resource-warning"}, {"unable to open text file", "cannot-open"},
    {"unable to include resource", "resource"}, {"fallback element is not a direct child", "orphan-fallback"},
    {"include element without 'href'", "no-href"}, {"include element with XPointer", "xpointer"},
    {"invalid 'parse' attribute value", "bad-parse"}, {"multiple fallback elements", "multi-fallback"},
    {"include failed and no fallback", "no-fallback"}, {"circular inclusion", "loop"}, {"self-inclusion", "loop"},
    {"element '", "bad-child"}};
static std::string classOfMsg(const std::string& m) {
    for (auto& p : MSGHEAD) if (m.rfind(p.first, 0) == 0) return p.second;
    return "other";
}

struct Obs {
    json errs = json::array();      // [severity, class] in order of arrival
    std::string exception;
    json tree = nullptr;
    std::string bad;                // inconsistency seen while projecting
    std::set<std::string> fatal() const {
        std::set<std::string> s;
        for (auto& e : errs) if (e[0] != "warning") s.insert(e[1].get<std::string>());
        return s;
    }
    int count(const std::string& cls) const { int n = 0; for (auto& e : errs) if (e[1] == cls) n++; return n; }
    json dump() const { return {{"errs", errs}, {"exception", exception}, {"tree", tree}, {"bad", bad}}; }
};

// XercesDOMParser with the XMLErrorReporter callback observed (it is the public virtual through which XIncludeUtils reports)
class CodeParser : public XercesDOMParser {
public:
    Obs* obs = nullptr;
    void error(const unsigned int code, const XMLCh* const domain, const XMLErrorReporter::ErrTypes type, const XMLCh* const text,
               const XMLCh* const sys, const XMLCh* const pub, const XMLFileLoc line, const XMLFileLoc col) override {
        const char* sev = type == XMLErrorReporter::ErrType_Warning ? "warning" : type == XMLErrorReporter::ErrType_Fatal ? "fatal" : "error";
        std::string cls = XMLString::equals(domain, XMLUni::fgXMLErrDomain) ? classOfCode(code) : "other";
        if (cls == "other") cls += ":" + std::to_string(code) + ":" + to8(text).substr(0, 80);
        if (obs) obs->errs.push_back({sev, cls});
        XercesDOMParser::error(code, domain, type, text, sys, pub, line, col);
    }
};
struct CountingHandler : ErrorHandler {
    int n = 0;
    void warning(const SAXParseException&) override { n++; }
    void error(const SAXParseException&) override { n++; }
    void fatalError(const SAXParseException&) override { n++; }
    void resetErrors() override {}
};
struct LsHandler : DOMErrorHandler {
    Obs* obs;
    explicit LsHandler(Obs* o) : obs(o) {}
    bool handleError(const DOMError& e) override {
        const char* sev = e.getSeverity() == DOMError::DOM_SEVERITY_WARNING ? "warning" : e.getSeverity() == DOMError::DOM_SEVERITY_FATAL_ERROR ? "fatal" : "error";
        std::string m = to8(e.getMessage());
        std::string cls = classOfMsg(m);
        if (cls == "other") cls += ":" + m.substr(0, 80);
        obs->errs.push_back({sev, cls});
        return true;
    }
};

// dot-segment removal and resolution of the probe reference against a base URI (projection only)
static std::string resolveProbe(const std::string& base) {
    size_t sl = base.rfind('/');
    std::string s = (sl == std::string::npos ? std::string() : base.substr(0, sl + 1)) + "probe";
    std::vector<std::string> seg;
    std::string head;
    size_t i = 0;
    size_t p = s.find("://");
    if (p != std::string::npos) { i = p + 3; head = s.substr(0, i); }
    std::string cur;
    std::vector<std::string> parts;
    for (; i <= s.size(); i++) {
        if (i == s.size() || s[i] == '/') { parts.push_back(cur); cur.clear(); } else cur.push_back(s[i]);
    }
    for (auto& x : parts) {
        if (x == ".") continue;
        if (x == "..") { if (!seg.empty() && !seg.back().empty()) seg.pop_back(); continue; }
        seg.push_back(x);
    }
    std::string o = head;
    for (size_t k = 0; k < seg.size(); k++) { if (k) o += "/"; o += seg[k]; }
    return o;
}

struct Projector {
    std::string root;     // absolute path of directory 0, with trailing slash
    json baseOf(DOMElement* e) const {
        std::string b = to8(e->getBaseURI());
        std::string r = resolveProbe(b);
        for (const char* pre : {"file://", "file:"}) if (r.rfind(pre, 0) == 0) { r = r.substr(strlen(pre)); break; }
        for (int d = 0; d < 2; d++) if (r == root + DIRS[d] + "probe") return d;
        return "?" + b;
    }
    json kids(DOMNode* n, std::string& bad) const {
        json a = json::array();
        for (DOMNode* c = n->getFirstChild(); c; c = c->getNextSibling()) {
            if (c->getParentNode() != n) bad = "child with another parent";
            switch (c->getNodeType()) {
                case DOMNode::ELEMENT_NODE: {
                    json el = json::array();
                    el.push_back("el");
                    el.push_back(to8(c->getNodeName()));
                    el.push_back(baseOf((DOMElement*)c));
                    el.push_back(kids(c, bad));
                    a.push_back(el);
                    // attributes other than namespace declarations and xml:base are not generated: report them
                    DOMNamedNodeMap* m = c->getAttributes();
                    for (XMLSize_t i = 0; m && i < m->getLength(); i++) {
                        std::string an = to8(m->item(i)->getNodeName());
                        if (an != "xml:base" && an.rfind("xmlns", 0) != 0 && an != "href" && an != "parse" && an != "xpointer") bad = "unexpected attribute " + an;
                    }
                    break;
                }
                case DOMNode::TEXT_NODE:
                case DOMNode::CDATA_SECTION_NODE: {
                    std::string s = to8(c->getNodeValue());
                    if (s.empty()) break;                                   // the comparison is modulo DOM normalisation
                    if (!a.empty() && a.back()[0] == "tx") a.back()[1] = a.back()[1].get<std::string>() + s;
                    else a.push_back({"tx", s});
                    break;
                }
                case DOMNode::DOCUMENT_TYPE_NODE: break;
                default: a.push_back({"other", (int)c->getNodeType()}); break;
            }
        }
        return a;
    }
};

static std::string exceptionName(std::function<void()> f) {
    try { f(); return ""; }
    catch (const OutOfMemoryException&) { return "OutOfMemoryException"; }
    catch (const XMLException& e) { return "XMLException:" + to8(e.getType()); }
    catch (const DOMLSException& e) { return "DOMLSException:" + std::to_string((int)e.code); }
    catch (const DOMException& e) { return "DOMException:" + std::to_string((int)e.code); }
    catch (const SAXException& e) { return "SAXException"; }
    catch (const XMLErrs::Codes& c) { return "XMLErrs:" + std::to_string((int)c); }
    catch (const std::exception&) { return "std::exception"; }
    catch (...) { return "unknown"; }
}

static Obs parseDom(const std::string& path, const Projector& pj) {
    Obs o;
    CodeParser p;
    CountingHandler h;
    p.obs = &o;
    p.setErrorHandler(&h);
    p.setDoNamespaces(true);
    p.setDoXInclude(true);
    o.exception = exceptionName([&]() { p.parse(path.c_str()); });
    if ((int)o.errs.size() != h.n) o.bad = "ErrorHandler saw " + std::to_string(h.n) + " reports, XMLErrorReporter " + std::to_string(o.errs.size());
    DOMDocument* d = p.getDocument();
    if (d) o.tree = pj.kids(d, o.bad);
    return o;
}

static Obs parseLs(const std::string& path, const Projector& pj) {
    Obs o;
    static const XMLCh ls[] = {chLatin_L, chLatin_S, chNull};
    DOMImplementation* impl = DOMImplementationRegistry::getDOMImplementation(ls);
    DOMLSParser* p = ((DOMImplementationLS*)impl)->createLSParser(DOMImplementationLS::MODE_SYNCHRONOUS, 0);
    LsHandler h(&o);
    p->getDomConfig()->setParameter(XMLUni::fgDOMNamespaces, true);
    p->getDomConfig()->setParameter(XMLUni::fgXercesDoXInclude, true);
    p->getDomConfig()->setParameter(XMLUni::fgDOMErrorHandler, &h);
    DOMDocument* d = nullptr;
    o.exception = exceptionName([&]() { d = p->parseURI(path.c_str()); });
    if (d) o.tree = pj.kids(d, o.bad);
    p->release();
    return o;
}

// ---- file manager decorator: which files does the library open? ---------------------------------------
struct LoggingFileMgr : XMLFileMgr {
    XMLFileMgr* in;
    std::vector<std::pair<std::string, bool>> opens;
    explicit LoggingFileMgr(XMLFileMgr* i) : in(i) {}
    FileHandle fileOpen(const XMLCh* path, bool w, MemoryManager* const m) override {
        FileHandle h = in->fileOpen(path, w, m);
        opens.push_back({to8(path), h != XERCES_Invalid_File_Handle});
        return h;
    }
    FileHandle fileOpen(const char* path, bool w, MemoryManager* const m) override {
        FileHandle h = in->fileOpen(path, w, m);
        opens.push_back({path, h != XERCES_Invalid_File_Handle});
        return h;
    }
    FileHandle openStdIn(MemoryManager* const m) override { return in->openStdIn(m); }
    void fileClose(FileHandle f, MemoryManager* const m) override { in->fileClose(f, m); }
    void fileReset(FileHandle f, MemoryManager* const m) override { in->fileReset(f, m); }
    XMLFilePos curPos(FileHandle f, MemoryManager* const m) override { return in->curPos(f, m); }
    XMLFilePos fileSize(FileHandle f, MemoryManager* const m) override { return in->fileSize(f, m); }
    XMLSize_t fileRead(FileHandle f, XMLSize_t n, XMLByte* b, MemoryManager* const m) override { return in->fileRead(f, n, b, m); }
    void fileWrite(FileHandle f, XMLSize_t n, const XMLByte* b, MemoryManager* const m) override { in->fileWrite(f, n, b, m); }
    XMLCh* getFullPath(const XMLCh* const p, MemoryManager* const m) override { return in->getFullPath(p, m); }
    XMLCh* getCurrentDirectory(MemoryManager* const m) override { return in->getCurrentDirectory(m); }
    bool isRelative(const XMLCh* const p, MemoryManager* const m) override { return in->isRelative(p, m); }
};
static LoggingFileMgr* gFiles = nullptr;

// ---- one case ----------------------------------------------------------------------------------------
struct World {
    std::string root;     // scratch directory of this process, trailing slash
    void init(const std::string& base) {
        root = base + "/p" + std::to_string((long)getpid()) + "/";
        mkdir(base.c_str(), 0777);
        mkdir(root.c_str(), 0777);
        mkdir((root + "d").c_str(), 0777);
    }
    void clean(int nfiles) {
        for (int d = 0; d < 2; d++)
            for (int i = 1; i <= nfiles; i++)
                for (const char* k : {"text", "xml"}) unlink((root + DIRS[d] + fileName(i, k)).c_str());
    }
    void destroy() { clean(8); rmdir((root + "d").c_str()); rmdir(root.c_str()); }
    std::string pathOf(const json& fs, int id) const {
        const json& f = fs[id - 1];
        return root + DIRS[f[1].get<int>()] + fileName(id, f[0].get<std::string>());
    }
    bool materialise(const json& fs, json& texts) {
        Renderer r(fs);
        clean(8);
        for (size_t i = 0; i < fs.size(); i++) {
            const std::string kind = fs[i][0];
            if (kind == "none") { texts.push_back(nullptr); continue; }
            std::string body;
            if (kind == "text") body = fs[i][2].get<std::string>();
            else r.item(fs[i][2], fs[i][1].get<int>(), true, body);
            texts.push_back(body);
            FILE* f = fopen(pathOf(fs, (int)i + 1).c_str(), "w");
            if (!f) return false;
            fwrite(body.data(), 1, body.size(), f);
            fclose(f);
        }
        return true;
    }
    // ids of the files the library opened successfully (file 1 = the main document included)
    json opened(const json& fs) const {
        std::set<int> s;
        for (auto& o : gFiles->opens) {
            if (!o.second) continue;
            std::string p = resolveProbe(o.first + "/x");     // normalise dot segments: ".../probe" of the directory "path/"
            p = p.substr(0, p.size() - 6);
            for (const char* pre : {"file://", "file:"}) if (p.rfind(pre, 0) == 0) { p = p.substr(strlen(pre)); break; }
            for (size_t i = 0; i < fs.size(); i++) if (fs[i][0] != "none" && p == pathOf(fs, (int)i + 1)) s.insert((int)i + 1);
        }
        return json(s);
    }
};

// the expected tree as the DOM shows it: ["src",f] stands for the bytes of file f as character data; adjacent character data is one node
static json asDom(const json& items, const json& texts) {
    json a = json::array();
    for (auto& x : items) {
        if (x[0] == "el") { a.push_back({"el", x[1], x[2], asDom(x[3], texts)}); continue; }
        std::string s = x[0] == "src" ? texts[x[1].get<int>() - 1].get<std::string>() : x[1].get<std::string>();
        if (s.empty()) continue;
        if (!a.empty() && a.back()[0] == "tx") a.back()[1] = a.back()[1].get<std::string>() + s;
        else a.push_back({"tx", s});
    }
    return a;
}

static std::string checkOne(const char* api, const Obs& o, const json& c, const json& texts, const json& opened, json& cls) {
    const bool ok = c["res"] == "ok";
    cls = {{"api", api}, {"expected", ok ? "ok" : c["err"].get<std::string>()}, {"eager", c["eager"]}};
    auto fat = o.fatal();
    std::string got = !o.exception.empty() ? "exception" : fat.empty() ? "ok" : *fat.begin();
    cls["got"] = got;
    if (!o.bad.empty()) { cls["why"] = "projection"; return "inconsistent observation: " + o.bad; }
    if (ok) {
        if (!o.exception.empty()) { cls["why"] = "exception"; return "the specification expands this document without error, parse() threw " + o.exception; }
        if (!fat.empty()) { cls["why"] = "spurious error"; return "the specification expands this document without error, the parser reported " + o.errs.dump(); }
        const json want = asDom(c["tree"], texts);
        std::set<int> ls;
        for (auto& x : c["loads"]) ls.insert(x.get<int>());
        const json loads = json(ls);
        if (o.tree != want) {
            // is it only the base URIs?
            std::function<json(const json&)> strip = [&](const json& a) { json r = json::array(); for (auto& x : a) { if (x[0] == "el") r.push_back({"el", x[1], strip(x[3])}); else r.push_back(x); } return r; };
            bool onlyBase = o.tree.is_array() && strip(o.tree) == strip(want);
            cls["why"] = onlyBase ? "base" : "tree";
            return onlyBase ? "an element of the result resolves relative references against another directory than its source document"
                            : "the resulting tree differs from the specified expansion";
        }
        if (o.count("resource") != c["warn"].get<int>()) { cls["why"] = "warnings"; return "number of resource-error warnings differs from the number of fallbacks used"; }
        if (opened != loads) { cls["why"] = "files read"; return "the set of files opened differs: " + opened.dump() + " expected " + loads.dump(); }
        return "";
    }
    // expected error: an error of the expected class must be reported (and the call returned: we are here)
    const std::string want = c["err"];
    if (want == "root-not-element") {
        cls["rootItems"] = c["top"];
        // XInclude 4.5.1: the document element must be replaced by exactly one element - any report (error or exception) is accepted
        if (fat.empty() && o.exception.empty()) { cls["why"] = "not reported"; return "an include that replaces the document element by something else than one element was not reported"; }
        return "";
    }
    if (want == "loop") {
        const json& at = c["loopAt"];
        cls["loopSelfFromRootInclude"] = at[0] == at[1] && at[2] == "inc";
        cls["loopDocReachedFromSubdir"] = at[3] == 1 && at[4] == 0;
    }
    if (!fat.count(want)) { cls["why"] = "not reported"; return "expected an error of class " + want + ", the parser reported " + o.errs.dump() + (o.exception.empty() ? "" : " and threw " + o.exception); }
    return "";
}

static int modeT(const std::string& base) {
    static World w;
    static Projector pj;
    Supervisor sup;
    sup.timeoutSec = 60;
    sup.initChild = [&]() {
        XMLPlatformUtils::Initialize();
        gFiles = new LoggingFileMgr(XMLPlatformUtils::fgFileMgr);
        XMLPlatformUtils::fgFileMgr = gFiles;
        w.init(base);
        pj.root = w.root;
        atexit([]() { w.destroy(); });
    };
    sup.handle = [&](const std::string& line, std::string& stat, bool& tainted) -> std::string {
        json c;
        if (!decode_tlc_line(line, c)) { stat = "torn"; return ""; }
        // after many calls that did not return (each costs a timeout) the rest is skipped: the run is a failure anyway
        if (sup.fails >= 12) { stat = "skipped_after_failures"; return ""; }
        stat = "cases\tres:" + (c["res"] == "ok" ? std::string("ok") : c["err"].get<std::string>());
        json texts = json::array();
        if (!w.materialise(c["fs"], texts)) { stat += "\tioerror"; return ""; }
        std::string out;
        const std::string mainPath = w.pathOf(c["fs"], 1);
        for (int api = 0; api < 2; api++) {
            gFiles->opens.clear();
            Obs o = api == 0 ? parseDom(mainPath, pj) : parseLs(mainPath, pj);
            json opened = w.opened(c["fs"]);
            json cls;
            std::string why = checkOne(api == 0 ? "XercesDOMParser" : "DOMLSParser", o, c, texts, opened, cls);
            stat += "\tparses";
            if (!why.empty()) {
                stat += "\tmismatches";      // every case uses fresh parser objects: no need for a fresh process
                out += dumpLine({{"t", "mismatch"}, {"cls", cls}, {"why", why},
                                 {"case", {{"mode", "T"}, {"case", c}, {"files", texts}, {"got", o.dump()}, {"opened", opened}}}});
            }
        }
        return out;
    };
    sup.onFail = [&](const std::string& line, const std::string& what) -> std::string {
        json c;
        if (!decode_tlc_line(line, c)) return "";
        json cls = {{"api", "any"}, {"expected", c["res"] == "ok" ? "ok" : c["err"].get<std::string>()}, {"got", what.substr(0, what.find(':'))}, {"why", "did not return"}, {"eager", c["eager"]}};
        return dumpLine({{"t", "mismatch"}, {"cls", cls}, {"why", "parse with XInclude processing did not return: " + what}, {"case", {{"mode", "T"}, {"case", c}}}});
    };
    int rc = sup.run();
    return rc;
}

static int modeProbe(const std::string& path) {
    Init init;
    gFiles = new LoggingFileMgr(XMLPlatformUtils::fgFileMgr);
    XMLPlatformUtils::fgFileMgr = gFiles;
    Projector pj;
    size_t sl = path.rfind('/');
    pj.root = path.substr(0, sl + 1);
    for (int api = 0; api < 2; api++) {
        gFiles->opens.clear();
        Obs o = api == 0 ? parseDom(path, pj) : parseLs(path, pj);
        json op = json::array();
        for (auto& x : gFiles->opens) op.push_back({x.first, x.second});
        json d = o.dump();
        d["opens"] = op;
        d["api"] = api;
        emit(d);
    }
    XMLPlatformUtils::fgFileMgr = gFiles->in;
    return 0;
}

int main(int argc, char** argv) {
    if (argc < 3) return 2;
    std::string mode = argv[1];
    std::ios::sync_with_stdio(false);
    if (mode == "t") return modeT(argv[2]);
    if (mode == "probe") return modeProbe(argv[2]);
    return 2;
}
