// Binders T and W for the DomViews specification (property C14).
//   domviews_harness t <ndocs>   stdin: TLC lines [base tree, [{op,ret}...], tree after, obs after]  (DomViewsGen)
//   domviews_harness w <ndocs>   stdin: TLC lines [[{op,ret,st,rg}...], final obs]                   (DomViewsWalk)
// Every line is a complete history: the tree `base` is built through the public API, the operations are
// replayed, every return value is compared, and after the last operation the tree projection, the range
// boundary points and (destructively, on two separate replays) what every iterator returns forwards and
// backwards are compared with the specification's values.
#include "domviews.hpp"
using namespace vh;
using namespace XERCES_CPP_NAMESPACE;

static bool sameProj(json a, json b) { sortAttrSets(a); sortAttrSets(b); return a == b; }

static bool structuralRemoval(const std::string& a) {
    return a == "removeChild" || a == "appendChild" || a == "insertBefore" || a == "replaceChild" || a == "adoptNode" || a == "normalize";
}

// classification of a failing case (used to match known findings): computed from the line only
static json classify(const json& hist, size_t at, const std::string& res, const std::string& why, const json& pre) {
    const json& op = hist[at]["op"];
    json c;
    c["action"] = op["a"];
    c["res"] = res;
    c["why"] = why;
    std::string kinds;
    std::vector<bool> stepped;
    for (size_t i = 0; i < at; i++) {
        const std::string a = hist[i]["op"]["a"];
        if (a == "createNodeIterator") { if (kinds.find('i') == std::string::npos) kinds += 'i'; stepped.push_back(false); }
        if (a == "createRange" && kinds.find('r') == std::string::npos) kinds += 'r';
        if (a == "getElementsByTagName" && kinds.find('l') == std::string::npos) kinds += 'l';
        if ((a == "it.detach") || ((a == "it.nextNode") && hist[i]["ret"].size() && hist[i]["ret"][0].get<int>() != 0)) {
            int k = hist[i]["op"]["args"][0].get<int>();
            if (k >= 1 && k <= (int)stepped.size()) stepped[k - 1] = true;
        }
    }
    c["views"] = kinds;
    bool fresh = false;
    for (bool s : stepped) if (!s) fresh = true;
    c["freshIterator"] = fresh && structuralRemoval(op["a"]);
    if (op["a"] == "splitText" && pre.is_array()) {
        int n = op["args"][0].get<int>();
        c["orphan"] = (n >= 1 && n <= (int)pre.size()) ? pre[n - 1]["p"].get<int>() == 0 : false;
    }
    return c;
}

struct Replay {
    ViewWorld& w;
    int nd;
    std::string why, res;      // first disagreement
    size_t at = 0;
    json got, pre;
    bool otherBranch = false;
    json extra = json::object();
    Replay(ViewWorld& w_, int nd_) : w(w_), nd(nd_) {}

    // returns false on disagreement (why set)
    bool step(const json& h, size_t i, bool last) {
        const json& op = h["op"];
        at = i;
        if (last) { std::string b0; pre = w.project(b0); }
        json ret;
        res = w.applyV(op, ret);
        const std::string a = op["a"];
        bool inAllowed = false;
        for (auto& x : op["allowed"]) if (x.get<std::string>() == res) inAllowed = true;
        if (!inAllowed) { why = "result not allowed"; extra["allowed"] = op["allowed"]; return false; }
        const std::string chosen = op["res"];
        if (isErr(res) != isErr(chosen)) { otherBranch = true; return true; }   // success vs refusal: another allowed branch, the rest does not apply
        if (ViewWorld::isViewOp(a) && ret != h["ret"]) { why = "returned value differs"; extra["ret"] = ret; extra["expected_ret"] = h["ret"]; return false; }
        return true;
    }
    bool checkState(const json& proj, const json& rgsExp) {
        std::string bad;
        got = w.project(bad);
        if (!bad.empty()) { why = "inconsistent getters"; extra["bad"] = bad; return false; }
        if (!sameProj(got, proj)) { why = "tree differs"; return false; }
        json rg = w.observeRanges(bad);
        if (!bad.empty()) { why = "inconsistent range getters"; extra["bad"] = bad; return false; }
        if (rg != rgsExp) {
            why = "range boundary points differ";
            extra["ranges"] = rg; extra["expected_ranges"] = rgsExp;
            return false;
        }
        return true;
    }
};

static void rangeRelations(json& cls, const json& op, const json& extra, const json& pre) {
    // relations that identify the known text-insertion defect: start offset = insertion offset instead of + length
    if (!extra.contains("ranges")) return;
    const json &g = extra["ranges"], &e = extra["expected_ranges"];
    std::string diff;
    for (size_t r = 0; r < g.size() && r < e.size(); r++) {
        if (g[r].size() != 4 || e[r].size() != 4) continue;
        static const char* f[] = {"sc", "so", "ec", "eo"};
        for (int k = 0; k < 4; k++) if (g[r][k] != e[r][k] && diff.find(f[k]) == std::string::npos) diff += std::string(diff.empty() ? "" : ",") + f[k];
        const std::string a = op["a"];
        if ((a == "insertData" || a == "replaceData") && g[r][1] != e[r][1] && op["args"].size() >= 2 &&
            g[r][1].get<int>() == op["args"][1].get<int>() && e[r][1].get<int>() > g[r][1].get<int>())
            cls["startAtInsertionOffset"] = true;
        if (a == "splitText" && pre.is_array()) {     // boundary in the parent, just behind the split node, not advanced over the new node
            int n = op["args"][0].get<int>();
            int par = (n >= 1 && n <= (int)pre.size()) ? pre[n - 1]["p"].get<int>() : 0;
            for (int k = 0; k < 4; k += 2)
                if (par && g[r][k] == e[r][k] && g[r][k].get<int>() == par && e[r][k + 1].get<int>() == g[r][k + 1].get<int>() + 1)
                    cls["boundaryBehindSplitNode"] = true;
        }
    }
    cls["diff"] = diff;
}

static std::string runHistory(ViewWorld& w, int nd, const json& base, const json& hist, const json& projNext, const json& obs,
                              const std::function<const json*(size_t)>& stateAt, std::string& stat, bool& tainted, const char* mode) {
    // pass 0: replay + state + forward drain; pass 1: replay + backward drain (only if there are iterators)
    size_t nIts = obs["its"].size();
    for (int pass = 0; pass < (nIts ? 2 : 1); pass++) {
        std::string err;
        if (!w.buildAll(base, nd, err)) {
            tainted = true; stat += "\tmismatches";
            return dumpLine({{"t", "mismatch"}, {"cls", {{"action", "build"}, {"why", err}}}, {"case", {{"mode", mode}, {"base", base}}}, {"why", err}});
        }
        Replay rp(w, nd);
        bool ok = true;
        for (size_t i = 0; i < hist.size() && ok; i++) {
            bool last = i + 1 == hist.size();
            ok = rp.step(hist[i], i, last);
            if (pass == 0) {
                const std::string a = hist[i]["op"]["a"];
                stat += "\tsteps\tact:" + a + "\tres:" + a + ":" + rp.res;
            }
            if (!ok || rp.otherBranch) break;
            const json* st = stateAt(i);          // W: state after every step; T: only after the last
            if (st && pass == 0) ok = rp.checkState((*st)[0], (*st)[1]);
        }
        if (ok && rp.otherBranch) { if (pass == 0) stat += "\tskipped_other_branch"; return ""; }
        if (ok && pass == 0 && !stateAt(hist.size() - 1)) ok = rp.checkState(projNext, obs["rgs"]);
        if (ok) {
            for (size_t k = 0; k < nIts && ok; k++) {
                std::string bad;
                json d = w.drain(k, pass == 0, bad);
                const json& e = obs["its"][k][pass == 0 ? "fw" : "bw"];
                if (!bad.empty()) { rp.why = "iterator misbehaves"; rp.extra["bad"] = bad; ok = false; }
                else if (d != e) {
                    rp.why = pass == 0 ? "iterator returns other nodes forwards" : "iterator returns other nodes backwards";
                    rp.extra["iterator"] = k + 1; rp.extra["returned"] = d; rp.extra["expected_returned"] = e;
                    ok = false;
                }
            }
        }
        if (!ok) {
            tainted = true;
            stat += "\tmismatches";
            json cls = classify(hist, rp.at, rp.res, rp.why, rp.pre);
            rangeRelations(cls, hist[rp.at]["op"], rp.extra, rp.pre);
            json prefix = json::array();
            for (size_t k = 0; k <= rp.at && k < hist.size(); k++) prefix.push_back(hist[k]);
            return dumpLine({{"t", "mismatch"}, {"cls", cls}, {"why", rp.why + " at step " + std::to_string(rp.at + 1) + " (" + hist[rp.at]["op"]["a"].get<std::string>() + ")"},
                             {"case", {{"mode", mode}, {"ndocs", nd}, {"base", base}, {"hist", prefix}, {"expected_tree", projNext}, {"expected_obs", obs},
                                       {"got_tree", rp.got}, {"res", rp.res}, {"detail", rp.extra}}}});
        }
    }
    stat += "\tcompared";
    return "";
}

static int modeT(int nd) {
    static ViewWorld* w = nullptr;
    Supervisor sup;
    sup.timeoutSec = 180;   // generous: a batch of 32 histories takes milliseconds; only a real hang (or a badly overloaded machine) gets here
    sup.initChild = [&]() { XMLPlatformUtils::Initialize(); w = new ViewWorld(); };
    sup.handle = [&](const std::string& line, std::string& stat, bool& tainted) -> std::string {
        json j;
        if (!decode_tlc_line(line, j)) { stat = "torn"; return ""; }
        stat = "cases";
        return runHistory(*w, nd, j[0], j[1], j[2], j[3], [](size_t) -> const json* { return nullptr; }, stat, tainted, "T");
    };
    sup.onFail = [&](const std::string& line, const std::string& what) -> std::string {
        json j;
        if (!decode_tlc_line(line, j)) return "";
        const json& hist = j[1];
        json cls = classify(hist, hist.size() - 1, what, "call did not return", j[0]);
        return dumpLine({{"t", "mismatch"}, {"cls", cls}, {"why", "a call of the history did not return: " + what},
                         {"case", {{"mode", "T"}, {"ndocs", nd}, {"base", j[0]}, {"hist", hist}, {"expected_tree", j[2]}, {"expected_obs", j[3]}, {"res", what}}}});
    };
    return sup.run();
}

static int modeW(int nd) {
    static ViewWorld* w = nullptr;
    Supervisor sup;
    sup.timeoutSec = 180;
    sup.initChild = [&]() { XMLPlatformUtils::Initialize(); w = new ViewWorld(); };
    sup.handle = [&](const std::string& line, std::string& stat, bool& tainted) -> std::string {
        json j;
        if (!decode_tlc_line(line, j)) { stat = "torn"; return ""; }
        stat = "walks";
        const json& steps = j[0];
        if (steps.empty()) return "";
        json base = json::array();
        for (int d = 1; d <= nd; d++) base.push_back({{"k", "doc"}, {"o", 0}, {"p", 0}, {"c", json::array()}, {"n", ""}, {"v", json::array()}, {"a", json::array()}, {"e", 0}});
        std::vector<json> sts;
        for (auto& s : steps) sts.push_back(json::array({s["st"], s["rg"]}));
        return runHistory(*w, nd, base, steps, steps.back()["st"], j[1], [&](size_t i) -> const json* { return &sts[i]; }, stat, tainted, "W");
    };
    sup.onFail = [&](const std::string& line, const std::string& what) -> std::string {
        json j;
        if (!decode_tlc_line(line, j)) return "";
        json hist = json::array();
        for (auto& s : j[0]) hist.push_back({{"op", s["op"]}, {"ret", s["ret"]}});
        json cls = {{"action", "walk"}, {"res", what}, {"why", "call did not return"}};
        for (size_t i = 0; i < hist.size(); i++) {      // the first step that removes a node while an iterator has no reference node yet
            json c = classify(hist, i, what, "call did not return", json());
            if (c["freshIterator"].get<bool>() && hist[i]["op"]["res"] == "ok") { cls = c; break; }
        }
        return dumpLine({{"t", "mismatch"}, {"cls", cls}, {"why", "a call of the walk did not return: " + what},
                         {"case", {{"mode", "W"}, {"ndocs", nd}, {"hist", hist}, {"res", what}}}});
    };
    return sup.run();
}

int main(int argc, char** argv) {
    if (argc < 3) return 2;
    std::string mode = argv[1];
    int nd = atoi(argv[2]);
    std::ios::sync_with_stdio(false);
    if (mode == "t") return modeT(nd);
    if (mode == "w") return modeW(nd);
    return 2;
}
