// C17 - concurrency of distinct objects: binders W (forced interleavings) and V (recorded executions).
//
//   conc_harness probe                      print the event sequence of each operation (development aid)
//   conc_harness w  < TLC behaviours        replay every interleaving TLC enumerated for the Concurrency specification
//                                           on the real library: one worker per specification thread, every worker parks
//                                           after each observable step (mutex-manager wrapper: lock/unlock; H8 hook:
//                                           shared-cell access) and only the thread TLC scheduled next is released
//   conc_harness v N seed steps out.ndjson  N threads run seeded independent workloads with nothing warmed up; the totally
//                                           ordered event log (Lock/Unlock/Acc) is written for ConcurrencyTrace; per-thread
//                                           digests are compared with the single-threaded digest of the same workload
//
// Expected events / values / final states come from TLC (binder W) or are checked by TLC (binder V).
#include "vh.hpp"
#include <xercesc/util/VerifHooks.hpp>
#include <xercesc/util/XMLMutexMgr.hpp>
#include <xercesc/util/regx/RegularExpression.hpp>
#include <xercesc/util/StringPool.hpp>
#include <xercesc/util/SynchronizedStringPool.hpp>
#include <xercesc/util/XMLUniDefs.hpp>
#include <xercesc/util/OutOfMemoryException.hpp>
#include <xercesc/framework/XMLGrammarPoolImpl.hpp>
#include <xercesc/framework/MemBufInputSource.hpp>
#include <xercesc/framework/MemBufFormatTarget.hpp>
#include <xercesc/validators/DTD/DTDGrammar.hpp>
#include <xercesc/sax2/XMLReaderFactory.hpp>
#include <xercesc/sax2/SAX2XMLReader.hpp>
#include <xercesc/sax2/DefaultHandler.hpp>
#include <xercesc/sax2/Attributes.hpp>
#include <xercesc/sax/HandlerBase.hpp>
#include <xercesc/sax/AttributeList.hpp>
#include <xercesc/parsers/SAXParser.hpp>
#include <xercesc/parsers/XercesDOMParser.hpp>
#include <xercesc/dom/DOM.hpp>
#include <atomic>
#include <chrono>
#include <condition_variable>
#include <mutex>
#include <thread>
#include <set>
#include <unordered_map>
#include <unordered_set>

using namespace vh;

namespace {

// ------------------------------------------------------------------------------------------------
// event log shared by the mutex-manager wrapper and the hook sink
// ------------------------------------------------------------------------------------------------
struct Ev {
    long long q = 0;
    int t = -1;
    std::string e;      // Lock | Unlock | Acc | Ret
    std::string site;   // Acc: hook site; Lock/Unlock: ""
    long long obj = 0, c = 0, rw = 0, val = 0, h = 0;
    void* mtx = nullptr;
};

thread_local int tIndex = -1;          // harness thread index; -1 = not a tracked thread
std::mutex gLogMu;
std::vector<Ev> gLog;
long long gSeq = 0;
bool gRecording = false;
std::unordered_set<long long> gSharedTokens;   // token pointers published through gr_pub (under gLogMu)

// ---- deterministic scheduler (binder W): one thread runs at a time ---------------------------------
struct Sched {
    std::mutex mu;
    std::condition_variable cv;
    std::atomic<bool> active{false};
    int granted = -1;
    struct TS {
        bool parked = false, done = false, started = false;
        std::vector<Ev> evs;           // events produced since the last grant (the last one is where it parked)
        void* wants = nullptr;         // mutex it is about to lock (set before orig->lock)
    } ts[8];
} S;

void parkAfter(const Ev& e, bool park) {
    if (!S.active || tIndex < 0) return;
    std::unique_lock<std::mutex> lk(S.mu);
    auto& me = S.ts[tIndex];
    if (!park) return;
    me.evs.push_back(e);
    me.parked = true;
    S.granted = -1;
    S.cv.notify_all();
    S.cv.wait(lk, [&] { return S.granted == tIndex; });
    me.parked = false;
}

bool parkingSite(const Ev& e) {
    if (e.e == "Ret") return false;
    if (e.e != "Acc") return true;
    if (e.site == "map_alloc" || e.site == "map_done" || e.site == "ci_tok") {
        std::lock_guard<std::mutex> g(gLogMu);
        return gSharedTokens.count(e.obj) != 0;
    }
    return true;
}

void record(Ev e) {
    e.t = tIndex;
    bool park;
    {
        std::lock_guard<std::mutex> g(gLogMu);
        if (e.site == "gr_pub" || e.site == "gr_build") gSharedTokens.insert(e.val);   // known before it can become visible
        if (gRecording && tIndex >= 0) {
            e.q = ++gSeq;
            bool priv = (e.site == "map_alloc" || e.site == "map_done" || e.site == "ci_tok") && !gSharedTokens.count(e.obj);
            if (!priv) gLog.push_back(e);
        }
    }
    park = parkingSite(e);
    parkAfter(e, park);
}

// ---- the H8 sink -------------------------------------------------------------------------------
void sink(const char* ev, const char* str, const char* keys, const long long* vals, int n) {
    if (tIndex < 0 || strcmp(ev, "Acc") != 0) return;
    Ev e;
    e.e = "Acc";
    e.site = str ? str : "";
    // keys: obj,c,rw,val[,h]
    if (n > 0) e.obj = vals[0];
    if (n > 1) e.c = vals[1];
    if (n > 2) e.rw = vals[2];
    if (n > 3) e.val = vals[3];
    if (n > 4) e.h = vals[4];
    record(e);
}

// ---- the mutex-manager wrapper (public seam XMLPlatformUtils::fgMutexMgr) -----------------------
struct WrapMutexMgr : public XMLMutexMgr {
    XMLMutexMgr* orig;
    explicit WrapMutexMgr(XMLMutexMgr* o) : orig(o) {}
    ~WrapMutexMgr() override {}
    XMLMutexHandle create(MemoryManager* const m) override { return orig->create(m); }
    void destroy(XMLMutexHandle h, MemoryManager* const m) override { orig->destroy(h, m); }
    void lock(XMLMutexHandle h) override {
        if (S.active && tIndex >= 0) {
            std::lock_guard<std::mutex> lk(S.mu);
            S.ts[tIndex].wants = h;
            S.cv.notify_all();
        }
        orig->lock(h);
        if (tIndex >= 0) {
            if (S.active) { std::lock_guard<std::mutex> lk(S.mu); S.ts[tIndex].wants = nullptr; }
            Ev e; e.e = "Lock"; e.mtx = h;
            record(e);          // sequence number drawn while the mutex is held
        }
    }
    void unlock(XMLMutexHandle h) override {
        if (tIndex >= 0 && !S.active) { Ev e; e.e = "Unlock"; e.mtx = h; record(e); }   // logged while still held
        if (tIndex >= 0 && S.active) {
            // W: log first (no parking), release, then park - the controller must not see a parked thread holding the mutex
            Ev e; e.e = "Unlock"; e.mtx = h; e.t = tIndex;
            { std::lock_guard<std::mutex> g(gLogMu); if (gRecording) { e.q = ++gSeq; gLog.push_back(e); } }
            orig->unlock(h);
            parkAfter(e, true);
            return;
        }
        orig->unlock(h);
    }
};

WrapMutexMgr* gWrap = nullptr;
void platformUp() {
    XMLPlatformUtils::Initialize();
    gWrap = new WrapMutexMgr(XMLPlatformUtils::fgMutexMgr);
    XMLPlatformUtils::fgMutexMgr = gWrap;
    gVerifSink = sink;
}
void platformDown() {
    gVerifSink = 0;
    XMLPlatformUtils::fgMutexMgr = gWrap->orig;
    delete gWrap;
    gWrap = nullptr;
    XMLPlatformUtils::Terminate();
    std::lock_guard<std::mutex> g(gLogMu);
    gSharedTokens.clear();
}

// ------------------------------------------------------------------------------------------------
// operations of the specification, performed through public API calls
// ------------------------------------------------------------------------------------------------
const char* kSlotName[] = {"", "IsAlpha", "IsAlnum", "ALL", "ASSIGNED"};
// probe strings for \P{slot}: (string, in \p{slot}?)  - the single-threaded baseline is the oracle, this only lists inputs
const char* kProbe[] = {"a", "1", "_", " ", "Z", "9", "\xC3\xA9" /* e-acute */, "\xE0\xB8\x81" /* Thai ko kai */, "\xEF\xBF\xBE" /* U+FFFE */};

struct World {                     // objects shared by the workers of one behaviour
    XMLStringPool* constPool = nullptr;
    std::map<std::string, XMLSynchronizedStringPool*> pools;
    XMLGrammarPoolImpl* gpool = nullptr;
    void up(const json& constStrs, const std::vector<std::string>& poolNames) {
        constPool = new XMLStringPool(109);
        for (auto& x : constStrs) constPool->addOrFind(X("urn:x" + std::to_string(x.get<int>())));
        for (auto& p : poolNames) pools[p] = new XMLSynchronizedStringPool(constPool, 109);
        gpool = new XMLGrammarPoolImpl(XMLPlatformUtils::fgMemoryManager);
        gpool->lockPool();
    }
    void down() {
        for (auto& kv : pools) delete kv.second;
        pools.clear();
        delete constPool; constPool = nullptr;
        if (gpool) { gpool->unlockPool(); delete gpool; gpool = nullptr; }
    }
};

// digest of matching \P{slot} on the probe strings (bit i = probe i matched)
long long useSlot(int s) {
    std::string pat = std::string("\\P{") + kSlotName[s] + "}";
    RegularExpression re(X(pat).c());
    long long d = 0;
    for (size_t i = 0; i < sizeof(kProbe) / sizeof(kProbe[0]); i++)
        if (re.matches(X(kProbe[i]).c())) d |= (1LL << i);
    return d;
}

std::map<int, long long> gBaselineSlot;    // single-threaded digests (computed in a fresh platform before any replay)

void retEv(long long v) { Ev e; e.e = "Ret"; e.val = v; record(e); }
void useEv(long long ok) { Ev e; e.e = "Acc"; e.site = "gr_use"; e.val = ok; record(e); }

void runOp(World& w, const json& op) {
    std::string k = op["k"];
    if (k == "GR") {
        int s = op["s"];
        long long d = useSlot(s);
        useEv(d == gBaselineSlot[s] ? 1 : 0);
        retEv(d);
    } else if (k == "CI") {
        SAX2XMLReader* r = XMLReaderFactory::createXMLReader();
        delete r;
        retEv(0);
    } else if (k == "DT") {
        DOMDocumentType* dt = DOMImplementation::getImplementation()->createDocumentType(X("a").c(), 0, X("a.dtd").c());
        dt->release();
        retEv(0);
    } else if (k == "RG") {
        DOMImplementation* impl = DOMImplementationRegistry::getDOMImplementation(X("Core").c());
        retEv(impl != nullptr);
    } else if (k == "LCP") {
        char* c = XMLString::transcode(X("abc").c());
        long long ok = c && strcmp(c, "abc") == 0;
        XMLString::release(&c);
        retEv(ok);
    } else if (k == "SPA") {
        unsigned id = w.pools[op["p"]]->addOrFind(X("urn:x" + std::to_string(op["x"].get<int>())).c());
        retEv(id);
    } else if (k == "SPG") {
        unsigned id = w.pools[op["p"]]->getId(X("urn:x" + std::to_string(op["x"].get<int>())).c());
        retEv(id);
    } else if (k == "GPC") {
        DTDGrammar* g = new DTDGrammar(XMLPlatformUtils::fgMemoryManager);
        bool took = w.gpool->cacheGrammar(g);
        if (!took) delete g;
        retEv(took ? 1 : 0);
    } else if (k == "GPU") {
        XMLStringPool* sp = w.gpool->getURIStringPool();
        retEv(dynamic_cast<XMLSynchronizedStringPool*>(sp) != nullptr ? 1 : 0);
    }
}

std::string evName(const Ev& e) {
    if (e.e == "Lock") return "enter";
    if (e.e == "Unlock") return "leave";
    if (e.e == "Ret") return "ret";
    return e.site;
}

// ------------------------------------------------------------------------------------------------
// probe
// ------------------------------------------------------------------------------------------------
int probe() {
    platformUp();
    World w;
    w.up(json::array({1}), {"SP1"});
    tIndex = 0;
    gRecording = true;
    std::vector<json> ops = {
        {{"k", "GR"}, {"s", 1}}, {{"k", "GR"}, {"s", 1}}, {{"k", "GR"}, {"s", 3}}, {{"k", "CI"}}, {{"k", "DT"}}, {{"k", "RG"}}, {{"k", "LCP"}},
        {{"k", "SPA"}, {"p", "SP1"}, {"x", 1}}, {{"k", "SPA"}, {"p", "SP1"}, {"x", 2}}, {{"k", "SPG"}, {"p", "SP1"}, {"x", 2}},
        {{"k", "SPG"}, {"p", "SP1"}, {"x", 3}}, {{"k", "GPC"}}, {{"k", "GPU"}}};
    for (auto& op : ops) {
        size_t n0 = gLog.size();
        runOp(w, op);
        std::string s = op.dump() + " :";
        for (size_t i = n0; i < gLog.size(); i++) s += " " + evName(gLog[i]) + "(" + std::to_string(gLog[i].val) + ")";
        printf("%s\n", s.c_str());
    }
    gRecording = false;
    tIndex = -1;
    w.down();
    platformDown();
    return 0;
}


// ------------------------------------------------------------------------------------------------
// binder W: replay of one TLC behaviour
// ------------------------------------------------------------------------------------------------
struct Mismatch { json cls; std::string why; };

bool isInternal(const std::string& a) { return a == "ci_read" || a == "gr_map" || a == "sp_const" || a == "sp_find" || a == "spg_get" || a == "gpc" || a == "gpu"; }

struct Replayer {
    long long cases = 0, steps = 0, compared = 0, mismatches = 0, reinit = 0;
    std::map<std::string, long long> counts;
    bool platformIsUp = false, dirty = true;
    void ensurePlatform(bool needFresh) {
        if (platformIsUp && needFresh && dirty) { platformDown(); platformIsUp = false; }
        if (!platformIsUp) {
            platformUp(); platformIsUp = true; dirty = false; reinit++;
            if (gBaselineSlot.empty()) {
                // single-threaded baseline digests in a platform of their own
                for (int s = 1; s <= 4; s++) gBaselineSlot[s] = useSlot(s);
                platformDown(); platformUp();
            }
        }
    }
    long long scannerBase() {          // current value of gScannerId, observed through the hook on a throw-away parser
        int save = tIndex; tIndex = 7;
        bool rec = gRecording; gRecording = true;
        size_t n0; { std::lock_guard<std::mutex> g(gLogMu); n0 = gLog.size(); }
        SAX2XMLReader* r = XMLReaderFactory::createXMLReader(); delete r;
        long long v = -1;
        { std::lock_guard<std::mutex> g(gLogMu); for (size_t i = n0; i < gLog.size(); i++) if (gLog[i].site == "ci_incr") v = gLog[i].val; gLog.resize(n0); }
        gRecording = rec; tIndex = save;
        return v;
    }
    // wait until thread t is parked or done; returns false on infrastructure timeout; sets blocked if it waits for a mutex
    // whose holder is parked (certain, not a timing inference)
    bool waitFor(int t, std::map<void*, int>& holder, bool& blocked) {
        std::unique_lock<std::mutex> lk(S.mu);
        auto deadline = std::chrono::steady_clock::now() + std::chrono::seconds(120);
        blocked = false;
        while (true) {
            auto& ts = S.ts[t];
            if (ts.parked || ts.done) return true;
            if (ts.wants) { auto it = holder.find(ts.wants); if (it != holder.end() && it->second != t && it->second != 0) { blocked = true; return true; } }
            if (S.cv.wait_until(lk, deadline) == std::cv_status::timeout) return false;
        }
    }
    void grant(int t) { std::lock_guard<std::mutex> lk(S.mu); S.ts[t].evs.clear(); S.ts[t].parked = false; S.granted = t; S.cv.notify_all(); }

    // returns false on infrastructure failure
    bool replay(const json& beh, std::vector<Mismatch>& out) {
        const json& progs = beh["p"];
        const json& h = beh["h"];
        int n = (int)progs.size();
        bool hasGR = false;
        for (auto& pr : progs) for (auto& op : pr) if (op["k"] == "GR") hasGR = true;
        ensurePlatform(hasGR);
        if (hasGR) dirty = true;
        World w;
        w.up(json::array({1}), {"SP1"});
        long long base = scannerBase();
        { std::lock_guard<std::mutex> g(gLogMu); gLog.clear(); gSeq = 0; }
        gRecording = true;
        for (int t = 0; t < 8; t++) { S.ts[t] = Sched::TS(); }
        S.granted = -1;
        S.active = true;
        std::atomic<bool> freeRun(false);
        std::vector<std::thread> th;
        for (int t = 1; t <= n; t++) {
            th.emplace_back([&, t] {
                tIndex = t;
                { Ev e; e.e = "Start"; parkAfter(e, true); }
                try { for (auto& op : progs[t - 1]) runOp(w, op); }
                catch (...) { Ev e; e.e = "Acc"; e.site = "exception"; std::lock_guard<std::mutex> lk(S.mu); S.ts[t].evs.push_back(e); }
                std::lock_guard<std::mutex> lk(S.mu);
                S.ts[t].done = true; S.granted = -1; S.cv.notify_all();
                tIndex = -1;
            });
        }
        std::map<void*, int> holder;
        bool infraOk = true, aborted = false;
        std::vector<std::vector<long long>> gotRet(n + 1), gotUse(n + 1);
        auto harvest = [&](int t, std::vector<Ev>& parkingEvs) {
            std::lock_guard<std::mutex> lk(S.mu);
            for (auto& e : S.ts[t].evs) {
                if (e.e == "Ret") gotRet[t].push_back(e.val);
                else if (e.e != "Start") parkingEvs.push_back(e);
            }
            S.ts[t].evs.clear();
        };
        bool dummy;
        for (int t = 1; t <= n && infraOk; t++) { infraOk = waitFor(t, holder, dummy); std::vector<Ev> tmp; harvest(t, tmp); }
        auto mism = [&](const std::string& site, const std::string& expect, const std::string& got, const std::string& why, const json& stepj) {
            Mismatch m;
            m.cls = {{"binder", "W"}, {"site", site}, {"expected", expect}, {"observed", got}};
            m.why = why + " at step " + stepj.dump();
            out.push_back(m);
        };
        bool lazyReported = false;
        size_t k = 0;
        for (; k < h.size() && infraOk && !aborted; k++) {
            const json& st = h[k];
            int t = st[0]; std::string a = st[1]; long long v = st[2]; std::string kind = st[3];
            if (a == "ret" || isInternal(a)) continue;
            steps++;
            counts["act:" + a]++;
            { std::lock_guard<std::mutex> lk(S.mu); if (S.ts[t].done) { mism(kind, a, "finished", "thread finished before the step the specification schedules", st); aborted = true; break; } }
            grant(t);
            bool blocked = false;
            if (!waitFor(t, holder, blocked)) { infraOk = false; break; }
            std::vector<Ev> evs;
            harvest(t, evs);
            if (blocked) { mism(kind, a, "blocked", "thread blocks on a mutex held by a parked thread where the specification schedules it", st); aborted = true; break; }
            if (evs.empty()) { mism(kind, a, "finished", "thread produced no observable step where the specification has one", st); aborted = true; break; }
            const Ev& e = evs.back();
            if (evs.size() > 1) { mism(kind, a, evName(evs[0]) + "+", "more than one observable step in one grant", st); aborted = true; break; }
            std::string got = evName(e);
            if (e.e == "Lock") {
                if (holder.count(e.mtx) && holder[e.mtx] != 0) { mism(kind, a, "lock-while-held", "POSITIVE OBSERVATION: mutex acquired while thread " + std::to_string(holder[e.mtx]) + " holds it", st); aborted = true; break; }
                holder[e.mtx] = t;
            }
            if (e.e == "Unlock") holder[e.mtx] = 0;
            if (a == "gr_use" && (got == "map_alloc" || got == "map_done")) {
                // the shared token is completed by its first user, after publication and outside any lock: report once, then let
                // the thread proceed to the step the specification expects so that the rest of the behaviour is still checked
                if (!lazyReported) { lazyReported = true; mism(kind, a, got, "a published shared range token is still being built by its user (match map created lazily, no lock held)", st); }
                if (got == "map_alloc") {
                    // the thread is parked right after 'fMap = allocate(..)': the controller (one more thread, its own RegularExpression
                    // object) now uses the same category escape - a positive observation if it gets other answers than the baseline
                    int slot = 0, seenRet = 0;
                    for (size_t q = 0; q < k; q++) if (h[q][0] == t && h[q][1] == "ret") seenRet++;
                    if (seenRet < (int)progs[t - 1].size()) slot = progs[t - 1][seenRet]["s"];
                    if (slot > 0) {
                        long long d = useSlot(slot);
                        compared++;
                        counts["halfbuilt_probe"]++;
                        if (d != gBaselineSlot[slot])
                            mism(kind, "gr_use=1", "half-built", "POSITIVE OBSERVATION: another thread matching \\P{" + std::string(kSlotName[slot]) +
                                 "} while the first user is inside RangeToken::doCreateMap gets digest " + std::to_string(d) + " instead of " + std::to_string(gBaselineSlot[slot]), st);
                    }
                }
                k--; steps--; counts["act:" + a]--;
                continue;
            }
            if (got != a) { mism(kind, a, got, "the real thread's next observable step differs from the specification's", st); aborted = true; break; }
            compared++;
            long long ov = e.val;
            bool cmp = false;
            if (a == "gr_fast" || a == "gr_slow" || a == "rg_len" || a == "rg_add" || a == "sp_add" || a == "gr_use") cmp = true;
            if (a == "ci_incr") { cmp = true; ov = e.val - base; }
            if (cmp && ov != v) { mism(kind, a, a + "=" + std::to_string(ov), "value observed at the step differs: specification " + std::to_string(v) + ", implementation " + std::to_string(ov), st); aborted = true; break; }
            if (e.rw == 1) {     // a write: some mutex must be held by this thread (GuardedWrite on the real execution)
                bool held = false;
                for (auto& kv : holder) if (kv.second == t) held = true;
                if (!held && a != "gr_use") { mism(kind, a, "unguarded-write", "write to a shared cell with no mutex held", st); aborted = true; break; }
            }
        }
        // let everything run to completion
        { std::lock_guard<std::mutex> lk(S.mu); S.active = false; for (int t = 0; t < 8; t++) S.granted = -1; }
        // wake all parked threads: parkAfter waits for granted == tIndex, so grant them one after the other
        for (int round = 0; round < 1000; round++) {
            bool all = true;
            for (int t = 1; t <= n; t++) {
                std::unique_lock<std::mutex> lk(S.mu);
                if (!S.ts[t].done) { all = false; if (S.ts[t].parked) { S.granted = t; S.cv.notify_all(); } }
            }
            if (all) break;
            std::this_thread::sleep_for(std::chrono::milliseconds(1));
        }
        for (auto& x : th) x.join();
        std::vector<std::vector<Ev>> tail(n + 1);
        for (int t = 1; t <= n; t++) harvest(t, tail[t]);
        gRecording = false;
        { std::lock_guard<std::mutex> g(gLogMu); for (int t = 1; t <= n; t++) gotRet[t].clear(); for (auto& e : gLog) if (e.e == "Ret" && e.t >= 1 && e.t <= n) gotRet[e.t].push_back(e.val); }
        if (infraOk && !aborted) {
            for (int t = 1; t <= n; t++)
                for (auto& e : tail[t]) if (e.e != "Start") { mism("tail", "none", evName(e), "observable step after the specification's behaviour ended", json(t)); break; }
            // returned values
            std::vector<size_t> ri(n + 1, 0);
            for (auto& st : h) {
                if (st[1] != "ret") continue;
                int t = st[0]; std::string kind = st[3]; long long v = st[2];
                size_t i = ri[t]++;
                if (i >= gotRet[t].size()) { mism(kind, "ret", "missing", "call did not return", st); continue; }
                if (kind == "SPA" || kind == "SPG" || kind == "GPC" || kind == "GPU") {
                    compared++;
                    counts["ret:" + kind]++;
                    if (gotRet[t][i] != v) mism(kind, "ret=" + std::to_string(v), "ret=" + std::to_string(gotRet[t][i]),
                                               "returned value differs: specification " + std::to_string(v) + ", implementation " + std::to_string(gotRet[t][i]), st);
                }
            }
            // final abstract state: pool content, number of builds
            const json& f = beh["f"];
            for (auto it = f["pool"].begin(); it != f["pool"].end(); ++it) {
                XMLSynchronizedStringPool* sp = w.pools[it.key()];
                unsigned cc = w.constPool->getStringCount();
                json got = json::array();
                unsigned total = sp->getStringCount();
                for (unsigned i = cc + 1; i <= total; i++) {
                    std::string sv = to8(sp->getValueForId(i));
                    got.push_back(sv.size() > 5 ? atoi(sv.c_str() + 5) : -1);
                }
                compared++;
                if (got != it.value()) mism("SPA", "pool=" + it.value().dump(), "pool=" + got.dump(), "final content of the synchronized pool differs", f);
            }
            long long nb = 0, eb = 0;
            { std::lock_guard<std::mutex> g(gLogMu); for (auto& e : gLog) if (e.site == "gr_build") nb++; }
            for (auto& b : f["builds"]) eb += b.get<long long>();
            compared++;
            if (nb != eb) mism("GR", "builds=" + std::to_string(eb), "builds=" + std::to_string(nb), "number of token builds differs", f);
        }
        w.down();
        cases++;
        return infraOk;
    }
};

int walkMode() {
    Replayer R;
    std::string line;
    long long lines = 0, torn = 0;
    while (std::getline(std::cin, line)) {
        if (line.empty()) continue;
        lines++;
        json beh;
        if (!decode_tlc_line(line, beh)) { torn++; continue; }
        std::vector<Mismatch> mm;
        if (!R.replay(beh, mm)) { emit({{"t", "infra"}, {"why", "replay timed out waiting for a thread"}, {"case", beh}}); return 3; }
        for (auto& m : mm) {
            R.mismatches++;
            emit({{"t", "mismatch"}, {"cls", m.cls}, {"case", {{"mode", "W"}, {"p", beh["p"]}, {"h", beh["h"]}, {"f", beh["f"]}}}, {"why", m.why}});
        }
    }
    if (R.platformIsUp) platformDown();
    json c = R.counts;
    c["cases"] = R.cases; c["steps"] = R.steps; c["compared"] = R.compared; c["mismatches"] = R.mismatches; c["torn"] = torn; c["reinit"] = R.reinit;
    emit({{"t", "summary"}, {"lines", lines}, {"counts", c}});
    return 0;
}


// ------------------------------------------------------------------------------------------------
// binder V: N threads, seeded independent workloads, nothing warmed up; trace + digests
// ------------------------------------------------------------------------------------------------
struct Fnv {
    unsigned long long h = 1469598103934665603ULL;
    void add(const void* p, size_t n) { const unsigned char* c = (const unsigned char*)p; for (size_t i = 0; i < n; i++) { h ^= c[i]; h *= 1099511628211ULL; } }
    void add(const std::string& s) { add(s.data(), s.size()); add("|", 1); }
    void add(long long v) { add(&v, sizeof v); }
};

struct DigestHandler : public DefaultHandler {
    Fnv* f;
    explicit DigestHandler(Fnv* x) : f(x) {}
    void startElement(const XMLCh* const uri, const XMLCh* const local, const XMLCh* const, const Attributes& a) override {
        f->add("se"); f->add(to8(uri)); f->add(to8(local));
        for (XMLSize_t i = 0; i < a.getLength(); i++) { f->add(to8(a.getQName(i))); f->add(to8(a.getValue(i))); }
    }
    void endElement(const XMLCh* const, const XMLCh* const local, const XMLCh* const) override { f->add("ee"); f->add(to8(local)); }
    void characters(const XMLCh* const c, const XMLSize_t n) override { f->add("ch"); f->add(to8(c, n)); }
    void warning(const SAXParseException&) override { f->add("warn"); }
    void error(const SAXParseException& e) override { f->add("err"); f->add((long long)e.getLineNumber()); }
    void fatalError(const SAXParseException& e) override { f->add("fatal"); f->add((long long)e.getLineNumber()); }
};

const char* kSchema =
    "<xs:schema xmlns:xs='http://www.w3.org/2001/XMLSchema' targetNamespace='urn:c17' xmlns='urn:c17' elementFormDefault='qualified'>"
    "<xs:element name='root'><xs:complexType><xs:sequence>"
    "<xs:element name='item' maxOccurs='unbounded'><xs:complexType><xs:sequence><xs:any namespace='##other' processContents='lax' minOccurs='0' maxOccurs='unbounded'/></xs:sequence>"
    "<xs:attribute name='code'><xs:simpleType><xs:restriction base='xs:string'><xs:pattern value='\\p{Lu}\\d+'/></xs:restriction></xs:simpleType></xs:attribute>"
    "</xs:complexType></xs:element></xs:sequence></xs:complexType></xs:element></xs:schema>";

struct VWorld {
    XMLGrammarPoolImpl* pool = nullptr;
    void up() {
        pool = new XMLGrammarPoolImpl(XMLPlatformUtils::fgMemoryManager);
        SAX2XMLReader* r = XMLReaderFactory::createXMLReader(XMLPlatformUtils::fgMemoryManager, pool);
        MemBufInputSource src((const XMLByte*)kSchema, strlen(kSchema), "c17.xsd");
        r->loadGrammar(src, Grammar::SchemaGrammarType, true);
        delete r;
        pool->lockPool();
    }
    void down() { pool->unlockPool(); delete pool; pool = nullptr; }
};

const char* kRegex[] = {"\\P{IsAlpha}", "\\P{IsAlnum}", "\\P{ASSIGNED}", "\\p{L}+\\d", "\\p{IsGreek}+", "[\\w-[\\d]]+", "\\p{Nd}{2}", "\\P{IsBasicLatin}"};
const int kRegexLazy = 3;     // the first three name lazily complemented slots

void vOp(VWorld& w, std::mt19937& rng, Fnv& f, int tix, int& uriCounter) {
    int kind = rng() % 9;
    f.add((long long)kind);
    switch (kind) {
    case 0: {   // regular expression with a category escape
        int i = rng() % (sizeof(kRegex) / sizeof(kRegex[0]));
        RegularExpression re(X(kRegex[i]).c());
        long long d = 0;
        for (size_t j = 0; j < sizeof(kProbe) / sizeof(kProbe[0]); j++) if (re.matches(X(kProbe[j]).c())) d |= (1LL << j);
        if (re.matches(X("\xCE\xB1\xCE\xB2").c())) d |= (1LL << 20);
        if (re.matches(X("Ab7").c())) d |= (1LL << 21);
        if (re.matches(X("42").c())) d |= (1LL << 22);
        f.add(d);
        if (i < kRegexLazy) { Ev e; e.e = "Acc"; e.site = "gr_use"; e.val = 1; e.obj = -1; record(e); }
        break;
    }
    case 1: case 2: {   // private SAX2 parser, internal DTD, validation on or off
        std::string doc = "<?xml version='1.0'?><!DOCTYPE r [<!ELEMENT r (a*)><!ELEMENT a (#PCDATA)><!ATTLIST a k CDATA 'd' id ID #IMPLIED>]><r>";
        int n = 1 + rng() % 4;
        for (int i = 0; i < n; i++) doc += "<a id='i" + std::to_string(i) + "'>t" + std::to_string(rng() % 100) + "&amp;</a>";
        if (rng() % 4 == 0) doc += "<b/>";
        doc += "</r>";
        SAX2XMLReader* r = XMLReaderFactory::createXMLReader();
        r->setFeature(XMLUni::fgSAX2CoreValidation, kind == 1);
        DigestHandler h(&f);
        r->setContentHandler(&h); r->setErrorHandler(&h);
        MemBufInputSource src((const XMLByte*)doc.data(), doc.size(), "m");
        try { r->parse(src); } catch (const XMLException&) { f.add("xmlexc"); } catch (const SAXException&) { f.add("saxexc"); }
        delete r;
        break;
    }
    case 3: {   // DOM: parse, mutate, serialise
        std::string doc = "<d xmlns:p='urn:p" + std::to_string(rng() % 5) + "'><p:e a='1'>x</p:e><f/></d>";
        XercesDOMParser* p = new XercesDOMParser();
        p->setDoNamespaces(true);
        MemBufInputSource src((const XMLByte*)doc.data(), doc.size(), "m");
        try {
            p->parse(src);
            DOMDocument* d = p->getDocument();
            DOMElement* root = d->getDocumentElement();
            int n = 1 + rng() % 5;
            for (int i = 0; i < n; i++) {
                DOMElement* e = d->createElementNS(X("urn:n" + std::to_string(rng() % 7)).c(), X("q:n" + std::to_string(i)).c());
                e->setAttribute(X("k").c(), X(std::to_string(rng() % 1000)).c());
                e->appendChild(d->createTextNode(X("v<&>" + std::to_string(i)).c()));
                root->insertBefore(e, root->getFirstChild());
            }
            if (root->getLastChild()) root->removeChild(root->getLastChild())->release();
            DOMImplementationLS* ls = (DOMImplementationLS*)DOMImplementationRegistry::getDOMImplementation(X("LS").c());
            DOMLSSerializer* ser = ls->createLSSerializer();
            XMLCh* out = ser->writeToString(root);
            f.add(to8(out));
            XMLString::release(&out);
            ser->release();
        } catch (const XMLException&) { f.add("xmlexc"); } catch (const DOMException& e) { f.add("domexc"); f.add((long long)e.code); }
        delete p;
        break;
    }
    case 4: {   // schema validation against the shared LOCKED grammar pool; documents introduce new namespace URIs
        std::string doc = "<root xmlns='urn:c17'>";
        int n = 1 + rng() % 3;
        for (int i = 0; i < n; i++) {
            // 24 URIs shared by all threads (first use of the same URI collides) + 2 per thread; checkUriHashes() makes sure the
            // hook's string hash tells them apart
            (void)uriCounter;
            std::string uri = (rng() % 4) ? "urn:new:" + std::to_string(rng() % 24) : "urn:own:" + std::to_string(tix) + ":" + std::to_string(rng() % 2);
            doc += "<item code='" + std::string(rng() % 3 ? "A12" : "a12") + "'><x:y xmlns:x='" + uri + "'>z</x:y></item>";
        }
        doc += "</root>";
        SAX2XMLReader* r = XMLReaderFactory::createXMLReader(XMLPlatformUtils::fgMemoryManager, w.pool);
        r->setFeature(XMLUni::fgSAX2CoreValidation, true);
        r->setFeature(XMLUni::fgXercesSchema, true);
        r->setFeature(XMLUni::fgXercesUseCachedGrammarInParse, true);
        DigestHandler h(&f);
        r->setContentHandler(&h); r->setErrorHandler(&h);
        MemBufInputSource src((const XMLByte*)doc.data(), doc.size(), "m");
        try { r->parse(src); } catch (const XMLException&) { f.add("xmlexc"); } catch (const SAXException&) { f.add("saxexc"); }
        delete r;
        break;
    }
    case 5: {   // local-code-page transcoding in both directions
        std::string s = "lcp-" + std::to_string(rng() % 100000) + "-abcdefghijklmnopqrstuvwxyz";
        XMLCh* x = XMLString::transcode(s.c_str());
        char* c = XMLString::transcode(x);
        f.add(std::string(c ? c : "(null)"));
        f.add((long long)XMLString::stringLen(x));
        XMLString::release(&x); XMLString::release(&c);
        break;
    }
    case 6: {   // parser creation / destruction
        switch (rng() % 3) {
        case 0: { SAXParser* p = new SAXParser(); delete p; break; }
        case 1: { XercesDOMParser* p = new XercesDOMParser(); delete p; break; }
        default: { SAX2XMLReader* p = XMLReaderFactory::createXMLReader(); delete p; }
        }
        break;
    }
    case 7: {   // owner-less document type, DOM implementation registry
        DOMImplementation* impl = DOMImplementationRegistry::getDOMImplementation(X("Core").c());
        f.add((long long)(impl != nullptr));
        DOMDocumentType* dt = impl->createDocumentType(X("n" + std::to_string(rng() % 9)).c(), X("-//P//" + std::to_string(rng() % 9)).c(), X("s.dtd").c());
        f.add(to8(dt->getName())); f.add(to8(dt->getPublicId()));
        // (cloneNode on an owner-less doctype dereferences a null owner document in DOMNamedNodeMapImpl::cloneMap - single-threaded
        //  crash, reported separately; a second createDocumentType reaches the same static-document allocation path)
        DOMDocumentType* d2 = impl->createDocumentType(X("m" + std::to_string(rng() % 9)).c(), 0, X("t.dtd").c());
        f.add(to8(d2->getSystemId()));
        d2->release(); dt->release();
        break;
    }
    case 8: {   // the locked pool refuses new grammars and hands out its synchronized string pool
        DTDGrammar* g = new DTDGrammar(XMLPlatformUtils::fgMemoryManager);
        bool took = w.pool->cacheGrammar(g);
        if (!took) delete g;
        { Ev e; e.e = "Acc"; e.site = "gpc"; e.val = took ? 1 : 0; record(e); }
        bool sync = dynamic_cast<XMLSynchronizedStringPool*>(w.pool->getURIStringPool()) != nullptr;
        { Ev e; e.e = "Acc"; e.site = "gpu"; e.val = sync ? 1 : 0; record(e); }
        f.add((long long)took); f.add((long long)sync);
        break;
    }
    }
}

bool checkUriHashes(int N) {
    std::set<XMLSize_t> seen;
    std::vector<std::string> all;
    for (int i = 0; i < 24; i++) all.push_back("urn:new:" + std::to_string(i));
    for (int t = 1; t <= N; t++) for (int i = 0; i < 2; i++) all.push_back("urn:own:" + std::to_string(t) + ":" + std::to_string(i));
    for (const char* fixed : {"urn:c17", "", "http://www.w3.org/2001/XMLSchema", "http://www.w3.org/2001/XMLSchema-instance", "http://www.w3.org/XML/1998/namespace", "http://www.w3.org/2000/xmlns/"}) all.push_back(fixed);
    for (auto& u : all) if (!seen.insert(XMLString::hash(X(u).c(), 1000003)).second) return false;
    return true;
}

unsigned long long runWorkload(VWorld& w, int tix, unsigned seed, int steps) {
    std::mt19937 rng(seed * 7919u + tix * 104729u + 17u);
    Fnv f;
    int uriCounter = 0;
    for (int i = 0; i < steps; i++) vOp(w, rng, f, tix, uriCounter);
    return f.h;
}

// write the log as ndjson with uniform records; small ids for pointers; Lock lines get k/obj/x of their critical section
void writeTrace(const std::string& path, long long scanBase) {
    FILE* fo = fopen(path.c_str(), "w");
    std::map<void*, int> mid;
    std::map<std::pair<long long, long long>, int> slotId;     // (elemMap, complement)
    std::map<long long, int> tokSlot, poolId, strId;
    std::map<void*, int> mutexPool;
    auto slotOf = [&](const Ev& e) { auto k = std::make_pair(e.obj, e.c); if (!slotId.count(k)) { int n = (int)slotId.size() + 1; slotId[k] = n; } return slotId[k]; };
    // pass 1: pools for mutexes (from sp_add under the mutex), class of every critical section
    std::map<int, void*> heldBy;
    for (auto& e : gLog) {
        if (e.e == "Lock") heldBy[e.t] = e.mtx;
        else if (e.e == "Unlock") heldBy.erase(e.t);
        else if (e.site == "sp_add" && heldBy.count(e.t)) { if (!poolId.count(e.obj)) { int n = (int)poolId.size() + 1; poolId[e.obj] = n; } mutexPool[heldBy[e.t]] = poolId[e.obj]; }
    }
    int nextPool = (int)poolId.size();
    std::vector<json> lines;
    std::map<int, size_t> openLock;          // thread -> index of its Lock line
    std::map<int, int> lastSlot;             // thread -> slot of its latest gr_fast
    for (auto& e : gLog) {
        json j = {{"e", e.e}, {"q", e.q}, {"t", e.t + 1}, {"m", 0}, {"k", ""}, {"site", e.site}, {"obj", 0}, {"x", 0}, {"rw", e.rw}, {"val", 0}};
        if (e.e == "Ret") continue;
        if (e.e == "Lock" || e.e == "Unlock") {
            if (!mid.count(e.mtx)) { int n = (int)mid.size() + 1; mid[e.mtx] = n; }
            j["m"] = mid[e.mtx];
            if (e.e == "Lock") {
                j["k"] = "RO";
                if (!mutexPool.count(e.mtx)) j["obj"] = 0; else j["obj"] = mutexPool[e.mtx];
                openLock[e.t] = lines.size();
            } else openLock.erase(e.t);
        } else {
            std::string s = e.site;
            if (s == "gr_fast" || s == "gr_slow" || s == "gr_build" || s == "gr_pub") {
                int sl = slotOf(e); j["obj"] = sl;
                if (s == "gr_fast") { lastSlot[e.t] = sl; j["val"] = e.val; }
                if (s == "gr_slow") j["val"] = e.val;
                if (s == "gr_pub" || s == "gr_build") tokSlot[e.val] = sl;
            } else if (s == "map_alloc" || s == "map_done") { j["obj"] = tokSlot.count(e.obj) ? tokSlot[e.obj] : 0; }
            else if (s == "ci_tok") { continue; }
            else if (s == "gr_use") { j["obj"] = lastSlot.count(e.t) ? lastSlot[e.t] : 0; j["val"] = e.val; }
            else if (s == "ci_incr") j["val"] = e.val - scanBase;
            else if (s == "rg_len" || s == "rg_add" || s == "gpc" || s == "gpu") j["val"] = e.val;
            else if (s == "sp_add") {
                j["obj"] = poolId[e.obj];
                long long key = e.obj * 1000003LL + e.h;     // string identity per pool: the hook logs a hash of the string
                if (!strId.count(key)) { int n = (int)strId.size() + 1; strId[key] = n; }
                j["x"] = strId[key]; j["val"] = e.val;
            }
            if (openLock.count(e.t)) {
                json& L = lines[openLock[e.t]];
                if (L["k"] == "RO") {
                    std::string k = s == "ci_incr" ? "CI" : s == "dt_use" ? "DT" : (s == "rg_len" || s == "rg_add") ? "RG" : s == "lcp_use" ? "LCP" : s == "sp_add" ? "SPA"
                                    : (s == "gr_slow") ? "GR" : "";
                    if (!k.empty()) { L["k"] = k; if (k == "SPA" || k == "GR") { L["obj"] = j["obj"]; L["x"] = j["x"]; } }
                }
            }
        }
        lines.push_back(j);
    }
    // read-only sections on a mutex that never saw sp_add: give each such mutex a pool name of its own
    std::map<int, int> roPool;
    for (auto& j : lines) if (j["e"] == "Lock" && j["k"] == "RO" && j["obj"] == 0) {
        int m = j["m"]; if (!roPool.count(m)) roPool[m] = ++nextPool; j["obj"] = roPool[m];
    }
    for (auto& j : lines) { std::string s = j.dump(); fputs(s.c_str(), fo); fputc('\n', fo); }
    fclose(fo);
}

int vMode(int argc, char** argv) {
    int N = atoi(argv[2]); unsigned seed = (unsigned)atoi(argv[3]); int steps = atoi(argv[4]); std::string path = argv[5];
    platformUp();
    if (!checkUriHashes(N)) { fprintf(stderr, "workload URIs collide under the hook's string hash\n"); return 3; }
    VWorld w;
    tIndex = 0;
    long long base;
    { Replayer R; base = R.scannerBase(); }
    { std::lock_guard<std::mutex> g(gLogMu); gLog.clear(); gSeq = 0; }
    gRecording = true;
    w.up();                                       // main thread = thread 0 of the trace: loads the schema, locks the pool
    std::vector<unsigned long long> dig(N + 1, 0), ref(N + 1, 0);
    std::vector<std::string> exc(N + 1);
    std::atomic<int> go(0);
    std::vector<std::thread> th;
    for (int t = 1; t <= N; t++) th.emplace_back([&, t] {
        tIndex = t;
        go++;
        while (go.load() < N) std::this_thread::yield();     // start together: first uses collide
        try { dig[t] = runWorkload(w, t, seed, steps); } catch (const XMLException& e) { exc[t] = "XMLException"; } catch (...) { exc[t] = "exception"; }
        tIndex = -1;
    });
    for (auto& x : th) x.join();
    gRecording = false;
    w.down();
    size_t nev = gLog.size();
    writeTrace(path, base);
    tIndex = -1;
    platformDown();
    // single-threaded reference of the same workloads in a fresh platform
    platformUp();
    w.up();
    for (int t = 1; t <= N; t++) { try { ref[t] = runWorkload(w, t, seed, steps); } catch (...) { ref[t] = 1; } }
    w.down();
    platformDown();
    long long bad = 0;
    for (int t = 1; t <= N; t++) {
        if (!exc[t].empty() || dig[t] != ref[t]) {
            bad++;
            emit({{"t", "mismatch"}, {"cls", {{"binder", "V"}, {"site", "digest"}, {"expected", "single-threaded digest"}, {"observed", exc[t].empty() ? "different digest" : exc[t]}}},
                  {"case", {{"mode", "V"}, {"threads", N}, {"seed", seed}, {"steps", steps}, {"thread", t}}},
                  {"why", "thread " + std::to_string(t) + " did not obtain the results of the single-threaded run of the same workload"}});
        }
    }
    emit({{"t", "summary"}, {"counts", {{"threads", N}, {"events", (long long)nev}, {"digests_compared", N}, {"digest_mismatches", bad}}}});
    return 0;
}

}  // namespace

int main(int argc, char** argv) {
    std::string mode = argc > 1 ? argv[1] : "";
    if (mode == "probe") return probe();
    if (mode == "w") return walkMode();
    if (mode == "v" && argc >= 6) return vMode(argc, argv);
    fprintf(stderr, "usage: conc_harness probe|w|v ...\n");
    return 2;
}
