// Binder W+V for the MemLedger specification (property C18).
//   mem_harness run <trace.ndjson>     stdin: TLC lines = life-cycle histories (spec/MemLedgerWalk.tla)
// Every history is executed in a process of its own with an instrumented MemoryManager given to
// XMLPlatformUtils::Initialize ("g", when the history asks for a user manager) and one instrumented manager per parser
// object ("p1", "p2", ..; an adopted document shares its parser's manager).  Every allocate / deallocate, the
// Create / Destroy of every object, the calls and the library's own Init / Term hook events (PlatformUtils.cpp) are
// appended to the trace, which spec/MemLedgerTrace.tla validates.  Block addresses are mapped to small ids (an id
// is reused after the block was returned, like the address).
// Operations: ["init",u] ["term"] ["create",o,m,api] ["call",o,d,k,mode] ["adopt",o,d2] ["destroy",o]
#include "vh.hpp"
#include <xercesc/dom/DOM.hpp>
#include <xercesc/framework/MemBufInputSource.hpp>
#include <xercesc/framework/MemoryManager.hpp>
#include <xercesc/framework/Wrapper4InputSource.hpp>
#include <xercesc/framework/XMLPScanToken.hpp>
#include <xercesc/parsers/SAX2XMLReaderImpl.hpp>
#include <xercesc/parsers/SAXParser.hpp>
#include <xercesc/parsers/XercesDOMParser.hpp>
#include <xercesc/sax/HandlerBase.hpp>
#include <xercesc/sax/SAXException.hpp>
#include <xercesc/sax2/DefaultHandler.hpp>
#include <xercesc/util/OutOfMemoryException.hpp>
#include <xercesc/util/VerifHooks.hpp>
#include <xercesc/util/XMLEntityResolver.hpp>
#include <xercesc/util/XMLResourceIdentifier.hpp>
#include <xercesc/util/XMLUni.hpp>
#include <set>
#include <unordered_map>
using namespace vh;
using namespace XERCES_CPP_NAMESPACE;

static FILE* gTrace = nullptr;
static long gEvents = 0;
static void ev(const char* e, const char* m, long b, long o, long n) {
    if (!gTrace) return;
    fprintf(gTrace, "{\"e\":\"%s\",\"m\":\"%s\",\"b\":%ld,\"o\":%ld,\"n\":%ld}\n", e, m, b, o, n);
    gEvents++;
}

// ---- the instrumented manager (the seam of DESIGN.md 2.1) -----------------------------------------------------------
struct LedgerMM : public MemoryManager {
    std::string name;
    std::unordered_map<void*, long> live;
    std::set<long> freeIds;
    long next = 1;
    long allocs = 0, frees = 0, foreign = 0;
    explicit LedgerMM(const std::string& n) : name(n) {}
    MemoryManager* getExceptionMemoryManager() override { return this; }
    void* allocate(XMLSize_t size) override {
        void* p = ::malloc(size ? size : 1);
        if (!p) throw OutOfMemoryException();
        long id;
        if (!freeIds.empty()) { id = *freeIds.begin(); freeIds.erase(freeIds.begin()); } else id = next++;
        live[p] = id;
        allocs++;
        ev("A", name.c_str(), id, 0, (long)size);
        return p;
    }
    void deallocate(void* p) override {
        if (!p) return;
        auto it = live.find(p);
        if (it == live.end()) {          // foreign pointer or second release: reported, not passed on to free()
            foreign++;
            ev("D", name.c_str(), 0, 0, 0);
            return;
        }
        long id = it->second;
        live.erase(it);
        freeIds.insert(id);
        frees++;
        ev("D", name.c_str(), id, 0, 0);
        ::free(p);
    }
};

static void hookSink(const char* e, const char*, const char*, const long long* vals, int n) {
    if (!strcmp(e, "Init") && n >= 3) ev("Init", vals[1] ? "user" : "default", 0, (long)vals[2], (long)vals[0]);
    else if (!strcmp(e, "Term") && n >= 1) ev("Term", "", 0, 0, (long)vals[0]);
}

// ---- documents (valid with DTD, malformed deep in the element stack, malformed inside a nested entity, undeclared
// entity without DTD, external DTD through an entity resolver, invalid) ----------------------------------------------
static const char* DTD_A = "<!ELEMENT r (#PCDATA|a|b)*><!ELEMENT a EMPTY><!ELEMENT b (#PCDATA|a|b)*>"
                           "<!ATTLIST a id ID #IMPLIED ref IDREF #IMPLIED k CDATA \"dA\"><!ENTITY e \"fromA\">";
static const char* DTD_C = "<!ELEMENT r ANY><!ELEMENT a ANY><!ELEMENT b ANY><!ENTITY e \"<a>&f;</a>\"><!ENTITY f \"<a><b></a>\">";
#define SYS_A "file:///vf/gA.dtd"
static const std::vector<std::string>& docs() {
    static const std::vector<std::string> v = {
        "",
        std::string("<!DOCTYPE r [") + DTD_A + "]>\n<r><a id=\"x\"/><a ref=\"x\"/>text &e; <b><a/><!-- c --><?pi d?></b></r>",   // 1 valid
        std::string("<!DOCTYPE r [") + DTD_A + "]>\n<r><a id=\"x\"/><b><b attr=\"v\">text</r>",                                  // 2 mismatched tag
        std::string("<!DOCTYPE r [") + DTD_C + "]>\n<r>&e;</r>",                                                                   // 3 malformed inside nested entities
        "<r><a id=\"x\"/>&e;</r>",                                                                                                // 4 undeclared entity
        std::string("<!DOCTYPE r SYSTEM \"") + SYS_A + "\">\n<r><a ref=\"q\"/><u x=\"1\"/><a id=\"i\" id=\"j\"/></r>",           // 5 external DTD, invalid, duplicate attribute
        "",                                                                                                                       // 6 empty document
    };
    return v;
}
struct MemResolver : public XMLEntityResolver {
    InputSource* resolveEntity(XMLResourceIdentifier* id) override {
        if (to8(id->getSystemId()) != SYS_A) return nullptr;
        return new MemBufInputSource(reinterpret_cast<const XMLByte*>(DTD_A), strlen(DTD_A), id->getSystemId(), false);
    }
};

struct Ctl { int throwAt = 0, seen = 0; bool hit() { return throwAt > 0 && ++seen == throwAt; } };
struct H1 : public HandlerBase {
    Ctl* c;
    explicit H1(Ctl* cc) : c(cc) {}
    void startElement(const XMLCh* const, AttributeList&) override { if (c->hit()) throw SAXException("handler exception"); }
    void characters(const XMLCh* const, const XMLSize_t) override { if (c->hit()) throw SAXException("handler exception"); }
    void warning(const SAXParseException&) override {}
    void error(const SAXParseException&) override {}
    void fatalError(const SAXParseException&) override {}
};
struct H2 : public DefaultHandler {
    Ctl* c;
    explicit H2(Ctl* cc) : c(cc) {}
    void startElement(const XMLCh* const, const XMLCh* const, const XMLCh* const, const Attributes&) override { if (c->hit()) throw SAXException("handler exception"); }
    void characters(const XMLCh* const, const XMLSize_t) override { if (c->hit()) throw SAXException("handler exception"); }
    void warning(const SAXParseException&) override {}
    void error(const SAXParseException&) override {}
    void fatalError(const SAXParseException&) override {}
};
struct TDom : public XercesDOMParser {
    Ctl* c = nullptr;
    TDom(XMLValidator* v, MemoryManager* m) : XercesDOMParser(v, m, 0) {}
    void startElement(const XMLElementDecl& d, const unsigned int u, const XMLCh* const p, const RefVectorOf<XMLAttr>& al, const XMLSize_t n,
                      const bool e, const bool r) override {
        XercesDOMParser::startElement(d, u, p, al, n, e, r);
        if (c && c->hit()) throw SAXException("handler exception");
    }
};
struct LsErr : public DOMErrorHandler { bool handleError(const DOMError&) override { return true; } };

struct Obj {
    int api = -1;            // 0 SAX, 1 SAX2, 2 DOM, 3 DOMLS, 9 adopted document
    std::string mgr;
    SAXParser* sax = nullptr;
    SAX2XMLReaderImpl* sax2 = nullptr;
    TDom* dom = nullptr;
    DOMLSParser* ls = nullptr;
    DOMDocument* doc = nullptr;
    Ctl ctl;
    H1* h1 = nullptr;
    H2* h2 = nullptr;
    HandlerBase* he = nullptr;
    LsErr* le = nullptr;
    XMLPScanToken* tok = nullptr;
    MemBufInputSource* src = nullptr;
    bool docAdopted = false;
};

static int runHistory(const json& h) {
    static MemResolver res;   // plain C++ object, no library memory
    std::map<std::string, LedgerMM*> mgrs;
    LedgerMM* gmm = new LedgerMM("g");
    std::map<int, Obj> objs;
    int initCount = 0;
    auto mm = [&](const std::string& n) { if (!mgrs.count(n)) mgrs[n] = new LedgerMM(n); return mgrs[n]; };
    auto srcOf = [&](int d) {
        const std::string& s = docs()[d];
        return new MemBufInputSource(reinterpret_cast<const XMLByte*>(s.data()), s.size(), "file:///vf/doc.xml", false);
    };
    for (auto& op : h) {
        const std::string a = op[0];
        if (a == "init") {
            const bool user = op[1].get<int>() != 0;
            ev("InitCall", user ? "user" : "default", 0, 0, 0);
            if (user) XMLPlatformUtils::Initialize(XMLUni::fgXercescDefaultLocale, 0, 0, gmm);
            else XMLPlatformUtils::Initialize();
            initCount++;
        } else if (a == "term") {
            if (initCount == 0) continue;
            ev("TermCall", "", 0, 0, 0);
            XMLPlatformUtils::Terminate();
            initCount--;
        } else if (a == "create") {
            if (initCount == 0) continue;
            int o = op[1];
            Obj& x = objs[o];
            x.mgr = op[2];
            x.api = op[3];
            LedgerMM* m = mm(x.mgr);
            ev("Create", x.mgr.c_str(), 0, o, x.api);
            if (x.api == 0) {
                x.sax = new SAXParser(0, m, 0);
                x.h1 = new H1(&x.ctl);
                x.sax->setDocumentHandler(x.h1);
                x.sax->setErrorHandler(x.h1);
                x.sax->setXMLEntityResolver(&res);
                x.sax->setValidationScheme(SAXParser::Val_Auto);
            } else if (x.api == 1) {
                x.sax2 = new SAX2XMLReaderImpl(m, 0);
                x.h2 = new H2(&x.ctl);
                x.sax2->setContentHandler(x.h2);
                x.sax2->setErrorHandler(x.h2);
                x.sax2->setXMLEntityResolver(&res);
                x.sax2->setFeature(XMLUni::fgSAX2CoreValidation, true);
                x.sax2->setFeature(XMLUni::fgXercesDynamic, true);
            } else if (x.api == 2) {
                x.dom = new TDom(0, m);
                x.dom->c = &x.ctl;
                x.he = new H1(&x.ctl);
                x.dom->setErrorHandler(x.he);
                x.dom->setXMLEntityResolver(&res);
                x.dom->setValidationScheme(AbstractDOMParser::Val_Auto);
                x.dom->setDoNamespaces(true);
            } else {
                static const XMLCh lsf[] = {chLatin_L, chLatin_S, chNull};
                DOMImplementation* impl = DOMImplementationRegistry::getDOMImplementation(lsf);
                x.ls = static_cast<DOMImplementationLS*>(impl)->createLSParser(DOMImplementationLS::MODE_SYNCHRONOUS, 0, m, 0);
                x.le = new LsErr();
                x.ls->getDomConfig()->setParameter(XMLUni::fgDOMErrorHandler, (const void*)x.le);
                x.ls->getDomConfig()->setParameter(XMLUni::fgXercesEntityResolver, (const void*)&res);
            }
        } else if (a == "call") {
            int o = op[1], d = op[2], k = op[3];
            const std::string mode = op[4];
            if (!objs.count(o) || objs[o].api < 0 || objs[o].api == 9) continue;
            Obj& x = objs[o];
            x.docAdopted = false;            // the parser starts a new document
            ev("Begin", x.mgr.c_str(), 0, o, d);
            x.ctl.throwAt = (x.api == 3) ? 0 : k;
            x.ctl.seen = 0;
            const char* how = "ok";
            // a progressive run left open by an earlier call is simply abandoned (its source must outlive it)
            MemBufInputSource* src = srcOf(d);
            try {
                if (mode == "parse" || x.api == 3) {
                    if (x.api == 0) x.sax->parse(*src);
                    else if (x.api == 1) x.sax2->parse(*src);
                    else if (x.api == 2) x.dom->parse(*src);
                    else { Wrapper4InputSource in(src, false); x.ls->parse(&in); }
                    long ec = x.api == 0 ? (long)x.sax->getErrorCount() : x.api == 1 ? (long)x.sax2->getErrorCount() : x.api == 2 ? (long)x.dom->getErrorCount() : 0;
                    if (ec > 0) how = "fatal";
                } else {
                    if (!x.tok) x.tok = new XMLPScanToken();
                    bool ok = x.api == 0 ? x.sax->parseFirst(*src, *x.tok) : x.api == 1 ? x.sax2->parseFirst(*src, *x.tok) : x.dom->parseFirst(*src, *x.tok);
                    int steps = mode == "open" ? 1 + k : 1 << 20;
                    while (ok && steps-- > 0) ok = x.api == 0 ? x.sax->parseNext(*x.tok) : x.api == 1 ? x.sax2->parseNext(*x.tok) : x.dom->parseNext(*x.tok);
                    how = ok ? "left-open" : "ok";
                }
            } catch (const SAXException&) { how = "handler"; }
            catch (const XMLException&) { how = "fatal"; }
            catch (const DOMException&) { how = "fatal"; }
            catch (...) { how = "fatal"; }
            if (!strcmp(how, "left-open")) { delete x.src; x.src = src; } else delete src;
            ev("End", how, 0, o, 0);
        } else if (a == "adopt") {
            int o = op[1], d2 = op[2];
            if (!objs.count(o) || objs[o].api != 2 || objs.count(d2)) continue;
            Obj& x = objs[o];
            if (!x.dom->getDocument() || x.docAdopted) continue;
            Obj& y = objs[d2];
            y.api = 9;
            y.mgr = x.mgr;
            ev("Create", y.mgr.c_str(), 0, d2, 9);
            y.doc = x.dom->adoptDocument();
            x.docAdopted = true;
        } else if (a == "destroy") {
            int o = op[1];
            if (!objs.count(o) || objs[o].api < 0) continue;
            Obj& x = objs[o];
            ev("DestroyB", x.mgr.c_str(), 0, o, 0);
            if (x.api == 9) x.doc->release();
            else {
                if (x.ls) x.ls->release();
                delete x.dom;
                delete x.sax2;
                delete x.sax;
                delete x.tok;
                delete x.src;
                delete x.h1; delete x.h2; delete x.he; delete x.le;
            }
            ev("Destroy", x.mgr.c_str(), 0, o, 0);
            objs.erase(o);
        }
    }
    return 0;
}

int main(int argc, char** argv) {
    if (argc < 3 || std::string(argv[1]) != "run") return 2;
    const char* path = argv[2];
    { FILE* f = fopen(path, "w"); if (!f) return 2; fclose(f); }
    signal(SIGPIPE, SIG_IGN);
    std::string line;
    long lines = 0, histories = 0, crashed = 0, events = 0;
    std::map<std::string, long> counts;
    while (std::getline(std::cin, line)) {
        lines++;
        json h;
        if (!decode_tlc_line(line, h)) { counts["torn"]++; continue; }
        histories++;
        for (auto& op : h) counts["op:" + op[0].get<std::string>()]++;
        int pfd[2];
        if (pipe(pfd)) return 2;
        fflush(stdout);
        pid_t pid = fork();
        if (pid < 0) return 2;
        if (pid == 0) {
            close(pfd[0]);
            alarm(120);
            gTrace = fopen(path, "a");
            setvbuf(gTrace, nullptr, _IOLBF, 1 << 12);     // one write per line: a dying process cannot leave a torn line
            ev("Reset", "", 0, 0, histories);
            gVerifSink = hookSink;
            runHistory(h);
            ev("Done", "", 0, 0, histories);
            fflush(gTrace);
            fclose(gTrace);
            std::string n = std::to_string(gEvents) + "\n";
            if (write(pfd[1], n.data(), n.size()) < 0) {}
            _exit(0);
        }
        close(pfd[1]);
        char b[64];
        ssize_t r = read(pfd[0], b, sizeof b - 1);
        close(pfd[0]);
        int st = 0;
        waitpid(pid, &st, 0);
        if (r > 0) { b[r] = 0; events += atol(b); }
        if (!WIFEXITED(st) || WEXITSTATUS(st) != 0) {
            crashed++;
            json ops = h;
            std::string what = WIFSIGNALED(st) ? "crash:signal" + std::to_string(WTERMSIG(st)) : "crash:exit" + std::to_string(WEXITSTATUS(st));
            emit({{"t", "mismatch"}, {"cls", {{"action", "history"}, {"kind", "crash"}, {"res", what}}}, {"why", "a life-cycle history did not return: " + what},
                  {"case", {{"mode", "W"}, {"history", ops}, {"res", what}}}});
            // the trace of the dead process is cut off: close it so that the next history starts cleanly
            FILE* f = fopen(path, "a");
            if (f) { fprintf(f, "{\"e\":\"Crash\",\"m\":\"\",\"b\":0,\"o\":0,\"n\":%ld}\n", histories); fclose(f); }
        }
    }
    json s = {{"t", "summary"}, {"lines", lines}, {"histories", histories}, {"crashed", crashed}, {"events", events}, {"counts", counts}};
    emit(s);
    return 0;
}
