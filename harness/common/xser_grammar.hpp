// xser_grammar.hpp - grammar-pool part of xser_harness (C16): included by harness/xser_harness.cpp only.
// Behaviour-level binder T (pool A vs deserialize(serialize(A))) and recorder for binder V (XSerGraphTrace).
#pragma once
#include <sys/wait.h>
#include <unistd.h>

namespace xg {

static std::string S(const XMLCh* p) { return p ? vh::to8(p) : std::string("\x01null"); }
static json J(const XMLCh* p) { return p ? json(vh::to8(p)) : json(nullptr); }

static std::string readFile(const std::string& path) {
    std::ifstream f(path, std::ios::binary);
    std::stringstream ss;
    ss << f.rdbuf();
    return ss.str();
}

// ---- component enumeration ---------------------------------------------------------------------
static json strList(StringList* l) {
    json a = json::array();
    if (l) for (XMLSize_t i = 0; i < l->size(); i++) a.push_back(J(l->elementAt(i)));
    return a;
}
static json typeRef(XSTypeDefinition* t);
static json describeSimple(XSSimpleTypeDefinition* t, int depth);
static json describeType(XSTypeDefinition* t, int depth);
static json describeElem(XSElementDeclaration* e, int depth);

static json describeWildcard(XSWildcard* w) {
    if (!w) return nullptr;
    return {{"constraint", (int)w->getConstraintType()}, {"process", (int)w->getProcessContents()}, {"ns", strList(w->getNsConstraintList())}};
}
static json describeAttrDecl(XSAttributeDeclaration* a, int depth) {
    if (!a) return nullptr;
    return {{"name", J(a->getName())}, {"ns", J(a->getNamespace())}, {"scope", (int)a->getScope()}, {"ctype", (int)a->getConstraintType()},
            {"cvalue", J(a->getConstraintValue())}, {"required", a->getRequired()},
            {"type", a->getTypeDefinition() ? (a->getTypeDefinition()->getAnonymous() && depth > 0 ? describeSimple(a->getTypeDefinition(), depth - 1) : typeRef(a->getTypeDefinition())) : json(nullptr)},
            {"annot", a->getAnnotation() ? J(a->getAnnotation()->getAnnotationString()) : json(nullptr)}};
}
static json describeAttrUses(XSAttributeUseList* l, int depth) {
    json a = json::array();
    if (l) for (XMLSize_t i = 0; i < l->size(); i++) {
        XSAttributeUse* u = l->elementAt(i);
        a.push_back({{"required", u->getRequired()}, {"ctype", (int)u->getConstraintType()}, {"cvalue", J(u->getConstraintValue())},
                     {"decl", describeAttrDecl(u->getAttrDeclaration(), depth)}});
    }
    std::sort(a.begin(), a.end(), [](const json& x, const json& y) { return x.dump() < y.dump(); });
    return a;
}
static json typeRef(XSTypeDefinition* t) {
    if (!t) return nullptr;
    return json::array({J(t->getNamespace()), J(t->getName()), t->getAnonymous()});
}
static json describeParticle(XSParticle* p, int depth) {
    if (!p) return nullptr;
    json j = {{"min", (long long)p->getMinOccurs()}, {"max", p->getMaxOccursUnbounded() ? -1LL : (long long)p->getMaxOccurs()}, {"term", (int)p->getTermType()}};
    if (depth <= 0) return j;
    if (p->getTermType() == XSParticle::TERM_ELEMENT) {
        XSElementDeclaration* e = p->getElementTerm();
        j["elem"] = e->getScope() == XSConstants::SCOPE_GLOBAL ? json::array({J(e->getNamespace()), J(e->getName())}) : describeElem(e, depth - 1);
    } else if (p->getTermType() == XSParticle::TERM_MODELGROUP) {
        XSModelGroup* g = p->getModelGroupTerm();
        json ps = json::array();
        XSParticleList* l = g->getParticles();
        if (l) for (XMLSize_t i = 0; i < l->size(); i++) ps.push_back(describeParticle(l->elementAt(i), depth - 1));
        j["group"] = {{"compositor", (int)g->getCompositor()}, {"particles", ps}};
    } else if (p->getTermType() == XSParticle::TERM_WILDCARD) j["wildcard"] = describeWildcard(p->getWildcardTerm());
    return j;
}
static json describeSimple(XSSimpleTypeDefinition* t, int depth) {
    if (!t) return nullptr;
    json j = {{"name", J(t->getName())}, {"ns", J(t->getNamespace())}, {"anon", t->getAnonymous()}, {"variety", (int)t->getVariety()},
              {"final", (int)t->getFinal()}, {"ordered", (int)t->getOrdered()}, {"bounded", t->getBounded()}, {"finite", t->getFinite()},
              {"numeric", t->getNumeric()}, {"defined", t->getDefinedFacets()}, {"fixed", t->getFixedFacets()},
              {"enum", strList(t->getLexicalEnumeration())}, {"pattern", strList(t->getLexicalPattern())}, {"base", typeRef(t->getBaseType())},
              {"primitive", typeRef(t->getPrimitiveType())}, {"item", typeRef(t->getItemType())}};
    json fs = json::array();
    if (XSFacetList* l = t->getFacets())
        for (XMLSize_t i = 0; i < l->size(); i++) fs.push_back({(int)l->elementAt(i)->getFacetKind(), J(l->elementAt(i)->getLexicalFacetValue()), l->elementAt(i)->isFixed()});
    std::sort(fs.begin(), fs.end(), [](const json& x, const json& y) { return x.dump() < y.dump(); });   // the list follows hash-table order
    j["facets"] = fs;
    json ms = json::array();
    if (XSSimpleTypeDefinitionList* l = t->getMemberTypes())
        for (XMLSize_t i = 0; i < l->size(); i++) ms.push_back(l->elementAt(i)->getAnonymous() && depth > 0 ? describeSimple(l->elementAt(i), depth - 1) : typeRef(l->elementAt(i)));
    j["members"] = ms;
    if (t->getItemType() && t->getItemType()->getAnonymous() && depth > 0) j["itemDef"] = describeSimple(t->getItemType(), depth - 1);
    if (t->getBaseType() && t->getBaseType()->getAnonymous() && depth > 0) j["baseDef"] = describeType(t->getBaseType(), depth - 1);
    json an = json::array();
    if (XSAnnotationList* l = t->getAnnotations()) for (XMLSize_t i = 0; i < l->size(); i++) an.push_back(J(l->elementAt(i)->getAnnotationString()));
    j["annot"] = an;
    return j;
}
static json describeType(XSTypeDefinition* t, int depth) {
    if (!t) return nullptr;
    if (t->getTypeCategory() == XSTypeDefinition::SIMPLE_TYPE) return describeSimple((XSSimpleTypeDefinition*)t, depth);
    XSComplexTypeDefinition* c = (XSComplexTypeDefinition*)t;
    json j = {{"name", J(c->getName())}, {"ns", J(c->getNamespace())}, {"anon", c->getAnonymous()}, {"complex", true}, {"final", (int)c->getFinal()},
              {"derivation", (int)c->getDerivationMethod()}, {"abstract", c->getAbstract()}, {"content", (int)c->getContentType()},
              {"prohibited", (int)c->getProhibitedSubstitutions()}, {"base", typeRef(c->getBaseType())},
              {"attrs", describeAttrUses(c->getAttributeUses(), depth)}, {"attrWildcard", describeWildcard(c->getAttributeWildcard())},
              {"simple", c->getSimpleType() ? (depth > 0 ? describeSimple(c->getSimpleType(), depth - 1) : typeRef(c->getSimpleType())) : json(nullptr)},
              {"particle", describeParticle(c->getParticle(), depth)}};
    json an = json::array();
    if (XSAnnotationList* l = c->getAnnotations()) for (XMLSize_t i = 0; i < l->size(); i++) an.push_back(J(l->elementAt(i)->getAnnotationString()));
    j["annot"] = an;
    return j;
}
static json describeElem(XSElementDeclaration* e, int depth) {
    if (!e) return nullptr;
    json j = {{"name", J(e->getName())}, {"ns", J(e->getNamespace())}, {"scope", (int)e->getScope()}, {"ctype", (int)e->getConstraintType()},
              {"cvalue", J(e->getConstraintValue())}, {"nillable", e->getNillable()}, {"abstract", e->getAbstract()},
              {"disallowed", (int)e->getDisallowedSubstitutions()}, {"exclusions", (int)e->getSubstitutionGroupExclusions()},
              {"annot", e->getAnnotation() ? J(e->getAnnotation()->getAnnotationString()) : json(nullptr)}};
    XSElementDeclaration* sg = e->getSubstitutionGroupAffiliation();
    j["subst"] = sg ? json::array({J(sg->getNamespace()), J(sg->getName())}) : json(nullptr);
    XSTypeDefinition* t = e->getTypeDefinition();
    j["type"] = t ? (t->getAnonymous() && depth > 0 ? describeType(t, depth - 1) : typeRef(t)) : json(nullptr);
    json ics = json::array();
    if (XSNamedMap<XSIDCDefinition>* m = e->getIdentityConstraints())
        for (XMLSize_t i = 0; i < m->getLength(); i++) {
            XSIDCDefinition* ic = m->item(i);
            ics.push_back({{"name", J(ic->getName())}, {"ns", J(ic->getNamespace())}, {"cat", (int)ic->getCategory()}, {"selector", J(ic->getSelectorStr())},
                           {"fields", strList(ic->getFieldStrs())}, {"refer", ic->getRefKey() ? J(ic->getRefKey()->getName()) : json(nullptr)}});
        }
    std::sort(ics.begin(), ics.end(), [](const json& x, const json& y) { return x.dump() < y.dump(); });
    j["idc"] = ics;
    return j;
}

static json describeModel(XMLGrammarPool* pool) {
    json out = json::object();
    bool changed = false;
    XSModel* m = pool->getXSModel(changed);
    if (!m) return out;
    const int D = 6;
    json items = json::array();
    XSNamespaceItemList* nsl = m->getNamespaceItems();
    for (XMLSize_t n = 0; nsl && n < nsl->size(); n++) {
        XSNamespaceItem* ni = nsl->elementAt(n);
        std::string ns = S(ni->getSchemaNamespace());
        if (ns == "http://www.w3.org/2001/XMLSchema") continue;      // built-in types: the same object in every pool
        auto each = [&](XSConstants::COMPONENT_TYPE ct, const char* tag, std::function<json(XSObject*)> f) {
            XSNamedMap<XSObject>* mp = ni->getComponents(ct);
            json a = json::array();
            if (mp) for (XMLSize_t i = 0; i < mp->getLength(); i++) a.push_back(f(mp->item(i)));
            std::sort(a.begin(), a.end(), [](const json& x, const json& y) { return x.dump() < y.dump(); });
            items.push_back({ns, tag, a});
        };
        each(XSConstants::ELEMENT_DECLARATION, "element", [&](XSObject* o) { return describeElem((XSElementDeclaration*)o, D); });
        each(XSConstants::ATTRIBUTE_DECLARATION, "attribute", [&](XSObject* o) { return describeAttrDecl((XSAttributeDeclaration*)o, D); });
        each(XSConstants::TYPE_DEFINITION, "type", [&](XSObject* o) { return describeType((XSTypeDefinition*)o, D); });
        each(XSConstants::ATTRIBUTE_GROUP_DEFINITION, "attributeGroup", [&](XSObject* o) {
            XSAttributeGroupDefinition* g = (XSAttributeGroupDefinition*)o;
            return json{{"name", J(g->getName())}, {"uses", describeAttrUses(g->getAttributeUses(), D)}, {"wildcard", describeWildcard(g->getAttributeWildcard())}};
        });
        each(XSConstants::MODEL_GROUP_DEFINITION, "group", [&](XSObject* o) {
            XSModelGroupDefinition* g = (XSModelGroupDefinition*)o;
            XSModelGroup* mg = g->getModelGroup();
            json ps = json::array();
            if (mg && mg->getParticles()) for (XMLSize_t i = 0; i < mg->getParticles()->size(); i++) ps.push_back(describeParticle(mg->getParticles()->elementAt(i), D));
            return json{{"name", J(g->getName())}, {"compositor", mg ? (int)mg->getCompositor() : -1}, {"particles", ps}};
        });
        each(XSConstants::NOTATION_DECLARATION, "notation", [&](XSObject* o) {
            XSNotationDeclaration* d = (XSNotationDeclaration*)o;
            return json{{"name", J(d->getName())}, {"public", J(d->getPublicId())}, {"system", J(d->getSystemId())}};
        });
        json an = json::array();
        if (XSAnnotationList* l = ni->getAnnotations()) for (XMLSize_t i = 0; i < l->size(); i++) an.push_back(J(l->elementAt(i)->getAnnotationString()));
        items.push_back({ns, "annotations", an});
    }
    std::sort(items.begin(), items.end(), [](const json& x, const json& y) { return x.dump() < y.dump(); });
    out["xsmodel"] = items;
    return out;
}

static json describeAttDefs(XMLAttDefList& l) {
    json as = json::array();
    for (XMLSize_t i = 0; i < l.getAttDefCount(); i++) {
        XMLAttDef& a = l.getAttDef(i);
        as.push_back({J(a.getFullName()), (int)a.getType(), (int)a.getDefaultType(), J(a.getValue()), J(a.getEnumeration()), a.isExternal(), (int)a.getCreateReason()});
    }
    std::sort(as.begin(), as.end(), [](const json& x, const json& y) { return x.dump() < y.dump(); });
    return as;
}

// the grammar objects themselves (what the validators use): DTD and schema grammars of the pool
static json describeGrammars(XMLGrammarPoolImpl* pool) {
    json gs = json::array();
    RefHashTableOfEnumerator<Grammar> en = pool->getGrammarEnumerator();
    while (en.hasMoreElements()) {
        Grammar& g = en.nextElement();
        json j = {{"type", (int)g.getGrammarType()}, {"tns", J(g.getTargetNamespace())}, {"validated", g.getValidated()}};
        if (g.getGrammarType() == Grammar::DTDGrammarType) {
            DTDGrammar& d = (DTDGrammar&)g;
            json els = json::array(), ents = json::array(), nots = json::array();
            NameIdPoolEnumerator<DTDElementDecl> ee = d.getElemEnumerator();
            while (ee.hasMoreElements()) {
                DTDElementDecl& e = ee.nextElement();
                json a = json::array();
                if (e.hasAttDefs()) a = describeAttDefs(e.getAttDefList());
                els.push_back({J(e.getFullName()), (int)e.getModelType(), J(e.getFormattedContentModel()), (int)e.getCreateReason(), e.isDeclared(), a});
            }
            NameIdPoolEnumerator<DTDEntityDecl> ne = d.getEntityEnumerator();
            while (ne.hasMoreElements()) {
                DTDEntityDecl& e = ne.nextElement();
                ents.push_back({J(e.getName()), J(e.getValue()), J(e.getPublicId()), J(e.getSystemId()), J(e.getNotationName()), e.getIsParameter(),
                                e.getDeclaredInIntSubset(), e.isExternal(), e.isUnparsed(), (long long)e.getValueLen()});
            }
            NameIdPoolEnumerator<XMLNotationDecl> oe = d.getNotationEnumerator();
            while (oe.hasMoreElements()) {
                XMLNotationDecl& n = oe.nextElement();
                nots.push_back({J(n.getName()), J(n.getPublicId()), J(n.getSystemId())});
            }
            auto srt = [](json& a) { std::sort(a.begin(), a.end(), [](const json& x, const json& y) { return x.dump() < y.dump(); }); };
            srt(els); srt(ents); srt(nots);
            j["elements"] = els; j["entities"] = ents; j["notations"] = nots;
        } else {
            SchemaGrammar& s = (SchemaGrammar&)g;
            json els = json::array(), nots = json::array();
            RefHash3KeysIdPoolEnumerator<SchemaElementDecl> ee = s.getElemEnumerator();
            while (ee.hasMoreElements()) {
                SchemaElementDecl& e = ee.nextElement();
                json a = json::array();
                if (e.hasAttDefs()) a = describeAttDefs(e.getAttDefList());
                els.push_back({J(e.getFullName()), (int)e.getURI(), (int)e.getModelType(), J(e.getFormattedContentModel()), J(e.getDefaultValue()), (int)e.getMiscFlags(),
                               (int)e.getFinalSet(), (int)e.getBlockSet(), (int)e.getEnclosingScope(), e.isGlobalDecl(), (long long)e.getIdentityConstraintCount(), a});
            }
            NameIdPoolEnumerator<XMLNotationDecl> oe = s.getNotationEnumerator();
            while (oe.hasMoreElements()) {
                XMLNotationDecl& n = oe.nextElement();
                nots.push_back({J(n.getName()), J(n.getPublicId()), J(n.getSystemId())});
            }
            auto srt = [](json& a) { std::sort(a.begin(), a.end(), [](const json& x, const json& y) { return x.dump() < y.dump(); }); };
            srt(els); srt(nots);
            j["elements"] = els; j["notations"] = nots;
        }
        gs.push_back(j);
    }
    std::sort(gs.begin(), gs.end(), [](const json& x, const json& y) { return x.dump() < y.dump(); });
    return gs;
}

// ---- validation dump -------------------------------------------------------------------------------
class CodeReader : public SAX2XMLReaderImpl {
public:
    json* errs = nullptr;
    CodeReader(MemoryManager* m, XMLGrammarPool* p) : SAX2XMLReaderImpl(m, p) {}
    void error(const unsigned int code, const XMLCh* const domain, const XMLErrorReporter::ErrTypes type, const XMLCh* const text, const XMLCh* const sys,
               const XMLCh* const pub, const XMLFileLoc line, const XMLFileLoc col) override {
        std::string d = S(domain);
        size_t k = d.rfind('/');
        if (errs) errs->push_back({"err", k == std::string::npos ? d : d.substr(k + 1), code, (int)type, (long long)line, (long long)col});
        SAX2XMLReaderImpl::error(code, domain, type, text, sys, pub, line, col);
    }
};

class Dumper : public DefaultHandler, public PSVIHandler {
public:
    json ev = json::array();
    std::string pend;
    void flush() { if (!pend.empty()) { ev.push_back({"ch", pend}); pend.clear(); } }
    void startElement(const XMLCh* const uri, const XMLCh* const local, const XMLCh* const qn, const Attributes& at) override {
        flush();
        json as = json::array();
        for (XMLSize_t i = 0; i < at.getLength(); i++) as.push_back({S(at.getURI(i)), S(at.getLocalName(i)), S(at.getValue(i)), S(at.getType(i))});
        std::sort(as.begin(), as.end());
        ev.push_back({"se", S(uri), S(local), S(qn), as});
    }
    void endElement(const XMLCh* const uri, const XMLCh* const local, const XMLCh* const) override { flush(); ev.push_back({"ee", S(uri), S(local)}); }
    void characters(const XMLCh* const c, const XMLSize_t n) override { pend += vh::to8(c, n); }
    void ignorableWhitespace(const XMLCh* const c, const XMLSize_t n) override { flush(); ev.push_back({"iw", vh::to8(c, n)}); }
    void unparsedEntityDecl(const XMLCh* const n, const XMLCh* const p, const XMLCh* const s, const XMLCh* const nt) override { ev.push_back({"ued", S(n), S(p), S(s), S(nt)}); }
    void notationDecl(const XMLCh* const n, const XMLCh* const p, const XMLCh* const s) override { ev.push_back({"nd", S(n), S(p), S(s)}); }
    void warning(const SAXParseException&) override {}
    void error(const SAXParseException&) override {}
    void fatalError(const SAXParseException&) override {}
    static json item(PSVIItem* it, XSTypeDefinition* t, XSSimpleTypeDefinition* m) {
        return {(int)it->getValidity(), (int)it->getValidationAttempted(), typeRef(t), typeRef(m), J(it->getSchemaDefault()), J(it->getSchemaNormalizedValue()),
                it->getIsSchemaSpecified(), J(it->getCanonicalRepresentation())};
    }
    void handleElementPSVI(const XMLCh* const local, const XMLCh* const uri, PSVIElement* e) override {
        flush();
        XSElementDeclaration* d = e->getElementDeclaration();
        XSNotationDeclaration* n = e->getNotationDeclaration();
        ev.push_back({"pe", S(uri), S(local), item(e, e->getTypeDefinition(), e->getMemberTypeDefinition()), d ? json::array({J(d->getNamespace()), J(d->getName()), (int)d->getScope()}) : json(nullptr),
                      n ? J(n->getName()) : json(nullptr)});
    }
    void handlePartialElementPSVI(const XMLCh* const, const XMLCh* const, PSVIElement*) override {}
    void handleAttributesPSVI(const XMLCh* const local, const XMLCh* const uri, PSVIAttributeList* l) override {
        json as = json::array();
        for (XMLSize_t i = 0; i < l->getLength(); i++) {
            PSVIAttribute* a = l->getAttributePSVIAtIndex(i);
            XSAttributeDeclaration* d = a->getAttributeDeclaration();
            as.push_back({S(l->getAttributeNamespaceAtIndex(i)), S(l->getAttributeNameAtIndex(i)), item(a, a->getTypeDefinition(), a->getMemberTypeDefinition()),
                          d ? json::array({J(d->getNamespace()), J(d->getName()), (int)d->getScope()}) : json(nullptr)});
        }
        std::sort(as.begin(), as.end(), [](const json& x, const json& y) { return x.dump() < y.dump(); });
        ev.push_back({"pa", S(uri), S(local), as});
    }
};

static const char* VIRT = "file:///c16virt/";

static json validate(XMLGrammarPool* pool, const std::string& instBytes, const std::string& sysId, bool psvi) {
    Dumper d;
    json res;
    {
        CodeReader rd(XMLPlatformUtils::fgMemoryManager, pool);
        rd.errs = &d.ev;
        rd.setFeature(XMLUni::fgSAX2CoreNameSpaces, true);
        rd.setFeature(XMLUni::fgXercesSchema, true);
        rd.setFeature(XMLUni::fgSAX2CoreValidation, true);
        rd.setFeature(XMLUni::fgXercesDynamic, false);
        rd.setFeature(XMLUni::fgSAX2CoreNameSpacePrefixes, true);
        rd.setFeature(XMLUni::fgXercesUseCachedGrammarInParse, true);
        rd.setFeature(XMLUni::fgXercesIdentityConstraintChecking, true);
        rd.setContentHandler(&d);
        rd.setErrorHandler(&d);
        rd.setDTDHandler(&d);
        if (psvi) rd.setPSVIHandler(&d);
        std::string exc;
        try {
            MemBufInputSource src((const XMLByte*)instBytes.data(), instBytes.size(), vh::X(sysId).c());
            rd.parse(src);
        } catch (const OutOfMemoryException&) { exc = "OutOfMemoryException";
        } catch (const XMLException& e) { exc = "XMLException:" + vh::to8(e.getType());
        } catch (const SAXParseException&) { exc = "SAXParseException";
        } catch (const SAXException&) { exc = "SAXException";
        } catch (...) { exc = "unknown"; }
        d.flush();
        res = {{"events", d.ev}, {"exception", exc}, {"errorCount", (long long)rd.getErrorCount()}};
    }
    return res;
}

static std::string firstDiff(const json& a, const json& b, const std::string& path = "") {
    if (a == b) return "";
    if (a.type() != b.type()) return path + ": " + a.dump().substr(0, 200) + " vs " + b.dump().substr(0, 200);
    if (a.is_array()) {
        if (a.size() != b.size()) return path + ": length " + std::to_string(a.size()) + " vs " + std::to_string(b.size()) +
                                         (a.size() && b.size() ? " first " + a[std::min(a.size(), b.size()) - 1].dump().substr(0, 120) : "");
        for (size_t i = 0; i < a.size(); i++) { std::string r = firstDiff(a[i], b[i], path + "[" + std::to_string(i) + "]"); if (!r.empty()) return r; }
    }
    if (a.is_object()) {
        for (auto it = a.begin(); it != a.end(); ++it) {
            if (!b.contains(it.key())) return path + "." + it.key() + ": missing";
            std::string r = firstDiff(it.value(), b[it.key()], path + "." + it.key());
            if (!r.empty()) return r;
        }
    }
    return path + ": " + a.dump().substr(0, 200) + " vs " + b.dump().substr(0, 200);
}

// ---- trace writer: uniform records for XSerGraphTrace ------------------------------------------------
// {"e","d","k","n","v","p","c","pos","sz","src"}; d = phase (0 store of A, 1 load into B, 2 store of B); pointers renumbered per
// phase in order of first appearance; src = line (1-based, within the file) of the event that created the id a ref/class tag names.
struct TraceWriter {
    FILE* f = nullptr;
    long lineNo = 0;
    void raw(const json& j) { std::string s = vh::dumpLine(j); fwrite(s.data(), 1, s.size(), f); lineNo++; }
    // returns number of events written
    long phase(const std::vector<Ev>& ev, int d) {
        std::unordered_map<long long, long long> ptrNo;
        std::unordered_map<long long, long> idLine;      // pool id -> line of the creating event
        auto pn = [&](long long p) -> long long {
            if (p == 0) return 0;
            auto it = ptrNo.find(p);
            if (it != ptrNo.end()) return it->second;
            long long n = (long long)ptrNo.size() + 1;
            ptrNo[p] = n;
            return n;
        };
        long cnt = 0;
        long long pendPos = -1;
        for (auto& x : ev) {
            json j = {{"e", x.e}, {"d", d}, {"k", x.k}, {"n", x.n}, {"v", x.v}, {"p", 0}, {"c", x.c}, {"pos", x.pos}, {"sz", 0}, {"src", 0}};
            if (x.e == "XsBuf") continue;
            if (x.e == "XsPrim") { j["k"] = x.t; j["sz"] = x.s; j["n"] = 0; }
            else if (x.e == "XsBytes") { }
            else if (x.e == "XsBytesB") { pendPos = x.pos; if (x.n != 0) continue; j["e"] = "XsBytes"; j["v"] = 17; }
            else if (x.e == "XsBytesE") { j["e"] = "XsBytes"; j["pos"] = pendPos; }
            else if (x.e == "XsStr") { j["k"] = x.w; j["v"] = x.b; }
            else if (x.e == "XsLevel") { j["k"] = x.ok; }
            else if (x.e == "XsObj" || x.e == "XsCls" || x.e == "XsTpl") {
                if (x.k == 2) {
                    if (!(x.e == "XsTpl" && x.d == 1)) { j["p"] = pn(x.p); }
                    idLine[x.n] = lineNo + 1;
                } else if (x.k == 1) {
                    j["p"] = pn(x.e == "XsCls" && x.d == 1 ? x.q : x.p);
                    auto it = idLine.find(x.n);
                    j["src"] = it == idLine.end() ? 0 : it->second;
                }
            } else if (x.e == "XsReg" || x.e == "XsEnd") { j["p"] = pn(x.p); }
            raw(j);
            cnt++;
        }
        return cnt;
    }
};

}  // namespace xg

// =================================================================================================
// mode g
// =================================================================================================
static int modeG(const std::string& manifestPath, const std::string& outdir, const std::string& only) {
    using namespace xg;
    vh::Init init;
    json man = json::parse(readFile(manifestPath));
    std::string dir = manifestPath.substr(0, manifestPath.rfind('/') + 1);
    std::map<std::string, long> counts;
    json samples = json::array();
    auto mism = [&](const json& cls, const json& cs, const std::string& why) {
        vh::emit({{"t", "mismatch"}, {"cls", cls}, {"case", cs}, {"why", why}});
        counts["mismatches"]++;
    };
    for (auto& ent : man["grammars"]) {
        std::string name = ent["name"];
        if (!only.empty() && only != name) continue;
        bool isDtd = ent["kind"] == "dtd";
        bool lock = ent.value("lock", false);
        bool psvi = ent.value("psvi", !isDtd);
        // one child process per grammar: a crash of the implementation is a disagreement, and the other grammars are still checked
        fflush(stdout);
        pid_t pid = fork();
        if (pid < 0) { perror("fork"); return 2; }
        if (pid > 0) {
            int st = 0;
            waitpid(pid, &st, 0);
            if (WIFSIGNALED(st) || (WIFEXITED(st) && WEXITSTATUS(st) != 0)) {
                std::string what = WIFSIGNALED(st) ? "signal" + std::to_string(WTERMSIG(st)) : "exit" + std::to_string(WEXITSTATUS(st));
                std::string stage = readFile(outdir + "/" + name + ".stage");
                vh::emit({{"t", "mismatch"}, {"cls", {{"binder", "T-pool"}, {"action", "roundtrip"}, {"observed", "crash"}, {"stage", stage}, {"locked", lock}}},
                          {"case", {{"mode", "G"}, {"grammar", name}, {"what", what}, {"locked", lock}}},
                          {"why", "the implementation crashed (" + what + ") during " + stage + " of grammar pool " + name}});
                vh::emit({{"t", "summary"}, {"counts", {{"grammars", 1}, {"mismatches", 1}, {"crashes", 1}}}});
            }
            continue;
        }
        auto stage = [&](const std::string& s) { std::ofstream f(outdir + "/" + name + ".stage"); f << s; };
        stage("load-grammar");
        counts["grammars"]++;
        json cs0 = {{"mode", "G"}, {"grammar", name}};
        MemoryManager* mm = XMLPlatformUtils::fgMemoryManager;
        // ---- pool A ---------------------------------------------------------------------------------
        XMLGrammarPoolImpl* A = new XMLGrammarPoolImpl(mm);
        bool loadedOk = true;
        {
            CodeReader rd(mm, A);
            json lerrs = json::array();
            rd.errs = &lerrs;
            rd.setFeature(XMLUni::fgSAX2CoreNameSpaces, true);
            rd.setFeature(XMLUni::fgXercesSchema, true);
            rd.setFeature(XMLUni::fgSAX2CoreValidation, true);
            rd.setFeature(XMLUni::fgXercesSchemaFullChecking, true);
            Dumper quiet;
            rd.setErrorHandler(&quiet);
            for (auto& gf : ent["files"]) {
                std::string bytes = readFile(dir + gf.get<std::string>());
                MemBufInputSource src((const XMLByte*)bytes.data(), bytes.size(), vh::X(std::string(VIRT) + gf.get<std::string>()).c());
                try {
                    Grammar* g = rd.loadGrammar(src, isDtd ? Grammar::DTDGrammarType : Grammar::SchemaGrammarType, true);
                    if (!g || rd.getErrorCount() != 0) { loadedOk = false; lerrs.push_back(std::string(g ? "errorCount=" : "null grammar, errorCount=") + std::to_string((long)rd.getErrorCount())); }
                } catch (const XMLException& e) { loadedOk = false; lerrs.push_back("XMLException " + vh::to8(e.getType()) + ": " + vh::to8(e.getMessage()));
                } catch (const SAXParseException& e) { loadedOk = false; lerrs.push_back("SAXParseException: " + vh::to8(e.getMessage()));
                } catch (...) { loadedOk = false; lerrs.push_back("unknown exception"); }
            }
            if (!loadedOk) vh::emit({{"t", "infra"}, {"why", "errors while loading " + name}, {"errors", lerrs}});
        }
        if (!loadedOk) {
            vh::emit({{"t", "infra"}, {"why", "grammar " + name + " does not load cleanly"}});
            counts["grammar_load_failures"]++;
            delete A;
            vh::emit({{"t", "summary"}, {"counts", counts}, {"samples", samples}});
            fflush(stdout);
            _exit(0);
        }
        if (lock) A->lockPool();
        stage("serialize");
        // ---- S1, L, S2 with the hooks on ---------------------------------------------------------------
        BinMemOutputStream out1(65536), out2(65536);
        XMLGrammarPoolImpl* Bp = new XMLGrammarPoolImpl(mm);
        std::string exc;
        std::vector<Ev> s1, l1, s2;
        {
            Capture cap;
            try { A->serializeGrammars(&out1); } catch (const XMLException& e) { exc = "S1:" + vh::to8(e.getType()) + ":" + vh::to8(e.getMessage()); }
            s1.swap(cap.ev);
        }
        stage("deserialize");
        if (exc.empty()) {
            Capture cap;
            try {
                BinMemInputStream in(out1.getRawBuffer(), (XMLSize_t)out1.curPos(), BinMemInputStream::BufOpt_Reference);
                Bp->deserializeGrammars(&in);
            } catch (const XMLException& e) { exc = "L:" + vh::to8(e.getType()) + ":" + vh::to8(e.getMessage()); }
            catch (...) { exc = "L:unknown"; }
            l1.swap(cap.ev);
        }
        stage("re-serialize");
        if (exc.empty()) {
            Capture cap;
            try { Bp->serializeGrammars(&out2); } catch (const XMLException& e) { exc = "S2:" + vh::to8(e.getType()) + ":" + vh::to8(e.getMessage()); }
            s2.swap(cap.ev);
        }
        {
            TraceWriter tw;
            std::string tp = outdir + "/" + name + ".ndjson";
            tw.f = fopen(tp.c_str(), "w");
            if (!tw.f) { perror(tp.c_str()); return 2; }
            bool same12 = exc.empty() && out1.curPos() == out2.curPos() && !memcmp(out1.getRawBuffer(), out2.getRawBuffer(), (size_t)out1.curPos());
            tw.raw({{"e", "Reset"}, {"d", -1}, {"k", same12 ? 1 : 0}, {"n", 8192}, {"v", (long long)(out1.curPos() / 8192)}, {"p", 0}, {"c", name}, {"pos", 0}, {"sz", 0}, {"src", 0}});
            long a = tw.phase(s1, 0);
            tw.raw({{"e", "Phase"}, {"d", 1}, {"k", 0}, {"n", 0}, {"v", 0}, {"p", 0}, {"c", ""}, {"pos", 0}, {"sz", 0}, {"src", 0}});
            long b = tw.phase(l1, 1);
            tw.raw({{"e", "Phase"}, {"d", 2}, {"k", 0}, {"n", 0}, {"v", (long long)(out2.curPos() / 8192)}, {"p", 0}, {"c", ""}, {"pos", 0}, {"sz", 0}, {"src", 0}});
            long c2 = tw.phase(s2, 2);
            tw.raw({{"e", "End"}, {"d", 3}, {"k", 0}, {"n", 0}, {"v", 0}, {"p", 0}, {"c", ""}, {"pos", 0}, {"sz", 0}, {"src", 0}});
            fclose(tw.f);
            counts["trace_events"] += a + b + c2;
            vh::emit({{"t", "trace"}, {"grammar", name}, {"path", tp}, {"store", a}, {"load", b}, {"restore", c2}, {"bytes", (long long)out1.curPos()}});
        }
        if (!exc.empty()) {
            mism({{"binder", "T-pool"}, {"action", "roundtrip"}, {"grammar", name}, {"observed", exc.substr(0, exc.find(':', 3))}}, cs0, "serialize/deserialize raised " + exc);
            delete A; delete Bp;
            vh::emit({{"t", "summary"}, {"counts", counts}, {"samples", samples}});
            fflush(stdout);
            _exit(0);
        }
        counts["roundtrips"]++;
        stage("compare");
        // byte streams of S1 and S2 (reported, not required: hash-table order may legitimately differ)
        bool sameBytes = out1.curPos() == out2.curPos() && !memcmp(out1.getRawBuffer(), out2.getRawBuffer(), (size_t)out1.curPos());
        counts[sameBytes ? "restore_bytes_identical" : "restore_bytes_differ"]++;
        // ---- level stamp ---------------------------------------------------------------------------------
        {
            std::vector<XMLByte> bad(out1.getRawBuffer(), out1.getRawBuffer() + out1.curPos());
            bad[0] ^= 0x01;
            XMLGrammarPoolImpl* C = new XMLGrammarPoolImpl(mm);
            std::string got = "accepted";
            std::vector<Ev> evs;
            {
                Capture cap;
                try {
                    BinMemInputStream in(bad.data(), bad.size(), BinMemInputStream::BufOpt_Reference);
                    C->deserializeGrammars(&in);
                } catch (const XSerializationException&) { got = "XSerializationException";
                } catch (const XMLException& e) { got = "XMLException:" + vh::to8(e.getType());
                } catch (...) { got = "unknown"; }
                evs.swap(cap.ev);
            }
            long reads = 0;
            for (auto& x : evs) if (x.e == "XsPrim" || x.e == "XsBytesB" || x.e == "XsObj" || x.e == "XsTpl") reads++;
            RefHashTableOfEnumerator<Grammar> en = C->getGrammarEnumerator();
            bool empty = !en.hasMoreElements();
            if (got != "XSerializationException" || reads != 1 || !empty)
                mism({{"binder", "T-pool"}, {"action", "level"}, {"observed", got}, {"readsBeforeRejection", reads}}, cs0,
                     "a stream with another level stamp: " + got + ", " + std::to_string(reads) + " items read, pool empty=" + (empty ? "true" : "false"));
            else counts["level_rejections"]++;
            delete C;
        }
        // ---- component enumerations -------------------------------------------------------------------------
        {
            json ga = describeGrammars(A), gb = describeGrammars(Bp);
            if (ga != gb) mism({{"binder", "T-pool"}, {"action", "grammar-enumeration"}, {"grammar", name}}, cs0, "grammar components differ: " + firstDiff(ga, gb));
            else counts["grammar_enumerations_equal"]++;
            if (!isDtd) {
                json ma = describeModel(A), mb = describeModel(Bp);
                if (ma != mb) mism({{"binder", "T-pool"}, {"action", "xsmodel"}, {"grammar", name}}, cs0, "XSModel components differ: " + firstDiff(ma, mb));
                else counts["xsmodels_equal"]++;
                if (samples.size() < 1) samples.push_back({{"grammar", name}, {"xsmodel_bytes", ma.dump().size()}});
            }
        }
        // ---- instances ----------------------------------------------------------------------------------------
        for (auto& inst : ent["instances"]) {
            std::string iname = inst["file"];
            std::string bytes = readFile(dir + iname);
            json ra = validate(A, bytes, std::string(VIRT) + iname, psvi);
            json rb = validate(Bp, bytes, std::string(VIRT) + iname, psvi);
            counts["instances"]++;
            long nerr = 0;
            for (auto& e : ra["events"]) if (e[0] == "err") nerr++;
            bool wantValid = inst.value("valid", true);
            if ((nerr == 0) != wantValid) {
                vh::emit({{"t", "infra"}, {"why", "instance " + iname + " expected " + (wantValid ? "valid" : "invalid") + " against pool A but has " + std::to_string(nerr) + " errors"},
                          {"errs", [&] { json a = json::array(); for (auto& e : ra["events"]) if (e[0] == "err") a.push_back(e); return a; }()}});
                counts["instance_expectation_failures"]++;
            }
            counts[nerr ? "instances_invalid" : "instances_valid"]++;
            if (ra != rb) {
                json cls = {{"binder", "T-pool"}, {"action", "validate"}, {"grammar", name}, {"instance", iname}};
                mism(cls, cs0, "validation against the restored pool differs: " + firstDiff(ra, rb));
            } else counts["instances_equal"]++;
            if (samples.size() < 3) samples.push_back({{"grammar", name}, {"instance", iname}, {"errors", nerr}, {"events", ra["events"].size()}});
        }
        delete A;
        delete Bp;
        vh::emit({{"t", "summary"}, {"counts", counts}, {"samples", samples}});
        fflush(stdout);
        _exit(0);
    }
    return 0;
}
