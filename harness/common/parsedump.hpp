// parsedump.hpp - parse bytes with any public parser API of xerces-c and return a CANONICAL EVENT DUMP.
//
// Shared by the checks of C02, C03 (owner), C04, C15, C19, ...   Header-only, no global state, C++17,
// needs vh.hpp (nlohmann/json + UTF-8/UTF-16 helpers).  XMLPlatformUtils::Initialize() must have been called.
//
//   pd::Config cfg;                       // which API, which scanner, which features (see struct Config)
//   cfg.api = pd::SAX2; cfg.scanner = "WFXMLScanner"; cfg.namespaces = false;
//   pd::Result r = pd::parseBytes(data, len, cfg);          // a fresh parser object for this one parse
//   pd::Result r = pd::parseSource(inputSource, cfg);       // any InputSource (own BinInputStream for chunking, ...)
//   pd::Session s(cfg); s.parse(src1); s.parse(src2);       // ONE parser object reused (history: C15); s.sax()/s.sax2()/
//                                                           // s.dom()/s.ls() give the underlying parser for extra settings
//   r.events    canonical list (DESIGN.md appendix A, "XmlTokens / Namespaces"), a JSON array of
//       ["sd"]                                   start of document
//       ["xd",version,encoding,standalone]       XML declaration (RAW only)
//       ["dt",name,publicId,systemId]            DOCTYPE; followed by the declarations the API shows, sorted, then ["dt-"]
//         ["ent",name,publicId,systemId,notation,value]   entity declaration (value = null where the API does not give it)
//         ["not",name,publicId,systemId]                  notation declaration
//         ["att",element,attribute,type,mode,value]       SAX2 DeclHandler only (cfg.declEvents)
//         ["el",name,model]                               SAX2 DeclHandler only (cfg.declEvents)
//       ["se",uri,local,qname,[[uri,local,qname,value,specified,type]...],line]
//                                                attributes sorted by qname (DOM maps are sorted, SAX lists are in document order)
//       ["ch",text,cdata,ignorable]              adjacent chunks with equal flags are merged
//       ["cm",text]  ["pi",target,data]
//       ["er+",name] ["er-",name]                entity reference boundaries (only when cfg.entityRefs)
//       ["pm+",prefix,uri] ["pm-",prefix]        SAX2 prefix mappings (only when cfg.prefixMappings)
//       ["ee",uri,local,qname]  ["ed"]
//       ["err",class,line(,column)]              column only when cfg.columns; class in {"warning","error","fatal"}; streaming APIs: in arrival order,
//                                                DOM/DOMLS: after the tree dump (the tree is walked after the parse)
//     A field the API cannot observe is JSON null (SAX1: uri/local/cdata/specified; DOM: line; ...); pd::caps(api)
//     says which event kinds / fields an API delivers, so that an expected list can be projected before comparing.
//     All strings are UTF-8; namespace "no URI" is "" when cfg.namespaces, null otherwise.
//   r.warnings / r.errors / r.fatals   numbers of handler callbacks by severity;  r.errorCount = parser->getErrorCount()
//   r.exception  "" or the type of the exception that escaped parse(): "SAXParseException", "SAXException",
//                "XMLException:<type>", "DOMException:<code>", "DOMLSException:<code>", "OutOfMemoryException",
//                "XMLErrs:<code>" (DOMLSParser when the handler returns false), "std::exception", "unknown"
//   r.messages   the message texts (diagnostics only - never compare them)
//   r.rejected() fatals > 0 or an exception escaped: the observation of property C02
#pragma once
#include "vh.hpp"
#include <xercesc/dom/DOM.hpp>
#include <xercesc/framework/MemBufInputSource.hpp>
#include <xercesc/framework/Wrapper4InputSource.hpp>
#include <xercesc/framework/XMLAttr.hpp>
#include <xercesc/framework/XMLDocumentHandler.hpp>
#include <xercesc/framework/XMLElementDecl.hpp>
#include <xercesc/framework/XMLEntityDecl.hpp>
#include <xercesc/framework/XMLPScanToken.hpp>
#include <xercesc/internal/XMLScanner.hpp>
#include <xercesc/parsers/SAXParser.hpp>
#include <xercesc/parsers/XercesDOMParser.hpp>
#include <xercesc/sax/AttributeList.hpp>
#include <xercesc/sax/HandlerBase.hpp>
#include <xercesc/sax/Locator.hpp>
#include <xercesc/sax/SAXParseException.hpp>
#include <xercesc/sax2/Attributes.hpp>
#include <xercesc/sax2/DefaultHandler.hpp>
#include <xercesc/sax2/SAX2XMLReader.hpp>
#include <xercesc/parsers/SAX2XMLReaderImpl.hpp>
#include <xercesc/util/OutOfMemoryException.hpp>
#include <xercesc/util/XMLEntityResolver.hpp>
#include <xercesc/util/XMLException.hpp>
#include <xercesc/util/XMLUni.hpp>
#include <algorithm>
#include <memory>

namespace pd {
using vh::json;
using namespace XERCES_CPP_NAMESPACE;

enum Api { SAX = 0, SAX2 = 1, DOM = 2, DOMLS = 3, RAW = 4 };   // RAW = SAXParser + installAdvDocHandler (internal XMLDocumentHandler stream)
inline const char* apiName(int a) {
    static const char* n[] = {"SAX", "SAX2", "DOM", "DOMLS", "RAW"};
    return (a >= 0 && a < 5) ? n[a] : "?";
}
inline int apiFromName(const std::string& s) {
    for (int i = 0; i < 5; i++) if (s == apiName(i)) return i;
    return -1;
}
inline const std::vector<std::string>& scanners() {
    static const std::vector<std::string> v = {"IGXMLScanner", "WFXMLScanner", "DGXMLScanner", "SGXMLScanner"};
    return v;
}

struct Config {
    int api = SAX2;
    bool progressive = false;            // parseFirst / parseNext loop (SAX, SAX2, DOM, RAW; ignored for DOMLS)
    std::string scanner = "IGXMLScanner";
    bool namespaces = true;
    int validation = 0;                  // 0 never, 1 always, 2 auto
    bool schema = false;
    bool loadExternalDTD = true;
    bool exitOnFirstFatal = true;
    bool entityRefs = false;             // report er+/er- (DOM: create entity reference nodes)
    bool ignorableWhitespace = true;     // DOM/DOMLS: include ignorable whitespace text nodes
    bool comments = true;                // DOM/DOMLS: create comment nodes
    bool lsFilter = false;               // DOMLS: install a pass-through DOMLSParserFilter (accepts everything)
    bool nsPrefixes = true;              // SAX2: namespace-prefixes feature, so that xmlns attributes are listed as in the other APIs
    bool prefixMappings = false;         // SAX2: include pm+/pm- events
    bool declEvents = false;             // SAX2: include att/el declaration events
    bool lines = true;                   // include line numbers (se, err); false -> null
    bool columns = false;                // err events get a 4th element: the column number
    bool disableDefaultEntityResolution = false;
    bool releaseDocs = true;             // DOM/DOMLS: resetDocumentPool() after the tree was dumped (a reused parser otherwise keeps every document)
    XMLEntityResolver* resolver = nullptr;   // not owned
    std::string sysId = "mem.xml";       // system id given to parseBytes' MemBufInputSource

    json toJson() const {
        return {{"api", apiName(api)}, {"prog", progressive}, {"scanner", scanner}, {"ns", namespaces}, {"val", validation},
                {"schema", schema}, {"erefs", entityRefs}, {"ignws", ignorableWhitespace}, {"filter", lsFilter}};
    }
    std::string tag() const {
        return std::string(apiName(api)) + (progressive ? "+prog" : "") + (lsFilter ? "+filter" : "") + "/" + scanner + "/ns" + (namespaces ? "1" : "0") +
               (entityRefs ? "/er" : "");
    }
};

// what an API delivers: event kinds and fields (used to project an expected list before comparing)
struct Caps {
    bool comments, cdataFlag, specified, lines, nsFields, doctype, entityValues, xmlDecl, erefs, attrTypes;
};
inline Caps caps(int api) {
    switch (api) {
    case SAX:   return {false, false, false, true,  false, false, false, false, false, true};
    case SAX2:  return {true,  true,  false, true,  true,  true,  true,  false, true,  true};
    case DOM:   return {true,  true,  true,  false, true,  true,  false, false, true,  false};   // attribute types: null unless validating
    case DOMLS: return {true,  true,  true,  false, true,  true,  false, false, true,  false};
    default:    return {true,  true,  true,  true,  true,  false, false, true,  true,  true};   // RAW
    }
}

struct Result {
    json events = json::array();
    long warnings = 0, errors = 0, fatals = 0;
    long errorCount = -1;
    std::string exception;
    json messages = json::array();
    bool rejected() const { return fatals > 0 || !exception.empty(); }
    json toJson() const {
        return {{"events", events}, {"warnings", warnings}, {"errors", errors}, {"fatals", fatals}, {"errorCount", errorCount}, {"exception", exception}};
    }
};

namespace detail {
inline json S(const XMLCh* p) { return p ? json(vh::to8(p)) : json(nullptr); }
inline std::string s8(const XMLCh* p) { return p ? vh::to8(p) : std::string(); }

struct Sink {
    Result* r = nullptr;
    const Config* cfg = nullptr;
    const Locator* loc = nullptr;
    std::vector<json> decls;    // declarations inside the open DOCTYPE, sorted on dt-
    bool inDtd = false;
    void push(json e) {
        if (inDtd) { const std::string k = e[0]; if (k == "ent" || k == "not" || k == "att" || k == "el") { decls.push_back(std::move(e)); return; } }
        r->events.push_back(std::move(e));
    }
    void ch(const std::string& text, json cdata, json ign) {
        if (text.empty()) return;
        if (!r->events.empty()) {
            json& l = r->events.back();
            if (l[0] == "ch" && l[2] == cdata && l[3] == ign) { l[1] = l[1].get<std::string>() + text; return; }
        }
        r->events.push_back({"ch", text, cdata, ign});
    }
    json line() const { return (cfg->lines && loc) ? json((long)loc->getLineNumber()) : json(nullptr); }
    void dtStart(json name, json pub, json sys) { r->events.push_back({"dt", name, pub, sys}); inDtd = true; decls.clear(); }
    void dtEnd() {
        std::stable_sort(decls.begin(), decls.end(), [](const json& a, const json& b) { return a.dump() < b.dump(); });
        for (auto& d : decls) r->events.push_back(d);
        decls.clear();
        inDtd = false;
        r->events.push_back({"dt-"});
    }
    json errEv(const char* cls, long line, long col) const {
        json e = {"err", cls, cfg->lines ? json(line) : json(nullptr)};
        if (cfg->columns) e.push_back(col);
        return e;
    }
    void err(const char* cls, long line, const XMLCh* msg, long col = 0) {
        if (cls[0] == 'w') r->warnings++; else if (cls[0] == 'e') r->errors++; else r->fatals++;
        r->events.push_back(errEv(cls, line, col));
        if (r->messages.size() < 8) r->messages.push_back(s8(msg));
    }
    static void sortAttrs(json& a) {
        std::stable_sort(a.begin(), a.end(), [](const json& x, const json& y) { return x[2].get<std::string>() < y[2].get<std::string>(); });
    }
};

// ---- SAX1 ---------------------------------------------------------------------------------------------------------
struct Sax1Handler : public HandlerBase {
    Sink& k;
    explicit Sax1Handler(Sink& s) : k(s) {}
    void setDocumentLocator(const Locator* const l) override { k.loc = l; }
    void startDocument() override { k.push({"sd"}); }
    void endDocument() override { k.push({"ed"}); }
    void startElement(const XMLCh* const name, AttributeList& a) override {
        json at = json::array();
        for (XMLSize_t i = 0; i < a.getLength(); i++) at.push_back({nullptr, nullptr, S(a.getName(i)), S(a.getValue(i)), nullptr, S(a.getType(i))});
        Sink::sortAttrs(at);
        k.push({"se", nullptr, nullptr, S(name), at, k.line()});
    }
    void endElement(const XMLCh* const name) override { k.push({"ee", nullptr, nullptr, S(name)}); }
    void characters(const XMLCh* const c, const XMLSize_t n) override { k.ch(vh::to8(c, n), nullptr, false); }
    void ignorableWhitespace(const XMLCh* const c, const XMLSize_t n) override { k.ch(vh::to8(c, n), nullptr, true); }
    void processingInstruction(const XMLCh* const t, const XMLCh* const d) override { k.push({"pi", S(t), s8(d)}); }
    void notationDecl(const XMLCh* const n, const XMLCh* const p, const XMLCh* const s) override { k.push({"not", S(n), S(p), S(s)}); }
    void unparsedEntityDecl(const XMLCh* const n, const XMLCh* const p, const XMLCh* const s, const XMLCh* const nn) override {
        k.push({"ent", S(n), S(p), S(s), S(nn), nullptr});
    }
    void warning(const SAXParseException& e) override { k.err("warning", (long)e.getLineNumber(), e.getMessage(), (long)e.getColumnNumber()); }
    void error(const SAXParseException& e) override { k.err("error", (long)e.getLineNumber(), e.getMessage(), (long)e.getColumnNumber()); }
    void fatalError(const SAXParseException& e) override { k.err("fatal", (long)e.getLineNumber(), e.getMessage(), (long)e.getColumnNumber()); }
    void resetErrors() override {}
};

// ---- SAX2 ---------------------------------------------------------------------------------------------------------
struct Sax2Handler : public DefaultHandler {
    Sink& k;
    bool inCdata = false;
    int dtdDepth = 0;
    explicit Sax2Handler(Sink& s) : k(s) {}
    json U(const XMLCh* u) const { return k.cfg->namespaces ? json(s8(u)) : json(nullptr); }
    json L(const XMLCh* l) const { return k.cfg->namespaces ? json(s8(l)) : json(nullptr); }
    void setDocumentLocator(const Locator* const l) override { k.loc = l; }
    void startDocument() override { k.push({"sd"}); }
    void endDocument() override { k.push({"ed"}); }
    void startElement(const XMLCh* const uri, const XMLCh* const local, const XMLCh* const qname, const Attributes& a) override {
        json at = json::array();
        for (XMLSize_t i = 0; i < a.getLength(); i++)
            at.push_back({U(a.getURI(i)), L(a.getLocalName(i)), S(a.getQName(i)), S(a.getValue(i)), nullptr, S(a.getType(i))});
        Sink::sortAttrs(at);
        k.push({"se", U(uri), L(local), S(qname), at, k.line()});
    }
    void endElement(const XMLCh* const uri, const XMLCh* const local, const XMLCh* const qname) override { k.push({"ee", U(uri), L(local), S(qname)}); }
    void characters(const XMLCh* const c, const XMLSize_t n) override { k.ch(vh::to8(c, n), inCdata, false); }
    void ignorableWhitespace(const XMLCh* const c, const XMLSize_t n) override { k.ch(vh::to8(c, n), inCdata, true); }
    void processingInstruction(const XMLCh* const t, const XMLCh* const d) override { k.push({"pi", S(t), s8(d)}); }
    void startPrefixMapping(const XMLCh* const p, const XMLCh* const u) override { if (k.cfg->prefixMappings) k.push({"pm+", s8(p), s8(u)}); }
    void endPrefixMapping(const XMLCh* const p) override { if (k.cfg->prefixMappings) k.push({"pm-", s8(p)}); }
    void comment(const XMLCh* const c, const XMLSize_t n) override { if (!k.inDtd) k.push({"cm", vh::to8(c, n)}); }
    void startCDATA() override { inCdata = true; }
    void endCDATA() override { inCdata = false; }
    void startDTD(const XMLCh* const n, const XMLCh* const p, const XMLCh* const s) override { k.dtStart(S(n), S(p), S(s)); }
    void endDTD() override { k.dtEnd(); }
    void startEntity(const XMLCh* const n) override { if (k.cfg->entityRefs && !k.inDtd) k.push({"er+", S(n)}); }
    void endEntity(const XMLCh* const n) override { if (k.cfg->entityRefs && !k.inDtd) k.push({"er-", S(n)}); }
    void notationDecl(const XMLCh* const n, const XMLCh* const p, const XMLCh* const s) override { k.push({"not", S(n), S(p), S(s)}); }
    void unparsedEntityDecl(const XMLCh* const n, const XMLCh* const p, const XMLCh* const s, const XMLCh* const nn) override {
        k.push({"ent", S(n), S(p), S(s), S(nn), nullptr});
    }
    void internalEntityDecl(const XMLCh* const n, const XMLCh* const v) override { k.push({"ent", S(n), nullptr, nullptr, nullptr, S(v)}); }
    void externalEntityDecl(const XMLCh* const n, const XMLCh* const p, const XMLCh* const s) override { k.push({"ent", S(n), S(p), S(s), nullptr, nullptr}); }
    void attributeDecl(const XMLCh* const e, const XMLCh* const a, const XMLCh* const t, const XMLCh* const m, const XMLCh* const v) override {
        if (k.cfg->declEvents) k.push({"att", S(e), S(a), S(t), S(m), S(v)});
    }
    void elementDecl(const XMLCh* const n, const XMLCh* const m) override { if (k.cfg->declEvents) k.push({"el", S(n), S(m)}); }
    void warning(const SAXParseException& e) override { k.err("warning", (long)e.getLineNumber(), e.getMessage(), (long)e.getColumnNumber()); }
    void error(const SAXParseException& e) override { k.err("error", (long)e.getLineNumber(), e.getMessage(), (long)e.getColumnNumber()); }
    void fatalError(const SAXParseException& e) override { k.err("fatal", (long)e.getLineNumber(), e.getMessage(), (long)e.getColumnNumber()); }
    void resetErrors() override {}
};

// ---- RAW: the internal XMLDocumentHandler stream --------------------------------------------------------------------
struct RawParser : public SAXParser {
    using SAXParser::getScanner;
};
inline const char* attTypeName(XMLAttDef::AttTypes t) {
    switch (t) {
    case XMLAttDef::CData: return "CDATA";
    case XMLAttDef::ID: return "ID";
    case XMLAttDef::IDRef: return "IDREF";
    case XMLAttDef::IDRefs: return "IDREFS";
    case XMLAttDef::Entity: return "ENTITY";
    case XMLAttDef::Entities: return "ENTITIES";
    case XMLAttDef::NmToken: return "NMTOKEN";
    case XMLAttDef::NmTokens: return "NMTOKENS";
    case XMLAttDef::Notation: return "NOTATION";
    case XMLAttDef::Enumeration: return "ENUMERATION";
    default: return "OTHER";
    }
}
struct RawHandler : public XMLDocumentHandler {
    Sink& k;
    RawParser* p = nullptr;
    std::vector<json> open;   // [uri, local, qname] of open elements (endElement gives the declaration only)
    explicit RawHandler(Sink& s) : k(s) {}
    json uriOf(unsigned int id) const { return k.cfg->namespaces ? json(s8(p->getScanner().getURIText(id))) : json(nullptr); }
    void docCharacters(const XMLCh* const c, const XMLSize_t n, const bool cd) override { k.ch(vh::to8(c, n), cd, false); }
    void ignorableWhitespace(const XMLCh* const c, const XMLSize_t n, const bool cd) override { k.ch(vh::to8(c, n), cd, true); }
    void docComment(const XMLCh* const c) override { k.push({"cm", s8(c)}); }
    void docPI(const XMLCh* const t, const XMLCh* const d) override { k.push({"pi", S(t), s8(d)}); }
    void startDocument() override { open.clear(); k.push({"sd"}); }
    void endDocument() override { k.push({"ed"}); }
    void resetDocument() override {}
    void startElement(const XMLElementDecl& d, const unsigned int uriId, const XMLCh* const prefix, const RefVectorOf<XMLAttr>& al,
                      const XMLSize_t n, const bool isEmpty, const bool) override {
        json at = json::array();
        for (XMLSize_t i = 0; i < n; i++) {
            const XMLAttr* a = al.elementAt(i);
            at.push_back({uriOf(a->getURIId()), k.cfg->namespaces ? json(s8(a->getName())) : json(nullptr), S(a->getQName()), S(a->getValue()),
                          a->getSpecified(), attTypeName(a->getType())});
        }
        Sink::sortAttrs(at);
        std::string q = (k.cfg->namespaces && prefix && *prefix) ? s8(prefix) + ":" + s8(d.getBaseName()) : s8(d.getFullName());
        json id = {uriOf(uriId), k.cfg->namespaces ? json(s8(d.getBaseName())) : json(nullptr), q};
        k.push({"se", id[0], id[1], id[2], at, k.line()});
        if (isEmpty) k.push({"ee", id[0], id[1], id[2]});
        else open.push_back(id);
    }
    void endElement(const XMLElementDecl&, const unsigned int, const bool, const XMLCh* const) override {
        if (open.empty()) { k.push({"ee", nullptr, nullptr, "?"}); return; }
        json id = open.back();
        open.pop_back();
        k.push({"ee", id[0], id[1], id[2]});
    }
    void startEntityReference(const XMLEntityDecl& e) override { if (k.cfg->entityRefs) k.push({"er+", S(e.getName())}); }
    void endEntityReference(const XMLEntityDecl& e) override { if (k.cfg->entityRefs) k.push({"er-", S(e.getName())}); }
    void XMLDecl(const XMLCh* const v, const XMLCh* const e, const XMLCh* const s, const XMLCh* const) override { k.push({"xd", s8(v), s8(e), s8(s)}); }
};
// SAX1 handler used next to the RAW handler: only errors and the locator
struct RawAux : public HandlerBase {
    Sink& k;
    explicit RawAux(Sink& s) : k(s) {}
    void setDocumentLocator(const Locator* const l) override { k.loc = l; }
    void warning(const SAXParseException& e) override { k.err("warning", (long)e.getLineNumber(), e.getMessage(), (long)e.getColumnNumber()); }
    void error(const SAXParseException& e) override { k.err("error", (long)e.getLineNumber(), e.getMessage(), (long)e.getColumnNumber()); }
    void fatalError(const SAXParseException& e) override { k.err("fatal", (long)e.getLineNumber(), e.getMessage(), (long)e.getColumnNumber()); }
    void resetErrors() override {}
};

// ---- DOM ------------------------------------------------------------------------------------------------------------
struct DomErr : public DOMErrorHandler {
    Sink& k;
    std::vector<json> held;   // DOM errors are appended after the tree dump
    explicit DomErr(Sink& s) : k(s) {}
    bool handleError(const DOMError& e) override {
        const char* cls = e.getSeverity() == DOMError::DOM_SEVERITY_WARNING ? "warning" : e.getSeverity() == DOMError::DOM_SEVERITY_ERROR ? "error" : "fatal";
        if (cls[0] == 'w') k.r->warnings++; else if (cls[0] == 'e') k.r->errors++; else k.r->fatals++;
        long line = e.getLocation() ? (long)e.getLocation()->getLineNumber() : 0;
        long col = e.getLocation() ? (long)e.getLocation()->getColumnNumber() : 0;
        held.push_back(k.errEv(cls, line, col));
        if (k.r->messages.size() < 8) k.r->messages.push_back(s8(e.getMessage()));
        return true;
    }
};
struct SaxErrHeld : public HandlerBase {   // ErrorHandler for XercesDOMParser
    Sink& k;
    std::vector<json> held;
    explicit SaxErrHeld(Sink& s) : k(s) {}
    void add(const char* cls, const SAXParseException& e) {
        if (cls[0] == 'w') k.r->warnings++; else if (cls[0] == 'e') k.r->errors++; else k.r->fatals++;
        held.push_back(k.errEv(cls, (long)e.getLineNumber(), (long)e.getColumnNumber()));
        if (k.r->messages.size() < 8) k.r->messages.push_back(s8(e.getMessage()));
    }
    void warning(const SAXParseException& e) override { add("warning", e); }
    void error(const SAXParseException& e) override { add("error", e); }
    void fatalError(const SAXParseException& e) override { add("fatal", e); }
    void resetErrors() override {}
};
struct PassFilter : public DOMLSParserFilter {
    long asked = 0;
    FilterAction acceptNode(DOMNode*) override { asked++; return FILTER_ACCEPT; }
    FilterAction startElement(DOMElement*) override { asked++; return FILTER_ACCEPT; }
    DOMNodeFilter::ShowType getWhatToShow() const override { return DOMNodeFilter::SHOW_ALL; }
};

inline void walkDom(Sink& k, const DOMNode* n) {
    const bool ns = k.cfg->namespaces;
    auto U = [&](const XMLCh* u) { return ns ? json(s8(u)) : json(nullptr); };
    switch (n->getNodeType()) {
    case DOMNode::DOCUMENT_NODE:
        k.push({"sd"});
        for (const DOMNode* c = n->getFirstChild(); c; c = c->getNextSibling()) walkDom(k, c);
        k.push({"ed"});
        break;
    case DOMNode::DOCUMENT_TYPE_NODE: {
        const DOMDocumentType* dt = static_cast<const DOMDocumentType*>(n);
        k.dtStart(S(dt->getName()), S(dt->getPublicId()), S(dt->getSystemId()));
        DOMNamedNodeMap* es = dt->getEntities();
        for (XMLSize_t i = 0; es && i < es->getLength(); i++) {
            const DOMEntity* e = static_cast<const DOMEntity*>(es->item(i));
            k.push({"ent", S(e->getNodeName()), S(e->getPublicId()), S(e->getSystemId()), S(e->getNotationName()), nullptr});
        }
        DOMNamedNodeMap* ns2 = dt->getNotations();
        for (XMLSize_t i = 0; ns2 && i < ns2->getLength(); i++) {
            const DOMNotation* e = static_cast<const DOMNotation*>(ns2->item(i));
            k.push({"not", S(e->getNodeName()), S(e->getPublicId()), S(e->getSystemId())});
        }
        k.dtEnd();
        break;
    }
    case DOMNode::ELEMENT_NODE: {
        json at = json::array();
        DOMNamedNodeMap* m = n->getAttributes();
        for (XMLSize_t i = 0; m && i < m->getLength(); i++) {
            const DOMAttr* a = static_cast<const DOMAttr*>(m->item(i));
            const DOMTypeInfo* ti = a->getSchemaTypeInfo();
            at.push_back({U(a->getNamespaceURI()), ns ? json(s8(a->getLocalName())) : json(nullptr), S(a->getNodeName()), S(a->getNodeValue()),
                          a->getSpecified(), (ti && ti->getTypeName()) ? json(s8(ti->getTypeName())) : json(nullptr)});
        }
        Sink::sortAttrs(at);
        json id = {U(n->getNamespaceURI()), ns ? json(s8(n->getLocalName())) : json(nullptr), S(n->getNodeName())};
        k.push({"se", id[0], id[1], id[2], at, nullptr});
        for (const DOMNode* c = n->getFirstChild(); c; c = c->getNextSibling()) walkDom(k, c);
        k.push({"ee", id[0], id[1], id[2]});
        break;
    }
    case DOMNode::TEXT_NODE:
        k.ch(s8(n->getNodeValue()), false, static_cast<const DOMText*>(n)->isIgnorableWhitespace());
        break;
    case DOMNode::CDATA_SECTION_NODE:
        k.ch(s8(n->getNodeValue()), true, false);
        break;
    case DOMNode::COMMENT_NODE:
        k.push({"cm", s8(n->getNodeValue())});
        break;
    case DOMNode::PROCESSING_INSTRUCTION_NODE:
        k.push({"pi", S(n->getNodeName()), s8(n->getNodeValue())});
        break;
    case DOMNode::ENTITY_REFERENCE_NODE:
        k.push({"er+", S(n->getNodeName())});
        for (const DOMNode* c = n->getFirstChild(); c; c = c->getNextSibling()) walkDom(k, c);
        k.push({"er-", S(n->getNodeName())});
        break;
    default:
        k.push({"node", (int)n->getNodeType()});
    }
}
}  // namespace detail

// One parser object, configured once, usable for any number of parses.
class Session {
public:
    explicit Session(const Config& c) : cfg(c) { build(); }
    ~Session() {
        if (lsp) lsp->release();
        delete domp;
        delete sax2p;
        delete saxp;
    }
    Session(const Session&) = delete;
    Session& operator=(const Session&) = delete;

    SAXParser* sax() { return saxp; }              // SAX and RAW
    SAX2XMLReader* sax2() { return sax2p; }
    XercesDOMParser* dom() { return domp; }
    DOMLSParser* ls() { return lsp; }
    const Config& config() const { return cfg; }

    Result parse(const InputSource& src) {
        Result r;
        detail::Sink k;
        k.r = &r;
        k.cfg = &cfg;
        try {
            switch (cfg.api) {
            case SAX: runSax(k, src); break;
            case RAW: runRaw(k, src); break;
            case SAX2: runSax2(k, src); break;
            case DOM: runDom(k, src); break;
            case DOMLS: runLs(k, src); break;
            }
        } catch (const OutOfMemoryException&) { r.exception = "OutOfMemoryException"; }
        catch (const SAXParseException&) { r.exception = "SAXParseException"; }
        catch (const SAXException&) { r.exception = "SAXException"; }
        catch (const XMLException& e) { r.exception = "XMLException:" + detail::s8(e.getType()); }
        catch (const DOMLSException& e) { r.exception = "DOMLSException:" + std::to_string((int)e.code); }
        catch (const DOMException& e) { r.exception = "DOMException:" + std::to_string((int)e.code); }
        catch (const XMLErrs::Codes c) { r.exception = "XMLErrs:" + std::to_string((int)c); }
        catch (const std::exception&) { r.exception = "std::exception"; }
        catch (...) { r.exception = "unknown"; }
        if (k.inDtd) k.dtEnd();
        for (auto& e : pending) r.events.push_back(e);
        pending.clear();
        return r;
    }
    Result parseBytes(const void* data, size_t len) {
        MemBufInputSource src(reinterpret_cast<const XMLByte*>(data), len, cfg.sysId.c_str(), false);
        return parse(src);
    }

private:
    Config cfg;
    SAXParser* saxp = nullptr;
    SAX2XMLReaderImpl* sax2p = nullptr;
    XercesDOMParser* domp = nullptr;
    DOMLSParser* lsp = nullptr;
    detail::PassFilter filter;
    std::vector<json> pending;

    template <class P> void commonOld(P* p) {   // SAXParser / XercesDOMParser share these setters
        p->useScanner(vh::X(cfg.scanner));
        p->setDoNamespaces(cfg.namespaces);
        p->setDoSchema(cfg.schema);
        p->setLoadExternalDTD(cfg.loadExternalDTD);
        p->setExitOnFirstFatalError(cfg.exitOnFirstFatal);
        p->setDisableDefaultEntityResolution(cfg.disableDefaultEntityResolution);
        if (cfg.resolver) p->setXMLEntityResolver(cfg.resolver);
    }
    void build() {
        switch (cfg.api) {
        case SAX:
        case RAW:
            saxp = new detail::RawParser();
            commonOld(saxp);
            saxp->setValidationScheme(cfg.validation == 0 ? SAXParser::Val_Never : cfg.validation == 1 ? SAXParser::Val_Always : SAXParser::Val_Auto);
            break;
        case SAX2:
            sax2p = new SAX2XMLReaderImpl();
            sax2p->setProperty(XMLUni::fgXercesScannerName, (void*)vh::X(cfg.scanner).c());
            sax2p->setFeature(XMLUni::fgSAX2CoreNameSpaces, cfg.namespaces);
            sax2p->setFeature(XMLUni::fgSAX2CoreNameSpacePrefixes, cfg.nsPrefixes);
            sax2p->setFeature(XMLUni::fgSAX2CoreValidation, cfg.validation != 0);
            sax2p->setFeature(XMLUni::fgXercesDynamic, cfg.validation == 2);
            sax2p->setFeature(XMLUni::fgXercesSchema, cfg.schema);
            sax2p->setFeature(XMLUni::fgXercesLoadExternalDTD, cfg.loadExternalDTD);
            sax2p->setFeature(XMLUni::fgXercesDisableDefaultEntityResolution, cfg.disableDefaultEntityResolution);
            sax2p->setExitOnFirstFatalError(cfg.exitOnFirstFatal);
            if (cfg.resolver) sax2p->setXMLEntityResolver(cfg.resolver);
            break;
        case DOM:
            domp = new XercesDOMParser();
            commonOld(domp);
            domp->setValidationScheme(cfg.validation == 0 ? AbstractDOMParser::Val_Never : cfg.validation == 1 ? AbstractDOMParser::Val_Always : AbstractDOMParser::Val_Auto);
            domp->setCreateEntityReferenceNodes(cfg.entityRefs);
            domp->setIncludeIgnorableWhitespace(cfg.ignorableWhitespace);
            domp->setCreateCommentNodes(cfg.comments);
            break;
        case DOMLS: {
            static const XMLCh ls[] = {chLatin_L, chLatin_S, chNull};
            DOMImplementation* impl = DOMImplementationRegistry::getDOMImplementation(ls);
            lsp = static_cast<DOMImplementationLS*>(impl)->createLSParser(DOMImplementationLS::MODE_SYNCHRONOUS, 0);
            DOMConfiguration* dc = lsp->getDomConfig();
            dc->setParameter(XMLUni::fgXercesScannerName, (const void*)vh::X(cfg.scanner).c());
            dc->setParameter(XMLUni::fgDOMNamespaces, cfg.namespaces);
            dc->setParameter(XMLUni::fgDOMValidate, cfg.validation == 1);
            if (cfg.validation == 2) dc->setParameter(XMLUni::fgDOMValidateIfSchema, true);
            dc->setParameter(XMLUni::fgXercesSchema, cfg.schema);
            dc->setParameter(XMLUni::fgXercesLoadExternalDTD, cfg.loadExternalDTD);
            dc->setParameter(XMLUni::fgXercesDisableDefaultEntityResolution, cfg.disableDefaultEntityResolution);
            dc->setParameter(XMLUni::fgXercesContinueAfterFatalError, !cfg.exitOnFirstFatal);
            dc->setParameter(XMLUni::fgDOMEntities, cfg.entityRefs);
            dc->setParameter(XMLUni::fgDOMElementContentWhitespace, cfg.ignorableWhitespace);
            dc->setParameter(XMLUni::fgDOMComments, cfg.comments);
            if (cfg.resolver) dc->setParameter(XMLUni::fgXercesEntityResolver, (const void*)cfg.resolver);
            if (cfg.lsFilter) lsp->setFilter(&filter);
            break;
        }
        }
    }
    template <class P> void drive(P* p, const InputSource& src) {
        if (!cfg.progressive) { p->parse(src); return; }
        XMLPScanToken tok;
        if (!p->parseFirst(src, tok)) return;
        while (p->parseNext(tok)) {}
    }
    void runSax(detail::Sink& k, const InputSource& src) {
        detail::Sax1Handler h(k);
        saxp->setDocumentHandler(&h);
        saxp->setDTDHandler(&h);
        saxp->setErrorHandler(&h);
        struct Unset { SAXParser* p; ~Unset() { p->setDocumentHandler(0); p->setDTDHandler(0); p->setErrorHandler(0); } } u{saxp};
        drive(saxp, src);
        k.r->errorCount = (long)saxp->getErrorCount();
    }
    void runRaw(detail::Sink& k, const InputSource& src) {
        detail::RawHandler h(k);
        detail::RawAux aux(k);
        h.p = static_cast<detail::RawParser*>(saxp);
        saxp->setDocumentHandler(&aux);
        saxp->setErrorHandler(&aux);
        saxp->installAdvDocHandler(&h);
        struct Unset { SAXParser* p; XMLDocumentHandler* h; ~Unset() { p->removeAdvDocHandler(h); p->setDocumentHandler(0); p->setErrorHandler(0); } } u{saxp, &h};
        drive(saxp, src);
        k.r->errorCount = (long)saxp->getErrorCount();
    }
    void runSax2(detail::Sink& k, const InputSource& src) {
        detail::Sax2Handler h(k);
        sax2p->setContentHandler(&h);
        sax2p->setDTDHandler(&h);
        sax2p->setLexicalHandler(&h);
        sax2p->setDeclarationHandler(&h);
        sax2p->setErrorHandler(&h);
        struct Unset { SAX2XMLReaderImpl* p; ~Unset() { p->setContentHandler(0); p->setDTDHandler(0); p->setLexicalHandler(0); p->setDeclarationHandler(0); p->setErrorHandler(0); } } u{sax2p};
        drive(sax2p, src);
        k.r->errorCount = (long)sax2p->getErrorCount();
    }
    void runDom(detail::Sink& k, const InputSource& src) {
        detail::SaxErrHeld eh(k);
        domp->setErrorHandler(&eh);
        struct Unset { XercesDOMParser* p; ~Unset() { p->setErrorHandler(0); } } u{domp};
        try { drive(domp, src); } catch (...) { pending = eh.held; dumpDoc(k, domp->getDocument()); throw; }
        k.r->errorCount = (long)domp->getErrorCount();
        pending = eh.held;
        dumpDoc(k, domp->getDocument());
        if (cfg.releaseDocs) domp->resetDocumentPool();
    }
    void runLs(detail::Sink& k, const InputSource& src) {
        detail::DomErr eh(k);
        DOMConfiguration* dc = lsp->getDomConfig();
        dc->setParameter(XMLUni::fgDOMErrorHandler, (const void*)&eh);
        struct Unset { DOMConfiguration* d; ~Unset() { d->setParameter(XMLUni::fgDOMErrorHandler, (const void*)0); } } u{dc};
        Wrapper4InputSource in(const_cast<InputSource*>(&src), false);
        DOMDocument* doc = nullptr;
        try { doc = lsp->parse(&in); } catch (...) { pending = eh.held; throw; }
        pending = eh.held;
        dumpDoc(k, doc);
        if (cfg.releaseDocs) lsp->resetDocumentPool();
    }
    void dumpDoc(detail::Sink& k, const DOMDocument* doc) {
        if (doc) detail::walkDom(k, doc);
    }
};

inline Result parseSource(const InputSource& src, const Config& cfg) {
    Session s(cfg);
    return s.parse(src);
}
inline Result parseBytes(const void* data, size_t len, const Config& cfg) {
    Session s(cfg);
    return s.parseBytes(data, len);
}
}  // namespace pd
