// ViewWorld: the implementation side of the DomViews specification (property C14).
// Extends DomWorld (tree, node ids = creation order) with live views created through the public API:
// NodeIterators, Ranges, getElementsByTagName lists. Observation uses public getters only.
#pragma once
#include "domworld.hpp"
#include <xercesc/dom/DOMNodeIterator.hpp>
#include <xercesc/dom/DOMNodeFilter.hpp>
#include <xercesc/dom/DOMRange.hpp>
#include <xercesc/dom/DOMRangeException.hpp>
#include <xercesc/dom/DOMTreeWalker.hpp>

namespace vh {

// table-driven filters of the specification: "rejB"/"skipB" act on elements named "b"
struct NameFilter : public DOMNodeFilter {
    FilterAction onB;
    explicit NameFilter(FilterAction a) : onB(a) {}
    FilterAction acceptNode(const DOMNode* n) const override {
        if (n->getNodeType() == DOMNode::ELEMENT_NODE && to8(n->getNodeName()) == "b") return onB;
        return FILTER_ACCEPT;
    }
};

struct ViewWorld : DomWorld {
    std::vector<DOMNodeIterator*> its;
    std::vector<bool> itDet;
    std::vector<DOMRange*> rgs;
    std::vector<bool> rgDet;
    std::vector<DOMNodeList*> lss;
    std::vector<DOMTreeWalker*> wks;
    NameFilter rejB{DOMNodeFilter::FILTER_REJECT}, skipB{DOMNodeFilter::FILTER_SKIP};

    void clearViews() {
        // views belong to their documents and die with them (DomWorld::clear releases the documents)
        its.clear(); itDet.clear(); rgs.clear(); rgDet.clear(); lss.clear(); wks.clear();
    }
    void resetAll(int nd) { clearViews(); reset(nd); }
    bool buildAll(const json& proj, int nd, std::string& err) { clearViews(); return build(proj, nd, err); }

    static DOMNodeFilter::ShowType showOf(const std::string& s) {
        if (s == "elem") return DOMNodeFilter::SHOW_ELEMENT;
        if (s == "text") return DOMNodeFilter::SHOW_TEXT;
        return DOMNodeFilter::SHOW_ALL;
    }
    DOMNodeFilter* filtOf(const std::string& f) { return f == "rejB" ? &rejB : f == "skipB" ? &skipB : nullptr; }
    DOMDocument* docOf(DOMNode* n) { return n->getNodeType() == DOMNode::DOCUMENT_NODE ? static_cast<DOMDocument*>(n) : n->getOwnerDocument(); }

    static bool isViewOp(const std::string& a) {
        return a == "createNodeIterator" || a == "createRange" || a == "getElementsByTagName" || a == "createTreeWalker" ||
               a.compare(0, 3, "it.") == 0 || a.compare(0, 3, "rg.") == 0 || a.compare(0, 5, "list.") == 0 || a.compare(0, 3, "tw.") == 0;
    }

    // one specification action; ret = the returned value as the specification encodes it (node id / count)
    std::string applyV(const json& op, json& ret) {
        ret = json::array();
        const std::string a = op["a"];
        if (!isViewOp(a)) return apply(op);
        const json& g = op["args"];
        auto A = [&](int i) { return g.size() > (size_t)i ? g[i].get<int>() : 0; };
        auto IT = [&](int i) -> DOMNodeIterator* { return (i >= 1 && i <= (int)its.size()) ? its[i - 1] : nullptr; };
        auto RG = [&](int i) -> DOMRange* { return (i >= 1 && i <= (int)rgs.size()) ? rgs[i - 1] : nullptr; };
        auto LS = [&](int i) -> DOMNodeList* { return (i >= 1 && i <= (int)lss.size()) ? lss[i - 1] : nullptr; };
        try {
            if (a == "createNodeIterator") {
                DOMNode* root = N(A(0));
                std::string filt = op["s"].size() ? op["s"][0].get<std::string>() : "none";
                its.push_back(docOf(root)->createNodeIterator(root, showOf(op["nm"]), filtOf(filt), true));
                itDet.push_back(false);
            } else if (a == "it.nextNode") { ret.push_back(id(IT(A(0))->nextNode())); }
            else if (a == "it.previousNode") { ret.push_back(id(IT(A(0))->previousNode())); }
            else if (a == "it.detach") { IT(A(0))->detach(); itDet[A(0) - 1] = true; }
            else if (a == "getElementsByTagName") {
                DOMNode* root = N(A(0));
                X nm(op["nm"].get<std::string>());
                lss.push_back(root->getNodeType() == DOMNode::DOCUMENT_NODE ? static_cast<DOMDocument*>(root)->getElementsByTagName(nm)
                                                                            : static_cast<DOMElement*>(root)->getElementsByTagName(nm));
            } else if (a == "list.item") { ret.push_back(id(LS(A(0))->item((XMLSize_t)A(1)))); }
            else if (a == "list.getLength") { ret.push_back((int)LS(A(0))->getLength()); }
            else if (a == "createRange") { rgs.push_back(D(A(0))->createRange()); rgDet.push_back(false); }
            else if (a == "rg.setStart") { RG(A(0))->setStart(N(A(1)), (XMLSize_t)A(2)); }
            else if (a == "rg.setEnd") { RG(A(0))->setEnd(N(A(1)), (XMLSize_t)A(2)); }
            else if (a == "rg.collapse") { RG(A(0))->collapse(A(1) != 0); }
            else if (a == "rg.detach") { RG(A(0))->detach(); rgDet[A(0) - 1] = true; }
            else if (a == "rg.compareBoundaryPoints") {
                static const DOMRange::CompareHow hows[] = {DOMRange::START_TO_START, DOMRange::START_TO_END, DOMRange::END_TO_END, DOMRange::END_TO_START};
                ret.push_back(1 + (int)RG(A(0))->compareBoundaryPoints(hows[A(2) & 3], RG(A(1))));
            } else return "exception:unknown-op " + a;
        } catch (const DOMRangeException& e) {
            return e.code == DOMRangeException::BAD_BOUNDARYPOINTS_ERR ? "BAD_BOUNDARYPOINTS_ERR" : "INVALID_NODE_TYPE_ERR";
        } catch (const DOMException& e) {
            return excName(e.code);
        } catch (const XMLException&) {
            return "exception:XMLException";
        } catch (const std::exception& e) {
            return std::string("exception:") + e.what();
        } catch (...) {
            return "exception:unknown";
        }
        return "ok";
    }

    // non-destructive observation: range boundary points through the getters
    json observeRanges(std::string& bad) {
        json out = json::array();
        for (size_t i = 0; i < rgs.size(); i++) {
            if (rgDet[i]) { out.push_back(json::array()); continue; }
            try {
                DOMRange* r = rgs[i];
                int sc = id(r->getStartContainer()), ec = id(r->getEndContainer());
                int so = (int)r->getStartOffset(), eo = (int)r->getEndOffset();
                out.push_back({sc, so, ec, eo});
                bool col = r->getCollapsed();
                if (col != (sc == ec && so == eo)) bad += "getCollapsed of range " + std::to_string(i + 1) + " disagrees with its boundary points; ";
            } catch (const DOMException& e) {
                bad += std::string("range getter raised ") + excName(e.code) + "; ";
                out.push_back(json::array());
            }
        }
        return out;
    }
    // destructive observation of iterator i (0-based): ids returned by repeated nextNode()/previousNode()
    json drain(size_t i, bool forward, std::string& bad) {
        json out = json::array();
        if (itDet[i]) return out;
        try {
            for (int guard = 0; guard < 10000; guard++) {
                DOMNode* n = forward ? its[i]->nextNode() : its[i]->previousNode();
                if (!n) return out;
                out.push_back(id(n));
            }
            bad += "iterator does not end; ";
        } catch (const DOMException& e) {
            bad += std::string("iterator raised ") + excName(e.code) + "; ";
        }
        return out;
    }
};
}  // namespace vh
