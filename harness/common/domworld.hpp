// DomWorld: the implementation side of the DomTree specification (binding contract, DESIGN.md app. A).
// Node identity = creation index, assigned in the same order the specification allocates ids.
// Projection uses public getters only and cross-checks the redundant ones.
#pragma once
#include "vh.hpp"
#include <xercesc/dom/DOM.hpp>
#include <algorithm>
#include <unordered_map>

namespace vh {

inline const char* kindOf(const DOMNode* n) {
    switch (n->getNodeType()) {
        case DOMNode::DOCUMENT_NODE: return "doc";
        case DOMNode::ELEMENT_NODE: return "elem";
        case DOMNode::TEXT_NODE: return "text";
        case DOMNode::CDATA_SECTION_NODE: return "cdata";
        case DOMNode::COMMENT_NODE: return "comment";
        case DOMNode::PROCESSING_INSTRUCTION_NODE: return "pi";
        case DOMNode::ATTRIBUTE_NODE: return "attr";
        case DOMNode::DOCUMENT_FRAGMENT_NODE: return "frag";
        case DOMNode::DOCUMENT_TYPE_NODE: return "doctype";
        case DOMNode::ENTITY_REFERENCE_NODE: return "entref";
        case DOMNode::ENTITY_NODE: return "entity";
        case DOMNode::NOTATION_NODE: return "notation";
        default: return "?";
    }
}

inline const char* excName(int code) {
    static const char* names[] = {"?", "INDEX_SIZE_ERR", "DOMSTRING_SIZE_ERR", "HIERARCHY_REQUEST_ERR", "WRONG_DOCUMENT_ERR",
                                  "INVALID_CHARACTER_ERR", "NO_DATA_ALLOWED_ERR", "NO_MODIFICATION_ALLOWED_ERR", "NOT_FOUND_ERR",
                                  "NOT_SUPPORTED_ERR", "INUSE_ATTRIBUTE_ERR", "INVALID_STATE_ERR", "SYNTAX_ERR",
                                  "INVALID_MODIFICATION_ERR", "NAMESPACE_ERR", "INVALID_ACCESS_ERR", "VALIDATION_ERR", "TYPE_MISMATCH_ERR"};
    if (code >= 1 && code <= 17) return names[code];
    return "UNKNOWN_DOM_ERR";
}
inline bool isErr(const std::string& r) { return r.size() > 4 && r.compare(r.size() - 4, 4, "_ERR") == 0; }

struct DomWorld {
    DOMImplementation* impl = nullptr;
    std::vector<DOMNode*> node;   // node[id], id >= 1; nullptr when the id is dead ("none")
    std::unordered_map<const DOMNode*, int> idOf;
    std::vector<DOMDocument*> docs;
    int ndocs = 0;
    static const int LIMIT = 100000;

    DomWorld() {
        static const XMLCh ls[] = {'L', 'S', 0};
        impl = DOMImplementationRegistry::getDOMImplementation(ls);
    }
    ~DomWorld() { clear(); }
    void clear() {
        for (auto d : docs) d->release();
        docs.clear();
        node.assign(1, nullptr);
        idOf.clear();
    }
    void reset(int nd) {
        clear();
        ndocs = nd;
        for (int i = 0; i < nd; i++) {
            DOMDocument* d = impl->createDocument();
            docs.push_back(d);
            reg(d);
        }
    }
    int nextId() const { return (int)node.size(); }
    int reg(DOMNode* n) {
        int id = (int)node.size();
        node.push_back(n);
        if (n) idOf[n] = id;
        return id;
    }
    void kill(int id) {
        if (id > 0 && id < (int)node.size() && node[id]) { idOf.erase(node[id]); node[id] = nullptr; }
    }
    int id(const DOMNode* n) const {
        if (!n) return 0;
        auto it = idOf.find(n);
        return it == idOf.end() ? -1 : it->second;
    }
    DOMNode* N(int i) const { return (i > 0 && i < (int)node.size()) ? node[i] : nullptr; }
    DOMDocument* D(int i) const { return static_cast<DOMDocument*>(N(i)); }

    static std::vector<DOMNode*> attrsSorted(DOMNode* n) {
        std::vector<DOMNode*> v;
        if (n->getNodeType() != DOMNode::ELEMENT_NODE) return v;
        DOMNamedNodeMap* m = n->getAttributes();
        if (!m) return v;
        for (XMLSize_t i = 0; i < m->getLength() && i < (XMLSize_t)LIMIT; i++) v.push_back(m->item(i));
        std::sort(v.begin(), v.end(), [](DOMNode* a, DOMNode* b) { return to8(a->getNodeName()) < to8(b->getNodeName()); });
        return v;
    }
    // ids for a freshly created subtree, in the specification's PreOrder (node, attributes by name, children)
    void regTree(DOMNode* n, int depth = 0) {
        if (!n || depth > 1000 || idOf.count(n)) return;
        reg(n);
        for (auto a : attrsSorted(n)) if (!idOf.count(a)) reg(a);
        if (n->getNodeType() == DOMNode::ATTRIBUTE_NODE) return;   // an Attr is a leaf of this model
        int guard = 0;
        for (DOMNode* k = n->getFirstChild(); k && guard < LIMIT; k = k->getNextSibling(), guard++) regTree(k, depth + 1);
    }

    // ---- state injection: build the tree described by a projection through the public API ----
    bool build(const json& proj, int nd, std::string& err) {
        try {
            reset(nd);
            int n = (int)proj.size();
            for (int i = nd + 1; i <= n; i++) {
                const json& r = proj[i - 1];
                std::string k = r["k"];
                if (k == "none") { reg(nullptr); continue; }
                DOMDocument* d = D(r["o"].get<int>());
                if (!d) { err = "build: owner is not a document"; return false; }
                X nm(r["n"].get<std::string>());
                X v(join(r["v"]));
                DOMNode* x = nullptr;
                if (k == "elem") x = d->createElement(nm);
                else if (k == "text") x = d->createTextNode(v);
                else if (k == "cdata") x = d->createCDATASection(v);
                else if (k == "comment") x = d->createComment(v);
                else if (k == "pi") x = d->createProcessingInstruction(nm, v);
                else if (k == "frag") x = d->createDocumentFragment();
                else if (k == "attr") { DOMAttr* a = d->createAttribute(nm); a->setValue(v); x = a; }
                else { err = "build: kind " + k; return false; }
                reg(x);
            }
            for (int i = 1; i <= n; i++) {
                const json& r = proj[i - 1];
                for (auto& c : r["c"]) N(i)->appendChild(N(c.get<int>()));
                for (auto& a : r["a"]) static_cast<DOMElement*>(N(i))->setAttributeNode(static_cast<DOMAttr*>(N(a.get<int>())));
            }
        } catch (const DOMException& e) {
            err = std::string("build: DOMException ") + excName(e.code);
            return false;
        }
        return true;
    }

    // ---- one specification action applied to the real objects ----
    // returns "ok", "null", a DOMException code name, or "exception:<what>"
    std::string apply(const json& op) {
        const std::string a = op["a"];
        const json& g = op["args"];
        auto A = [&](int i) { return g.size() > (size_t)i ? g[i].get<int>() : 0; };
        X nm(op.value("nm", std::string()));
        X s(join(op["s"]));
        try {
            if (a == "createElement") { reg(D(A(0))->createElement(nm)); }
            else if (a == "createAttribute") { reg(D(A(0))->createAttribute(nm)); }
            else if (a == "createTextNode") { reg(D(A(0))->createTextNode(s)); }
            else if (a == "createCDATASection") { reg(D(A(0))->createCDATASection(s)); }
            else if (a == "createComment") { reg(D(A(0))->createComment(s)); }
            else if (a == "createProcessingInstruction") { reg(D(A(0))->createProcessingInstruction(nm, s)); }
            else if (a == "createDocumentFragment") { reg(D(A(0))->createDocumentFragment()); }
            else if (a == "insertBefore") { N(A(0))->insertBefore(N(A(1)), N(A(2))); }
            else if (a == "appendChild") { N(A(0))->appendChild(N(A(1))); }
            else if (a == "removeChild") { N(A(0))->removeChild(N(A(1))); }
            else if (a == "replaceChild") { N(A(0))->replaceChild(N(A(1)), N(A(2))); }
            else if (a == "cloneNode") { regTree(N(A(0))->cloneNode(A(1) != 0)); }
            else if (a == "importNode") { regTree(D(A(0))->importNode(N(A(1)), A(2) != 0)); }
            else if (a == "renameNode") { static const XMLCh nons[] = {0}; D(A(0))->renameNode(N(A(1)), nons, nm); }
            else if (a == "renameNodeNS") {
                X q("p:" + op.value("nm", std::string()));
                DOMNode* r = D(A(0))->renameNode(N(A(1)), X("u"), q);
                if (r && !idOf.count(r)) reg(r);
            }
            else if (a == "adoptNode") { if (!D(A(0))->adoptNode(N(A(1)))) return "null"; }
            else if (a == "setAttribute") {
                DOMElement* e = static_cast<DOMElement*>(N(A(0)));
                e->setAttribute(nm, s);
                DOMAttr* at = e->getAttributeNode(nm);
                if (at && !idOf.count(at)) reg(at);
            }
            else if (a == "removeAttribute") {
                DOMElement* e = static_cast<DOMElement*>(N(A(0)));
                DOMAttr* at = e->getAttributeNode(nm);
                int aid = id(at);
                e->removeAttribute(nm);
                if (aid > 0) kill(aid);        // the implementation released the node
            }
            else if (a == "setAttributeNode") { static_cast<DOMElement*>(N(A(0)))->setAttributeNode(static_cast<DOMAttr*>(N(A(1)))); }
            else if (a == "removeAttributeNode") { static_cast<DOMElement*>(N(A(0)))->removeAttributeNode(static_cast<DOMAttr*>(N(A(1)))); }
            else if (a == "setNodeValue") { N(A(0))->setNodeValue(s); }
            else if (a == "appendData") { static_cast<DOMCharacterData*>(N(A(0)))->appendData(s); }
            else if (a == "insertData") { static_cast<DOMCharacterData*>(N(A(0)))->insertData(A(1), s); }
            else if (a == "deleteData") { static_cast<DOMCharacterData*>(N(A(0)))->deleteData(A(1), A(2)); }
            else if (a == "replaceData") { static_cast<DOMCharacterData*>(N(A(0)))->replaceData(A(1), A(2), s); }
            else if (a == "splitText") { reg(static_cast<DOMText*>(N(A(0)))->splitText(A(1))); }
            else if (a == "normalize") { N(A(0))->normalize(); }
            else return "exception:unknown-op " + a;
        } catch (const DOMException& e) {
            return excName(e.code);
        } catch (const XMLException& e) {
            return "exception:XMLException";
        } catch (const std::exception& e) {
            return std::string("exception:") + e.what();
        } catch (...) {
            return "exception:unknown";
        }
        return "ok";
    }

    // ---- projection through public getters, with cross-checks of the redundant getters ----
    json project(std::string& bad) const {
        json out = json::array();
        for (int i = 1; i < (int)node.size(); i++) {
            DOMNode* n = node[i];
            json r;
            if (!n) {
                r = {{"k", "none"}, {"o", 0}, {"p", 0}, {"c", json::array()}, {"n", ""}, {"v", json::array()}, {"a", json::array()}, {"e", 0}};
                out.push_back(r);
                continue;
            }
            std::string k = kindOf(n);
            r["k"] = k;
            r["o"] = id(n->getOwnerDocument());
            r["p"] = id(n->getParentNode());
            json c = json::array();
            std::vector<DOMNode*> fw;
            if (k != "attr") {
                int guard = 0;
                for (DOMNode* x = n->getFirstChild(); x; x = x->getNextSibling()) {
                    if (++guard > LIMIT) { bad += "child list of " + std::to_string(i) + " does not end; "; break; }
                    fw.push_back(x);
                    c.push_back(id(x));
                    if (x->getParentNode() != n) bad += "child " + std::to_string(id(x)) + " of " + std::to_string(i) + " has another parent; ";
                }
                // backward walk
                std::vector<DOMNode*> bw;
                guard = 0;
                for (DOMNode* x = n->getLastChild(); x; x = x->getPreviousSibling()) {
                    if (++guard > LIMIT) { bad += "backward child list of " + std::to_string(i) + " does not end; "; break; }
                    bw.push_back(x);
                }
                std::reverse(bw.begin(), bw.end());
                if (bw != fw) bad += "forward/backward sibling walks of " + std::to_string(i) + " differ; ";
                DOMNodeList* nl = n->getChildNodes();
                if (nl) {
                    if (nl->getLength() != fw.size()) bad += "childNodes.length of " + std::to_string(i) + " wrong; ";
                    else for (size_t j = 0; j < fw.size(); j++) if (nl->item(j) != fw[j]) { bad += "childNodes.item of " + std::to_string(i) + " wrong; "; break; }
                }
                if (n->hasChildNodes() != !fw.empty()) bad += "hasChildNodes of " + std::to_string(i) + " wrong; ";
            }
            r["c"] = c;
            r["n"] = (k == "elem" || k == "attr" || k == "pi") ? to8(n->getNodeName()) : std::string();
            r["v"] = (k == "text" || k == "cdata" || k == "comment" || k == "pi" || k == "attr") ? chars(to8(n->getNodeValue())) : json::array();
            json at = json::array();
            if (k == "elem") {
                DOMElement* e = static_cast<DOMElement*>(n);
                std::vector<int> ids;
                for (auto x : attrsSorted(n)) {
                    ids.push_back(id(x));
                    DOMAttr* xa = static_cast<DOMAttr*>(x);
                    if (e->getAttributeNode(xa->getName()) != xa) bad += "getAttributeNode disagrees with the attribute map on " + std::to_string(i) + "; ";
                }
                std::sort(ids.begin(), ids.end());
                for (int x : ids) at.push_back(x);
            }
            r["a"] = at;
            r["e"] = (k == "attr") ? id(static_cast<DOMAttr*>(n)->getOwnerElement()) : 0;
            out.push_back(r);
        }
        return out;
    }
};

inline void sortAttrSets(json& proj) {
    for (auto& r : proj) {
        std::vector<int> v = r["a"].get<std::vector<int>>();
        std::sort(v.begin(), v.end());
        r["a"] = v;
    }
}
}  // namespace vh
