// tokrender.hpp - renders an abstract token sequence of spec/XmlTokens.tla to bytes.
//
// Dumb and table-driven: every token kind has one textual shape; every lexical freedom the XML grammar leaves
// (quote style, white space inside tags, decimal/hex character references, optional space before "?>" and "/>",
// spelling of a plain letter as a character reference, byte encoding + BOM of the whole document) is drawn from the
// Rng given by the caller (seeded from VERIF_SEED and the case), so the same case + seed renders the same bytes.
// Nothing here decides well-formedness or computes expected results.
//
//   tr::Rng rng(seed);  std::string bytes = tr::render(tokens /* json array of [kind,name,payload] */, rng);
//   tr::symUtf8("LF") == "\n",  tr::symUtf8("UE9") == "\xC3\xA9",  tr::symsUtf8(jsonArrayOfSymbols)
#pragma once
#include "vh.hpp"

namespace tr {
using vh::json;

struct Rng {
    uint64_t s;
    explicit Rng(uint64_t seed) : s(seed * 0x9E3779B97F4A7C15ull + 0x1234567ull) { next(); next(); }
    uint32_t next() { s ^= s << 13; s ^= s >> 7; s ^= s << 17; return (uint32_t)(s >> 16); }
    int pick(int n) { return n <= 1 ? 0 : (int)(next() % (uint32_t)n); }
    bool coin(int oneIn = 2) { return pick(oneIn) == 0; }
};
inline uint64_t hashStr(const std::string& x) {
    uint64_t h = 1469598103934665603ull;
    for (unsigned char c : x) { h ^= c; h *= 1099511628211ull; }
    return h;
}

// ---- symbols -------------------------------------------------------------------------------------------------------
inline long symCode(const std::string& s) {
    static const std::map<std::string, long> named = {{"SP", 0x20}, {"TAB", 0x9}, {"LF", 0xA}, {"CR", 0xD}, {"NEL", 0x85}, {"LSEP", 0x2028}, {"Q", 0x22}};
    auto it = named.find(s);
    if (it != named.end()) return it->second;
    if (s.size() > 1 && s[0] == 'U') return strtol(s.c_str() + 1, nullptr, 16);
    return s.empty() ? 0 : (unsigned char)s[0];
}
// generalised UTF-8 encoder: also "encodes" surrogates and values above 0x10FFFF (the resulting bytes are then not legal UTF-8)
inline std::string encodeUtf8(long cp) {
    std::string o;
    if (cp < 0x80) o.push_back(char(cp));
    else if (cp < 0x800) { o.push_back(char(0xC0 | (cp >> 6))); o.push_back(char(0x80 | (cp & 0x3F))); }
    else if (cp < 0x10000) { o.push_back(char(0xE0 | (cp >> 12))); o.push_back(char(0x80 | ((cp >> 6) & 0x3F))); o.push_back(char(0x80 | (cp & 0x3F))); }
    else { o.push_back(char(0xF0 | (cp >> 18))); o.push_back(char(0x80 | ((cp >> 12) & 0x3F))); o.push_back(char(0x80 | ((cp >> 6) & 0x3F))); o.push_back(char(0x80 | (cp & 0x3F))); }
    return o;
}
inline std::string symUtf8(const std::string& s) { return encodeUtf8(symCode(s)); }
inline std::string symsUtf8(const json& a) {
    std::string o;
    for (auto& e : a) o += symUtf8(e.get<std::string>());
    return o;
}
inline bool validUtf8(const std::string& s) {
    size_t i = 0;
    while (i < s.size()) {
        unsigned char c = s[i];
        int n = c < 0x80 ? 1 : (c >= 0xC2 && c < 0xE0) ? 2 : (c >= 0xE0 && c < 0xF0) ? 3 : (c >= 0xF0 && c < 0xF5) ? 4 : 0;
        if (!n || i + n > s.size()) return false;
        long cp = n == 1 ? c : c & (0xFF >> (n + 1));
        for (int k = 1; k < n; k++) { if ((s[i + k] & 0xC0) != 0x80) return false; cp = (cp << 6) | (s[i + k] & 0x3F); }
        if ((n == 3 && cp < 0x800) || (n == 4 && cp < 0x10000) || cp > 0x10FFFF || (cp >= 0xD800 && cp < 0xE000)) return false;
        i += n;
    }
    return true;
}

// ---- tables --------------------------------------------------------------------------------------------------------
inline const std::map<std::string, std::string>& badTable() {
    static const std::map<std::string, std::string> t = {
        {"lt-space", "< a>"}, {"etag-space", "</ a>"}, {"eof-in-stag", "<a "}, {"eof-in-etag", "</a"}, {"name-start", "<1a/>"},
        {"etag-attrs", "</a x=\"1\">"}, {"trunc-utf8", "\xE2\x82"},
        {"xd-noversion", "<?xml encoding=\"UTF-8\"?>"}, {"xd-order", "<?xml encoding=\"UTF-8\" version=\"1.0\"?>"},
        {"xd-badsa", "<?xml version=\"1.0\" standalone=\"maybe\"?>"}, {"xd-unterminated", "<?xml version=\"1.0\">"},
        {"xd-case", "<?xml VERSION=\"1.0\"?>"}, {"doctype-nospace", "<!DOCTYPEa>"}, {"doctype-lower", "<!doctype a>"},
        {"eof-in-doctype", "<!DOCTYPE a ["}, {"bang-unknown", "<!FOO>"}, {"eof-in-comment", "<!-- x"}, {"eof-in-pi", "<?t d"},
        {"pi-nospace", "<?t+d?>"}, {"comment-3dash", "<!-- x --->"}, {"utf8-ff", "\xFF"}, {"utf8-cont", "\x80"}, {"utf8-overlong", "\xC0\x80"},
        {"amp-alone", "& "}, {"cref-unterminated", "&#32 "}, {"cref-nodigits", "&#;"}, {"cref-badhex", "&#xG;"}, {"cref-upperx", "&#X20;"},
        {"eref-unterminated", "&lt "}, {"eof-in-cdata", "<![CDATA[ x"}, {"cdata-lower", "<![cdata[x]]>"}, {"lt-bang", "<!x>"},
        {"undeclared-ref", "&nosuch;"},
        {"attr-noeq", "<a x \"1\"/>"}, {"attr-noquote", "<a x=1/>"}, {"attr-nospace", "<a x=\"1\"y=\"2\"/>"}, {"attr-novalue", "<a x/>"},
        {"eof-in-attval", "<a x=\"1"}, {"attr-amp", "<a x=\"a&b\"/>"}, {"attr-mixquote", "<a x=\"1'/>"}, {"attr-slash", "<a x=\"1\"/ >"},
    };
    return t;
}
// "byte sequence illegal in the encoding": enc-<context>-<variant>
inline const std::map<std::string, std::string>& encBytes() {
    static const std::map<std::string, std::string> t = {
        {"c2-2", "\xC3" "A"}, {"c3-2", "\xE2" "A" "\x82"}, {"c3-3", "\xE2\x82" "A"},
        {"c4-2", "\xF0" "A" "\x98\x80"}, {"c4-3", "\xF0\x9F" "A" "\x80"}, {"c4-4", "\xF0\x9F\x98" "A"},
        {"over2", "\xC0\x80"}, {"over3", "\xE0\x80\x80"}, {"over4", "\xF0\x80\x80\x80"},
        {"surr", "\xED\xA0\x80"}, {"above", "\xF4\x90\x80\x80"},
    };
    return t;
}
inline std::string encBad(const std::string& n) {   // n = "enc-<ctx>-<variant>"
    size_t p = n.find('-', 4);
    if (p == std::string::npos) return "<!BADTOKEN-NOT-IN-TABLE " + n + ">";
    const std::string ctx = n.substr(4, p - 4), var = n.substr(p + 1);
    auto it = encBytes().find(var);
    if (it == encBytes().end()) return "<!BADTOKEN-NOT-IN-TABLE " + n + ">";
    if (ctx == "tx") return "x" + it->second + "x";
    if (ctx == "att") return "<a x=\"v" + it->second + "v\"/>";
    if (ctx == "cm") return "<!--c" + it->second + "c-->";
    return "<!BADTOKEN-NOT-IN-TABLE " + n + ">";
}
inline const char* prefName(const std::string& c) {
    return c == "<" ? "lt" : c == "&" ? "amp" : c == ">" ? "gt" : c == "'" ? "apos" : c == "Q" ? "quot" : "nosuch";
}
inline std::string piTarget(const std::string& t) { return t == "t" ? "tgt" : t == "xml-s" ? "xml-stylesheet" : t; }

struct Options {
    bool freeEncoding = true;     // may re-encode the whole document as UTF-8+BOM / UTF-16LE / UTF-16BE (only when the bytes are legal UTF-8)
    bool freeLetterRefs = true;   // may spell a plain letter as a character reference in text and attribute values
};

inline std::string ws(Rng& r, bool required) {
    static const char* opt[] = {"", " ", "  ", "\t"};
    return required ? opt[1 + r.pick(3)] : opt[r.pick(4)];
}
// numbers that do not fit the table of code points: spelled in full (hexadecimal, decimal)
inline const std::map<std::string, std::pair<std::string, std::string>>& hugeRefs() {
    static const std::map<std::string, std::pair<std::string, std::string>> t = {
        {"UHUGE", {"10000000000000000041", "18446744073709551681"}},      // 2^64 + 0x41: 20 hexadecimal / 20 decimal digits
    };
    return t;
}
inline std::string charRef(long cp, Rng& r) {
    char b[40];
    switch (r.pick(3)) {
    case 0: snprintf(b, sizeof b, "&#%ld;", cp); break;
    case 1: snprintf(b, sizeof b, "&#x%lX;", cp); break;
    default: snprintf(b, sizeof b, "&#x%lx;", cp);
    }
    return b;
}
inline std::string pieces(const json& ps, Rng& r, const Options& o) {
    std::string out;
    for (auto& p : ps) {
        const std::string f = p[0], c = p[1];
        if (f == "lit") {
            if (o.freeLetterRefs && c.size() == 1 && isalpha((unsigned char)c[0]) && r.coin(8)) out += charRef(symCode(c), r);
            else out += symUtf8(c);
        } else if (f == "cref" && hugeRefs().count(c)) {
            const auto& h = hugeRefs().at(c);
            out += r.coin() ? "&#x" + h.first + ";" : "&#" + h.second + ";";
        } else if (f == "cref") out += charRef(symCode(c), r);
        else if (f == "pref") out += std::string("&") + prefName(c) + ";";
        else out += "&" + c + ";";   // eref
    }
    return out;
}
inline std::string tokens(const json& toks, Rng& r, const Options& o);
inline std::string attrs(const json& as, Rng& r, const Options& o) {
    std::string out;
    for (auto& a : as) {
        bool hasApos = false, hasQuot = false;
        for (auto& p : a[1]) if (p[0] == "lit") { if (p[1] == "'") hasApos = true; if (p[1] == "Q") hasQuot = true; }
        char q = hasApos ? '"' : hasQuot ? '\'' : (r.coin() ? '"' : '\'');
        out += ws(r, true) + a[0].get<std::string>() + ws(r, false) + "=" + ws(r, false) + q + pieces(a[1], r, o) + q;
    }
    return out;
}
inline std::string quoted(const std::string& v, Rng& r) {
    char q = v.find('"') != std::string::npos ? '\'' : v.find('\'') != std::string::npos ? '"' : (r.coin() ? '"' : '\'');
    return std::string(1, q) + v + q;
}
inline std::string token(const json& t, Rng& r, const Options& o) {
    const std::string k = t[0], n = t[1];
    const json& x = t[2];
    if (k == "XD") {
        std::string s = "<?xml" + ws(r, true) + "version" + ws(r, false) + "=" + ws(r, false) + quoted("1.0", r);
        if (n.find('e') != std::string::npos) s += ws(r, true) + "encoding" + ws(r, false) + "=" + ws(r, false) + quoted("\x01" "ENC", r);   // patched by render()
        if (n.find('s') != std::string::npos) s += ws(r, true) + "standalone" + ws(r, false) + "=" + ws(r, false) + quoted(r.coin() ? "yes" : "no", r);
        return s + ws(r, false) + "?>";
    }
    if (k == "WS") return symsUtf8(x);
    if (k == "CM") return "<!--" + symsUtf8(x) + "-->";
    if (k == "PI") return "<?" + piTarget(n) + (x.empty() ? ws(r, false) : ws(r, true) + symsUtf8(x)) + "?>";
    if (k == "DT") {
        std::string s = "<!DOCTYPE" + ws(r, true) + n;
        if (x.empty()) { if (r.coin(3)) s += ws(r, false) + "[" + ws(r, false) + "]"; }
        else {
            s += ws(r, true) + "[";
            for (auto& d : x) {
                if (d[0] == "ent") s += "<!ENTITY" + ws(r, true) + d[1].get<std::string>() + ws(r, true) + quoted(tokens(d[3], r, Options{false, false}), r) + ws(r, false) + ">";
                else if (d[0] == "att") {
                    const json& y = d[3];
                    std::string dfl = y[1].get<std::string>();      // "#IMPLIED" | "#REQUIRED" | "#FIXED" | ""
                    s += "<!ATTLIST" + ws(r, true) + d[1].get<std::string>() + ws(r, true) + d[2].get<std::string>() + ws(r, true) + y[0].get<std::string>() + ws(r, true);
                    if (dfl == "#IMPLIED" || dfl == "#REQUIRED") s += dfl;
                    else s += (dfl.empty() ? "" : dfl + " ") + quoted(pieces(y[2], r, Options{false, false}), r);
                    s += ws(r, false) + ">";
                }
                if (r.coin(3)) s += " ";
            }
            s += "]";
        }
        return s + ws(r, false) + ">";
    }
    if (k == "ST") return "<" + n + attrs(x, r, o) + ws(r, false) + ">";
    if (k == "EM") return "<" + n + attrs(x, r, o) + ws(r, false) + "/>";
    if (k == "ET") return "</" + n + ws(r, false) + ">";
    if (k == "TX") return pieces(x, r, o);
    if (k == "CD") return "<![CDATA[" + symsUtf8(x) + "]]>";
    if (k == "ER") return "&" + n + ";";
    if (k == "BAD" && n.compare(0, 4, "enc-") == 0) return encBad(n);
    if (k == "BAD") { auto it = badTable().find(n); return it == badTable().end() ? "<!BADTOKEN-NOT-IN-TABLE " + n + ">" : it->second; }
    return "<!UNKNOWN-TOKEN-KIND>";
}
inline std::string tokens(const json& toks, Rng& r, const Options& o) {
    std::string s;
    for (auto& t : toks) s += token(t, r, o);
    return s;
}
inline std::string toUtf16(const std::string& u8, bool le) {
    std::u16string w = vh::to16(u8);
    std::string o = le ? "\xFF\xFE" : "\xFE\xFF";
    for (char16_t c : w) { if (le) { o.push_back(char(c & 0xFF)); o.push_back(char(c >> 8)); } else { o.push_back(char(c >> 8)); o.push_back(char(c & 0xFF)); } }
    return o;
}
// the whole document; `encoding` receives what was chosen ("UTF-8", "UTF-8+BOM", "UTF-16LE", "UTF-16BE")
inline std::string render(const json& toks, Rng& r, const Options& o = Options(), std::string* encoding = nullptr) {
    std::string s = tokens(toks, r, o);
    int enc = 0;
    if (o.freeEncoding && validUtf8(s) && r.coin(4)) enc = 1 + r.pick(3);
    static const char* names[] = {"UTF-8", "UTF-8+BOM", "UTF-16LE", "UTF-16BE"};
    if (encoding) *encoding = names[enc];
    std::string decl = enc >= 2 ? "UTF-16" : (r.coin() ? "UTF-8" : "utf-8");
    for (size_t p; (p = s.find("\x01" "ENC")) != std::string::npos;) s.replace(p, 4, decl);
    if (enc == 1) return "\xEF\xBB\xBF" + s;
    if (enc >= 2) return toUtf16(s, enc == 2);
    return s;
}
}  // namespace tr
