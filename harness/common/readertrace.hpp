// readertrace.hpp - shared by reader_harness (C04) and the C01 recorder.
//   * RT::Sink   : a VerifSinkFn that renames reader / manager pointers to small per-call ids, appends the H1/H2
//                  events of the running call to a trace buffer (ndjson, the vocabulary of spec/ReaderBufTrace.tla)
//                  and measures, for the document entity's reader, where the raw and character refills fell.
//   * RT::PartSource / PartStream : InputSource / BinInputStream that deliver a byte string in a chosen partition.
//   * RT::ShortFileMgr : decorator of XMLPlatformUtils::fgFileMgr that answers short reads.
#pragma once
#include "vh.hpp"
#include <xercesc/sax/InputSource.hpp>
#include <xercesc/util/BinInputStream.hpp>
#include <xercesc/util/VerifHooks.hpp>
#include <xercesc/util/XMLFileMgr.hpp>
#include <unordered_map>

namespace RT {
using namespace XERCES_CPP_NAMESPACE;

// ---- partition of a byte stream into reads ---------------------------------------------------------------------
// Outside [winLo, winHi) a read returns everything that was asked for; inside, the sizes of `pattern` are used
// cyclically (a read never crosses winHi, so the pattern restarts are deterministic).
struct Partition {
    size_t winLo = 0, winHi = 0;
    std::vector<int> pattern;          // empty: one piece
    size_t next(size_t pos, size_t asked, size_t total, size_t& k) const {
        size_t left = total - pos;
        size_t n = asked < left ? asked : left;
        if (pattern.empty() || pos >= winHi) return n;
        if (pos < winLo) return n < winLo - pos ? n : winLo - pos;
        size_t p = (size_t)pattern[k++ % pattern.size()];
        if (p < n) n = p;
        if (pos + n > winHi) n = winHi - pos;
        return n;
    }
};

class PartStream : public BinInputStream {
public:
    PartStream(const std::string* d, const Partition* p, long* reads) : data(d), part(p), nreads(reads) {}
    XMLFilePos curPos() const override { return pos; }
    XMLSize_t readBytes(XMLByte* const toFill, const XMLSize_t maxToRead) override {
        if (maxToRead == 0) return 0;
        size_t n = part->next(pos, maxToRead, data->size(), k);
        memcpy(toFill, data->data() + pos, n);
        pos += n;
        if (nreads) ++*nreads;
        return n;
    }
    const XMLCh* getContentType() const override { return 0; }
private:
    const std::string* data;
    const Partition* part;
    long* nreads;
    size_t pos = 0, k = 0;
};

class PartSource : public InputSource {
public:
    PartSource(const std::string& d, const Partition& p, const char* sysId) : InputSource(sysId), data(&d), part(p) {}
    BinInputStream* makeStream() const override { return new PartStream(data, &part, &reads); }
    mutable long reads = 0;
private:
    const std::string* data;
    Partition part;
};

// ---- file manager answering short reads ---------------------------------------------------------------------------
class ShortFileMgr : public XMLFileMgr {
public:
    XMLFileMgr* inner = nullptr;
    XMLSize_t maxRead = 0;      // 0: pass through
    long reads = 0, opens = 0;
    FileHandle fileOpen(const XMLCh* path, bool toWrite, MemoryManager* const m) override { opens++; return inner->fileOpen(path, toWrite, m); }
    FileHandle fileOpen(const char* path, bool toWrite, MemoryManager* const m) override { opens++; return inner->fileOpen(path, toWrite, m); }
    FileHandle openStdIn(MemoryManager* const m) override { return inner->openStdIn(m); }
    void fileClose(FileHandle f, MemoryManager* const m) override { inner->fileClose(f, m); }
    void fileReset(FileHandle f, MemoryManager* const m) override { inner->fileReset(f, m); }
    XMLFilePos curPos(FileHandle f, MemoryManager* const m) override { return inner->curPos(f, m); }
    XMLFilePos fileSize(FileHandle f, MemoryManager* const m) override { return inner->fileSize(f, m); }
    XMLSize_t fileRead(FileHandle f, XMLSize_t n, XMLByte* buf, MemoryManager* const m) override {
        reads++;
        if (maxRead && n > maxRead) n = maxRead;
        return inner->fileRead(f, n, buf, m);
    }
    void fileWrite(FileHandle f, XMLSize_t n, const XMLByte* buf, MemoryManager* const m) override { inner->fileWrite(f, n, buf, m); }
    XMLCh* getFullPath(const XMLCh* const p, MemoryManager* const m) override { return inner->getFullPath(p, m); }
    XMLCh* getCurrentDirectory(MemoryManager* const m) override { return inner->getCurrentDirectory(m); }
    bool isRelative(const XMLCh* const p, MemoryManager* const m) override { return inner->isRelative(p, m); }
};

// ---- the sink --------------------------------------------------------------------------------------------------------
struct Sink {
    bool record = false;                 // append events to `trace`
    std::string trace;
    std::unordered_map<long long, int> rid, mid;
    int nextR = 1, nextM = 1;
    long events = 0, callEvents = 0;
    // measurement on the document entity's reader (the first reader created in the call)
    int mainR = 0;
    long long readSoFar = 0, gained = 0;
    std::vector<long long> rawStarts, charStarts;     // byte offset / character offset at which a new batch began
    long long pendingRawStart = -1;
    long long depthGuard = 0;            // > 0: a reader stack deeper than this ends the process (exit 97) before memory is exhausted

    void beginCall(const std::string& callLine) {
        rid.clear(); mid.clear(); nextR = 1; nextM = 1; mainR = 0; readSoFar = 0; gained = 0;
        rawStarts.clear(); charStarts.clear(); callEvents = 0;
        if (record) { trace += callLine; trace += '\n'; }
    }
    void endCall(const std::string& retLine) { if (record) { trace += retLine; trace += '\n'; } }

    int R(long long p, bool fresh) {
        if (fresh) { int id = nextR++; rid[p] = id; return id; }
        auto it = rid.find(p);
        if (it == rid.end()) { int id = 1000000 + nextR++; rid[p] = id; return id; }    // event on a reader never announced: id the spec cannot know
        return it->second;
    }
    int M(long long p) { auto it = mid.find(p); if (it != mid.end()) return it->second; int id = nextM++; mid[p] = id; return id; }

    void on(const char* ev, const char* keys, const long long* v, int n) {
        events++;
        char buf[400];
        int len = 0;
        const std::string e(ev);
        if (e == "EncSet" || e == "Init" || e == "Term") return;
        bool isMgr = (e == "Push" || e == "Pop" || e == "CleanTo" || e == "RdrReset");
        if (e == "RdrNew") {
            int r = R(v[0], true);
            if (!mainR) mainR = r;
            len = snprintf(buf, sizeof buf, "{\"e\":\"RdrNew\",\"r\":%d,\"type\":%lld,\"from\":%lld,\"src\":%lld,\"lw\":%lld}", r, v[1], v[2], v[3], v[4]);
        } else if (e == "Raw") {
            int r = R(v[0], false);
            if (r == mainR) { rawStarts.push_back(readSoFar); readSoFar += v[2] - v[1]; }
            len = snprintf(buf, sizeof buf, "{\"e\":\"Raw\",\"r\":%d,\"left\":%lld,\"ra\":%lld}", r, v[1], v[2]);
        } else if (e == "RdrInit") {
            int r = R(v[0], false);
            if (r == mainR) gained += v[4];
            len = snprintf(buf, sizeof buf, "{\"e\":\"RdrInit\",\"r\":%d,\"ri\":%lld,\"ra\":%lld,\"ci\":%lld,\"ca\":%lld,\"enc\":%lld,\"forced\":%lld}", r, v[1], v[2], v[3], v[4], v[5], v[6]);
        } else if (e == "CRB") {
            len = snprintf(buf, sizeof buf, "{\"e\":\"CRB\",\"r\":%d,\"ci\":%lld,\"ca\":%lld}", R(v[0], false), v[1], v[2]);
        } else if (e == "Xc") {
            int r = R(v[0], false);
            if (r == mainR && v[3] > 0) { charStarts.push_back(gained); gained += v[2]; }
            len = snprintf(buf, sizeof buf, "{\"e\":\"Xc\",\"r\":%d,\"max\":%lld,\"done\":%lld,\"eaten\":%lld,\"ri\":%lld,\"ra\":%lld}", r, v[1], v[2], v[3], v[4], v[5]);
        } else if (e == "CRE") {
            len = snprintf(buf, sizeof buf, "{\"e\":\"CRE\",\"r\":%d,\"spare\":%lld,\"ca\":%lld,\"nomore\":%lld,\"trail\":%lld}", R(v[0], false), v[1], v[2], v[3], v[4]);
        } else if (e == "RdrDel") {
            int r = R(v[0], false);
            rid.erase(v[0]);
            len = snprintf(buf, sizeof buf, "{\"e\":\"RdrDel\",\"r\":%d}", r);
        } else if (e == "Push") {
            if (depthGuard > 0 && v[7] > depthGuard) { fprintf(stderr, "reader stack depth %lld exceeds the guard %lld: unbounded entity recursion\n", v[7], depthGuard); _exit(97); }
            len = snprintf(buf, sizeof buf, "{\"e\":\"Push\",\"m\":%d,\"r\":%d,\"num\":%lld,\"ent\":%lld,\"type\":%lld,\"adopt\":%lld,\"ok\":%lld,\"depth\":%lld}",
                           M(v[0]), R(v[1], false), v[2], v[3], v[4], v[5], v[6], v[7]);
        } else if (e == "Pop") {
            len = snprintf(buf, sizeof buf, "{\"e\":\"Pop\",\"m\":%d,\"num\":%lld,\"depth\":%lld,\"how\":%lld}", M(v[0]), v[1], v[2], v[3]);
        } else if (e == "CleanTo") {
            len = snprintf(buf, sizeof buf, "{\"e\":\"CleanTo\",\"m\":%d,\"num\":%lld,\"depth\":%lld}", M(v[0]), v[1], v[2]);
        } else if (e == "RdrReset") {
            len = snprintf(buf, sizeof buf, "{\"e\":\"RdrReset\",\"m\":%d,\"depth\":%lld}", M(v[0]), v[1]);
        } else {
            return;     // another hook family
        }
        (void)isMgr; (void)keys; (void)n;
        if (record && len > 0 && ++callEvents <= 300000) { trace.append(buf, (size_t)len); trace += '\n'; }   // a runaway call cannot fill the disk
    }
    // did a new raw / character batch begin strictly inside [b0, b0+nb) / [c0, c0+nc) ?
    bool rawInside(long long b0, long long nb) const { for (auto s : rawStarts) if (s > b0 && s < b0 + nb) return true; return false; }
    bool charInside(long long c0, long long nc) const { for (auto s : charStarts) if (s > c0 && s < c0 + nc) return true; return false; }
};

inline Sink*& current() { static Sink* s = nullptr; return s; }
inline void sinkFn(const char* ev, const char* /*str*/, const char* keys, const long long* vals, int n) {
    if (current()) current()->on(ev, keys, vals, n);
}
inline void install(Sink* s) { current() = s; gVerifSink = s ? sinkFn : nullptr; }
}  // namespace RT
