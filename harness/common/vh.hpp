// Shared helpers for the /verif C++ harnesses.
#pragma once
#include <nlohmann/json.hpp>
#include <xercesc/util/PlatformUtils.hpp>
#include <xercesc/util/XMLString.hpp>
#include <xercesc/util/TransService.hpp>
#include <cstdio>
#include <cstdlib>
#include <cstring>
#include <iostream>
#include <string>
#include <vector>
#include <random>
#include <functional>
#include <map>
#include <poll.h>
#include <signal.h>
#include <sys/wait.h>
#include <unistd.h>

namespace vh {
using json = nlohmann::json;
using namespace XERCES_CPP_NAMESPACE;

// ---- UTF-8 <-> XMLCh (UTF-16), independent of the library's transcoders -------------------
inline std::u16string to16(const std::string& s) {
    std::u16string o;
    size_t i = 0;
    while (i < s.size()) {
        unsigned char c = s[i];
        uint32_t cp;
        int n;
        if (c < 0x80) { cp = c; n = 1; }
        else if (c < 0xE0) { cp = c & 0x1F; n = 2; }
        else if (c < 0xF0) { cp = c & 0x0F; n = 3; }
        else { cp = c & 0x07; n = 4; }
        for (int k = 1; k < n && i + k < s.size(); k++) cp = (cp << 6) | (s[i + k] & 0x3F);
        i += n;
        if (cp >= 0x10000) { cp -= 0x10000; o.push_back(char16_t(0xD800 + (cp >> 10))); o.push_back(char16_t(0xDC00 + (cp & 0x3FF))); }
        else o.push_back(char16_t(cp));
    }
    return o;
}
inline std::string to8(const XMLCh* p, size_t len) {
    std::string o;
    for (size_t i = 0; i < len; i++) {
        uint32_t cp = p[i];
        if (cp >= 0xD800 && cp < 0xDC00 && i + 1 < len && p[i + 1] >= 0xDC00 && p[i + 1] < 0xE000) {
            cp = 0x10000 + ((cp - 0xD800) << 10) + (p[i + 1] - 0xDC00);
            i++;
        }
        if (cp < 0x80) o.push_back(char(cp));
        else if (cp < 0x800) { o.push_back(char(0xC0 | (cp >> 6))); o.push_back(char(0x80 | (cp & 0x3F))); }
        else if (cp < 0x10000) { o.push_back(char(0xE0 | (cp >> 12))); o.push_back(char(0x80 | ((cp >> 6) & 0x3F))); o.push_back(char(0x80 | (cp & 0x3F))); }
        else { o.push_back(char(0xF0 | (cp >> 18))); o.push_back(char(0x80 | ((cp >> 12) & 0x3F))); o.push_back(char(0x80 | ((cp >> 6) & 0x3F))); o.push_back(char(0x80 | (cp & 0x3F))); }
    }
    return o;
}
inline std::string to8(const XMLCh* p) {
    if (!p) return std::string();
    size_t n = 0;
    while (p[n]) n++;
    return to8(p, n);
}
// XMLCh string holder
struct X {
    std::u16string s;
    X(const std::string& u8) : s(to16(u8)) {}
    X(const char* u8) : s(to16(u8)) {}
    const XMLCh* c() const { return reinterpret_cast<const XMLCh*>(s.c_str()); }
    operator const XMLCh*() const { return c(); }
};

// ---- TLC emits PrintT(ToJson(v)) as a TLA+ string: "...escaped json..." ---------------------
inline bool decode_tlc_line(const std::string& line, json& out) {
    if (line.empty() || line[0] != '"') return false;
    json s = json::parse(line, nullptr, false);
    if (s.is_discarded() || !s.is_string()) return false;
    out = json::parse(s.get<std::string>(), nullptr, false);
    return !out.is_discarded();
}

// array of 1-char strings <-> std::string
inline std::string join(const json& a) {
    std::string o;
    for (auto& e : a) o += e.get<std::string>();
    return o;
}
inline json chars(const std::string& u8) {   // one JSON string per code point
    json a = json::array();
    size_t i = 0;
    while (i < u8.size()) {
        unsigned char c = u8[i];
        int n = c < 0x80 ? 1 : c < 0xE0 ? 2 : c < 0xF0 ? 3 : 4;
        a.push_back(u8.substr(i, n));
        i += n;
    }
    return a;
}

inline std::string dumpLine(const json& j) {
    std::string s = j.dump(-1, ' ', false, json::error_handler_t::replace);
    s.push_back('\n');
    return s;
}
inline void emit(const json& j) {
    std::string s = dumpLine(j);
    fwrite(s.data(), 1, s.size(), stdout);
}

// ---- supervised execution ---------------------------------------------------------------------
// Every stdin line is handled in a child process. A crash (signal, sanitizer abort, exit) or a hang
// (no answer within timeoutSec) of the child while it handles a line is reported through onFail
// (a mismatch line: the specification says every call returns) and a fresh child is started, so
// the remaining cases are still checked. summary() is asked of every child before it ends.
struct Supervisor {
    std::function<void()> initChild;
    // handle one input line: returns output lines (each ending in \n, may be empty); may add counter keys to
    // 'stat' (tab separated; the PARENT aggregates them, so counts survive a child that is killed) and may set
    // 'tainted' to ask for a fresh child (e.g. after the implementation reached a corrupt state).
    std::function<std::string(const std::string&, std::string& stat, bool& tainted)> handle;
    std::function<std::string(const std::string&, const std::string&)> onFail;   // (line, "hang"|"crash:<n>") -> output lines
    int timeoutSec = 10;
    std::map<std::string, long> counts;

    int toChild = -1, fromChild = -1;
    pid_t pid = -1;

    static bool writeAll(int fd, const char* p, size_t n) {
        while (n) { ssize_t k = ::write(fd, p, n); if (k <= 0) { if (errno == EINTR) continue; return false; } p += k; n -= (size_t)k; }
        return true;
    }
    static bool readLine(FILE* fi, std::string& line) {
        static char* buf = nullptr;
        static size_t cap = 0;
        ssize_t len = getline(&buf, &cap, fi);
        if (len <= 0) return false;
        line.assign(buf, (size_t)len);
        if (!line.empty() && line.back() == '\n') line.pop_back();
        return true;
    }
    // batch protocol: parent sends "<n>\n" followed by n lines; the child answers
    //   <output lines> \x03 <stat keys, tab separated> \x05 <lines handled> [\x04 = tainted, child exits] \x01 \n
    void childLoop(int in, int out) {
        if (initChild) initChild();
        FILE* fi = fdopen(in, "r");
        std::string hdr, line;
        while (readLine(fi, hdr)) {
            int n = atoi(hdr.c_str());
            std::vector<std::string> lines;
            for (int i = 0; i < n; i++) { if (!readLine(fi, line)) _exit(0); lines.push_back(line); }
            std::string o, stat;
            bool tainted = false;
            int done = 0;
            for (; done < n && !tainted; done++) {
                std::string st1;
                o += handle(lines[done], st1, tainted);
                stat += st1 + "\t";
            }
            o += "\x03" + stat + "\x05" + std::to_string(done) + (tainted ? "\x04" : "") + "\x01\n";
            if (!writeAll(out, o.data(), o.size())) _exit(0);
            if (tainted) _exit(0);
        }
        _exit(0);
    }
    void spawn() {
        int a[2], b[2];
        if (pipe(a) || pipe(b)) { perror("pipe"); exit(2); }
        fflush(stdout);
        pid = fork();
        if (pid < 0) { perror("fork"); exit(2); }
        if (pid == 0) { close(a[1]); close(b[0]); childLoop(a[0], b[1]); }
        close(a[0]); close(b[1]);
        toChild = a[1]; fromChild = b[0];
    }
    void reap(bool killIt) {
        if (pid > 0) { if (killIt) kill(pid, SIGKILL); int st; waitpid(pid, &st, 0); }
        if (toChild >= 0) close(toChild);
        if (fromChild >= 0) close(fromChild);
        toChild = fromChild = -1; pid = -1;
    }
    // returns: 0 answered, 1 hang, 2 died; answer appended to out; 'done' = lines of the batch that were handled
    int ask(const std::vector<std::string>& lines, size_t from, size_t n, std::string& out, std::string& what, bool& respawn, size_t& done) {
        respawn = false;
        done = 0;
        std::string m = std::to_string(n) + "\n";
        for (size_t i = 0; i < n; i++) { m += lines[from + i]; m += '\n'; }
        if (!writeAll(toChild, m.data(), m.size())) { what = "crash:pipe"; return 2; }
        std::string acc;
        char buf[65536];
        for (;;) {
            struct pollfd pf = {fromChild, POLLIN, 0};
            int r = poll(&pf, 1, timeoutSec * 1000);
            if (r == 0) { what = "hang"; return 1; }
            if (r < 0) { if (errno == EINTR) continue; what = "crash:poll"; return 2; }
            ssize_t k = ::read(fromChild, buf, sizeof buf);
            if (k <= 0) {
                int st = 0; waitpid(pid, &st, 0); pid = -1;
                what = WIFSIGNALED(st) ? "crash:signal" + std::to_string(WTERMSIG(st)) : "crash:exit" + std::to_string(WEXITSTATUS(st));
                return 2;
            }
            acc.append(buf, (size_t)k);
            if (acc.size() >= 2 && acc.compare(acc.size() - 2, 2, "\x01\n") == 0) {
                acc.resize(acc.size() - 2);
                if (!acc.empty() && acc.back() == '\x04') { respawn = true; acc.pop_back(); }
                size_t p5 = acc.rfind('\x05');
                if (p5 != std::string::npos) { done = (size_t)atol(acc.c_str() + p5 + 1); acc.resize(p5); }
                size_t p3 = acc.rfind('\x03');
                if (p3 != std::string::npos) {
                    std::string stat = acc.substr(p3 + 1);
                    acc.resize(p3);
                    size_t i = 0;
                    while (i < stat.size()) {
                        size_t j = stat.find('\t', i);
                        if (j == std::string::npos) j = stat.size();
                        if (j > i) counts[stat.substr(i, j - i)]++;
                        i = j + 1;
                    }
                }
                out.append(acc);
                return 0;
            }
        }
    }
    long fails = 0, nlines = 0, respawns = 0;
    int batch = 32;
    // handle lines[from, from+n): on a hang/crash of a batch the lines are re-run one at a time to find the culprit
    void runBatch(const std::vector<std::string>& lines, size_t from, size_t n) {
        while (n > 0) {
            std::string out, what;
            bool respawn = false;
            size_t done = 0;
            int r = ask(lines, from, n, out, what, respawn, done);
            if (r != 0) {
                reap(true);
                spawn();
                if (n == 1) {
                    fails++;
                    out = onFail ? onFail(lines[from], what) : std::string();
                    if (!out.empty()) fwrite(out.data(), 1, out.size(), stdout);
                    return;
                }
                for (size_t i = 0; i < n; i++) runBatch(lines, from + i, 1);
                return;
            }
            if (!out.empty()) fwrite(out.data(), 1, out.size(), stdout);
            if (respawn) { respawns++; reap(false); spawn(); }
            if (done == 0 && !respawn) done = n;   // defensive
            from += done;
            n -= done;
        }
    }
    int run() {
        signal(SIGPIPE, SIG_IGN);
        spawn();
        std::string line;
        std::vector<std::string> lines;
        while (std::getline(std::cin, line)) {
            nlines++;
            lines.push_back(line);
            if ((int)lines.size() >= batch) { runBatch(lines, 0, lines.size()); lines.clear(); }
        }
        if (!lines.empty()) runBatch(lines, 0, lines.size());
        reap(true);
        json s = {{"t", "summary"}, {"lines", nlines}, {"child_failures", fails}, {"respawns", respawns}, {"counts", counts}};
        emit(s);
        fflush(stdout);
        return 0;
    }
};

struct Init {
    Init() { XMLPlatformUtils::Initialize(); }
    ~Init() { XMLPlatformUtils::Terminate(); }
};
}  // namespace vh
