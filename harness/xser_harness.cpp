// xser_harness - C16: XSerializeEngine object-graph store/load protocol and grammar-pool serialisation.
//
//   xser_harness t                     binder T (mechanism level): stdin = lines emitted by TLC from spec/XSerGraphGen.tla
//        (one complete behaviour of the XSerGraph specification per line: block size B, graph g, the abstract token
//        stream with offsets, the expected outcome of the load).  The graph is built out of real XSerializable objects
//        (classes VA, VBx below; their serialize() walks the layout table of the case), stored with a real
//        XSerializeEngine of buffer size B, (tampered,) loaded with a second engine.  Compared: the store token stream
//        observed through the H7 hooks (kind, id/value, absolute offset) = the specification's stream; the load token
//        stream = the same stream; the outcome (done / XSerializationException); the loaded graph = g (isomorphism,
//        sharing included; contents of byte runs and values).
//   xser_harness g <manifest.json> <outdir> [only]
//        binders V and T (behaviour level) on real grammar pools: for every entry of the manifest (a DTD or XSD plus
//        instance documents) pool A is built by loadGrammar, serialised (S1), deserialised into pool B (L), B serialised
//        again (S2); the three H7 event streams are written to <outdir>/<name>.ndjson for XSerGraphTrace; every instance
//        is validated against A and against B (events, defaulted attributes, PSVI, error codes) and the component
//        enumerations of A and B are compared; a stream with an altered level stamp must be refused with
//        XSerializationException before anything else is read.
//   Output protocol: {"t":"mismatch","cls":{..},"case":{..},"why":".."} lines and one {"t":"summary",..}.
#include "vh.hpp"
#include <xercesc/framework/MemBufInputSource.hpp>
#include <xercesc/framework/LocalFileInputSource.hpp>
#include <xercesc/framework/XMLGrammarPoolImpl.hpp>
#include <xercesc/framework/psvi/PSVIAttribute.hpp>
#include <xercesc/framework/psvi/PSVIAttributeList.hpp>
#include <xercesc/framework/psvi/PSVIElement.hpp>
#include <xercesc/framework/psvi/PSVIHandler.hpp>
#include <xercesc/framework/psvi/XSAnnotation.hpp>
#include <xercesc/framework/psvi/XSAttributeDeclaration.hpp>
#include <xercesc/framework/psvi/XSAttributeGroupDefinition.hpp>
#include <xercesc/framework/psvi/XSAttributeUse.hpp>
#include <xercesc/framework/psvi/XSComplexTypeDefinition.hpp>
#include <xercesc/framework/psvi/XSConstants.hpp>
#include <xercesc/framework/psvi/XSElementDeclaration.hpp>
#include <xercesc/framework/psvi/XSFacet.hpp>
#include <xercesc/framework/psvi/XSIDCDefinition.hpp>
#include <xercesc/framework/psvi/XSModel.hpp>
#include <xercesc/framework/psvi/XSModelGroup.hpp>
#include <xercesc/framework/psvi/XSModelGroupDefinition.hpp>
#include <xercesc/framework/psvi/XSMultiValueFacet.hpp>
#include <xercesc/framework/psvi/XSNamedMap.hpp>
#include <xercesc/framework/psvi/XSNamespaceItem.hpp>
#include <xercesc/framework/psvi/XSNotationDeclaration.hpp>
#include <xercesc/framework/psvi/XSParticle.hpp>
#include <xercesc/framework/psvi/XSSimpleTypeDefinition.hpp>
#include <xercesc/framework/psvi/XSTypeDefinition.hpp>
#include <xercesc/framework/psvi/XSWildcard.hpp>
#include <xercesc/internal/BinMemOutputStream.hpp>
#include <xercesc/internal/XSerializable.hpp>
#include <xercesc/internal/XSerializationException.hpp>
#include <xercesc/internal/XSerializeEngine.hpp>
#include <xercesc/parsers/SAX2XMLReaderImpl.hpp>
#include <xercesc/sax/SAXParseException.hpp>
#include <xercesc/sax2/Attributes.hpp>
#include <xercesc/sax2/DefaultHandler.hpp>
#include <xercesc/util/BinMemInputStream.hpp>
#include <xercesc/util/OutOfMemoryException.hpp>
#include <xercesc/util/VerifHooks.hpp>
#include <xercesc/util/XMLEntityResolver.hpp>
#include <xercesc/util/XMLUni.hpp>
#include <xercesc/validators/DTD/DTDAttDef.hpp>
#include <xercesc/validators/DTD/DTDAttDefList.hpp>
#include <xercesc/validators/DTD/DTDElementDecl.hpp>
#include <xercesc/validators/DTD/DTDEntityDecl.hpp>
#include <xercesc/validators/DTD/DTDGrammar.hpp>
#include <xercesc/validators/common/Grammar.hpp>
#include <xercesc/validators/schema/SchemaGrammar.hpp>
#include <fstream>
#include <sstream>
#include <unordered_map>

using namespace XERCES_CPP_NAMESPACE;
using vh::json;

// =================================================================================================
// event sink (H7 hooks)
// =================================================================================================
struct Ev {
    std::string e, c;
    long long d = 0, k = 0, n = 0, v = 0, p = 0, pos = 0, t = 0, s = 0, b = 0, w = 0, q = 0, blk = 0, ok = 0;
};
static std::vector<Ev>* gEvents = nullptr;

static void sink(const char* ev, const char* str, const char* keys, const long long* vals, int n) {
    if (!gEvents || ev[0] != 'X' || ev[1] != 's') return;
    Ev x;
    x.e = ev;
    if (str) x.c = str;
    const char* p = keys;
    for (int i = 0; i < n; i++) {
        const char* q = strchr(p, ',');
        size_t len = q ? (size_t)(q - p) : strlen(p);
        long long v = vals[i];
        if (len == 1) {
            switch (p[0]) {
            case 'd': x.d = v; break; case 'k': x.k = v; break; case 'n': x.n = v; break; case 'v': x.v = v; break;
            case 'p': x.p = v; break; case 't': x.t = v; break; case 's': x.s = v; break; case 'b': x.b = v; break;
            case 'w': x.w = v; break; case 'q': x.q = v; break;
            }
        } else if (len == 3 && !strncmp(p, "pos", 3)) x.pos = v;
        else if (len == 3 && !strncmp(p, "blk", 3)) x.blk = v;
        else if (len == 2 && !strncmp(p, "ok", 2)) x.ok = v;
        p = q ? q + 1 : p + len;
    }
    gEvents->push_back(std::move(x));
}
struct Capture {
    std::vector<Ev> ev;
    Capture() { gEvents = &ev; gVerifSink = sink; }
    ~Capture() { gVerifSink = nullptr; gEvents = nullptr; }
};

static const long long FOLD = 2147483647LL;
static const char* primName(long long t) {
    static const char* n[] = {"?", "xmlch", "byte", "bool", "char", "short", "int", "uint", "long", "ulong", "float", "double", "size", "int64", "uint64"};
    return (t >= 0 && t <= 14) ? n[t] : "?";
}

// =================================================================================================
// mode t: the engine on abstract graphs
// =================================================================================================
struct CaseCtx {
    json lay;                                   // class -> [[kind, class]...]
    bool loading = false;
};
static CaseCtx* gCase = nullptr;

static XMLByte patternByte(long long objNo, size_t i) { return (XMLByte)(1 + (objNo * 37 + i * 11) % 250); }

class VNode : public XSerializable, public XMemory {
public:
    std::string cls;
    long long no = 0;                            // store side: object number; load side: the ulong field if the class has one
    long long bl = 0;
    std::vector<XMLByte> bytes;
    std::vector<VNode*> ptr;
    bool ulongSeen = false;
    VNode(const char* c) : cls(c) {}
    void doSerialize(XSerializeEngine& eng);
};
class VA : public VNode {
public:
    DECL_XSERIALIZABLE(VA)
    VA(MemoryManager* = 0) : VNode("VA") {}
};
class VBx : public VNode {
public:
    DECL_XSERIALIZABLE(VBx)
    VBx(MemoryManager* = 0) : VNode("VBx") {}
};
IMPL_XSERIALIZABLE_TOCREATE(VA)
IMPL_XSERIALIZABLE_TOCREATE(VBx)
void VA::serialize(XSerializeEngine& eng) { doSerialize(eng); }
void VBx::serialize(XSerializeEngine& eng) { doSerialize(eng); }
static XProtoType* protoOf(const std::string& c) { return c == "VA" ? XPROTOTYPE_CLASS(VA) : XPROTOTYPE_CLASS(VBx); }

// dumb, table driven: perform the operations of the class's layout in order
void VNode::doSerialize(XSerializeEngine& eng) {
    const json& lay = gCase->lay[cls];
    size_t np = 0;
    if (eng.isLoading()) ptr.clear();
    for (auto& f : lay) {
        std::string k = f[0];
        if (k == "int") {
            if (eng.isStoring()) eng << (int)bl; else { int x; eng >> x; bl = x; }
        } else if (k == "ulong") {
            if (eng.isStoring()) eng << (unsigned long)no; else { unsigned long x; eng >> x; no = (long long)x; ulongSeen = true; }
        } else if (k == "bytes") {
            if (eng.isStoring()) eng.write(bytes.data() ? bytes.data() : (const XMLByte*)"", (XMLSize_t)bl);
            else {
                if (bl < 0 || bl > 100000) throw std::runtime_error("implausible length read");
                bytes.assign((size_t)bl + 1, 0);
                eng.read(bytes.data(), (XMLSize_t)bl);
                bytes.resize((size_t)bl);
            }
        } else if (k == "ptr") {
            if (eng.isStoring()) eng << (XSerializable*)(np < ptr.size() ? ptr[np] : nullptr);
            else ptr.push_back((VNode*)eng.read(protoOf(f[1])));
            np++;
        }
    }
}

// events -> abstract tokens [k, c, n, off] (the projection of appendix A)
static json tokensOf(const std::vector<Ev>& ev, long long dir, std::string& err) {
    json toks = json::array();
    long long pendBytesPos = -1, pendBytesLen = -1;
    for (size_t i = 0; i < ev.size(); i++) {
        const Ev& x = ev[i];
        if (x.d != dir) continue;
        if (x.e == "XsPrim") {
            std::string k = primName(x.t);
            toks.push_back({k, "", x.v, x.pos});
        } else if (x.e == "XsBytes") {
            toks.push_back({"bytes", "", x.n, x.pos});
        } else if (x.e == "XsBytesB") {
            pendBytesPos = x.pos; pendBytesLen = x.n;
            if (x.n == 0) { toks.push_back({"bytes", "", 0, x.pos}); pendBytesPos = -1; }
        } else if (x.e == "XsBytesE") {
            if (pendBytesPos < 0 || pendBytesLen != x.n) { err = "unbalanced XsBytesE"; return toks; }
            toks.push_back({"bytes", "", x.n, pendBytesPos});
            pendBytesPos = -1;
        } else if (x.e == "XsObj") {
            if (x.k == 2) continue;                        // the tokens of a new object are those of its class
            if (toks.empty() || toks.back()[0] != "uint") { err = "object tag without a tag primitive"; return toks; }
            toks.back()[0] = x.k == 0 ? "null" : "ref";
            toks.back()[2] = x.n;
        } else if (x.e == "XsCls") {
            if (x.k == 1) {
                if (toks.empty() || toks.back()[0] != "uint") { err = "class tag without a tag primitive"; return toks; }
                toks.back()[0] = "class"; toks.back()[1] = x.c; toks.back()[2] = x.n;
            } else {
                size_t m = toks.size();
                if (m < 3 || toks[m - 3][0] != "uint" || toks[m - 1][0] != "bytes") { err = "new class without tag/name"; return toks; }
                toks[m - 3][0] = "newclass"; toks[m - 3][1] = x.c; toks[m - 3][2] = 0;
                toks[m - 1][1] = x.c;
            }
        }
    }
    if (!toks.empty() && toks[0][0] == "uint") toks[0][0] = "level";
    return toks;
}

static void freeGraph(std::vector<VNode*>& all) { for (auto p : all) delete p; all.clear(); }

// canonical form of a graph reachable from root: numbering in store order (depth first, fields in layout order)
static json canon(VNode* root, std::vector<VNode*>& order) {
    std::unordered_map<VNode*, long long> num;
    std::function<void(VNode*)> visit = [&](VNode* n) {
        if (!n || num.count(n)) return;
        num[n] = (long long)order.size() + 1;
        order.push_back(n);
        for (auto p : n->ptr) visit(p);
    };
    visit(root);
    json g = {{"root", root ? num[root] : 0}, {"cls", json::array()}, {"ptr", json::array()}, {"bl", json::array()}};
    for (auto n : order) {
        g["cls"].push_back(n->cls);
        json ps = json::array();
        for (auto p : n->ptr) ps.push_back(p ? num[p] : 0);
        g["ptr"].push_back(ps);
        g["bl"].push_back(n->bl);
    }
    return g;
}

// token i follows a byte run that did not fit into its block and ended exactly at a block end
static bool afterExactRun(const json& exp, size_t i, long long B) {
    if (i == 0 || i > exp.size() || exp[i - 1][0] != "bytes") return false;
    long long n = exp[i - 1][2], off = exp[i - 1][3];
    return n > B - off % B && (off + n) % B == 0;
}

struct TOut { std::string lines, stat; bool tainted = false; };

static void mismatch(TOut& o, const json& cls, const json& cs, const std::string& why) {
    o.lines += vh::dumpLine({{"t", "mismatch"}, {"cls", cls}, {"case", cs}, {"why", why}});
    o.stat += "mismatches\t";
}

static std::string handleT(const std::string& line, std::string& stat, bool& tainted) {
    TOut o;
    json c;
    if (!vh::decode_tlc_line(line, c)) { stat = "torn"; return ""; }
    const long long B = c["B"];
    const std::string tamper = c["tamper"], res = c["res"];
    const bool exact = c["exact"];
    const json& g = c["g"];
    const json& exp = c["stream"];
    CaseCtx ctx;
    ctx.lay = c["lay"];
    gCase = &ctx;
    json cs = {{"mode", "T"}, {"B", B}, {"tamper", tamper}, {"g", g}, {"res", res}, {"exact", exact}};
    auto cls0 = [&](const std::string& action) {
        return json{{"binder", "T-engine"}, {"action", action}, {"expected", res}, {"tamper", tamper}, {"exactBlockEnd", exact}};
    };
    stat = "cases\tres:" + res + "\ttamper:" + tamper + "\t" + (exact ? "exactBlockEnd\t" : "");
    // ---- build the graph -------------------------------------------------------------------------
    std::vector<VNode*> objs;
    size_t n = g["cls"].size();
    for (size_t i = 0; i < n; i++) {
        VNode* o1 = g["cls"][i] == "VA" ? (VNode*)new VA() : (VNode*)new VBx();
        o1->no = (long long)i + 1;
        o1->bl = g["bl"][i];
        for (long long j = 0; j < o1->bl; j++) o1->bytes.push_back(patternByte(o1->no, (size_t)j));
        objs.push_back(o1);
    }
    for (size_t i = 0; i < n; i++)
        for (auto& t : g["ptr"][i]) objs[i]->ptr.push_back(t.get<long long>() == 0 ? nullptr : objs[t.get<long long>() - 1]);
    VNode* root = g["root"].get<long long>() == 0 ? nullptr : objs[g["root"].get<long long>() - 1];
    XMLGrammarPoolImpl pool(XMLPlatformUtils::fgMemoryManager);
    BinMemOutputStream out(256);
    std::vector<XMLByte> bytes;
    // ---- store ------------------------------------------------------------------------------------
    json stoks;
    {
        Capture cap;
        std::string err;
        try {
            XSerializeEngine eng(&out, &pool, (XMLSize_t)B);
            eng << (unsigned int)c["level"].get<long long>();
            eng << (XSerializable*)root;
        } catch (const XMLException& ex) {
            err = "exception " + vh::to8(ex.getType());
        }
        if (!err.empty()) { mismatch(o, cls0("store"), cs, "store raised " + err); freeGraph(objs); stat += o.stat; return o.lines; }
        stoks = tokensOf(cap.ev, 0, err);
        long long flushes = 0;
        for (auto& x : cap.ev) if (x.e == "XsBuf" && x.d == 0) flushes++;
        if (!err.empty() || stoks != exp) {
            size_t i = 0;
            while (i < stoks.size() && i < exp.size() && stoks[i] == exp[i]) i++;
            json cl = cls0("store");
            cl["token"] = i < exp.size() ? exp[i][0] : json("end");
            json cs2 = cs; cs2["at"] = i; cs2["expected"] = i < exp.size() ? exp[i] : json(); cs2["got"] = i < stoks.size() ? stoks[i] : json();
            mismatch(o, cl, cs2, "store token stream differs from the specification's " + err);
        } else o.stat += "store_streams_equal\t";
        if (flushes != c["blocks"].get<long long>() || (long long)out.curPos() != flushes * B) {
            json cl = cls0("flush");
            mismatch(o, cl, cs, "number of blocks written " + std::to_string(flushes) + " / bytes " + std::to_string((long long)out.curPos()));
        }
    }
    bytes.assign(out.getRawBuffer(), out.getRawBuffer() + out.curPos());
    // ---- tamper -----------------------------------------------------------------------------------
    if (tamper == "clsname") {
        for (auto& t : exp)
            if (t[0] == "bytes" && t[1] != "") { bytes[(size_t)t[3].get<long long>()] ^= 0x01; break; }
    }
    // ---- load -------------------------------------------------------------------------------------
    std::string got = "done", exc;
    VNode* lroot = nullptr;
    json ltoks;
    {
        Capture cap;
        std::string err;
        try {
            BinMemInputStream in(bytes.data(), bytes.size(), BinMemInputStream::BufOpt_Reference);
            XSerializeEngine eng(&in, &pool, (XMLSize_t)B);
            unsigned int lv;
            eng >> lv;
            lroot = (VNode*)eng.read(protoOf(c["root"]));
        } catch (const XSerializationException& ex) {
            got = "rejected"; exc = "XSerializationException";
        } catch (const XMLException& ex) {
            got = "exception"; exc = vh::to8(ex.getType());
        } catch (const std::exception& ex) {
            got = "corrupt"; exc = ex.what();
        }
        ltoks = tokensOf(cap.ev, 1, err);
        // load pool contents (for freeing): every object created is in an XsObj k=2 event
        std::vector<VNode*> loaded;
        for (auto& x : cap.ev) if (x.e == "XsObj" && x.d == 1 && x.k == 2) loaded.push_back((VNode*)(size_t)x.p);
        bool ok = true;
        if (got != res) {
            ok = false;
            json cl = cls0("load");
            cl["observed"] = got;
            size_t i = 0;
            while (i < ltoks.size() && i < exp.size() && ltoks[i] == exp[i]) i++;
            if (afterExactRun(exp, i, B)) cl["divergesAfter"] = "bytes-ending-at-block-end";
            json cs2 = cs; cs2["at"] = i; cs2["exception"] = exc;
            mismatch(o, cl, cs2, "load ends " + got + " (" + exc + "), the specification says " + res);
        } else if (res == "done") {
            if (ltoks != exp) {
                ok = false;
                size_t i = 0;
                while (i < ltoks.size() && i < exp.size() && ltoks[i] == exp[i]) i++;
                json cl = cls0("load");
                cl["observed"] = "token stream differs";
                if (afterExactRun(exp, i, B)) cl["divergesAfter"] = "bytes-ending-at-block-end";
                json cs2 = cs; cs2["at"] = i; cs2["expected"] = i < exp.size() ? exp[i] : json(); cs2["got"] = i < ltoks.size() ? ltoks[i] : json();
                mismatch(o, cl, cs2, "load token stream differs from the stored one (FieldSymmetry / PositionsAgree)");
            } else o.stat += "load_streams_equal\t";
            std::vector<VNode*> order;
            json hg = canon(lroot, order);
            if (hg != g) {
                ok = false;
                json cl = cls0("load");
                cl["observed"] = "graph differs";
                json cs2 = cs; cs2["loaded"] = hg;
                mismatch(o, cl, cs2, "loaded graph is not isomorphic to the stored one");
            } else {
                o.stat += "graphs_isomorphic\t";
                for (size_t i = 0; i < order.size(); i++) {
                    VNode* a = order[i];
                    bool good = true;
                    for (size_t j = 0; j < a->bytes.size(); j++) good = good && a->bytes[j] == patternByte((long long)i + 1, j);
                    if (a->ulongSeen && a->no != (long long)i + 1) good = false;
                    if (!good) {
                        ok = false;
                        json cl = cls0("load");
                        cl["observed"] = "field value differs";
                        mismatch(o, cl, cs, "contents of object " + std::to_string(i + 1) + " differ after the round trip");
                        break;
                    }
                }
            }
        } else o.stat += "rejections_confirmed\t";
        if (ok) o.stat += "compared\t";
        if (got == "done" || got == "rejected") freeGraph(loaded); else o.tainted = true;   // after garbage: fresh process
    }
    freeGraph(objs);
    gCase = nullptr;
    stat += o.stat;
    tainted = o.tainted;
    return o.lines;
}

static int modeT() {
    vh::Supervisor sup;
    sup.timeoutSec = 60;
    sup.initChild = [] { XMLPlatformUtils::Initialize(); };
    sup.handle = handleT;
    sup.onFail = [](const std::string& line, const std::string& what) {
        json c;
        vh::decode_tlc_line(line, c);
        json cls = {{"binder", "T-engine"}, {"action", "load"}, {"expected", c.value("res", "?")}, {"tamper", c.value("tamper", "?")},
                    {"exactBlockEnd", c.value("exact", false)}, {"observed", what.substr(0, 5)}};
        if (c.value("exact", false)) cls["divergesAfter"] = "bytes-ending-at-block-end";
        return vh::dumpLine({{"t", "mismatch"}, {"cls", cls}, {"case", {{"mode", "T"}, {"B", c["B"]}, {"g", c["g"]}, {"tamper", c["tamper"]}, {"what", what}}},
                             {"why", "the implementation did not return: " + what}});
    };
    return sup.run();
}

#include "xser_grammar.hpp"

int main(int argc, char** argv) {
    if (argc >= 2 && std::string(argv[1]) == "t") return modeT();
    if (argc >= 4 && std::string(argv[1]) == "g") return modeG(argv[2], argv[3], argc >= 5 ? argv[4] : "");
    fprintf(stderr, "usage: xser_harness t | g <manifest> <outdir> [only]\n");
    return 2;
}
