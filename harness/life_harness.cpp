// Binder W for the ParserLifecycle specification (property C15).
//   life_harness w <combos>      stdin: TLC lines  [[op, expected], ...]  (one operation history per line)
//   life_harness probe <combos>  stdin: raw JSON lines [op, ...]           -> prints what the real parser does (no expectations)
// <combos> = comma separated API/scanner pairs, e.g. SAX2/IGXMLScanner,DOM/DGXMLScanner  or "all"
//
// Every history is executed on ONE real parser object per API x scanner.  After every parse the canonical dump
// (harness/common/parsedump.hpp handlers) is compared with
//   (a) the dump of the SAME parse on a freshly constructed parser (the specification's F), and
//   (b) the abstract outcome the specification computed (how / validity errors / number of startElement callbacks);
// after every operation the keys of the real grammar pool are compared with the specification's pool, a stale
// progressive token must be rejected, and every adopted document is re-dumped and must be unchanged.
//
// Operations (JSON arrays):  ["parse",d,k] ["pfirst",d] ["pnext",t] ["preset",t] ["set",feature,value]
//   ["load",g,cache] ["resetpool"] ["lock"] ["unlock"] ["resetdocs"] ["adopt"]
// The document / DTD tables below are the dumb renderer of the specification's abstract documents (spec/ParserLifecycle.tla, DocTab).
#include "parsedump.hpp"
#include <xercesc/framework/XMLGrammarPoolImpl.hpp>
#include <xercesc/framework/XMLGrammarDescription.hpp>
#include <xercesc/validators/common/Grammar.hpp>
#include <xercesc/util/XMLResourceIdentifier.hpp>
#include <xercesc/sax/SAXException.hpp>
#include <xercesc/internal/VecAttributesImpl.hpp>
#include <set>
#include <sys/mman.h>
using namespace vh;
using namespace XERCES_CPP_NAMESPACE;

// ---------------------------------------------------------------------------------------------------------------------
// document pool: built so that stale scanner state is OBSERVABLE (same element / ID / entity names, different meanings)
// ---------------------------------------------------------------------------------------------------------------------
static const char* DTD_A = "<!ELEMENT r (#PCDATA|a|b)*><!ELEMENT a EMPTY><!ELEMENT b (#PCDATA|a|b)*>"
                           "<!ATTLIST a id ID #IMPLIED ref IDREF #IMPLIED k CDATA \"dA\"><!ENTITY e \"fromA\">";
static const char* DTD_B = "<!ELEMENT r (#PCDATA|a)*><!ELEMENT a (#PCDATA)>"
                           "<!ATTLIST a id CDATA #IMPLIED ref CDATA #IMPLIED><!ENTITY f \"fromB\">";
static const char* DTD_C = "<!ELEMENT r ANY><!ELEMENT a ANY><!ELEMENT b ANY><!ENTITY e \"<a>&f;</a>\"><!ENTITY f \"<a><b></a>\">";
// two DIFFERENT schemas for the same key (target namespace urn:x): SA is offered to loadGrammar, SB is what the documents name
static const char* XSD_A = "<xs:schema xmlns:xs='http://www.w3.org/2001/XMLSchema' targetNamespace='urn:x' elementFormDefault='qualified'>"
                           "<xs:element name='a'><xs:complexType><xs:attribute name='k' type='xs:string' default='fromA'/></xs:complexType></xs:element></xs:schema>";
static const char* XSD_B = "<xs:schema xmlns:xs='http://www.w3.org/2001/XMLSchema' targetNamespace='urn:x' elementFormDefault='qualified'>"
                           "<xs:element name='a'><xs:complexType><xs:attribute name='k' type='xs:string' default='fromB'/></xs:complexType></xs:element>"
                           "<xs:element name='b' type='xs:int'/></xs:schema>";
#define SYS_XA "file:///vf/sA.xsd"
#define SYS_XB "file:///vf/sB.xsd"
#define XSI " xmlns:xsi='http://www.w3.org/2001/XMLSchema-instance' xsi:schemaLocation='urn:x " SYS_XB "'"
#define SYS_A "file:///vf/gA.dtd"
#define SYS_B "file:///vf/gB.dtd"
static std::string intDoc(const char* dtd, const char* body, const char* decl = "") {
    return std::string(decl) + "<!DOCTYPE r [" + dtd + "]>\n" + body;
}
static std::string extDoc(const char* sys, const char* body) { return std::string("<!DOCTYPE r SYSTEM \"") + sys + "\">\n" + body; }
static const std::vector<std::string>& docs() {
    static const std::vector<std::string> v = {
        "",                                                                                   // 0 unused
        intDoc(DTD_A, "<r><a id=\"x\"/><a ref=\"x\"/>&e;</r>"),                               // 1 valid (A), ID x, entity e
        intDoc(DTD_A, "<r><a ref=\"x\"/></r>"),                                               // 2 IDREF x dangles unless an ID leaks
        extDoc(SYS_B, "<r><a id=\"x\">&e;</a></r>"),                                          // 3 external B; e is declared by A only
        intDoc(DTD_A, "<r><a id=\"y\"/></r>", "<?xml version=\"1.0\" standalone=\"yes\"?>"),  // 4 standalone
        intDoc(DTD_A, "<r><a id=\"x\"/><b><b></r>"),                                          // 5 malformed, element stack depth 3
        intDoc(DTD_C, "<r>&e;</r>"),                                                          // 6 malformed inside a nested entity (reader depth 3)
        "<r><a id=\"x\"/>&e;</r>",                                                            // 7 no DTD, undeclared entity
        extDoc(SYS_A, "<r><a id=\"x\"/><a ref=\"x\"/>&e;</r>"),                               // 8 external A, valid
        extDoc(SYS_B, "<r><a id=\"x\">&f;</a></r>"),                                          // 9 external B, valid
        extDoc(SYS_A, "<r><a ref=\"q\"/><u/></r>"),                                           // 10 external A, invalid
        "<a xmlns='urn:x'" XSI "/>",                                                          // 11 schema document, valid under SA and SB (default k differs)
        "<b xmlns='urn:x'" XSI ">42</b>",                                                     // 12 schema document, valid under SB only
    };
    return v;
}
static const char* dtdText(const std::string& g) { return g == "A" ? DTD_A : g == "B" ? DTD_B : DTD_C; }
static const char* dtdSys(const std::string& g) { return g == "A" ? SYS_A : SYS_B; }
static std::string absKey(const std::string& k) {   // real pool key -> abstract key of the specification
    if (k == SYS_A) return "A";
    if (k == SYS_B) return "B";
    if (k == "[dtd]") return "dtd";
    if (k == "urn:x") return "X";
    return k;
}

struct MemResolver : public XMLEntityResolver {
    long asked = 0;
    InputSource* resolveEntity(XMLResourceIdentifier* id) override {
        asked++;
        std::string s = to8(id->getSystemId());
        const char* t = s == SYS_A ? DTD_A : s == SYS_B ? DTD_B : s == SYS_XB ? XSD_B : s == SYS_XA ? XSD_A : nullptr;
        if (!t) return nullptr;
        return new MemBufInputSource(reinterpret_cast<const XMLByte*>(t), strlen(t), id->getSystemId(), false);
    }
};

struct Boom {};   // marker; we throw SAXException
// ---- handlers that throw at the k-th startElement ---------------------------------------------------------------------
struct ThrowCtl { int throwAt = 0; int seen = 0; bool hit() { return throwAt > 0 && ++seen == throwAt; } };
struct TSax1 : public pd::detail::Sax1Handler {
    ThrowCtl& c;
    TSax1(pd::detail::Sink& s, ThrowCtl& cc) : Sax1Handler(s), c(cc) {}
    void startElement(const XMLCh* const name, AttributeList& a) override {
        Sax1Handler::startElement(name, a);
        if (c.hit()) throw SAXException("handler exception");
    }
};
struct TSax2 : public pd::detail::Sax2Handler {
    ThrowCtl& c;
    TSax2(pd::detail::Sink& s, ThrowCtl& cc) : Sax2Handler(s), c(cc) {}
    void startElement(const XMLCh* const uri, const XMLCh* const local, const XMLCh* const qname, const Attributes& a) override {
        Sax2Handler::startElement(uri, local, qname, a);
        if (c.hit()) throw SAXException("handler exception");
    }
};
struct TDom : public XercesDOMParser {
    ThrowCtl* c = nullptr;
    TDom(XMLValidator* v, MemoryManager* m, XMLGrammarPool* p) : XercesDOMParser(v, m, p) {}
    void startElement(const XMLElementDecl& d, const unsigned int u, const XMLCh* const p, const RefVectorOf<XMLAttr>& al, const XMLSize_t n,
                      const bool e, const bool r) override {
        XercesDOMParser::startElement(d, u, p, al, n, e, r);
        if (c && c->hit()) throw SAXException("handler exception");
    }
};

struct Feat { int val = 0; bool ns = true, cache = false, use = false, schema = false; };

// One real parser object (one API, one scanner) with its own grammar pool.
struct Life {
    int api;
    std::string scanner;
    Feat f;
    XMLGrammarPoolImpl* pool = nullptr;
    SAXParser* saxp = nullptr;
    SAX2XMLReaderImpl* sax2p = nullptr;
    TDom* domp = nullptr;
    DOMLSParser* lsp = nullptr;
    MemResolver res;
    pd::Config pcfg;
    pd::detail::Sink k;
    pd::Result cur;
    ThrowCtl ctl;
    std::unique_ptr<TSax1> h1;
    std::unique_ptr<TSax2> h2;
    std::unique_ptr<pd::detail::SaxErrHeld> hd;
    std::unique_ptr<pd::detail::DomErr> hl;
    // progressive run
    std::vector<XMLPScanToken*> toks;
    int runTok = -1;          // index of the token of the run in progress, -1 none
    int runDoc = 0, runSteps = 0;
    std::unique_ptr<MemBufInputSource> runSrc;
    // adopted documents with the dump taken when they were adopted
    std::vector<std::pair<DOMDocument*, json>> adopted;
    DOMDocument* lastLsDoc = nullptr;

    Life(int a, const std::string& sc) : api(a), scanner(sc) {
        pool = new XMLGrammarPoolImpl(XMLPlatformUtils::fgMemoryManager);
        pcfg.api = a;
        pcfg.scanner = sc;
        switch (api) {
        case pd::SAX:
            saxp = new SAXParser(0, XMLPlatformUtils::fgMemoryManager, pool);
            saxp->useScanner(X(sc));
            saxp->setXMLEntityResolver(&res);
            h1.reset(new TSax1(k, ctl));
            saxp->setDocumentHandler(h1.get());
            saxp->setDTDHandler(h1.get());
            saxp->setErrorHandler(h1.get());
            break;
        case pd::SAX2:
            sax2p = new SAX2XMLReaderImpl(XMLPlatformUtils::fgMemoryManager, pool);
            sax2p->setProperty(XMLUni::fgXercesScannerName, (void*)X(sc).c());
            sax2p->setFeature(XMLUni::fgSAX2CoreNameSpacePrefixes, true);
            sax2p->setXMLEntityResolver(&res);
            h2.reset(new TSax2(k, ctl));
            sax2p->setContentHandler(h2.get());
            sax2p->setDTDHandler(h2.get());
            sax2p->setLexicalHandler(h2.get());
            sax2p->setDeclarationHandler(h2.get());
            sax2p->setErrorHandler(h2.get());
            break;
        case pd::DOM:
            domp = new TDom(0, XMLPlatformUtils::fgMemoryManager, pool);
            domp->c = &ctl;
            domp->useScanner(X(sc));
            domp->setXMLEntityResolver(&res);
            hd.reset(new pd::detail::SaxErrHeld(k));
            domp->setErrorHandler(hd.get());
            break;
        default: {
            static const XMLCh ls[] = {chLatin_L, chLatin_S, chNull};
            DOMImplementation* impl = DOMImplementationRegistry::getDOMImplementation(ls);
            lsp = static_cast<DOMImplementationLS*>(impl)->createLSParser(DOMImplementationLS::MODE_SYNCHRONOUS, 0, XMLPlatformUtils::fgMemoryManager, pool);
            DOMConfiguration* dc = lsp->getDomConfig();
            dc->setParameter(XMLUni::fgXercesScannerName, (const void*)X(sc).c());
            dc->setParameter(XMLUni::fgXercesEntityResolver, (const void*)&res);
            hl.reset(new pd::detail::DomErr(k));
            dc->setParameter(XMLUni::fgDOMErrorHandler, (const void*)hl.get());
            break;
        }
        }
        setFeat("val", 0);
        setFeat("ns", 1);
    }
    ~Life() {
        for (auto& a : adopted) a.first->release();
        for (auto t : toks) delete t;
        if (lsp) lsp->release();
        delete domp;
        delete sax2p;
        delete saxp;
        delete pool;
    }
    // one feature change = the one API call an application makes; cache / use are read back from the parser afterwards
    void setFeat(const std::string& ft, int v) {
        if (ft == "val") f.val = v;
        if (ft == "ns") f.ns = v != 0;
        if (ft == "schema") f.schema = v != 0;
        pcfg.namespaces = f.ns;
        pcfg.validation = f.val;
        switch (api) {
        case pd::SAX:
            if (ft == "val") saxp->setValidationScheme(f.val == 0 ? SAXParser::Val_Never : f.val == 1 ? SAXParser::Val_Always : SAXParser::Val_Auto);
            if (ft == "ns") saxp->setDoNamespaces(f.ns);
            if (ft == "schema") saxp->setDoSchema(f.schema);
            if (ft == "cache") saxp->cacheGrammarFromParse(v != 0);
            if (ft == "use") saxp->useCachedGrammarInParse(v != 0);
            break;
        case pd::SAX2:
            if (ft == "val") { sax2p->setFeature(XMLUni::fgSAX2CoreValidation, f.val != 0); sax2p->setFeature(XMLUni::fgXercesDynamic, f.val == 2); }
            if (ft == "ns") sax2p->setFeature(XMLUni::fgSAX2CoreNameSpaces, f.ns);
            if (ft == "schema") sax2p->setFeature(XMLUni::fgXercesSchema, f.schema);
            if (ft == "cache") sax2p->setFeature(XMLUni::fgXercesCacheGrammarFromParse, v != 0);
            if (ft == "use") sax2p->setFeature(XMLUni::fgXercesUseCachedGrammarInParse, v != 0);
            break;
        case pd::DOM:
            if (ft == "val") domp->setValidationScheme(f.val == 0 ? AbstractDOMParser::Val_Never : f.val == 1 ? AbstractDOMParser::Val_Always : AbstractDOMParser::Val_Auto);
            if (ft == "ns") domp->setDoNamespaces(f.ns);
            if (ft == "schema") domp->setDoSchema(f.schema);
            if (ft == "cache") domp->cacheGrammarFromParse(v != 0);
            if (ft == "use") domp->useCachedGrammarInParse(v != 0);
            break;
        default: {
            DOMConfiguration* dc = lsp->getDomConfig();
            if (ft == "val") { dc->setParameter(XMLUni::fgDOMValidate, f.val == 1); if (f.val == 2) dc->setParameter(XMLUni::fgDOMValidateIfSchema, true); }
            if (ft == "ns") dc->setParameter(XMLUni::fgDOMNamespaces, f.ns);
            if (ft == "schema") dc->setParameter(XMLUni::fgXercesSchema, f.schema);
            if (ft == "cache") dc->setParameter(XMLUni::fgXercesCacheGrammarFromParse, v != 0);
            if (ft == "use") dc->setParameter(XMLUni::fgXercesUseCachedGrammarInParse, v != 0);
        }
        }
        json now = featuresNow();
        f.cache = now["cache"];
        f.use = now["use"];
    }
    void apply() {}
    // bring a newly constructed parser to the same configuration (through the same public setters)
    void configureLike(const Feat& o) {
        setFeat("val", o.val);
        setFeat("ns", o.ns ? 1 : 0);
        if (o.schema) setFeat("schema", 1);
        if (o.cache) setFeat("cache", 1);
        else if (o.use) setFeat("use", 1);
    }
    // the features as the parser reports them (cacheGrammarFromParse(true) switches useCachedGrammarInParse on, ...)
    json featuresNow() {
        bool c = false, u = false;
        switch (api) {
        case pd::SAX: c = saxp->isCachingGrammarFromParse(); u = saxp->isUsingCachedGrammarInParse(); break;
        case pd::SAX2: c = sax2p->getFeature(XMLUni::fgXercesCacheGrammarFromParse); u = sax2p->getFeature(XMLUni::fgXercesUseCachedGrammarInParse); break;
        case pd::DOM: c = domp->isCachingGrammarFromParse(); u = domp->isUsingCachedGrammarInParse(); break;
        default: {
            DOMConfiguration* dc = lsp->getDomConfig();
            c = dc->getParameter(XMLUni::fgXercesCacheGrammarFromParse) != 0;
            u = dc->getParameter(XMLUni::fgXercesUseCachedGrammarInParse) != 0;
        }
        }
        return {{"cache", c}, {"use", u}};
    }
    void beginRun(int throwAt) {
        cur = pd::Result();
        k = pd::detail::Sink();
        k.r = &cur;
        k.cfg = &pcfg;
        ctl.throwAt = throwAt;
        ctl.seen = 0;
        if (hd) hd->held.clear();
        if (hl) hl->held.clear();
        if (h2) { h2->inCdata = false; h2->dtdDepth = 0; }
    }
    template <class F> void guarded(F fn) {
        try { fn(); }
        catch (const OutOfMemoryException&) { cur.exception = "OutOfMemoryException"; }
        catch (const SAXParseException&) { cur.exception = "SAXParseException"; }
        catch (const SAXException&) { cur.exception = "SAXException"; }
        catch (const XMLException& e) { cur.exception = "XMLException:" + to8(e.getType()); }
        catch (const DOMLSException& e) { cur.exception = "DOMLSException:" + std::to_string((int)e.code); }
        catch (const DOMException& e) { cur.exception = "DOMException:" + std::to_string((int)e.code); }
        catch (const XMLErrs::Codes c) { cur.exception = "XMLErrs:" + std::to_string((int)c); }
        catch (const std::exception&) { cur.exception = "std::exception"; }
        catch (...) { cur.exception = "unknown"; }
    }
    // the dump of the run so far (DOM: walk the tree now)
    json finishDump() {
        pd::Result r = cur;
        pd::detail::Sink k2;
        k2.r = &r;
        k2.cfg = &pcfg;
        if (k.inDtd) { k2.inDtd = true; k2.decls = k.decls; k2.dtEnd(); }
        if (api == pd::DOM) { if (domp->getDocument()) pd::detail::walkDom(k2, domp->getDocument()); for (auto& e : hd->held) r.events.push_back(e); }
        if (api == pd::DOMLS) { if (lastLsDoc) pd::detail::walkDom(k2, lastLsDoc); for (auto& e : hl->held) r.events.push_back(e); }
        json ev = json::array();
        for (auto& e : r.events) {
            const std::string t = e[0];
            // with cached grammars the declarations of the DTD are not re-reported (the property compares verdicts, defaults, types)
            if (f.use && (t == "ent" || t == "not" || t == "att" || t == "el")) continue;
            ev.push_back(e);
        }
        return {{"events", ev}, {"warnings", r.warnings}, {"errors", r.errors}, {"fatals", r.fatals}, {"exception", r.exception}};
    }
    static MemBufInputSource* srcOf(int d) {
        const std::string& s = docs()[d];
        std::string id = "file:///vf/d" + std::to_string(d) + ".xml";
        return new MemBufInputSource(reinterpret_cast<const XMLByte*>(s.data()), s.size(), id.c_str(), false);
    }
    json parse(int d, int throwAt) {
        runTok = -1;
        beginRun(throwAt);
        std::unique_ptr<MemBufInputSource> src(srcOf(d));
        lastLsDoc = nullptr;
        guarded([&]() {
            switch (api) {
            case pd::SAX: saxp->parse(*src); break;
            case pd::SAX2: sax2p->parse(*src); break;
            case pd::DOM: domp->parse(*src); break;
            default: { Wrapper4InputSource in(src.get(), false); lastLsDoc = lsp->parse(&in); }
            }
        });
        return finishDump();
    }
    bool hasProgressive() const { return api != pd::DOMLS; }
    // returns token index
    json pfirst(int d, int& tokIdx) {
        beginRun(0);
        runSrc.reset(srcOf(d));
        XMLPScanToken* t = new XMLPScanToken();
        toks.push_back(t);
        tokIdx = (int)toks.size() - 1;
        bool ok = false;
        guarded([&]() {
            switch (api) {
            case pd::SAX: ok = saxp->parseFirst(*runSrc, *t); break;
            case pd::SAX2: ok = sax2p->parseFirst(*runSrc, *t); break;
            case pd::DOM: ok = domp->parseFirst(*runSrc, *t); break;
            default: break;
            }
        });
        runTok = ok ? tokIdx : -1;
        runDoc = d;
        runSteps = 0;
        json r = finishDump();
        r["ok"] = ok;
        return r;
    }
    // returns {"ok":bool, "exception":...}; a stale token must raise RuntimeException and change nothing
    json pnext(int ti) {
        bool ok = false;
        std::string saved = cur.exception;
        cur.exception.clear();
        guarded([&]() {
            switch (api) {
            case pd::SAX: ok = saxp->parseNext(*toks[ti]); break;
            case pd::SAX2: ok = sax2p->parseNext(*toks[ti]); break;
            case pd::DOM: ok = domp->parseNext(*toks[ti]); break;
            default: break;
            }
        });
        json r = {{"ok", ok}, {"exception", cur.exception}};
        if (ti == runTok) { runSteps++; if (!ok) runTok = -1; }
        else cur.exception = saved;
        return r;
    }
    json preset(int ti) {
        std::string saved = cur.exception;
        cur.exception.clear();
        guarded([&]() {
            switch (api) {
            case pd::SAX: saxp->parseReset(*toks[ti]); break;
            case pd::SAX2: sax2p->parseReset(*toks[ti]); break;
            case pd::DOM: domp->parseReset(*toks[ti]); break;
            default: break;
            }
        });
        json r = {{"exception", cur.exception}};
        if (ti == runTok && cur.exception.empty()) runTok = -1;
        cur.exception = saved;
        return r;
    }
    json load(const std::string& g, bool cache) {
        beginRun(0);
        runTok = -1;
        const bool xsd = g == "X" || g == "SA" || g == "SB";
        const char* t = g == "SB" ? XSD_B : xsd ? XSD_A : dtdText(g);
        MemBufInputSource src(reinterpret_cast<const XMLByte*>(t), strlen(t), g == "SB" ? SYS_XB : xsd ? SYS_XA : dtdSys(g), false);
        const Grammar::GrammarType ty = xsd ? Grammar::SchemaGrammarType : Grammar::DTDGrammarType;
        Grammar* gr = nullptr;
        guarded([&]() {
            switch (api) {
            case pd::SAX: gr = saxp->loadGrammar(src, ty, cache); break;
            case pd::SAX2: gr = sax2p->loadGrammar(src, ty, cache); break;
            case pd::DOM: gr = domp->loadGrammar(src, ty, cache); break;
            default: { Wrapper4InputSource in(&src, false); gr = lsp->loadGrammar(&in, ty, cache); }
            }
        });
        return {{"loaded", gr != nullptr}, {"fatals", cur.fatals}, {"errors", cur.errors}, {"exception", cur.exception}, {"messages", cur.messages}};
    }
    void resetPool() {
        switch (api) {
        case pd::SAX: saxp->resetCachedGrammarPool(); break;
        case pd::SAX2: sax2p->resetCachedGrammarPool(); break;
        case pd::DOM: domp->resetCachedGrammarPool(); break;
        default: lsp->resetCachedGrammarPool();
        }
    }
    void resetDocs() {
        if (api == pd::DOM) domp->resetDocumentPool();
        if (api == pd::DOMLS) { lsp->resetDocumentPool(); lastLsDoc = nullptr; }
    }
    static json dumpDoc(const DOMDocument* doc, const pd::Config& c) {
        pd::Result r;
        pd::detail::Sink s;
        s.r = &r;
        s.cfg = &c;
        pd::detail::walkDom(s, doc);
        return r.events;
    }
    bool adopt() {
        if (api != pd::DOM) return false;
        if (!domp->getDocument() || runTok >= 0) return false;
        for (auto& a : adopted) if (a.first == domp->getDocument()) return false;
        DOMDocument* d = domp->adoptDocument();
        adopted.push_back({d, dumpDoc(d, pcfg)});
        adoptCfg.push_back(pcfg);
        return true;
    }
    std::vector<pd::Config> adoptCfg;
    // every adopted document still dumps as it did when adopted
    int adoptedChanged() {
        for (size_t i = 0; i < adopted.size(); i++)
            if (dumpDoc(adopted[i].first, adoptCfg[i]) != adopted[i].second) return (int)i;
        return -1;
    }
    json poolKeys() {
        std::set<std::string> ks;
        RefHashTableOfEnumerator<Grammar> en = pool->getGrammarEnumerator();
        while (en.hasMoreElements()) {
            Grammar& g = en.nextElement();
            ks.insert(absKey(to8(g.getGrammarDescription()->getGrammarKey())));
        }
        json a = json::array();
        for (auto& s : ks) a.push_back(s);
        return a;
    }
};

// abstract outcome of a dump, in the vocabulary of the specification
static json abstractOf(const json& dump) {
    long nse = 0;
    for (auto& e : dump["events"]) if (e[0] == "se") nse++;
    std::string how = "ok";
    const std::string ex = dump["exception"];
    if (ex == "SAXException") how = "handler";
    else if (!ex.empty()) how = "exception:" + ex;
    else if (dump["fatals"].get<long>() > 0) how = "fatal";
    return {{"how", how}, {"verr", dump["errors"].get<long>() > 0}, {"nse", nse}};
}

struct Combo { int api; std::string scanner; };
static std::vector<Combo> parseCombos(const std::string& s) {
    std::vector<Combo> v;
    if (s == "all") {
        for (int a = 0; a < 4; a++) for (auto& sc : pd::scanners()) v.push_back({a, sc});
        return v;
    }
    size_t i = 0;
    while (i < s.size()) {
        size_t j = s.find(',', i);
        if (j == std::string::npos) j = s.size();
        std::string c = s.substr(i, j - i);
        size_t sl = c.find('/');
        v.push_back({pd::apiFromName(c.substr(0, sl)), c.substr(sl + 1)});
        i = j + 1;
    }
    return v;
}
static bool dtdValidating(const std::string& sc) { return sc == "IGXMLScanner" || sc == "DGXMLScanner"; }

struct Mismatch { json cls, kase; std::string why; };
static char* gProgress = nullptr;   // shared with the supervising parent: "combo|step|hazard" of the step being executed
static void progress(const std::string& s) { if (gProgress) { strncpy(gProgress, s.c_str(), 250); gProgress[250] = 0; } }


// Run one history on one combo.  probe: print observations, no expectations.
// Returns true when the implementation may be in a corrupt state (the caller continues in a fresh process).
static bool runHistory(const Combo& co, const json& hist, bool probe, std::vector<Mismatch>& out, std::string& stat, json* obs) {
    Life life(co.api, co.scanner);
    const std::string tag = std::string(pd::apiName(co.api)) + "/" + co.scanner;
    const bool model = dtdValidating(co.scanner);   // the abstract outcome / pool contents are specified for the DTD-validating scanners
    bool stop = false, corrupt = false;
    std::string hzNow;
    auto bad = [&](size_t i, const std::string& kind, const json& op, const std::string& why, json extra) {
        json cls = {{"action", op[0]}, {"kind", kind}, {"api", pd::apiName(co.api)}, {"scanner", co.scanner}, {"hz", hzNow}};
        if (op[0] == "parse" || op[0] == "pfirst") cls["doc"] = op[1];
        json prev = json::array();
        for (size_t q = 0; q < i; q++) prev.push_back(probe ? hist[q] : hist[q][0]);
        cls["after"] = i > 0 ? (probe ? hist[i - 1] : hist[i - 1][0])[0].get<std::string>() : "none";
        extra["combo"] = tag;
        extra["step"] = i;
        extra["history"] = prev;
        extra["op"] = op;
        extra["mode"] = "W";
        out.push_back({cls, extra, why});
        // later steps would only repeat the consequence - except after the (known) failure of a parse that follows an abandoned
        // progressive run: that parse's exit janitor re-establishes a clean state, so the history goes on (stores diverge only when caching)
        if (!(hzNow == "abandoned" && !life.f.cache && (kind == "differs-from-fresh" || kind == "pfirst-result"))) stop = true;
    };
    auto freshProgressive = [&](int d, int steps, const Feat& f) {
        Life fr(co.api, co.scanner);
        fr.configureLike(f);
        int ti;
        fr.pfirst(d, ti);
        for (int s = 0; s < steps && fr.runTok >= 0; s++) fr.pnext(ti);
        return fr.finishDump();
    };
    auto sameOutcome = [](const json& ab, const json& exp) { return ab["how"] == exp["how"] && ab["verr"] == exp["verr"] && ab["nse"] == exp["nse"]; };
    std::map<int, int> tokMap;   // specification token id -> harness token index
    std::set<int> deadTok;       // tokens of a parseFirst that (known finding) failed because it followed an abandoned run
    bool runTainted = false;     // the open run was started on top of an abandoned one: its result carries that hazard
    json doneAbs;                // abstract outcome of the progressive run that completed in the implementation
    bool haveDoneAbs = false;
    for (size_t i = 0; i < hist.size() && !stop; i++) {
        const json& op = probe ? hist[i] : hist[i][0];
        const json exp = probe ? json() : hist[i][1];
        const std::string a = op[0];
        hzNow = probe ? "" : exp["hz"].get<std::string>();
        if (!probe && co.scanner == "DGXMLScanner" && exp["hzdg"].get<bool>()) hzNow = "dgScratch";
        if (hzNow == "lockedScratch" || hzNow == "dgScratch") corrupt = true;
        progress(tag + "|" + std::to_string(i) + "|" + hzNow);
        json o = {{"op", op}};
        if (co.scanner == "DGXMLScanner" && ((a == "parse" && op[1].get<int>() >= 11) || (a == "load" && op[1] == "X"))) {
            stat += "\tskipped:dg-schema";      // DGXMLScanner has no schema support: the specification's grammar stores do not apply
            return corrupt;
        }
        if (a == "parse") {
            int d = op[1], kk = op[2];
            if (co.api == pd::DOMLS && kk > 0) { stat += "\tskipped:ls-handler"; return corrupt; }
            if (hzNow == "abandoned" || hzNow == "") hzNow = life.runTok >= 0 ? "abandoned" : "";   // is a progressive run open in the implementation?
            Feat fNow = life.f;
            json got = life.parse(d, kk);
            Life fr(co.api, co.scanner);
            fr.configureLike(fNow);
            // F(doc, cfg, visible grammars): the reference parser is given the cached grammar the specification says this parse sees
            if (!probe && exp.contains("vis") && exp["vis"] == "SA") fr.load("X", true);
            json ref = fr.parse(d, kk);
            stat += "\tparses";
            o["got"] = abstractOf(got);
            if (probe) o["messages"] = life.cur.messages;
            if (got != ref) bad(i, "differs-from-fresh", op, "parse result of the reused parser differs from the same parse on a fresh parser", {{"got", got}, {"fresh", ref}});
            else if (!probe && model) {
                json ab = abstractOf(got);
                stat += "\thow:" + ab["how"].get<std::string>();
                if (!sameOutcome(ab, exp))
                    bad(i, "abstract-outcome", op, "abstract outcome differs from the specification's F(doc, cfg)", {{"got", ab}, {"expected", exp}, {"dump", got}});
                else stat += "\toutcomes_compared";
            }
        } else if (a == "pfirst") {
            if (!life.hasProgressive()) { stat += "\tskipped:ls-progressive"; return corrupt; }
            if (life.runTok >= 0) {   // the previous progressive run is abandoned here: what it delivered so far = a fresh parser doing the same calls
                json part = life.finishDump();
                json ref = freshProgressive(life.runDoc, life.runSteps, life.f);
                if (part != ref) { std::string h = hzNow; hzNow = ""; bad(i, "partial-differs-from-fresh", op, "partial progressive result differs from a fresh parser", {{"got", part}, {"fresh", ref}}); hzNow = h; }
            }
            if (hzNow == "abandoned" || hzNow == "") hzNow = life.runTok >= 0 ? "abandoned" : "";
            if (stop) break;
            int ti = -1;
            haveDoneAbs = false;
            runTainted = hzNow == "abandoned";
            json r = life.pfirst(op[1], ti);
            if (runTainted && !r["ok"].get<bool>()) deadTok.insert(ti);
            tokMap[op.size() > 2 ? op[2].get<int>() : ti] = ti;
            o["got"] = r["ok"];
            stat += "\tpfirsts";
            if (!probe && model && r["ok"] != exp["ok"]) bad(i, "pfirst-result", op, "parseFirst result differs from the specification", {{"got", r}, {"expected", exp}});
        } else if (a == "pnext" || a == "preset") {
            if (!life.hasProgressive()) { stat += "\tskipped:ls-progressive"; return corrupt; }
            int st = op[1];
            if (!tokMap.count(st)) { stat += "\tbadtok"; return corrupt; }
            int ti = tokMap[st];
            if (deadTok.count(ti)) { stat += "\tskipped:dead-token"; continue; }
            if (ti == life.runTok && runTainted) hzNow = "abandoned";
            const bool all = a == "pnext" && op.size() > 2 && op[2].get<int>() == 1;
            const bool expRej = !probe && exp["rej"].get<bool>();
            const bool specDone = !probe && exp["done"].get<bool>();
            const bool isRun = ti == life.runTok;
            if (a == "pnext" && !expRej && !isRun && ti == (int)life.toks.size() - 1 && !probe) {
                // the implementation finished this run earlier than the specification's token count: nothing left to call
                stat += "\tpnext_after_end";
                if (specDone && haveDoneAbs && model) {
                    if (!sameOutcome(doneAbs, exp)) bad(i, "abstract-outcome", op, "abstract outcome of the progressive parse differs from the specification", {{"got", doneAbs}, {"expected", exp}});
                    else stat += "\toutcomes_compared";
                }
            } else {
                json r = a == "pnext" ? life.pnext(ti) : life.preset(ti);
                if (a == "pnext" && isRun && (all || specDone)) while (life.runTok == ti && r["exception"] == "") r = life.pnext(ti);
                o["got"] = r;
                stat += "\t" + a + "s";
                const bool rejected = r["exception"] == "XMLException:RuntimeException";
                if (!probe) {
                    if (expRej != rejected)
                        bad(i, expRej ? "stale-token-accepted" : "token-rejected", op,
                            expRej ? "a stale progressive-scan token was accepted" : "a valid progressive-scan token was refused", {{"got", r}, {"expected", exp}});
                    else stat += rejected ? "\tstale_rejected" : "\ttoken_ok";
                } else if (rejected) stat += "\tstale_rejected";
                if (!stop && a == "pnext" && isRun && life.runTok < 0 && r["exception"] == "") {
                    // the progressive run is complete: compare with a fresh parser doing the same
                    json got = life.finishDump();
                    json ref = freshProgressive(life.runDoc, 1 << 20, life.f);
                    stat += "\tprogressive_complete";
                    doneAbs = abstractOf(got);
                    haveDoneAbs = true;
                    if (got != ref) bad(i, "differs-from-fresh", op, "completed progressive parse differs from a fresh parser", {{"got", got}, {"fresh", ref}});
                    else if (!probe && model && specDone) {
                        if (!sameOutcome(doneAbs, exp))
                            bad(i, "abstract-outcome", op, "abstract outcome of the progressive parse differs from the specification", {{"got", doneAbs}, {"expected", exp}, {"dump", got}});
                        else stat += "\toutcomes_compared";
                    }
                }
            }
        } else if (a == "set") {
            life.setFeat(op[1], op[2]);
            stat += "\tsets";
            o["got"] = life.featuresNow();
            if (!probe && (life.f.cache != exp["cache"].get<bool>() || life.f.use != exp["use"].get<bool>()))
                bad(i, "feature-coupling", op, "cacheGrammarFromParse / useCachedGrammarInParse as reported by the parser differ from the specification",
                    {{"got", life.featuresNow()}, {"expected", exp}});
        } else if (a == "load") {
            json r = life.load(op[1], op[2].get<int>() != 0);
            o["got"] = r;
            stat += "\tloads";
            if (model && (r["exception"] != "" || !r["loaded"].get<bool>() || r["fatals"].get<long>() > 0))
                bad(i, "load-failed", op, "loadGrammar of a correct DTD failed", {{"got", r}});
        } else if (a == "resetpool") { life.resetPool(); stat += "\tresetpools"; }
        else if (a == "lock") { life.pool->lockPool(); stat += "\tlocks"; }
        else if (a == "unlock") { life.pool->unlockPool(); stat += "\tunlocks"; }
        else if (a == "resetdocs") { life.resetDocs(); stat += "\tresetdocs"; }
        else if (a == "adopt") { if (life.adopt()) stat += "\tadopts"; }
        if (stop) break;
        // after every step: pool contents as specified, adopted documents intact
        json keys = life.poolKeys();
        o["pool"] = keys;
        if (!probe && model) {
            json ek = exp["pool"];
            std::sort(ek.begin(), ek.end());
            if (ek != keys) bad(i, "pool-contents", op, "grammar pool keys differ from the specification", {{"got", keys}, {"expected", ek}, {"locked", exp["locked"]}});
            else stat += std::string("\tpools_compared") + (exp["locked"].get<bool>() ? "\tpools_compared_locked" : "");
        }
        int ch = life.adoptedChanged();
        if (ch >= 0) bad(i, "adopted-changed", op, "an adopted document changed after a later operation", {{"adopted", ch}});
        else if (!life.adopted.empty()) stat += "\tadopted_redumped";
        if (obs) obs->push_back(o);
        if (corrupt) { stat += "\tstopped:after-hazard"; break; }   // the implementation's heap can be damaged after this step (known finding)
    }
    return corrupt;
}

static std::string firstHazard(const json& h) {
    for (auto& s : h) { const std::string z = s[1]["hz"]; if (z == "lockedScratch") return z; }
    for (auto& s : h) { const std::string z = s[1]["hz"]; if (!z.empty()) return z; }
    return "";
}

int main(int argc, char** argv) {
    if (argc < 3) return 2;
    const std::string mode = argv[1];
    const std::vector<Combo> combos = parseCombos(argv[2]);
    std::ios::sync_with_stdio(false);
    if (mode == "probe") {
        XMLPlatformUtils::Initialize();
        std::string line;
        while (std::getline(std::cin, line)) {
            json h = json::parse(line, nullptr, false);
            if (h.is_discarded()) continue;
            for (auto& co : combos) {
                std::vector<Mismatch> mm;
                std::string stat;
                json obs = json::array();
                runHistory(co, h, true, mm, stat, &obs);
                emit({{"t", "probe"}, {"combo", std::string(pd::apiName(co.api)) + "/" + co.scanner}, {"obs", obs}});
                for (auto& m : mm) emit({{"t", "mismatch"}, {"cls", m.cls}, {"why", m.why}, {"case", m.kase}});
            }
        }
        XMLPlatformUtils::Terminate();
        return 0;
    }
    if (mode != "w") return 2;
    gProgress = (char*)mmap(nullptr, 4096, PROT_READ | PROT_WRITE, MAP_SHARED | MAP_ANONYMOUS, -1, 0);
    if (gProgress == MAP_FAILED) gProgress = nullptr;
    Supervisor sup;
    sup.timeoutSec = 60;
    sup.batch = 8;
    sup.initChild = [&]() { XMLPlatformUtils::Initialize(); };
    sup.handle = [&](const std::string& line, std::string& stat, bool& tainted) -> std::string {
        json h;
        if (!decode_tlc_line(line, h)) { stat = "torn"; return ""; }
        stat = "walks";
        std::string o;
        for (auto& co : combos) {
            std::vector<Mismatch> mm;
            std::string st;
            if (runHistory(co, h, false, mm, st, nullptr)) tainted = true;
            stat += "\truns" + st;
            for (auto& m : mm) {
                stat += "\tmismatches";
                o += dumpLine({{"t", "mismatch"}, {"cls", m.cls}, {"why", m.why}, {"case", m.kase}});
            }
            for (auto& m : mm) if (m.cls["hz"] == "") tainted = true;   // unexplained disagreement: continue in a fresh process
        }
        return o;
    };
    sup.onFail = [&](const std::string& line, const std::string& what) -> std::string {
        json h;
        if (!decode_tlc_line(line, h)) return "";
        json ops = json::array();
        for (auto& s : h) ops.push_back(s[0]);
        std::string lastOp = ops.empty() ? "none" : ops.back()[0].get<std::string>();
        std::string pr = gProgress ? std::string(gProgress) : std::string("||");
        size_t p1 = pr.find('|'), p2 = pr.rfind('|');
        std::string combo = pr.substr(0, p1), step = p2 > p1 ? pr.substr(p1 + 1, p2 - p1 - 1) : "", hz = pr.substr(p2 + 1);
        size_t si = step.empty() ? ops.size() : (size_t)atoi(step.c_str());
        json upto = json::array();
        for (size_t q = 0; q < ops.size() && q <= si; q++) upto.push_back(ops[q]);
        std::string act = si < ops.size() ? ops[si][0].get<std::string>() : lastOp;
        return dumpLine({{"t", "mismatch"}, {"cls", {{"action", act}, {"kind", what.substr(0, what.find(':'))}, {"hz", hz}, {"scanner", combo.substr(combo.find('/') + 1)}}},
                         {"why", "a call did not return: " + what + " (" + combo + ", step " + step + ")"},
                         {"case", {{"mode", "W"}, {"combo", combo}, {"history", upto}, {"res", what}}}});
    };
    return sup.run();
}
