// Binder T for the Resources and EntityExpansion specifications (property C19).
//   res_harness r <world.json> <scratch-dir>   stdin: TLC lines {cfg, doc, log, fatal}         -> mismatch / summary lines
//   res_harness e <scratch-dir>                stdin: TLC lines {lim, defs, doc, started, ...}  -> mismatch / summary lines
//   env C19_OBS=1: also print one {"t":"obs",...} line per case (calibration / debugging)
//
// Observation (no hook): decorators of XMLPlatformUtils::fgFileMgr and fgNetAccessor installed after Initialize record
// EVERY file open / network fetch attempt of the library; the harness's XMLEntityResolver records every offer
// (systemId, baseURI) and its answer.  There is no network: http://h/... is answered from memory.
// Renderers (abstract items -> DTD / XML / XSD text) are table-driven; expected values come from the TLC line only.
#include "parsedump.hpp"
#include <xercesc/framework/LocalFileInputSource.hpp>
#include <xercesc/util/BinMemInputStream.hpp>
#include <xercesc/util/SecurityManager.hpp>
#include <xercesc/util/XMLFileMgr.hpp>
#include <xercesc/util/XMLNetAccessor.hpp>
#include <xercesc/util/XMLResourceIdentifier.hpp>
#include <xercesc/util/XMLURL.hpp>
#include <filesystem>
#include <fstream>
#include <sstream>
using namespace vh;
using namespace XERCES_CPP_NAMESPACE;
namespace fs = std::filesystem;

static std::string gRoot;                      // scratch directory holding the canary files
static std::vector<std::string> gLog;          // observed events of the running parse
static bool gObs = false;

static std::string joinSegs(const json& p, const char* sep = "/") {
    std::string o;
    for (size_t i = 0; i < p.size(); i++) { if (i) o += sep; o += p[i].get<std::string>(); }
    return o;
}
static std::string norm(std::string s) {       // scratch root -> @R
    size_t i;
    while (!gRoot.empty() && (i = s.find(gRoot)) != std::string::npos) s.replace(i, gRoot.size(), "@R");
    return s;
}

// ---- rendering tables ---------------------------------------------------------------------------------------------
static const char* XSI = "http://www.w3.org/2001/XMLSchema-instance";
static const char* HOST = "http://h/";
// system identifier as written: form x path
static std::string sysId(const std::string& f, const json& p, const std::string& root) {
    if (f == "rel") return joinSegs(p);
    if (f == "http") return HOST + joinSegs(p);
    if (f == "file") return "file://" + root + "/" + joinSegs(p);
    return root + "/" + joinSegs(p);          // "path"
}
// URI of an entity as the library names it
static std::string uriStr(const json& u, const std::string& root) { return sysId(u["s"], u["p"], root); }

static json gWorld;                            // the canary world (array of resources)
static std::string renderDecls(const json& items) {
    std::string o;
    for (auto& it : items) {
        const std::string k = it["k"], n = it["n"];
        if (k == "ipe") {                      // internal parameter entity: replacement text = declarations of the pseudo resource at p
            std::string lit;
            for (auto& r : gWorld) if (r["p"] == it["p"]) lit = renderDecls(r["items"]);
            for (auto& ch : lit) { if (ch == '"') ch = '\''; if (ch == '\n') ch = ' '; }
            o += "<!ENTITY % " + n + " \"" + lit + "\">\n%" + n + ";\n";
            continue;
        }
        if (k == "declge") o += "<!ENTITY " + n + " SYSTEM \"" + sysId(it["f"], it["p"], gRoot) + "\">\n";
        else if (k == "pe") o += "<!ENTITY % " + n + " SYSTEM \"" + sysId(it["f"], it["p"], gRoot) + "\">\n%" + n + ";\n";
    }
    return o;
}
static std::string hintAttrs(const json& it) {
    const std::string k = it["k"];
    std::string s = sysId(it["f"], it["p"], gRoot);
    if (k == "nsl") return std::string(" xmlns:xsi=\"") + XSI + "\" xsi:noNamespaceSchemaLocation=\"" + s + "\"";
    if (k == "sl") return std::string(" xmlns:xsi=\"") + XSI + "\" xsi:schemaLocation=\"" + it["ns"].get<std::string>() + " " + s + "\"";
    return "";
}
static std::string renderContent(const json& items, bool hintsAsChildren) {
    std::string o;
    for (auto& it : items) {
        const std::string k = it["k"];
        if (k == "text") o += "t";
        else if (k == "refge") o += "&" + it["n"].get<std::string>() + ";";
        else if ((k == "nsl" || k == "sl") && hintsAsChildren) o += "<c" + hintAttrs(it) + "/>";
    }
    return o;
}
static std::string renderXsd(const json& res) {
    std::string ns = res["ns"];
    std::string o;
    for (auto& it : res["items"]) if (it["k"] == "extsubset") o += "<!DOCTYPE xs:schema SYSTEM \"" + sysId(it["f"], it["p"], gRoot) + "\">\n";
    o += "<xs:schema xmlns:xs=\"http://www.w3.org/2001/XMLSchema\"" + (ns.empty() ? std::string() : " targetNamespace=\"" + ns + "\"") + ">\n";
    for (auto& it : res["items"]) {
        const std::string k = it["k"];
        if (k == "include") o += "<xs:include schemaLocation=\"" + sysId(it["f"], it["p"], gRoot) + "\"/>\n";
        else if (k == "import") o += "<xs:import namespace=\"" + it["ns"].get<std::string>() + "\" schemaLocation=\"" + sysId(it["f"], it["p"], gRoot) + "\"/>\n";
    }
    o += "<xs:element name=\"" + std::string(res["p"].back().get<std::string>() == "i.xsd" ? "ri" : "r") + "\" type=\"xs:anyType\"/>\n</xs:schema>\n";
    return o;
}
static std::string renderDoc(const json& items) {
    json decls = json::array();
    const json* ext = nullptr;
    std::string rootAttrs;
    for (auto& it : items) {
        const std::string k = it["k"];
        if (k == "declge" || k == "pe") decls.push_back(it);
        else if (k == "extsubset") ext = &it;
        else if (k == "nsl" || k == "sl") rootAttrs += hintAttrs(it);
    }
    std::string o = "<?xml version=\"1.0\"?>\n";
    if (ext || !decls.empty()) {
        o += "<!DOCTYPE r";
        if (ext) o += " SYSTEM \"" + sysId((*ext)["f"], (*ext)["p"], gRoot) + "\"";
        if (!decls.empty()) o += " [\n" + renderDecls(decls) + "]";
        o += ">\n";
    }
    o += "<r" + rootAttrs + ">" + renderContent(items, false) + "</r>\n";
    return o;
}

// ---- the canary world -----------------------------------------------------------------------------------------------
struct Canary { std::string path, content, sysId; bool rs; };
static std::map<std::string, Canary> gByName;         // last path segment -> resource (names are unique in the world)
static std::map<std::string, std::string> gNet;       // URL -> content

static void writeFile(const std::string& path, const std::string& content) {
    fs::create_directories(fs::path(path).parent_path());
    std::ofstream f(path, std::ios::binary | std::ios::trunc);
    f << content;
}
static void materialise(const json& world) {
    for (auto& r : world) {
        const std::string k = r["k"];
        if (k == "ipe") continue;              // replacement text of an internal parameter entity: not a file
        std::string content = k == "dtd" ? renderDecls(r["items"]) : k == "ge" ? renderContent(r["items"], true) : renderXsd(r);
        if (k == "dtd" && content.empty()) content = "<!-- empty -->\n";
        std::string rel = joinSegs(r["p"]);
        writeFile(gRoot + "/" + rel, content);
        gNet[HOST + rel] = content;
        gByName[r["p"].back().get<std::string>()] = Canary{rel, content, gRoot + "/" + rel, r.value("rs", false)};
    }
}

// ---- recorders ------------------------------------------------------------------------------------------------------
class RecFileMgr : public XMLFileMgr {
public:
    XMLFileMgr* in;
    explicit RecFileMgr(XMLFileMgr* i) : in(i) {}
    FileHandle fileOpen(const XMLCh* path, bool toWrite, MemoryManager* const m) override {
        gLog.push_back(std::string(toWrite ? "write file " : "open file ") + norm(to8(path)));
        return in->fileOpen(path, toWrite, m);
    }
    FileHandle fileOpen(const char* path, bool toWrite, MemoryManager* const m) override {
        gLog.push_back(std::string(toWrite ? "write file " : "open file ") + norm(path));
        return in->fileOpen(path, toWrite, m);
    }
    FileHandle openStdIn(MemoryManager* const m) override { gLog.push_back("open stdin"); return in->openStdIn(m); }
    void fileClose(FileHandle f, MemoryManager* const m) override { in->fileClose(f, m); }
    void fileReset(FileHandle f, MemoryManager* const m) override { in->fileReset(f, m); }
    XMLFilePos curPos(FileHandle f, MemoryManager* const m) override { return in->curPos(f, m); }
    XMLFilePos fileSize(FileHandle f, MemoryManager* const m) override { return in->fileSize(f, m); }
    XMLSize_t fileRead(FileHandle f, XMLSize_t n, XMLByte* b, MemoryManager* const m) override { return in->fileRead(f, n, b, m); }
    void fileWrite(FileHandle f, XMLSize_t n, const XMLByte* b, MemoryManager* const m) override { in->fileWrite(f, n, b, m); }
    XMLCh* getFullPath(const XMLCh* const p, MemoryManager* const m) override { return in->getFullPath(p, m); }
    XMLCh* getCurrentDirectory(MemoryManager* const m) override { return in->getCurrentDirectory(m); }
    bool isRelative(const XMLCh* const p, MemoryManager* const m) override { return in->isRelative(p, m); }
};

class RecNet : public XMLNetAccessor {
public:
    const XMLCh* getId() const override { static const XMLCh id[] = {chLatin_r, chLatin_e, chLatin_c, chNull}; return id; }
    BinInputStream* makeNew(const XMLURL& url, const XMLNetHTTPInfo* = 0) override {
        std::string u = to8(url.getURLText());
        gLog.push_back("open net " + norm(u));
        auto it = gNet.find(u);
        if (it == gNet.end()) ThrowXML1(NetAccessorException, XMLExcepts::NetAcc_TargetResolution, url.getHost());
        return new BinMemInputStream(reinterpret_cast<const XMLByte*>(it->second.data()), it->second.size(), BinMemInputStream::BufOpt_Copy);
    }
};

class RecResolver : public XMLEntityResolver {
public:
    std::string mode;   // "null" | "src" | "part"
    InputSource* resolveEntity(XMLResourceIdentifier* id) override {
        std::string sys = to8(id->getSystemId()), base = to8(id->getBaseURI());
        gLog.push_back("offer " + norm(sys) + " " + norm(base));
        std::string name = sys.substr(sys.find_last_of('/') == std::string::npos ? 0 : sys.find_last_of('/') + 1);
        auto it = gByName.find(name);
        if (it != gByName.end() && (mode == "src" || (mode == "part" && it->second.rs))) {
            gLog.push_back("answer src");
            return new MemBufInputSource(reinterpret_cast<const XMLByte*>(it->second.content.data()), it->second.content.size(),
                                         X(it->second.sysId).c(), false);
        }
        gLog.push_back("answer null");
        return nullptr;
    }
};

static XMLFileMgr* gOrigFileMgr = nullptr;
static XMLNetAccessor* gOrigNet = nullptr;
static void installRecorders() {
    gOrigFileMgr = XMLPlatformUtils::fgFileMgr;
    gOrigNet = XMLPlatformUtils::fgNetAccessor;
    XMLPlatformUtils::fgFileMgr = new RecFileMgr(gOrigFileMgr);
    XMLPlatformUtils::fgNetAccessor = new RecNet();
}

// ---- parser construction -------------------------------------------------------------------------------------------
static std::string scannerName(const std::string& s) {
    return s == "IG" ? "IGXMLScanner" : s == "WF" ? "WFXMLScanner" : s == "DG" ? "DGXMLScanner" : "SGXMLScanner";
}
static void extras(pd::Session& s, int api, bool loadSchema, SecurityManager* sm) {
    switch (api) {
    case pd::SAX: case pd::RAW: s.sax()->setLoadSchema(loadSchema); if (sm) s.sax()->setSecurityManager(sm); break;
    case pd::DOM: s.dom()->setLoadSchema(loadSchema); if (sm) s.dom()->setSecurityManager(sm); break;
    case pd::SAX2: s.sax2()->setFeature(XMLUni::fgXercesLoadSchema, loadSchema); if (sm) s.sax2()->setProperty(XMLUni::fgXercesSecurityManager, sm); break;
    case pd::DOMLS: s.ls()->getDomConfig()->setParameter(XMLUni::fgXercesLoadSchema, loadSchema);
                    if (sm) s.ls()->getDomConfig()->setParameter(XMLUni::fgXercesSecurityManager, (const void*)sm); break;
    }
}

// ---- mode r: resources ----------------------------------------------------------------------------------------------
static std::string expectedEvent(const json& ev) {
    const std::string e = ev["e"];
    if (e == "offer") return "offer " + sysId(ev["f"], ev["p"], "@R") + " " + uriStr(ev["b"], "@R");
    if (e == "answer") return "answer " + ev["r"].get<std::string>();
    const std::string s = ev["b"]["s"];
    if (s == "http") return "open net " + uriStr(ev["b"], "@R");
    return "open file @R/" + joinSegs(ev["b"]["p"]);
}
static std::string evClass(const std::string& e) {      // "open file", "open net", "offer", "answer src", ...
    size_t a = e.find(' ');
    if (a == std::string::npos) return e;
    if (e.compare(0, 5, "offer") == 0) return "offer";
    size_t b = e.find(' ', a + 1);
    return e.substr(0, b == std::string::npos ? e.size() : b);
}
static std::string fileName(std::string e) {            // last path segment of the resource an event is about (offers: of the system id)
    if (e.compare(0, 6, "offer ") == 0) { e = e.substr(6); e = e.substr(0, e.find(' ')); }
    size_t a = e.find_last_of("/ ");
    return a == std::string::npos ? e : e.substr(a + 1);
}

static std::string handleRes(const std::string& line, std::string& stat, bool& tainted) {
    json c;
    if (!decode_tlc_line(line, c)) { stat = "torn"; return ""; }
    if (!c.is_object() || !c.contains("cfg")) { stat = "other"; return ""; }
    const json& cfg = c["cfg"];
    pd::Config pc;
    pc.api = pd::apiFromName(cfg["api"]);
    pc.scanner = scannerName(cfg["scn"]);
    pc.namespaces = cfg["ns"];
    const std::string val = cfg["val"];
    pc.validation = val == "never" ? 0 : val == "always" ? 1 : 2;
    pc.schema = cfg["sch"];
    pc.loadExternalDTD = cfg["ldtd"];
    pc.disableDefaultEntityResolution = cfg["ddr"];
    RecResolver resolver;
    resolver.mode = cfg["res"];
    pc.resolver = resolver.mode == "none" ? nullptr : &resolver;
    std::string docText = renderDoc(c["doc"]);
    std::string docPath = gRoot + "/doc.xml";
    writeFile(docPath, docText);
    gLog.clear();
    pd::Result r;
    {
        pd::Session s(pc);
        extras(s, pc.api, cfg["lsch"], nullptr);
        LocalFileInputSource src(X(docPath).c());
        r = s.parse(src);
    }
    std::vector<std::string> got = gLog, exp;
    bool gotFatal = r.rejected();
    if (gObs) { fflush(stdout); }
    if (gObs) emit({{"t", "obs"}, {"cfg", cfg}, {"doc", docText}, {"log", got}, {"fatal", gotFatal}, {"exc", r.exception}, {"msgs", r.messages}});
    if (!c.contains("log")) { stat = "cases"; return ""; }
    for (auto& ev : c["log"]) exp.push_back(expectedEvent(ev));
    bool expFatal = c["fatal"];
    stat = "cases\tapi:" + cfg["api"].get<std::string>() + "\tscn:" + cfg["scn"].get<std::string>() + "\tres:" + resolver.mode +
           "\tverdict:" + (expFatal ? "fatal" : "ok") + "\tevents:" + std::to_string(exp.size() > 9 ? 9 : exp.size());
    for (auto& e : exp) stat += "\tev:" + evClass(e);
    if (exp.size() > 1) stat += "\tnontrivial";
    if (got == exp && gotFatal == expFatal) return "";
    stat += "\tmismatches";
    // classification: the first event that differs
    size_t i = 0;
    while (i < got.size() && i < exp.size() && got[i] == exp[i]) i++;
    std::string g = i < got.size() ? got[i] : "end", e = i < exp.size() ? exp[i] : "end";
    json cls = {{"binder", "resources"}, {"scn", cfg["scn"]}, {"res", cfg["res"]}, {"ddr", cfg["ddr"]},
                {"got", got == exp ? "same-log" : evClass(g)}, {"expected", got == exp ? "same-log" : evClass(e)},
                {"got_name", got == exp ? "" : fileName(g)}, {"expected_name", got == exp ? "" : fileName(e)},
                {"got_fatal", gotFatal}, {"expected_fatal", expFatal}};
    std::string why = got == exp ? std::string("verdict differs: fatal=") + (gotFatal ? "true" : "false")
                                 : "event " + std::to_string(i + 1) + ": implementation '" + g + "', specification '" + e + "'";
    json m = {{"t", "mismatch"}, {"cls", cls}, {"why", why},
              {"case", {{"mode", "r"}, {"cfg", cfg}, {"doc", c["doc"]}, {"doc_text", docText}, {"expected_log", exp}, {"got_log", got},
                        {"expected_fatal", expFatal}, {"got_fatal", gotFatal}, {"exception", r.exception}, {"messages", r.messages}, {"line", line}}}};
    (void)tainted;
    return dumpLine(m);
}

// ---- mode e: entity expansion -------------------------------------------------------------------------------------
// case: {lim: -1|N, defs: [[item...] per entity e1..ek], doc: [refs], site: "content"|"attr", scn: "IG"|"DG", api,
//        started: n, fatal: "none"|"limit"|"recursion", text: "..."}     items: 0 = text "x", i>0 = reference &e<i>;
static std::string handleExp(const std::string& line, std::string& stat, bool& tainted) {
    json c;
    if (!decode_tlc_line(line, c)) { stat = "torn"; return ""; }
    if (!c.is_object() || !c.contains("defs")) { stat = "other"; return ""; }
    auto val = [](const json& items, const std::string& tag) {
        std::string o;
        for (auto& x : items) { int v = x.get<int>(); o += v == 0 ? tag : "&e" + std::to_string(v) + ";"; }
        return o;
    };
    std::string dtd;
    int k = 0;
    std::vector<std::string> extFiles;         // "@R/e<k>.xml" of the entities the case makes external: their replacement text is in a file
    for (auto& d : c["defs"]) {
        k++;
        bool isExt = false;
        if (c.contains("ext")) for (auto& x : c["ext"]) if (x.get<int>() == k) isExt = true;
        std::string name = "e" + std::to_string(k), text = val(d, std::string(1, char('a' + k - 1)));
        if (isExt) {
            writeFile(gRoot + "/" + name + ".xml", text);
            extFiles.push_back("open file @R/" + name + ".xml");
            dtd += "<!ENTITY " + name + " SYSTEM \"" + name + ".xml\">\n";
        } else dtd += "<!ENTITY " + name + " \"" + text + "\">\n";
    }
    std::string out;
    bool first = true;
    for (auto& site : c["sites"]) for (auto& scn : c["scns"]) for (auto& api : c["apis"]) {
        const std::string st = site;
        std::string body = val(c["doc"], "d");
        std::string docText = "<?xml version=\"1.0\"?>\n<!DOCTYPE r [\n" + dtd +
                              (st == "attdef" ? "<!ATTLIST r a CDATA \"" + body + "\">\n" : "") + "]>\n" +
                              (st == "content" ? "<r>" + body + "</r>" : st == "attr" ? "<r a=\"" + body + "\"/>" : "<r/>") + "\n";
        pd::Config pc;
        pc.api = pd::apiFromName(api);
        pc.scanner = scannerName(scn);
        pc.entityRefs = true;
        pc.validation = 0;
        pc.sysId = gRoot + "/doc.xml";          // base of the external entities of the case
        int lim = c["lim"];
        SecurityManager sm;
        if (lim >= 0) sm.setEntityExpansionLimit((XMLSize_t)lim);
        gLog.clear();
        pd::Result r;
        {
            pd::Session s(pc);
            extras(s, pc.api, true, lim >= 0 ? &sm : nullptr);
            r = s.parseBytes(docText.data(), docText.size());
        }
        // observation: number of entity-reference starts reported, text delivered, class of the fatal error
        long started = 0;
        std::string text, attr;
        for (auto& ev : r.events) {
            const std::string e0 = ev[0];
            if (e0 == "er+") started++;
            else if (e0 == "ch") text += ev[1].get<std::string>();
            else if (e0 == "se") for (auto& a : ev[4]) if (a[2] == "a") attr = a[3].get<std::string>();
        }
        std::string fatal = "none";
        for (auto& m : r.messages) {
            std::string ms = m.dump();
            if (ms.find("ecursive") != std::string::npos) fatal = "recursion";                 // XMLErrs::RecursiveEntity
            else if (ms.find("entity expansions") != std::string::npos) fatal = "limit";      // XMLErrs::EntityExpansionLimitExceeded
        }
        if (fatal == "none" && r.rejected()) fatal = "other";
        if (!r.rejected()) fatal = "none";
        const std::string expFatal = c["fatal"];
        long expStarted = c["started"];
        std::string expText = joinSegs(c["text"], "");
        std::string bad;
        if (fatal != expFatal) bad = "verdict: implementation '" + fatal + "', specification '" + expFatal + "'";
        else if (st == "content" && (pc.api == pd::RAW || pc.api == pd::SAX2) && started != expStarted)
            bad = "entity references started: implementation " + std::to_string(started) + ", specification " + std::to_string(expStarted);
        else if (expFatal == "none" && st == "content" && text != expText) bad = "text delivered differs: '" + text + "' vs '" + expText + "'";
        else if (expFatal == "none" && st != "content" && attr != expText) bad = "attribute value differs: '" + attr + "' vs '" + expText + "'";
        for (auto& ev : gLog)                    // nothing but the files of the case's external entities may be touched
            if (std::find(extFiles.begin(), extFiles.end(), ev) == extFiles.end()) bad = "a resource that is not an external entity of the document was touched: " + ev;
        if (gObs) emit({{"t", "obs"}, {"doc", docText}, {"site", st}, {"scn", scn}, {"api", api}, {"lim", lim}, {"started", started}, {"fatal", fatal},
                        {"text", text}, {"attr", attr}, {"msgs", r.messages}, {"exc", r.exception}});
        stat += std::string(first ? "cases\t" : "") + "runs\tsite:" + st + "\tscn:" + scn.get<std::string>() + "\tefatal:" + expFatal + "\t";
        first = false;
        if (bad.empty()) continue;
        stat += "mismatches\t";
        json cls = {{"binder", "expansion"}, {"site", st}, {"scn", scn}, {"got_fatal", fatal}, {"expected_fatal", expFatal},
                    {"limit", lim < 0 ? "none" : "set"}, {"external", !extFiles.empty()}, {"what", bad.substr(0, bad.find(':'))}};
        json m = {{"t", "mismatch"}, {"cls", cls}, {"why", bad},
                  {"case", {{"mode", "e"}, {"doc_text", docText}, {"site", st}, {"scn", scn}, {"api", api}, {"lim", lim}, {"expected_started", expStarted},
                            {"got_started", started}, {"expected_fatal", expFatal}, {"got_fatal", fatal}, {"messages", r.messages}, {"line", line}}}};
        out += dumpLine(m);
    }
    (void)tainted;
    return out;
}

int main(int argc, char** argv) {
    if (argc < 3) { fprintf(stderr, "usage: res_harness r <world.json> <scratch> | e <scratch>\n"); return 2; }
    const std::string mode = argv[1];
    gObs = getenv("C19_OBS") != nullptr;
    std::string scratch = mode == "r" ? (argc > 3 ? argv[3] : "/verif/.build/c19") : argv[2];
    gRoot = scratch + "/w" + std::to_string((long)getpid());
    fs::create_directories(gRoot);
    gRoot = fs::canonical(gRoot).string();
    json world;
    if (mode == "r") {
        std::ifstream f(argv[2]);
        std::stringstream ss;
        ss << f.rdbuf();
        world = json::parse(ss.str(), nullptr, false);
        if (world.is_discarded() || !world.is_array()) { fprintf(stderr, "bad world file %s\n", argv[2]); return 2; }
        gWorld = world;
        materialise(world);
    }
    Supervisor sup;
    sup.timeoutSec = 240;   // per batch of 32 lines; generous: the machine may be heavily shared
    sup.initChild = [] { XMLPlatformUtils::Initialize(); installRecorders(); };
    sup.handle = mode == "r" ? handleRes : handleExp;
    sup.onFail = [mode](const std::string& line, const std::string& what) {
        json cls = {{"binder", mode == "r" ? "resources" : "expansion"}, {"got", what.substr(0, what.find(':'))}, {"expected", "returns"}};
        json m = {{"t", "mismatch"}, {"cls", cls}, {"why", "the implementation did not return: " + what}, {"case", {{"mode", mode}, {"line", line}}}};
        return dumpLine(m);
    };
    int rc = sup.run();
    std::error_code ec;
    fs::remove_all(gRoot, ec);
    return rc;
}
