// C11 harness: replays the cases (binder T) and walks (binder W) that TLC emits from spec/RegexGen.tla and
// spec/RegexWalk.tla on xerces-c's RegularExpression. Every expected value is in the input line (computed by the
// specification); this file only renders, calls and compares.
//
//   regex_harness t      stdin: TLC JSON lines  {"k":"T",...} | {"k":"W",...} | {"k":"P",...}
//
// T line: {k:"T", al:[chars], n:maxlen, t:text, sig, wf, runs:[[ [opt letters], "PE"|"x"|"u" ], ...], x:[0/1..], p:[start|-1..], e:[end bit set..]}
//         x, p, e are indexed by the strings over `al` of length <= n in trie pre-order.
// W line: {k:"W", al, t:text, sig, opts:[letters], steps:[[op, [chars], expected], ...]}  one compiled object, calls in sequence
#include "vh.hpp"
#include <xercesc/util/regx/RegularExpression.hpp>
#include <xercesc/util/regx/Match.hpp>
#include <xercesc/util/ParseException.hpp>
#include <xercesc/util/RuntimeException.hpp>
#include <xercesc/util/RefArrayVectorOf.hpp>
#include <xercesc/util/Janitor.hpp>
#include <xercesc/validators/datatype/DatatypeValidatorFactory.hpp>
#include <xercesc/validators/datatype/DatatypeValidator.hpp>
#include <xercesc/validators/datatype/InvalidDatatypeValueException.hpp>
#include <xercesc/validators/datatype/InvalidDatatypeFacetException.hpp>
#include <xercesc/validators/schema/SchemaSymbols.hpp>
#include <xercesc/util/RefHashTableOf.hpp>
#include <xercesc/util/KVStringPair.hpp>
#include <memory>
#include <set>
#include <algorithm>

using vh::json;
using namespace XERCES_CPP_NAMESPACE;

static std::map<std::string, std::vector<std::string>> g_strs;
static void preorder(const std::vector<std::string>& al, int d, const std::string& pfx, std::vector<std::string>& out) {
    out.push_back(pfx);
    if (d == 0) return;
    for (auto& c : al) preorder(al, d - 1, pfx + c, out);
}
static const std::vector<std::string>& stringsFor(const json& al, int n) {
    std::string key = std::to_string(n);
    std::vector<std::string> a;
    for (auto& c : al) { a.push_back(c.get<std::string>()); key += "\x1f" + a.back(); }
    auto it = g_strs.find(key);
    if (it != g_strs.end()) return it->second;
    std::vector<std::string> out;
    preorder(a, n, "", out);
    return g_strs[key] = out;
}
static std::string excType(const XMLException& e) { return vh::to8(e.getType()); }

struct Compiled {
    std::unique_ptr<RegularExpression> re;
    std::string how = "ok";   // "ok" | "PE" | "exc:<type>"
};
static Compiled compile(const std::string& text, const std::string& opts) {
    Compiled c;
    try {
        c.re.reset(new RegularExpression(vh::X(text).c(), vh::X(opts).c()));
    } catch (const ParseException&) { c.how = "PE";
    } catch (const XMLException& e) { c.how = "exc:" + excType(e);
    } catch (...) { c.how = "exc:foreign"; }
    return c;
}
// one matches() call -> "0", "1", "exc:.."; positions through ms/me
static std::string callMatches(RegularExpression& re, const std::u16string& s, bool window, size_t ws, size_t we, bool withMatch, int& ms, int& me) {
    ms = me = -1;
    try {
        bool r;
        const XMLCh* p = reinterpret_cast<const XMLCh*>(s.c_str());
        if (withMatch) {
            Match m;
            r = window ? re.matches(p, ws, we, &m) : re.matches(p, &m);
            if (r) { ms = m.getStartPos(0); me = m.getEndPos(0); }
        } else {
            r = window ? re.matches(p, ws, we) : re.matches(p);
        }
        return r ? "1" : "0";
    } catch (const XMLException& e) { return "exc:" + excType(e);
    } catch (...) { return "exc:foreign"; }
}

struct Bad {
    long n = 0;
    std::string s, got, exp;
    size_t len = 1000;
    void add(const std::string& str, const std::string& e, const std::string& g) {
        n++;
        if (str.size() < len) { len = str.size(); s = str; exp = e; got = g; }
    }
};

// classification of a wrong match position
static std::string posError(int rs, int rend, int eStart, const std::string& text) {
    if (rs != eStart) return " start";
    if (rend == rs + (int)vh::to16(text).size()) return " end=start+patternTextLength";
    return " end";
}
static std::string posStr(const std::string& v, int ms, int me) { return v == "1" ? v + "@" + std::to_string(ms) + "," + std::to_string(me) : v; }

// per run: which strings disagree, by api kind and by the specification's flag "the greedy-first match of the whole
// expression from offset 0 ends at the end of the string" (g vector; classification only)
struct RunRes {
    std::string opts, expect, how;
    Bad bad[4][2];
    std::set<size_t> fail[4];
};
static std::string sortedPlus(std::string o, char c) { if (o.find(c) == std::string::npos) o.push_back(c); std::sort(o.begin(), o.end()); return o; }

static std::string handleT(const json& j, std::string& stat, bool& tainted) {
    std::string out;
    const std::string text = j["t"].get<std::string>();
    const std::string sig = j.value("sig", "");
    const auto& strs = stringsFor(j["al"], j["n"].get<int>());
    std::string pre = j["al"].back().get<std::string>(), post = j["al"].front().get<std::string>();
    const json& xv = j["x"];
    const json& pv = j["p"];
    const json& ev = j["e"];
    const json& gv = j["g"];
    long evals = 0;
    stat += "cases\t";
    if (j["wf"].get<bool>() && (xv.size() != strs.size() || pv.size() != strs.size() || ev.size() != strs.size() || gv.size() != strs.size())) { stat += "torn\t"; return std::string(); }
    static const char* apiName[4] = {"matches", "matchesM", "matchesW", "matchesWM"};
    std::vector<RunRes> runs;
    for (auto& run : j["runs"]) {
        RunRes R;
        R.opts = vh::join(run[0]);
        R.expect = run[1].get<std::string>();
        Compiled c = compile(text, R.opts);
        R.how = c.how;
        evals++;
        stat += "run:" + R.expect + "\t";
        if (R.expect == "PE" || c.how != "ok") {
            if ((R.expect == "PE") != (c.how == "PE") || (R.expect != "PE" && c.how != "ok")) {
                json m = {{"t", "mismatch"},
                          {"cls", {{"binder", "T"}, {"api", "ctor"}, {"exp", R.expect == "PE" ? "ParseException" : "ok"}, {"got", c.how}, {"sig", sig}, {"wf", j["wf"]}}},
                          {"case", {{"mode", "T"}, {"text", text}, {"opts", R.opts}, {"line", j}}},
                          {"why", "constructor of /" + text + "/ options \"" + R.opts + "\": specification expects " + std::string(R.expect == "PE" ? "ParseException" : "success") + ", implementation: " + c.how}};
                out += vh::dumpLine(m);
                stat += "mismatches\t";
            }
            runs.push_back(R);
            continue;
        }
        bool X = R.expect == "x";
        for (size_t k = 0; k < strs.size(); k++) {
            const std::string& s = strs[k];
            std::u16string s16 = vh::to16(s);
            std::u16string w16 = vh::to16(pre + s + post);
            size_t off = vh::to16(pre).size();
            bool expv = X ? xv[k].get<int>() == 1 : pv[k].get<int>() >= 0;
            int eStart = X ? 0 : pv[k].get<int>();
            long eMask = X ? (1L << s16.size()) : ev[k].get<long>();
            int gflag = !X || gv[k].get<int>() == 1 ? 1 : 0;
            for (int api = 0; api < 4; api++) {
                bool window = api >= 2, withMatch = api & 1;
                int ms, me;
                std::string got = callMatches(*c.re, window ? w16 : s16, window, off, off + s16.size(), withMatch, ms, me);
                evals++;
                std::string exps = expv ? "1" : "0";
                bool ok = got == exps;
                if (ok && withMatch && expv) {
                    int rs = ms - (window ? (int)off : 0), rend = me - (window ? (int)off : 0);
                    if (rs != eStart || rend < 0 || rend > 40 || !((eMask >> rend) & 1)) {
                        ok = false;
                        got = posStr(got, rs, rend) + posError(rs, rend, eStart, text);
                        exps = "1@" + std::to_string(eStart) + ",{ends mask " + std::to_string(eMask) + "}";
                    }
                }
                if (!ok) { R.bad[api][gflag].add(s, exps, got); R.fail[api].insert(k); }
            }
        }
        stat += "compared\t";
        runs.push_back(R);
    }
    // classification across runs: does the same string pass when an optimisation is switched off?
    auto partner = [&](const RunRes& r, char c) -> const RunRes* {
        if (r.opts.find(c) != std::string::npos) return nullptr;
        std::string want = sortedPlus(r.opts, c);
        for (auto& q : runs) { std::string o = q.opts; std::sort(o.begin(), o.end()); if (o == want && q.how == "ok") return &q; }
        return nullptr;
    };
    for (auto& R : runs) {
        if (R.how != "ok" || R.expect == "PE") continue;
        bool X = R.expect == "x";
        for (int api = 0; api < 4; api++) for (int gf = 0; gf < 2; gf++) {
            Bad& b = R.bad[api][gf];
            if (!b.n) continue;
            json cls = {{"binder", "T"}, {"api", apiName[api]}, {"mode", X ? "X" : "U"}, {"exp", b.exp.substr(0, 2)}, {"sig", sig},
                        {"got", b.got.substr(0, b.got.find('@') == std::string::npos ? std::string::npos : b.got.find('@') + 1)},
                        {"optF", R.opts.find('F') != std::string::npos}, {"optH", R.opts.find('H') != std::string::npos}};
            if (X) cls["greedy_first_match_is_whole_string"] = gf == 1;
            cls["shape"] = j.value("shape", "");
            if (b.got.find(' ') != std::string::npos && b.got[0] == '1') cls["pos_error"] = b.got.substr(b.got.find(' ') + 1);
            for (char c : {'H', 'F'}) {
                const RunRes* q = partner(R, c);
                if (!q) continue;
                bool allPass = true;
                for (size_t k : R.fail[api]) if (q->fail[api].count(k)) allPass = false;
                cls[std::string("passes_with_") + c] = allPass;
            }
            json m = {{"t", "mismatch"}, {"cls", cls},
                      {"case", {{"mode", "T"}, {"text", text}, {"opts", R.opts}, {"string", b.s}, {"expected", b.exp}, {"got", b.got}, {"line", j},
                                {"strings_disagreeing", b.n}, {"window_padding", {pre, post}}}},
                      {"why", std::string(apiName[api]) + "(\"" + b.s + "\") of /" + text + "/ options \"" + R.opts + "\": specification " + b.exp +
                                  ", implementation " + b.got + " (" + std::to_string(b.n) + " strings disagree)"}};
            out += vh::dumpLine(m);
            stat += "mismatches\t";
        }
    }
    json s = {{"t", "summary"}, {"evals", evals}, {"exprs", 1}, {"strings", (long)strs.size()}};
    out += vh::dumpLine(s);
    return out;
}

// ---- W: one compiled object, a sequence of calls ---------------------------------------------------------------
static json tokensOf(RefArrayVectorOf<XMLCh>* v) {
    json a = json::array();
    for (XMLSize_t i = 0; i < v->size(); i++) a.push_back(vh::chars(vh::to8(v->elementAt(i))));
    return a;
}
static std::string handleW(const json& j, std::string& stat, bool& tainted) {
    std::string out;
    const std::string text = j["t"].get<std::string>();
    std::string opts = vh::join(j["opts"]);
    stat += "walks\t";
    Compiled c = compile(text, opts);
    long evals = 1, pri = 0, choice = 0;
    bool X = opts.find('X') != std::string::npos;
    auto mismatch = [&](size_t i, const std::string& op, const json& exp, const json& got, const std::string& api, json extra) {
        json cls = {{"binder", "W"}, {"api", api}, {"mode", X ? "X" : "U"}, {"sig", j.value("sig", "")}, {"step", i == 0 ? "first" : "later"},
                    {"optF", opts.find('F') != std::string::npos}, {"optH", opts.find('H') != std::string::npos}};
        cls.update(extra);
        json m = {{"t", "mismatch"}, {"cls", cls},
                  {"case", {{"mode", "W"}, {"text", text}, {"opts", opts}, {"step", i}, {"op", op}, {"expected", exp}, {"got", got}, {"line", j}}},
                  {"why", "walk step " + std::to_string(i) + " " + api + " on /" + text + "/ \"" + opts + "\": expected " + exp.dump() + " got " + got.dump()}};
        out += vh::dumpLine(m);
        stat += "mismatches\t";
    };
    if (c.how != "ok") {
        mismatch(0, "ctor", "ok", c.how, "ctor", {{"exp", "ok"}, {"got", c.how}});
        return out;
    }
    size_t i = 0;
    for (auto& st : j["steps"]) {
        std::string op = st[0].get<std::string>();
        std::string s = vh::join(st[1]);
        std::u16string s16 = vh::to16(s);
        const XMLCh* p = reinterpret_cast<const XMLCh*>(s16.c_str());
        const json& exp = st[2];
        stat += "steps\top:" + op + "\t";
        evals++;
        if (op == "m" || op == "M") {
            int ms, me;
            std::string got = callMatches(*c.re, s16, false, 0, 0, op == "M", ms, me);
            bool ev = exp[0].get<bool>();
            std::string exps = ev ? "1" : "0", gots = got;
            json extra = json::object();
            bool ok = got == exps;
            if (ok && op == "M" && ev && !(ms == exp[1].get<int>() && me >= 0 && me <= 40 && ((exp[2].get<long>() >> me) & 1))) {
                ok = false;
                exps = gots = "1@";
                extra["pos_error"] = posError(ms, me, exp[1].get<int>(), text).substr(1);
            }
            if (!ok) {
                extra["exp"] = exps;
                extra["got"] = gots;
                if (X) extra["greedy_first_match_is_whole_string"] = exp.back().get<int>() == 1;
                if (!X && opts.find('H') == std::string::npos && ev && got == "0") {      // classification: same call with the head-character optimisation off
                    Compiled c2 = compile(text, opts + "H");
                    int a2, b2;
                    if (c2.how == "ok") extra["passes_with_H"] = callMatches(*c2.re, s16, false, 0, 0, op == "M", a2, b2) == "1";
                }
                mismatch(i, op, exp, posStr(got, ms, me), op == "m" ? "matches" : "matchesM", extra);
            }
        } else if (op == "t" || op == "r") {
            json got;
            try {
                if (op == "t") {
                    RefArrayVectorOf<XMLCh>* v = c.re->tokenize(p);
                    Janitor<RefArrayVectorOf<XMLCh>> jan(v);
                    got = tokensOf(v);
                } else {
                    XMLCh* r = c.re->replace(p, vh::X("<$0>").c());
                    got = vh::chars(vh::to8(r));
                    XMLString::release(&r);
                }
            } catch (const XMLException& e) { got = {{"exc", excType(e)}};
            } catch (...) { got = {{"exc", "foreign"}}; }
            bool ok = false;
            if (exp.contains("exc")) ok = got.is_object() && got["exc"] == exp["exc"];
            else {
                for (auto& a : exp["all"]) if (a == got) ok = true;
                if (exp["all"].size() > 1) { choice++; if (got == exp["pri"]) pri++; }
            }
            if (!ok) mismatch(i, op, exp, got, op == "t" ? "tokenize" : "replace", {{"exp", exp.contains("exc") ? "exception" : "cut"}, {"got", got.is_object() ? "exception" : "cut"}});
        }
        i++;
    }
    json sm = {{"t", "summary"}, {"evals", evals}, {"choice_steps", choice}, {"choice_steps_first_alternative_rule", pri}};
    out += vh::dumpLine(sm);
    return out;
}

// ---- P: the xs:pattern facet through the datatype validators (schema validation's path to the same engine) -------
// {k:"P", al, n, t:text, sig, x:[...]}   a string datatype restricted by pattern t accepts s iff x[s]
static std::string handleP(const json& j, std::string& stat, bool& tainted) {
    std::string out;
    const std::string text = j["t"].get<std::string>();
    const auto& strs = stringsFor(j["al"], j["n"].get<int>());
    stat += "pcases\t";
    long evals = 0;
    DatatypeValidatorFactory fac;
    DatatypeValidator* base = fac.getDatatypeValidator(SchemaSymbols::fgDT_STRING);
    if (!base) { stat += "torn\t"; return std::string(); }
    std::string how = "ok";
    DatatypeValidator* dv = 0;
    try {
        RefHashTableOf<KVStringPair>* facets = new RefHashTableOf<KVStringPair>(3);
        facets->put((void*)SchemaSymbols::fgELT_PATTERN, new KVStringPair(SchemaSymbols::fgELT_PATTERN, vh::X(text).c()));
        dv = fac.createDatatypeValidator(vh::X("urn:t,pat").c(), base, facets, 0, false, 0, true);
        // the pattern is compiled lazily at first validation
    } catch (const XMLException& e) { how = "exc:" + excType(e);
    } catch (...) { how = "exc:foreign"; }
    Bad bad, badg;   // badg: strings whose greedy-first match is not the whole string (classification only)
    bool wf = j["wf"].get<bool>();
    if (!wf) {
        evals++;
        if (how == "ok") bad.add("", "exception", "ok");        // a malformed pattern must be refused when the type is built
    } else if (how != "ok") {
        bad.add("", "ok", how);
    } else {
        for (size_t k = 0; k < strs.size(); k++) {
            std::string got;
            try {
                dv->validate(vh::X(strs[k]).c());
                got = "1";
            } catch (const InvalidDatatypeValueException&) { got = "0";
            } catch (const XMLException& e) { got = "exc:" + excType(e);
            } catch (...) { got = "exc:foreign"; }
            evals++;
            std::string exp = j["x"][k].get<int>() == 1 ? "1" : "0";
            if (got != exp) (j["g"][k].get<int>() == 1 || exp == "0" ? bad : badg).add(strs[k], exp, got);
        }
    }
    for (int gf = 0; gf < 2; gf++) {
        Bad& b = gf ? bad : badg;
        if (!b.n) continue;
        json m = {{"t", "mismatch"},
                  {"cls", {{"binder", "P"}, {"api", "pattern-facet"}, {"mode", "X"}, {"exp", b.exp}, {"got", b.got}, {"sig", j.value("sig", "")},
                           {"greedy_first_match_is_whole_string", gf == 1}, {"shape", j.value("shape", "")}}},
                  {"case", {{"mode", "P"}, {"text", text}, {"string", b.s}, {"expected", b.exp}, {"got", b.got}, {"strings_disagreeing", b.n}, {"line", j}}},
                  {"why", "xs:pattern " + text + " on \"" + b.s + "\": specification " + b.exp + ", validator " + b.got}};
        out += vh::dumpLine(m);
        stat += "mismatches\t";
    }
    json sm = {{"t", "summary"}, {"evals", evals}};
    out += vh::dumpLine(sm);
    return out;
}

int main(int argc, char** argv) {
    if (argc < 2) return 2;
    std::ios::sync_with_stdio(false);
    bool alsoP = argc >= 3 && std::string(argv[2]) == "p";
    vh::Supervisor sup;
    sup.timeoutSec = 120;
    sup.batch = 8;
    sup.initChild = [] { XMLPlatformUtils::Initialize(); };
    sup.handle = [alsoP](const std::string& line, std::string& stat, bool& tainted) -> std::string {
        json j;
        if (!vh::decode_tlc_line(line, j) || !j.is_object() || !j.contains("k")) { stat += "torn\t"; return std::string(); }
        std::string k = j["k"].get<std::string>();
        std::string o;
        if (k == "T") { o = handleT(j, stat, tainted); if (alsoP) o += handleP(j, stat, tainted); }
        else if (k == "W") o = handleW(j, stat, tainted);
        else stat += "torn\t";
        if (o.find("\"t\":\"mismatch\"") != std::string::npos) tainted = true;
        return o;
    };
    sup.onFail = [](const std::string& line, const std::string& what) -> std::string {
        json j;
        vh::decode_tlc_line(line, j);
        json m = {{"t", "mismatch"},
                  {"cls", {{"binder", j.value("k", "?")}, {"api", "any"}, {"got", what.substr(0, what.find(':'))}, {"sig", j.value("sig", "")}}},
                  {"case", {{"mode", j.value("k", "?")}, {"text", j.value("t", "")}, {"what", what}, {"line", j}}},
                  {"why", "the implementation did not return (" + what + ") while handling /" + j.value("t", std::string()) + "/"}};
        return vh::dumpLine(m);
    };
    return sup.run();
}
