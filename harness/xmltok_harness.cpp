// Binder T for spec/XmlTokens.tla (properties C02 and C03).
//   xmltok_harness t c02|c03|both [seed]     stdin: TLC lines  [profile, tokens, fatalNsOff, fatalNsOn, why, phase, infoset]
//                                             -> {"t":"mismatch",...} lines and one {"t":"summary",...}
//   xmltok_harness render [seed]             stdin: TLC lines -> the rendered document of each line (diagnostics)
//   xmltok_harness dump <api> <scanner> <ns> [prog] [erefs]    stdin: a document -> canonical dump (diagnostics)
// Every case is rendered to bytes (tokrender.hpp; lexical freedoms from seed + case) and parsed under the full matrix
// APIs {SAX, SAX2, DOM, RAW} x {parse, parseFirst/parseNext} + DOMLS x {no filter, pass-through filter}, x scanners
// {IG, WF, DG, SG} (WF and SG only on DOCTYPE-free cases) x namespaces {off, on}.
//   C02: (fatal error reported or exception escaped)  ==  the specification's verdict for that namespace setting.
//   C03: for accepted cases the canonical dump of every API equals the projection of the specification's Infoset.
// The expected values come from TLC only.
#include "parsedump.hpp"
#include "tokrender.hpp"
#include <set>
#include <sstream>
using namespace vh;

struct Cfg {
    pd::Config c;
    std::unique_ptr<pd::Session> s;
    bool sgOrWf() const { return c.scanner == "WFXMLScanner" || c.scanner == "SGXMLScanner"; }
    bool nsEffective() const { return c.namespaces || c.scanner == "SGXMLScanner"; }   // SGXMLScanner::scanReset forces namespaces on
};

static const size_t BASE = 80;   // the first 80 configurations are the C02 matrix; the rest add entity-reference reporting (C03)
static std::vector<Cfg> makeMatrix() {
    std::vector<Cfg> m;
    for (const std::string& sc : pd::scanners())
        for (int ns = 0; ns < 2; ns++) {
            for (int api : {pd::SAX, pd::SAX2, pd::DOM, pd::RAW})
                for (int prog = 0; prog < 2; prog++) {
                    Cfg x;
                    x.c.api = api; x.c.progressive = prog; x.c.scanner = sc; x.c.namespaces = ns;
                    m.push_back(std::move(x));
                }
            for (int f = 0; f < 2; f++) {
                Cfg x;
                x.c.api = pd::DOMLS; x.c.lsFilter = f; x.c.scanner = sc; x.c.namespaces = ns;
                m.push_back(std::move(x));
            }
        }
    for (const std::string& sc : {std::string("IGXMLScanner"), std::string("DGXMLScanner")})
        for (int ns = 0; ns < 2; ns++)
            for (int api : {pd::SAX2, pd::DOM, pd::DOMLS, pd::RAW}) {
                Cfg x;
                x.c.api = api; x.c.scanner = sc; x.c.namespaces = ns; x.c.entityRefs = true;
                m.push_back(std::move(x));
            }
    return m;
}

// ---- C03: projection of the specification's infoset to what one API / configuration can show --------------------
static std::string symText(const json& syms) {
    static const std::map<std::string, std::string> named = {{"xml-ns", "http://www.w3.org/XML/1998/namespace"}, {"xmlns-ns", "http://www.w3.org/2000/xmlns/"},
                                                             {"unbound", "?unbound?"}};
    std::string o;
    for (auto& e : syms) {
        const std::string y = e.get<std::string>();
        auto it = named.find(y);
        o += it != named.end() ? it->second : tr::symUtf8(y);
    }
    return o;
}
static std::string localOf(const std::string& q) { size_t p = q.find(':'); return p == std::string::npos ? q : q.substr(p + 1); }
static void pushCh(json& out, const std::string& text, const json& cdata) {
    if (text.empty()) return;
    if (!out.empty() && out.back()[0] == "ch" && out.back()[2] == cdata) { out.back()[1] = out.back()[1].get<std::string>() + text; return; }
    out.push_back({"ch", text, cdata, false});
}
static json projectExpected(const json& infoset, const pd::Config& c) {
    const pd::Caps cap = pd::caps(c.api);
    const bool ns = c.namespaces && cap.nsFields;
    json out = json::array();
    std::vector<json> open;
    out.push_back({"sd"});
    for (auto& e : infoset) {
        const std::string k = e[0], n = e[1];
        if (k == "dt") {
            if (!cap.doctype) continue;
            out.push_back({"dt", n, nullptr, nullptr});
            std::vector<std::string> names;
            for (auto& x : e[3]) names.push_back(x.get<std::string>());
            std::sort(names.begin(), names.end());
            for (auto& x : names) out.push_back({"ent", x});
            out.push_back({"dt-"});
        } else if (k == "se") {
            json at = json::array();
            for (auto& a : e[3]) {
                const std::string q = a[0];
                // the namespace name of the unprefixed "xmlns" attribute is not compared (Namespaces in XML: none; Infoset/DOM: the xmlns namespace)
                at.push_back({(ns && q != "xmlns") ? json(symText(a[4])) : json(nullptr), ns ? json(localOf(q)) : json(nullptr), q, symText(a[1]),
                              cap.specified ? json(a[2]) : json(nullptr), cap.attrTypes ? json(a[3]) : json(nullptr)});
            }
            std::stable_sort(at.begin(), at.end(), [](const json& x, const json& y) { return x[2].get<std::string>() < y[2].get<std::string>(); });
            json id = {ns ? json(symText(e[2])) : json(nullptr), ns ? json(localOf(n)) : json(nullptr), n};
            out.push_back({"se", id[0], id[1], id[2], at, (cap.lines && c.lines) ? json(e[5]) : json(nullptr)});
            open.push_back(id);
        } else if (k == "ee") {
            json id = open.empty() ? json({nullptr, nullptr, n}) : open.back();
            if (!open.empty()) open.pop_back();
            out.push_back({"ee", id[0], id[1], id[2]});
        } else if (k == "ch") pushCh(out, symText(e[2]), cap.cdataFlag ? json(e[4]) : json(nullptr));
        else if (k == "cm") { if (cap.comments) out.push_back({"cm", symText(e[2])}); }
        else if (k == "pi") out.push_back({"pi", tr::piTarget(n), symText(e[2])});
        else if (k == "er+" || k == "er-") { if (cap.erefs && c.entityRefs) out.push_back({k, n}); }
    }
    out.push_back({"ed"});
    return out;
}
// the observed dump restricted to what property C03 lists (declarations: entity names only; no XML declaration event)
static json reduceGot(const json& events) {
    json out = json::array();
    for (auto& e : events) {
        const std::string k = e[0];
        if (k == "ent") out.push_back({"ent", e[1]});
        else if (k == "not" || k == "att" || k == "el" || k == "xd") continue;
        else if (k == "err" && e[1] == "warning") continue;       // warnings are at user option (e.g. a second declaration of an attribute)
        else if (k == "se") {
            json x = e;
            for (auto& a : x[4]) if (a[2] == "xmlns") a[0] = nullptr;
            out.push_back(x);
        } else out.push_back(e);
    }
    return out;
}
static std::string firstDiff(const json& exp, const json& got) {
    size_t n = std::min(exp.size(), got.size());
    for (size_t i = 0; i < n; i++) if (exp[i] != got[i]) return "event " + std::to_string(i) + ": expected " + exp[i].dump() + " got " + got[i].dump();
    if (exp.size() != got.size()) return "event " + std::to_string(n) + ": " + (exp.size() > n ? "missing " + exp[n].dump() : "extra " + got[n].dump());
    return "";
}
// for a difference inside the attribute list: which field of which kind of attribute (type and specified come from the specification)
static std::string attrDetail(const json& expEv, const json& gotEv, const json& infoset) {
    const json &ea = expEv[4], &ga = gotEv[4];
    if (ea.size() != ga.size()) return "count";
    for (size_t i = 0; i < ea.size(); i++) if (ea[i] != ga[i]) {
        std::string field = ea[i][2] != ga[i][2] ? "name" : ea[i][3] != ga[i][3] ? "value" : ea[i][4] != ga[i][4] ? "specified" : ea[i][5] != ga[i][5] ? "type" : "uri";
        std::string type = "?", spec = "?";
        for (auto& e : infoset) if (e[0] == "se" && e[1] == expEv[3]) for (auto& a : e[3]) if (a[0] == ea[i][2]) { type = a[3]; spec = a[2].get<bool>() ? "true" : "false"; }
        return "type=" + type + ",specified=" + spec + ",field=" + field;
    }
    return "";
}
static std::string diffKind(const json& exp, const json& got) {
    size_t n = std::min(exp.size(), got.size());
    for (size_t i = 0; i < n; i++) if (exp[i] != got[i]) {
        const std::string a = exp[i][0], b = got[i][0];
        if (a == "dt" && b != "dt") return "missing-dt";
        if (a != b) return a + "/" + b;
        if (a == "se") {
            if (exp[i][4] != got[i][4]) return "se.attrs";
            if (exp[i][5] != got[i][5]) return "se.line";
            return "se.name";
        }
        if (a == "ch") return exp[i][1] != got[i][1] ? "ch.text" : "ch.flags";
        return a;
    }
    return exp.size() > n ? "missing:" + exp[n][0].get<std::string>() : "extra:" + got[n][0].get<std::string>();
}

static std::string hex(const std::string& s) {
    static const char* d = "0123456789abcdef";
    std::string o;
    for (unsigned char c : s) { o.push_back(d[c >> 4]); o.push_back(d[c & 15]); }
    return o;
}
static std::string printable(const std::string& s) {
    std::string o;
    for (unsigned char c : s) {
        if (c >= 0x20 && c < 0x7F && c != '\\') o.push_back(char(c));
        else { char b[8]; snprintf(b, sizeof b, "\\x%02X", c); o += b; }
    }
    return o;
}
static std::string joinSet(const std::set<std::string>& s, size_t all) {
    if (s.size() == all) return "*";
    std::string o;
    for (auto& x : s) { if (!o.empty()) o += ","; o += x; }
    return o;
}

struct Case {
    json j;
    std::string prof, why, phase, doc, enc;
    bool fOff = false, fOn = false, hasDT = false;
};
static bool loadCase(const std::string& line, uint64_t seed, Case& c) {
    if (!decode_tlc_line(line, c.j) || !c.j.is_array() || c.j.size() < 6) return false;
    c.prof = c.j[0];
    c.fOff = c.j[2];
    c.fOn = c.j[3];
    c.why = c.j[4];
    c.phase = c.j[5];
    // a DOCTYPE declaration, well-formed or not: WFXMLScanner and SGXMLScanner are documented to skip it, so they are not held to such cases
    for (auto& t : c.j[1]) if (t[0] == "DT" || (t[0] == "BAD" && t[1].get<std::string>().find("doctype") != std::string::npos)) c.hasDT = true;
    tr::Rng rng(seed ^ tr::hashStr(c.j[1].dump()));
    c.doc = tr::render(c.j[1], rng, tr::Options(), &c.enc);
    return true;
}

static int modeT(const std::string& what, uint64_t seed) {
    static std::vector<Cfg>* M = nullptr;
    const bool doC02 = what != "c03", doC03 = what != "c02";
    Supervisor sup;
    sup.timeoutSec = 60;
    sup.initChild = [&]() {
        XMLPlatformUtils::Initialize();
        M = new std::vector<Cfg>(makeMatrix());
        for (auto& x : *M) x.s.reset(new pd::Session(x.c));
    };
    sup.handle = [&](const std::string& line, std::string& stat, bool& tainted) -> std::string {
        Case c;
        if (!loadCase(line, seed, c)) { stat = "torn"; return ""; }
        stat = "cases\tprof:" + c.prof + "\t" + (c.fOff ? "exp:fatal" : c.fOn ? "exp:nsfatal" : "exp:ok") + "\tenc:" + c.enc;
        if (c.fOff || c.fOn) stat += "\twhy:" + (c.fOff ? c.why : std::string("namespace-constraint"));
        std::string out;
        if (doC02) {
            std::vector<size_t> failing;
            size_t applicable = 0;
            std::set<std::string> apis, scs, nss, allApis, allScs;
            json firstGot;
            bool gotRejected = false;
            for (size_t i = 0; i < BASE; i++) {
                Cfg& x = (*M)[i];
                if (c.hasDT && x.sgOrWf()) continue;
                applicable++;
                allApis.insert(pd::apiName(x.c.api));
                allScs.insert(x.c.scanner);
                const bool expected = x.nsEffective() ? c.fOn : c.fOff;
                pd::Result r = x.s->parseBytes(c.doc.data(), c.doc.size());
                stat += "\tparses";
                if (r.rejected() != expected) {
                    if (failing.empty()) { firstGot = r.toJson(); gotRejected = r.rejected(); }
                    failing.push_back(i);
                    apis.insert(pd::apiName(x.c.api));
                    scs.insert(x.c.scanner);
                    nss.insert(x.c.namespaces ? "1" : "0");
                }
            }
            if (!failing.empty()) {
                // is it the reused parser object (history) or the document? re-run the first failing configuration on a fresh parser
                Cfg& x = (*M)[failing[0]];
                pd::Result fresh = pd::parseBytes(c.doc.data(), c.doc.size(), x.c);
                const bool expected = x.nsEffective() ? c.fOn : c.fOff;
                const bool freshSame = fresh.rejected() != expected;
                json tags = json::array();
                for (size_t i : failing) if (tags.size() < 12) tags.push_back((*M)[i].c.tag());
                json cls = {{"kind", gotRejected ? "rejected-wellformed" : "accepted-malformed"}, {"why", c.fOff ? c.why : (c.fOn ? "namespace-constraint" : "")},
                            {"phase", c.phase}, {"apis", joinSet(apis, allApis.size())}, {"scanners", joinSet(scs, allScs.size())}, {"ns", joinSet(nss, 2)},
                            {"fresh_parser_same", freshSame}};
                std::ostringstream why;
                why << (gotRejected ? "well-formed document rejected" : "malformed document accepted without a fatal error") << " (" << failing.size() << " of " << applicable
                    << " configurations, e.g. " << x.c.tag() << "); specification: " << (c.fOff ? "fatal: " + c.why : c.fOn ? "fatal with namespaces: namespace constraint" : "well-formed")
                    << "; document: " << printable(c.doc).substr(0, 200);
                out += dumpLine({{"t", "mismatch"}, {"cls", cls}, {"why", why.str()},
                                 {"case", {{"mode", "T"}, {"check", "c02"}, {"line", line}, {"seed", seed}, {"doc", printable(c.doc)}, {"doc_hex", hex(c.doc)}, {"encoding", c.enc},
                                           {"failing", tags}, {"n_failing", failing.size()}, {"n_configs", applicable}, {"got", firstGot}}}});
                stat += "\tmismatches";
            }
        }
        if (doC03 && c.j.size() >= 7 && !(c.fOff && c.fOn)) {
            std::map<std::string, std::vector<size_t>> byKind;   // kind of difference -> failing configurations
            std::map<std::string, std::string> firstWhy;
            std::map<std::string, json> firstGot, firstExp;
            size_t applicable = 0;
            std::set<std::string> allApis;
            for (size_t i = 0; i < M->size(); i++) {
                Cfg& x = (*M)[i];
                if (c.hasDT && x.sgOrWf()) continue;
                if (x.c.scanner == "SGXMLScanner" && !x.c.namespaces) continue;   // the schema scanner always does namespaces; the adapters were told not to
                if (x.nsEffective() ? c.fOn : c.fOff) continue;        // not an accepted document under this configuration
                applicable++;
                allApis.insert(pd::apiName(x.c.api));
                pd::Result r = x.s->parseBytes(c.doc.data(), c.doc.size());
                stat += "\tparses";
                if (r.rejected()) { stat += "\trejected_by_impl"; continue; }    // that is property C02's disagreement
                json exp = projectExpected(c.j[6], x.c);
                json got = reduceGot(r.events);
                stat += "\tcompared";
                if (exp != got) {
                    // does the difference come from the document or from what this (reused) parser object parsed before?
                    pd::Result fr = pd::parseBytes(c.doc.data(), c.doc.size(), x.c);
                    const bool history = !fr.rejected() && reduceGot(fr.events) == exp;
                    std::string kind = (history ? "history:" : "") + diffKind(exp, got);
                    if (history) x.s.reset(new pd::Session(x.c));
                    if (byKind[kind].empty()) { firstWhy[kind] = firstDiff(exp, got); firstGot[kind] = got; firstExp[kind] = exp; }
                    byKind[kind].push_back(i);
                }
            }
            for (auto& kv : byKind) {
                std::set<std::string> apis, scs, nss, ers;
                json tags = json::array();
                for (size_t i : kv.second) {
                    const Cfg& x = (*M)[i];
                    apis.insert(std::string(pd::apiName(x.c.api)) + (x.c.progressive ? "+prog" : "") + (x.c.lsFilter ? "+filter" : ""));
                    scs.insert(x.c.scanner);
                    nss.insert(x.c.namespaces ? "1" : "0");
                    ers.insert(x.c.entityRefs ? "1" : "0");
                    if (tags.size() < 12) tags.push_back(x.c.tag());
                }
                Cfg& x0 = (*M)[kv.second[0]];
                const bool history = kv.first.compare(0, 8, "history:") == 0;
                std::string detail;
                if (kv.first == "se.attrs") {
                    const json &fe = firstExp[kv.first], &fg = firstGot[kv.first];
                    for (size_t q = 0; q < std::min(fe.size(), fg.size()); q++) if (fe[q] != fg[q]) { detail = attrDetail(fe[q], fg[q], c.j[6]); break; }
                }
                json cls = {{"kind", history ? "history-dependence" : "infoset"}, {"diff", history ? kv.first.substr(8) : kv.first}, {"detail", detail}, {"apis", joinSet(apis, 10)}, {"scanners", joinSet(scs, c.hasDT ? 2 : 4)}, {"ns", joinSet(nss, 2)}};
                out += dumpLine({{"t", "mismatch"}, {"cls", cls},
                                 {"why", std::string(history ? "a REUSED parser object reports content that differs from the specification's infoset (a fresh parser is right) ("
                                                             : "reported content differs from the specification's infoset (") + std::to_string(kv.second.size()) + " of " + std::to_string(applicable) +
                                             " configurations, e.g. " + x0.c.tag() + "): " + firstWhy[kv.first] + "; document: " + printable(c.doc).substr(0, 200)},
                                 {"case", {{"mode", "T"}, {"check", "c03"}, {"line", line}, {"seed", seed}, {"doc", printable(c.doc)}, {"doc_hex", hex(c.doc)}, {"encoding", c.enc},
                                           {"failing", tags}, {"n_failing", kv.second.size()}, {"n_configs", applicable}, {"expected", firstExp[kv.first]}, {"got", firstGot[kv.first]}}}});
                stat += "\tmismatches";
            }
        }
        return out;
    };
    sup.onFail = [&](const std::string& line, const std::string& what2) -> std::string {
        Case c;
        if (!loadCase(line, seed, c)) return "";
        json cls = {{"kind", "no-return"}, {"res", what2}, {"why", c.why}, {"phase", c.phase}};
        return dumpLine({{"t", "mismatch"}, {"cls", cls}, {"why", "a parse did not return (" + what2 + ") on document: " + printable(c.doc).substr(0, 200)},
                         {"case", {{"mode", "T"}, {"line", line}, {"seed", seed}, {"doc", printable(c.doc)}, {"doc_hex", hex(c.doc)}}}});
    };
    return sup.run();
}

static int modeRender(uint64_t seed) {
    std::string line;
    while (std::getline(std::cin, line)) {
        Case c;
        if (!loadCase(line, seed, c)) { std::cout << "TORN " << line.substr(0, 80) << "\n"; continue; }
        std::cout << c.prof << "\t" << (c.fOff ? "F" : "-") << (c.fOn ? "F" : "-") << "\t" << c.why << "\t" << c.enc << "\t" << printable(c.doc) << "\n";
    }
    return 0;
}

static int modeDump(int argc, char** argv) {
    vh::Init init;
    std::stringstream ss;
    ss << std::cin.rdbuf();
    std::string doc = ss.str();
    pd::Config c;
    c.api = pd::apiFromName(argc > 2 ? argv[2] : "SAX2");
    c.scanner = argc > 3 ? argv[3] : "IGXMLScanner";
    c.namespaces = argc > 4 ? atoi(argv[4]) : 1;
    c.progressive = argc > 5 ? atoi(argv[5]) : 0;
    c.entityRefs = argc > 6 ? atoi(argv[6]) : 0;
    pd::Result r = pd::parseBytes(doc.data(), doc.size(), c);
    std::cout << c.tag() << " " << r.toJson().dump() << "\n";
    return 0;
}

int main(int argc, char** argv) {
    std::string mode = argc > 1 ? argv[1] : "";
    if (mode == "t") return modeT(argc > 2 ? argv[2] : "c02", argc > 3 ? strtoull(argv[3], nullptr, 10) : 1);
    if (mode == "render") return modeRender(argc > 2 ? strtoull(argv[2], nullptr, 10) : 1);
    if (mode == "dump") return modeDump(argc, argv);
    fprintf(stderr, "usage: xmltok_harness t c02|c03|both [seed] | render [seed] | dump api scanner ns [prog] [erefs]\n");
    return 2;
}
