// reader_harness - binders T and V of ReaderBuf / ReaderStack / ParserCall (properties C04 and C01).
//
//   reader_harness t <tracePrefix> <traceEvery> <tmpdir>      C04: stdin = cases emitted by TLC from spec/ReaderBufGen.tla
//       every case is one document with a hazard construct placed at a refill point of the real reader; it is parsed
//       once per delivery (one piece from memory, one byte per read around the hazard, one byte per read everywhere,
//       TLC-chosen partitions, a file read through a short-reading XMLFileMgr); the canonical event/error dumps must
//       be identical and equal to the specification's expected events; refills inside the hazard are measured from
//       the H1 events; the H1/H2 events of every <traceEvery>-th case are written to <tracePrefix>.<pid> for
//       validation by spec/ReaderBufTrace.tla.
//   reader_harness x <tracePrefix> <traceEvery> <tmpdir>      C01: stdin = {"id","doc":[pieces],"api","sc","ns","val","schema","limit","lw","dl"}
//       one parser call per line under vh::Supervisor (crash / sanitizer abort / hang = disagreement), Call .. Return
//       with the H1/H2 events in between go to the trace file; a return that is not one of ParserCall's kinds is a mismatch.
#include "parsedump.hpp"
#include "readertrace.hpp"
#include <xercesc/framework/LocalFileInputSource.hpp>
#include <xercesc/framework/MemBufInputSource.hpp>
#include <xercesc/util/SecurityManager.hpp>
#include <fcntl.h>
#include <fstream>
#include <set>

using vh::json;
using namespace XERCES_CPP_NAMESPACE;

static RT::Sink g_sink;
static RT::ShortFileMgr g_fm;
static std::string g_tracePrefix, g_tmpdir;
static long g_traceEvery = 1, g_caseNo = 0, g_callSeq = 0;
static FILE* g_traceFile = nullptr;

static bool g_captureStderr = false;
static void childInit() {
    if (g_captureStderr) {      // sanitizer reports of this child go to <tmpdir>/san.<pid> (read back per call / by the orchestration)
        std::string sp = g_tmpdir + "/san." + std::to_string((long)getpid());
        int fd = open(sp.c_str(), O_WRONLY | O_CREAT | O_APPEND, 0644);
        if (fd >= 0) { dup2(fd, 2); close(fd); }
    }
    XMLPlatformUtils::Initialize();
    g_fm.inner = XMLPlatformUtils::fgFileMgr;
    XMLPlatformUtils::fgFileMgr = &g_fm;
    RT::install(&g_sink);
    std::string p = g_tracePrefix + "." + std::to_string((long)getpid());
    g_traceFile = fopen(p.c_str(), "a");
}
static void flushTrace() {
    if (g_traceFile && !g_sink.trace.empty()) { fwrite(g_sink.trace.data(), 1, g_sink.trace.size(), g_traceFile); fflush(g_traceFile); }
    g_sink.trace.clear();
}

// ---- dumb renderer: pieces <<kind, cp, n, str>> -> bytes ------------------------------------------------------------------
static void putCp(std::string& o, uint32_t cp) {
    if (cp < 0x80) o.push_back(char(cp));
    else if (cp < 0x800) { o.push_back(char(0xC0 | (cp >> 6))); o.push_back(char(0x80 | (cp & 0x3F))); }
    else if (cp < 0x10000) { o.push_back(char(0xE0 | (cp >> 12))); o.push_back(char(0x80 | ((cp >> 6) & 0x3F))); o.push_back(char(0x80 | (cp & 0x3F))); }
    else { o.push_back(char(0xF0 | (cp >> 18))); o.push_back(char(0x80 | ((cp >> 12) & 0x3F))); o.push_back(char(0x80 | ((cp >> 6) & 0x3F))); o.push_back(char(0x80 | (cp & 0x3F))); }
}
static int hexv(char c) { return c <= '9' ? c - '0' : (c | 32) - 'a' + 10; }
static bool render(const json& pieces, std::string& out, std::string& why) {
    for (auto& p : pieces) {
        const std::string k = p[0];
        long cp = p[1], n = p[2];
        const std::string s = p[3];
        if (k == "s") { if ((long)s.size() != n) { why = "piece length " + s; return false; } out += s; }
        else if (k == "u") { for (long i = 0; i < n; i++) putCp(out, (uint32_t)cp); }
        else if (k == "b") out.push_back(char(cp));
        else if (k == "r") { for (long i = 0; i < n; i++) out += s; }
        else if (k == "h") { for (size_t i = 0; i + 1 < s.size(); i += 2) out.push_back(char(hexv(s[i]) * 16 + hexv(s[i + 1]))); }
        else if (k == "x") { std::string one; for (size_t i = 0; i + 1 < s.size(); i += 2) one.push_back(char(hexv(s[i]) * 16 + hexv(s[i + 1]))); for (long i = 0; i < n; i++) out += one; }
        else { why = "piece kind " + k; return false; }
    }
    return true;
}
static std::string text(const json& pieces) { std::string o, w; render(pieces, o, w); return o; }

// expected event <<kind, name, pieces, attrs, cdata>> -> canonical [kind, name, text, [[qname, value]...], cdata]
static json expandExpected(const json& evs) {
    json out = json::array();
    for (auto& e : evs) {
        std::string k = e[0];
        json attrs = json::array();
        for (auto& a : e[3]) attrs.push_back({a[0], text(a[1])});
        if (k == "seu") out.push_back({"se", text(e[2]), "", attrs, false});
        else if (k == "eeu") out.push_back({"ee", text(e[2]), "", attrs, false});
        else out.push_back({k, e[1], text(e[2]), attrs, e[4]});
    }
    return out;
}
// parsedump events -> the same canonical shape (errors separately)
static void project(const json& evs, json& out, json& errs) {
    out = json::array();
    errs = json::array();
    for (auto& e : evs) {
        const std::string k = e[0];
        if (k == "se") {
            json attrs = json::array();
            for (auto& a : e[4]) attrs.push_back({a[2], a[3]});
            out.push_back({"se", e[3], "", attrs, false});
        } else if (k == "ee") out.push_back({"ee", e[3], "", json::array(), false});
        else if (k == "ch") out.push_back({"ch", "", e[1], json::array(), e[2].is_boolean() ? e[2].get<bool>() : false});
        else if (k == "cm") out.push_back({"cm", "", e[1], json::array(), false});
        else if (k == "pi") out.push_back({"pi", e[1], e[2], json::array(), false});
        else if (k == "err") errs.push_back(e);
    }
}
static std::string shortJ(const json& j, size_t lim = 300) {
    std::string s = j.dump(-1, ' ', false, json::error_handler_t::replace);
    if (s.size() > lim) s = s.substr(0, lim / 2) + " ... " + s.substr(s.size() - lim / 2);
    return s;
}
static std::string retKind(const pd::Result& r) {
    const std::string& x = r.exception;
    if (x.empty()) return r.fatals > 0 ? "HandledFatal" : "Ok";
    if (x == "SAXParseException" || x == "SAXException") return "SAXException";
    if (x.compare(0, 13, "XMLException:") == 0) return "XMLException";
    if (x.compare(0, 13, "DOMException:") == 0 || x.compare(0, 15, "DOMLSException:") == 0) return "DOMException";
    if (x == "OutOfMemoryException") return "OutOfMemory";
    return "Foreign:" + x;
}

// ---- one parser call, bracketed by Call / Return in the trace -------------------------------------------------------------
struct CallSpec {
    pd::Config cfg;
    long limit = 0;       // entity expansion limit (0 = no SecurityManager)
    long lw = -1;         // low-water mark (-1 = default)
    std::string desc;
};
static pd::Result runCall(const CallSpec& cs, const InputSource& src, long total, bool record, long long* idOut = nullptr) {
    long long id = ((long long)(getpid() % 2000)) * 1000000LL + (++g_callSeq % 1000000);
    if (idOut) *idOut = id;
    g_sink.record = record;
    json call = {{"e", "Call"}, {"id", id}, {"api", pd::apiName(cs.cfg.api)}, {"sc", cs.cfg.scanner}, {"limit", cs.limit}, {"total", total}, {"d", cs.desc}};
    g_sink.beginCall(call.dump());
    flushTrace();      // the Call line is on disk before the implementation runs (a crash leaves an unfinished call)
    SecurityManager sm;
    pd::Session s(cs.cfg);
    if (cs.limit > 0) {
        sm.setEntityExpansionLimit((XMLSize_t)cs.limit);
        if (s.sax()) s.sax()->setSecurityManager(&sm);
        if (s.sax2()) s.sax2()->setProperty(XMLUni::fgXercesSecurityManager, &sm);
        if (s.dom()) s.dom()->setSecurityManager(&sm);
        if (s.ls()) s.ls()->getDomConfig()->setParameter(XMLUni::fgXercesSecurityManager, (const void*)&sm);
    }
    if (cs.lw >= 0) {
        XMLSize_t lw = (XMLSize_t)cs.lw;
        if (s.sax()) s.sax()->setLowWaterMark(lw);
        if (s.sax2()) s.sax2()->setProperty(XMLUni::fgXercesLowWaterMark, &lw);
        if (s.dom()) s.dom()->setLowWaterMark(lw);
        if (s.ls()) s.ls()->getDomConfig()->setParameter(XMLUni::fgXercesLowWaterMark, (const void*)&lw);
    }
    pd::Result r = s.parse(src);
    json ret = {{"e", "Return"}, {"kind", retKind(r)}, {"fatals", r.fatals}};
    g_sink.endCall(ret.dump());
    flushTrace();
    g_sink.record = false;
    return r;
}

// ---- mode t ---------------------------------------------------------------------------------------------------------------------
static std::string mismatch(const json& cls, const json& cs, const std::string& why) {
    return vh::dumpLine({{"t", "mismatch"}, {"cls", cls}, {"case", cs}, {"why", why}});
}
static std::string handleT(const std::string& line, std::string& stat, bool& tainted) {
    json c;
    if (!vh::decode_tlc_line(line, c)) { stat += "torn"; return ""; }
    long caseNo = g_caseNo++;
    std::string out, why, doc;
    if (!render(c["doc"], doc, why)) return vh::dumpLine({{"t", "infra"}, {"why", why}});
    const std::string hz = c["hz"], bk = c["bk"];
    long off = c["off"], hzByte = c["hzByte"], hzChar = c["hzChar"], hzBytes = c["hzBytes"], hzChars = c["hzChars"];
    bool wf = c["wf"];
    json caseId = {{"mode", "T"}, {"hz", hz}, {"bk", bk}, {"off", off}, {"bytes", doc.size()}};
    json expected = expandExpected(c["exp"]);
    bool record = g_traceEvery > 0 && (caseNo % g_traceEvery) == 0;
    CallSpec cs;
    cs.cfg.api = pd::SAX2;
    cs.cfg.scanner = pd::scanners()[(size_t)(caseNo % 4)];
    cs.cfg.columns = true;
    stat += "cases\tsc:" + cs.cfg.scanner + "\thz:" + hz + "\tbk:" + bk;
    std::string refDump;
    json refEv, refErr;
    bool anyRaw = false, anyChar = false;
    size_t di = 0;
    for (auto& d : c["dl"]) {
        const std::string kind = d[0];
        long a = d[1];
        std::string dname = kind + (kind == "file" ? ":" + std::to_string(a) : kind == "part" ? ":" + d[2].dump() : "");
        cs.desc = hz + "/" + bk + "/" + std::to_string(off) + "/" + dname;
        pd::Result r;
        // one-byte-everywhere and tiny file reads give 10^5 monotonous events per parse: compared (T) but not trace-validated
        bool rec = record && kind != "all1" && !(kind == "file" && a < 512);
        if (kind == "mem") {
            MemBufInputSource src(reinterpret_cast<const XMLByte*>(doc.data()), doc.size(), "mem.xml", false);
            r = runCall(cs, src, (long)doc.size(), rec);
        } else if (kind == "file") {
            std::string path = g_tmpdir + "/c04-" + std::to_string((long)getpid()) + ".xml";
            { std::ofstream f(path, std::ios::binary); f.write(doc.data(), (std::streamsize)doc.size()); }
            g_fm.maxRead = (XMLSize_t)a;
            LocalFileInputSource src(vh::X(path).c());
            r = runCall(cs, src, (long)doc.size(), rec);
            g_fm.maxRead = 0;
            unlink(path.c_str());
        } else {
            RT::Partition p;
            if (kind == "all1") { p.winLo = 0; p.winHi = doc.size(); p.pattern = {1}; }
            else {
                p.winLo = hzByte > a ? (size_t)(hzByte - a) : 0;
                p.winHi = std::min(doc.size(), (size_t)(hzByte + hzBytes + a));
                if (kind == "one") p.pattern = {1};
                else for (auto& x : d[2]) p.pattern.push_back((int)x);
            }
            RT::PartSource src(doc, p, "part.xml");
            r = runCall(cs, src, (long)doc.size(), rec);
        }
        stat += "\tparses\tdl:" + kind + "\tret:" + retKind(r);
        bool rawIn = g_sink.rawInside(hzByte, hzBytes), charIn = g_sink.charInside(hzChar, hzChars);
        if (rawIn) { stat += "\tstraddle_raw\tstraddle_raw:" + kind; anyRaw = true; }
        if (charIn) { stat += "\tstraddle_char\tstraddle_char:" + kind; anyChar = true; }
        if (rec) stat += "\ttraced_calls";
        json ev, err;
        project(r.events, ev, err);
        std::string dump = ev.dump(-1, ' ', false, json::error_handler_t::replace) + "|" + err.dump() + "|" + r.exception + "|" + std::to_string(r.fatals) + "/" + std::to_string(r.errors) + "/" + std::to_string(r.warnings);
        if (di == 0) {
            refDump = dump; refEv = ev; refErr = err;
            // the one-piece result against the specification's expectation
            bool ok;
            std::string w;
            if (wf) {
                ok = ev == expected && err.empty() && r.exception.empty();
                if (!ok) w = "expected " + shortJ(expected) + " got " + shortJ(ev) + " errors " + shortJ(err) + " exc " + r.exception;
            } else {
                ok = r.fatals >= 1 && !err.empty() && err.back()[1] == "fatal" && err.back()[2] == c["line"] && ev.size() >= expected.size();
                for (size_t i = 0; ok && i < expected.size(); i++) ok = ev[i] == expected[i];
                if (!ok) w = "expected a fatal error on line " + c["line"].dump() + " after " + shortJ(expected) + "; got " + shortJ(ev) + " errors " + shortJ(err) + " exc " + r.exception;
            }
            stat += ok ? "\texpect_ok" : "\texpect_bad";
            if (!ok) {
                out += mismatch({{"binder", "T"}, {"kind", "expectation"}, {"hz", hz}, {"wf", wf}, {"dl", "mem"}}, caseId, "one-piece parse differs from the specification's events: " + w);
                tainted = true;
            }
        } else {
            stat += "\tcompared";
            if (dump != refDump) {
                json cls = {{"binder", "T"}, {"kind", "delivery-differs"}, {"hz", hz}, {"wf", wf}, {"dl", kind}};
                json cs2 = caseId;
                cs2["dl"] = d;
                out += mismatch(cls, cs2, "delivery " + dname + " differs from the one-piece parse: events " + shortJ(ev) + " errors " + shortJ(err) + " exc '" + r.exception + "'  vs  events " + shortJ(refEv) + " errors " + shortJ(refErr));
                stat += "\tdelivery_differs";
                tainted = true;
            }
        }
        di++;
    }
    if (anyRaw || anyChar) stat += "\tcases_straddled\tcov:" + hz;
    return out;
}

// ---- mode x -----------------------------------------------------------------------------------------------------------------------
// Minimal drivers (no event dump: a recursive DOM walk of a 6000-deep document would overflow the HARNESS's stack).
struct XRes { long fatals = 0, errors = 0, warnings = 0; std::string exception; };
struct CountSax : public HandlerBase {
    XRes* r;
    explicit CountSax(XRes* x) : r(x) {}
    void warning(const SAXParseException&) override { r->warnings++; }
    void error(const SAXParseException&) override { r->errors++; }
    void fatalError(const SAXParseException&) override { r->fatals++; }
    void resetErrors() override {}
};
struct CountSax2 : public DefaultHandler {
    XRes* r;
    long ev = 0;
    explicit CountSax2(XRes* x) : r(x) {}
    void startElement(const XMLCh* const, const XMLCh* const, const XMLCh* const, const Attributes& a) override { ev += 1 + (long)a.getLength(); }
    void characters(const XMLCh* const, const XMLSize_t n) override { ev += (long)n; }
    void warning(const SAXParseException&) override { r->warnings++; }
    void error(const SAXParseException&) override { r->errors++; }
    void fatalError(const SAXParseException&) override { r->fatals++; }
    void resetErrors() override {}
};
struct CountDom : public DOMErrorHandler {
    XRes* r;
    explicit CountDom(XRes* x) : r(x) {}
    bool handleError(const DOMError& e) override {
        if (e.getSeverity() == DOMError::DOM_SEVERITY_WARNING) r->warnings++;
        else if (e.getSeverity() == DOMError::DOM_SEVERITY_ERROR) r->errors++;
        else r->fatals++;
        return true;
    }
};
template <class P> static void driveX(P* p, const InputSource& src, bool progressive) {
    if (!progressive) { p->parse(src); return; }
    XMLPScanToken tok;
    if (!p->parseFirst(src, tok)) return;
    while (p->parseNext(tok)) {}
}
static XRes runX(const CallSpec& cs, const InputSource& src, long total, bool record, long long* idOut) {
    long long id = ((long long)(getpid() % 2000)) * 1000000LL + (++g_callSeq % 1000000);
    if (idOut) *idOut = id;
    g_sink.record = record;
    json call = {{"e", "Call"}, {"id", id}, {"api", pd::apiName(cs.cfg.api)}, {"sc", cs.cfg.scanner}, {"limit", cs.limit}, {"total", total}, {"d", cs.desc}};
    g_sink.beginCall(call.dump());
    flushTrace();
    XRes r;
    {
        SecurityManager sm;
        pd::Session s(cs.cfg);      // only used to build and configure the parser object
        if (cs.limit > 0) {
            sm.setEntityExpansionLimit((XMLSize_t)cs.limit);
            if (s.sax()) s.sax()->setSecurityManager(&sm);
            if (s.sax2()) s.sax2()->setProperty(XMLUni::fgXercesSecurityManager, &sm);
            if (s.dom()) s.dom()->setSecurityManager(&sm);
            if (s.ls()) s.ls()->getDomConfig()->setParameter(XMLUni::fgXercesSecurityManager, (const void*)&sm);
        }
        if (cs.lw >= 0) {
            XMLSize_t lw = (XMLSize_t)cs.lw;
            if (s.sax()) s.sax()->setLowWaterMark(lw);
            if (s.sax2()) s.sax2()->setProperty(XMLUni::fgXercesLowWaterMark, &lw);
            if (s.dom()) s.dom()->setLowWaterMark(lw);
        }
        CountSax h1(&r);
        CountSax2 h2(&r);
        CountDom hd(&r);
        try {
            if (s.sax()) { s.sax()->setDocumentHandler(&h1); s.sax()->setDTDHandler(&h1); s.sax()->setErrorHandler(&h1); driveX(s.sax(), src, cs.cfg.progressive); }
            else if (s.sax2()) {
                s.sax2()->setContentHandler(&h2); s.sax2()->setDTDHandler(&h2); s.sax2()->setLexicalHandler(&h2); s.sax2()->setDeclarationHandler(&h2); s.sax2()->setErrorHandler(&h2);
                driveX(static_cast<SAX2XMLReaderImpl*>(s.sax2()), src, cs.cfg.progressive);
            } else if (s.dom()) { s.dom()->setErrorHandler(&h1); driveX(s.dom(), src, cs.cfg.progressive); }
            else if (s.ls()) {
                s.ls()->getDomConfig()->setParameter(XMLUni::fgDOMErrorHandler, (const void*)&hd);
                Wrapper4InputSource in(const_cast<InputSource*>(&src), false);
                s.ls()->parse(&in);
            }
        } catch (const OutOfMemoryException&) { r.exception = "OutOfMemoryException"; }
        catch (const SAXParseException&) { r.exception = "SAXParseException"; }
        catch (const SAXException&) { r.exception = "SAXException"; }
        catch (const XMLException& e) { r.exception = "XMLException:" + vh::to8(e.getType()); }
        catch (const DOMLSException& e) { r.exception = "DOMLSException:" + std::to_string((int)e.code); }
        catch (const DOMException& e) { r.exception = "DOMException:" + std::to_string((int)e.code); }
        catch (const std::exception&) { r.exception = "std::exception"; }
        catch (...) { r.exception = "unknown"; }
        if (s.sax()) { s.sax()->setDocumentHandler(0); s.sax()->setDTDHandler(0); s.sax()->setErrorHandler(0); }
        if (s.sax2()) { s.sax2()->setContentHandler(0); s.sax2()->setDTDHandler(0); s.sax2()->setLexicalHandler(0); s.sax2()->setDeclarationHandler(0); s.sax2()->setErrorHandler(0); }
        if (s.dom()) s.dom()->setErrorHandler(0);
        if (s.ls()) s.ls()->getDomConfig()->setParameter(XMLUni::fgDOMErrorHandler, (const void*)0);
    }   // the parser object (and a DOM tree) is destroyed inside the call
    pd::Result pr;
    pr.fatals = r.fatals;
    pr.exception = r.exception;
    json ret = {{"e", "Return"}, {"kind", retKind(pr)}, {"fatals", r.fatals}};
    g_sink.endCall(ret.dump());
    flushTrace();
    g_sink.record = false;
    return r;
}
// UBSan runs in recover mode and logs to <tmpdir>/san.<pid>: what a call added to the log is that call's report
static long g_sanSize = 0;
static std::string newSanitizerText() {
    std::string p = g_tmpdir + "/san." + std::to_string((long)getpid());
    FILE* f = fopen(p.c_str(), "r");
    if (!f) return "";
    fseek(f, 0, SEEK_END);
    long sz = ftell(f);
    std::string t;
    if (sz > g_sanSize) { t.resize((size_t)(sz - g_sanSize)); fseek(f, g_sanSize, SEEK_SET); size_t k = fread(&t[0], 1, t.size(), f); t.resize(k); g_sanSize = sz; }
    fclose(f);
    return t;
}
static std::string handleX(const std::string& line, std::string& stat, bool& tainted) {
    json c = json::parse(line, nullptr, false);
    if (c.is_discarded()) { stat += "torn"; return ""; }
    std::string doc, why;
    if (!render(c["doc"], doc, why)) return vh::dumpLine({{"t", "infra"}, {"why", why}});
    CallSpec cs;
    cs.cfg.api = pd::apiFromName(c.value("api", "SAX2"));
    cs.cfg.scanner = c.value("sc", "IGXMLScanner");
    cs.cfg.namespaces = c.value("ns", true);
    cs.cfg.validation = c.value("val", 0);
    cs.cfg.schema = c.value("schema", false);
    cs.cfg.exitOnFirstFatal = c.value("xff", true);
    cs.cfg.loadExternalDTD = false;
    cs.cfg.disableDefaultEntityResolution = true;      // C01 feeds bytes; external resources are C19's subject
    cs.cfg.progressive = c.value("prog", false);
    cs.limit = c.value("limit", 0);
    cs.lw = c.value("lw", -1);
    cs.desc = std::to_string(c.value("id", 0)) + "|" + c.value("d", "");
    const std::string dl = c.value("dl", "mem");
    bool record = g_traceEvery > 0 && (g_caseNo++ % g_traceEvery) == 0 && c.value("tr", true);
    XRes r;
    long long id = 0;
    if (dl == "mem") {
        MemBufInputSource src(reinterpret_cast<const XMLByte*>(doc.data()), doc.size(), "mem.xml", false);
        r = runX(cs, src, (long)doc.size(), record, &id);
    } else {
        RT::Partition p;
        p.winLo = 0; p.winHi = doc.size();
        p.pattern = dl == "one" ? std::vector<int>{1} : std::vector<int>{3, 1, 2};
        RT::PartSource src(doc, p, "part.xml");
        r = runX(cs, src, (long)doc.size(), record, &id);
    }
    pd::Result pr;
    pr.fatals = r.fatals;
    pr.exception = r.exception;
    const std::string kind = retKind(pr);
    std::string outl = vh::dumpLine({{"t", "ret"}, {"id", c.value("id", 0)}, {"kind", kind}, {"fatals", r.fatals}, {"errors", r.errors}, {"call", id}});
    stat += "calls\tret:" + kind + "\tapi:" + std::string(pd::apiName(cs.cfg.api)) + "\tsc:" + cs.cfg.scanner + "\tdl:" + dl + (record ? "\ttraced_calls" : "");
    json caseJ = {{"mode", "X"}, {"id", c.value("id", 0)}, {"d", c.value("d", "")}, {"api", pd::apiName(cs.cfg.api)}, {"sc", cs.cfg.scanner}, {"cfg", cs.cfg.toJson()}, {"limit", cs.limit}, {"dl", dl}, {"doc", c["doc"]}};
    if (caseJ["doc"].dump().size() > 3000) caseJ["doc"] = "(large: see the generator, label " + c.value("d", "") + ")";
    // undefined behaviour reported by UBSan during this call
    std::string san = newSanitizerText();
    size_t pos = 0;
    std::set<std::string> seen;
    while ((pos = san.find("runtime error:", pos)) != std::string::npos) {
        size_t ls = san.rfind('\n', pos);
        ls = ls == std::string::npos ? 0 : ls + 1;
        size_t le = san.find('\n', pos);
        std::string l = san.substr(ls, (le == std::string::npos ? san.size() : le) - ls);
        pos += 10;
        std::string loc = l.substr(0, l.find(": runtime error"));          // /path/File.cpp:LINE:COL
        size_t sl = loc.rfind('/');
        if (sl != std::string::npos) loc = loc.substr(sl + 1);
        size_t c2 = loc.rfind(':');
        if (c2 != std::string::npos && loc.find(':') != c2) loc = loc.substr(0, c2);   // drop the column
        std::string what = l.substr(l.find("runtime error:") + 15);
        if (!seen.insert(loc).second) continue;
        stat += "\tubsan_reports";
        outl += vh::dumpLine({{"t", "mismatch"}, {"cls", {{"binder", "V"}, {"kind", "ubsan"}, {"where", loc}, {"file", loc.substr(0, loc.find(':'))}, {"msg", what.substr(0, 60)}}}, {"case", caseJ},
                              {"why", "undefined behaviour inside a parser call: " + loc + ": " + what}});
    }
    if (kind.compare(0, 8, "Foreign:") == 0) {
        tainted = true;
        outl += vh::dumpLine({{"t", "mismatch"}, {"cls", {{"binder", "V"}, {"kind", "foreign-exception"}, {"what", kind}, {"api", pd::apiName(cs.cfg.api)}}},
                              {"case", caseJ}, {"why", "parse() ended with " + kind + ", which is not a return kind of ParserCall"}});
    }
    return outl;
}

int main(int argc, char** argv) {
    if (argc < 5) { fprintf(stderr, "usage: reader_harness t|x <tracePrefix> <traceEvery> <tmpdir> [timeoutSec]\n"); return 2; }
    const std::string mode = argv[1];
    g_tracePrefix = argv[2];
    g_traceEvery = atol(argv[3]);
    g_tmpdir = argv[4];
    vh::Supervisor sup;
    sup.timeoutSec = argc > 5 ? atoi(argv[5]) : 120;
    sup.batch = argc > 6 ? atoi(argv[6]) : (mode == "x" ? 16 : 4);
    const long maxFails = argc > 7 ? atol(argv[7]) : 8;       // after that many dead children the rest of the input is skipped (and counted)
    sup.initChild = childInit;
    g_captureStderr = (mode == "x");
    g_sink.depthGuard = 3000;
    if (mode == "t") sup.handle = handleT;
    else sup.handle = handleX;
    sup.onFail = [mode](const std::string& line, const std::string& what) {
        json cs = {{"mode", mode == "t" ? "T" : "X"}, {"what", what}};
        json c;
        if (mode == "t") { if (vh::decode_tlc_line(line, c)) { cs["hz"] = c["hz"]; cs["bk"] = c["bk"]; cs["off"] = c["off"]; } }
        else { c = json::parse(line, nullptr, false); if (!c.is_discarded()) { cs["id"] = c.value("id", 0); cs["d"] = c.value("d", ""); cs["doc"] = c["doc"].dump().size() > 3000 ? json("(large: see the generator, label " + c.value("d", "") + ")") : c["doc"]; cs["dl"] = c.value("dl", ""); cs["limit"] = c.value("limit", 0); cs["api"] = c.value("api", ""); cs["sc"] = c.value("sc", ""); } }
        std::string k = what.compare(0, 4, "hang") == 0 ? "hang" : "crash";
        json cls = {{"binder", mode == "t" ? "T" : "V"}, {"kind", k}, {"what", what}};
        if (mode == "t" && cs.contains("hz")) cls["hz"] = cs["hz"];
        return vh::dumpLine({{"t", "mismatch"}, {"cls", cls}, {"case", cs},
                             {"why", "the implementation did not return from a parser call (" + what + ")"}});
    };
    // vh::Supervisor::run with a cap on dead children
    signal(SIGPIPE, SIG_IGN);
    sup.spawn();
    std::string line;
    std::vector<std::string> lines;
    long skipped = 0;
    while (std::getline(std::cin, line)) {
        sup.nlines++;
        if (sup.fails >= maxFails) { skipped++; continue; }
        lines.push_back(line);
        if ((int)lines.size() >= sup.batch) { sup.runBatch(lines, 0, lines.size()); lines.clear(); }
    }
    if (!lines.empty() && sup.fails < maxFails) sup.runBatch(lines, 0, lines.size());
    else skipped += (long)lines.size();
    sup.reap(true);
    sup.counts["skipped_after_failures"] += skipped;
    vh::emit({{"t", "summary"}, {"lines", sup.nlines}, {"child_failures", sup.fails}, {"respawns", sup.respawns}, {"counts", sup.counts}});
    fflush(stdout);
    return 0;
}
