// Binders for the SimpleTypes specification (property C09).
//   dt_harness t                      stdin: TLC lines (SimpleTypesGen)  -> mismatch / summary lines   (expectations from TLC)
//   dt_harness v <seed> <k> <out>     stdin: TLC lines; every literal is mutated k times (seeded); every call on the
//                                     real code is logged as one ndjson record {f,ty,in,b,out} for SimpleTypesTrace
// Routes (f):  load         the generated XSD (type descriptor rendered table-driven) is accepted by loadGrammar
//              parse        in-parse verdict of <e>literal</e> against that schema
//              dv.validate / dv.canon / dv.compare   DatatypeValidator taken from the loaded grammar
//              xsv.validate / xsv.canon / xsv.actual XSValue (built-in types only)
//              x.compare    XMLDateTime::compare on the parsed values (exact result incl. INDETERMINATE)
#include "vh.hpp"
#include <xercesc/parsers/XercesDOMParser.hpp>
#include <xercesc/framework/MemBufInputSource.hpp>
#include <xercesc/sax/ErrorHandler.hpp>
#include <xercesc/sax/SAXParseException.hpp>
#include <xercesc/validators/schema/SchemaGrammar.hpp>
#include <xercesc/validators/schema/SchemaElementDecl.hpp>
#include <xercesc/validators/datatype/DatatypeValidator.hpp>
#include <xercesc/framework/psvi/XSValue.hpp>
#include <xercesc/util/XMLDateTime.hpp>
#include <xercesc/util/OutOfMemoryException.hpp>
#include <xercesc/util/XMLException.hpp>
#include <fstream>
#include <memory>
using namespace vh;
using namespace XERCES_CPP_NAMESPACE;

// ---- dumb renderers ---------------------------------------------------------------------------
// placeholders of the specification's alphabet
static std::string rend(const std::string& s) {
    std::string o;
    for (char c : s) {
        if (c == '~') o += "\xF0\x9D\x84\x9E";        // U+1D11E
        else if (c == '^') o += "\xC3\xA9";            // U+00E9
        else o.push_back(c);
    }
    return o;
}
static std::string xmlEsc(const std::string& s, bool attr) {
    std::string o;
    for (char c : rend(s)) {
        switch (c) {
            case '&': o += "&amp;"; break;
            case '<': o += "&lt;"; break;
            case '>': o += "&gt;"; break;
            case '"': o += attr ? "&quot;" : "\""; break;
            case '\t': o += "&#9;"; break;
            case '\n': o += "&#10;"; break;
            case '\r': o += "&#13;"; break;
            default: o.push_back(c);
        }
    }
    return o;
}
static const char* const INT_FACETS[][2] = {{"len", "length"}, {"mnl", "minLength"}, {"mxl", "maxLength"}, {"td", "totalDigits"}, {"fd", "fractionDigits"}};
static const char* const STR_FACETS[][2] = {{"ws", "whiteSpace"}, {"mni", "minInclusive"}, {"mxi", "maxInclusive"}, {"mne", "minExclusive"}, {"mxe", "maxExclusive"}, {"pat", "pattern"}};
static std::string facetsXml(const json& f) {
    std::string o;
    for (auto& p : INT_FACETS) if (f[p[0]].get<int>() >= 0) o += std::string("<xs:") + p[1] + " value=\"" + std::to_string(f[p[0]].get<int>()) + "\"/>";
    for (auto& p : STR_FACETS) if (!f[p[0]].get<std::string>().empty()) o += std::string("<xs:") + p[1] + " value=\"" + xmlEsc(f[p[0]].get<std::string>(), true) + "\"/>";
    for (auto& e : f["en"]) o += "<xs:enumeration value=\"" + xmlEsc(e.get<std::string>(), true) + "\"/>";
    return o;
}
static std::string facetNames(const json& ty) {
    std::string o;
    for (auto& f : ty["st"]) {
        for (auto& p : INT_FACETS) if (f[p[0]].get<int>() >= 0) o += std::string(p[0]) + ",";
        for (auto& p : STR_FACETS) if (!f[p[0]].get<std::string>().empty()) o += std::string(p[0]) + ",";
        if (!f["en"].empty()) o += "en,";
        o += ";";
    }
    return o;
}
static std::string baseName(const json& ty) {
    std::string v = ty["v"];
    if (v == "a") return ty["b"];
    if (v == "l") return "list(" + baseName(ty["it"][0]) + ")";
    std::string o = "union(";
    for (auto& m : ty["ms"]) o += baseName(m) + "|";
    return o + ")";
}
// <xs:simpleType>..</xs:simpleType> of a descriptor
static std::string typeXml(const json& ty) {
    std::string v = ty["v"];
    std::string inner;      // the variety without restriction steps, as a simpleType or "" when it is a plain built-in
    std::string builtin;
    if (v == "a") builtin = "xs:" + ty["b"].get<std::string>();
    else if (v == "l") {
        const json& it = ty["it"][0];
        if (it["v"] == "a" && it["st"].empty()) inner = "<xs:simpleType><xs:list itemType=\"xs:" + it["b"].get<std::string>() + "\"/></xs:simpleType>";
        else inner = "<xs:simpleType><xs:list>" + typeXml(it) + "</xs:list></xs:simpleType>";
    } else {
        inner = "<xs:simpleType><xs:union>";
        for (auto& m : ty["ms"]) inner += typeXml(m);
        inner += "</xs:union></xs:simpleType>";
    }
    if (ty["st"].empty()) return inner.empty() ? "<xs:simpleType><xs:restriction base=\"" + builtin + "\"/></xs:simpleType>" : inner;
    std::string cur = inner;
    for (auto& f : ty["st"]) {
        if (cur.empty()) cur = "<xs:simpleType><xs:restriction base=\"" + builtin + "\">" + facetsXml(f) + "</xs:restriction></xs:simpleType>";
        else cur = "<xs:simpleType><xs:restriction>" + cur + facetsXml(f) + "</xs:restriction></xs:simpleType>";
    }
    return cur;
}
static std::string schemaXml(const json& ty) {
    std::string o = "<?xml version=\"1.0\" encoding=\"UTF-8\"?><xs:schema xmlns:xs=\"http://www.w3.org/2001/XMLSchema\" targetNamespace=\"urn:t\" elementFormDefault=\"qualified\">";
    if (ty["v"] == "a" && ty["st"].empty()) o += "<xs:element name=\"e\" type=\"xs:" + ty["b"].get<std::string>() + "\"/>";
    else o += "<xs:element name=\"e\">" + typeXml(ty) + "</xs:element>";
    return o + "</xs:schema>";
}
static std::string instanceXml(const std::string& lit) {
    return "<?xml version=\"1.0\" encoding=\"UTF-8\"?><e xmlns=\"urn:t\" xmlns:a=\"urn:a\">" + xmlEsc(lit, false) + "</e>";
}

// ---- the real code ------------------------------------------------------------------------------
struct Errs : public ErrorHandler {
    int n = 0;
    std::string first;
    void note(const SAXParseException& e) { if (n++ == 0) first = to8(e.getMessage()); }
    void warning(const SAXParseException&) override {}
    void error(const SAXParseException& e) override { note(e); }
    void fatalError(const SAXParseException& e) override { note(e); }
    void resetErrors() override { n = 0; first.clear(); }
};
struct TypeCtx {
    std::unique_ptr<XercesDOMParser> parser;
    Errs errs;
    DatatypeValidator* dv = nullptr;
    bool loaded = false;
    std::string loadErr;
    bool builtin = false;
    XSValue::DataType xdt = XSValue::dt_MAXCOUNT;
    std::string b;          // built-in name of an atomic type
    std::string prim;       // "dt:<type>" | "duration" | ""
};
static MemoryManager* MM() { return XMLPlatformUtils::fgMemoryManager; }
static std::map<std::string, std::unique_ptr<TypeCtx>> gTypes;

static TypeCtx& ctxOf(const json& ty) {
    std::string key = ty.dump();
    auto it = gTypes.find(key);
    if (it != gTypes.end()) return *it->second;
    if (gTypes.size() > 400) gTypes.clear();
    auto c = std::make_unique<TypeCtx>();
    c->parser.reset(new XercesDOMParser());
    XercesDOMParser& p = *c->parser;
    p.setValidationScheme(XercesDOMParser::Val_Always);
    p.setDoNamespaces(true);
    p.setDoSchema(true);
    p.setErrorHandler(&c->errs);
    p.cacheGrammarFromParse(false);
    p.useCachedGrammarInParse(true);
    p.setLoadExternalDTD(false);
    std::string xsd = schemaXml(ty);
    try {
        MemBufInputSource src((const XMLByte*)xsd.data(), xsd.size(), "t.xsd");
        Grammar* g = p.loadGrammar(src, Grammar::SchemaGrammarType, true);
        if (g && c->errs.n == 0) {
            SchemaGrammar* sg = (SchemaGrammar*)g;
            RefHash3KeysIdPoolEnumerator<SchemaElementDecl> en = sg->getElemEnumerator();
            while (en.hasMoreElements()) {
                SchemaElementDecl& d = en.nextElement();
                if (to8(d.getBaseName()) == "e") c->dv = d.getDatatypeValidator();
            }
            c->loaded = c->dv != nullptr;
            if (!c->loaded) c->loadErr = "no datatype validator on element e";
        } else c->loadErr = c->errs.first.empty() ? "loadGrammar returned null" : c->errs.first;
    } catch (const XMLException& e) { c->loadErr = "XMLException: " + to8(e.getMessage()); }
    catch (...) { c->loadErr = "foreign exception"; }
    if (ty["v"] == "a") {
        c->b = ty["b"];
        c->builtin = ty["st"].empty();
        c->xdt = XSValue::getDataType(X(c->b));
        static const char* dts[] = {"dateTime", "date", "time", "gYearMonth", "gYear", "gMonthDay", "gDay", "gMonth"};
        for (auto d : dts) if (c->b == d) c->prim = "dt";
        if (c->b == "duration") c->prim = "duration";
    }
    TypeCtx& r = *c;
    gTypes[key] = std::move(c);
    return r;
}

static std::string doParse(TypeCtx& c, const std::string& lit) {
    std::string doc = instanceXml(lit);
    c.errs.resetErrors();
    try {
        MemBufInputSource src((const XMLByte*)doc.data(), doc.size(), "i.xml");
        c.parser->parse(src);
    } catch (const XMLException& e) { c.parser->resetDocumentPool(); return "exc:XMLException"; }
    catch (const OutOfMemoryException&) { return "exc:OutOfMemory"; }
    catch (...) { c.parser->resetDocumentPool(); return "exc:foreign"; }
    c.parser->resetDocumentPool();
    return c.errs.n == 0 ? "valid" : "invalid";
}
static std::string dvValidate(TypeCtx& c, const std::string& lit) {
    X x(rend(lit));
    try { c.dv->validate(x, 0, MM()); return "valid"; }
    catch (const XMLException&) { return "invalid"; }
    catch (const OutOfMemoryException&) { return "exc:OutOfMemory"; }
    catch (...) { return "exc:foreign"; }
}
static std::string dvCanon(TypeCtx& c, const std::string& lit) {
    X x(rend(lit));
    try {
        const XMLCh* r = c.dv->getCanonicalRepresentation(x, MM(), true);
        if (!r) return "none";
        std::string o = "C:" + to8(r);
        MM()->deallocate((void*)r);
        return o;
    } catch (const XMLException&) { return "exc:XMLException"; }
    catch (...) { return "exc:foreign"; }
}
static std::string dvCompare(TypeCtx& c, const std::string& a, const std::string& b) {
    X x(rend(a)), y(rend(b));
    try { return std::to_string(c.dv->compare(x, y, MM())); }
    catch (const XMLException&) { return "exc:XMLException"; }
    catch (...) { return "exc:foreign"; }
}
static void parseAs(XMLDateTime& d, const std::string& b) {
    if (b == "dateTime") d.parseDateTime(); else if (b == "date") d.parseDate(); else if (b == "time") d.parseTime();
    else if (b == "gYearMonth") d.parseYearMonth(); else if (b == "gYear") d.parseYear(); else if (b == "gMonthDay") d.parseMonthDay();
    else if (b == "gDay") d.parseDay(); else if (b == "gMonth") d.parseMonth(); else d.parseDuration();
}
static std::string xCompare(TypeCtx& c, const std::string& a, const std::string& b) {
    X x(rend(a)), y(rend(b));
    try {
        XMLDateTime p(x, MM()), q(y, MM());
        parseAs(p, c.b);
        parseAs(q, c.b);
        return std::to_string(c.prim == "duration" ? XMLDateTime::compare(&p, &q, true) : XMLDateTime::compare(&p, &q));
    } catch (const XMLException&) { return "exc:XMLException"; }
    catch (...) { return "exc:foreign"; }
}
static std::string xsvValidate(TypeCtx& c, const std::string& lit) {
    X x(rend(lit));
    XSValue::Status st = XSValue::st_Init;
    try { return XSValue::validate(x, c.xdt, st, XSValue::ver_10, MM()) ? "valid" : "invalid"; }
    catch (const XMLException&) { return "exc:XMLException"; }
    catch (...) { return "exc:foreign"; }
}
static std::string xsvCanon(TypeCtx& c, const std::string& lit) {
    X x(rend(lit));
    XSValue::Status st = XSValue::st_Init;
    try {
        XMLCh* r = XSValue::getCanonicalRepresentation(x, c.xdt, st, XSValue::ver_10, true, MM());
        if (!r) return "none";
        std::string o = "C:" + to8(r);
        MM()->deallocate(r);
        return o;
    } catch (const XMLException&) { return "exc:XMLException"; }
    catch (...) { return "exc:foreign"; }
}
// actual value of the integer family as a decimal numeral ("none" when no value is returned)
static std::string xsvActualInt(TypeCtx& c, const std::string& lit) {
    X x(rend(lit));
    XSValue::Status st = XSValue::st_Init;
    try {
        std::unique_ptr<XSValue> v(XSValue::getActualValue(x, c.xdt, st, XSValue::ver_10, true, MM()));
        if (!v) return "none";
        switch (c.xdt) {
            case XSValue::dt_byte: return "C:" + std::to_string((int)v->fData.fValue.f_char);
            case XSValue::dt_unsignedByte: return "C:" + std::to_string((unsigned)v->fData.fValue.f_uchar);
            case XSValue::dt_short: return "C:" + std::to_string(v->fData.fValue.f_short);
            case XSValue::dt_unsignedShort: return "C:" + std::to_string(v->fData.fValue.f_ushort);
            case XSValue::dt_int: return "C:" + std::to_string(v->fData.fValue.f_int);
            case XSValue::dt_unsignedInt: return "C:" + std::to_string(v->fData.fValue.f_uint);
            case XSValue::dt_long: case XSValue::dt_integer: case XSValue::dt_negativeInteger: case XSValue::dt_nonPositiveInteger:
                return "C:" + std::to_string(v->fData.fValue.f_long);
            case XSValue::dt_unsignedLong: case XSValue::dt_nonNegativeInteger: case XSValue::dt_positiveInteger:
                return "C:" + std::to_string(v->fData.fValue.f_ulong);
            case XSValue::dt_boolean: return v->fData.fValue.f_bool ? "C:true" : "C:false";
            default: return "skip";
        }
    } catch (const XMLException&) { return "exc:XMLException"; }
    catch (...) { return "exc:foreign"; }
}
static bool hasWs(const std::string& s) { return s.find_first_of(" \t\n\r") != std::string::npos; }
static bool isIntFamily(XSValue::DataType d) {
    return d == XSValue::dt_byte || d == XSValue::dt_unsignedByte || d == XSValue::dt_short || d == XSValue::dt_unsignedShort || d == XSValue::dt_int ||
           d == XSValue::dt_unsignedInt || d == XSValue::dt_long || d == XSValue::dt_unsignedLong;
}

// ---- mode t: compare with the expectations of the specification -----------------------------------
static std::string mism(const json& j, const std::string& f, const std::string& exp, const std::string& got, const std::string& why) {
    const json& ty = j["ty"];
    json cls = {{"f", f}, {"b", baseName(ty)}, {"fac", facetNames(ty)}, {"exp", exp}, {"got", got}};
    json cs = j;
    cs["route"] = f;
    cs["expected"] = exp;
    cs["got"] = got;
    cs["xsd"] = schemaXml(ty);
    return dumpLine({{"t", "mismatch"}, {"cls", cls}, {"case", cs}, {"why", why}});
}
static std::string cmpExp(const std::string& r, bool exact) {
    if (r == "LT") return "-1";
    if (r == "EQ") return "0";
    if (r == "GT") return "1";
    return exact ? "2" : "-1|2";
}
static std::string handleT(const std::string& line, std::string& stat, bool& tainted) {
    json j;
    if (!decode_tlc_line(line, j)) { stat = "torn"; return ""; }
    std::string out;
    stat = "cases";
    TypeCtx& c = ctxOf(j["ty"]);
    std::string k = j["k"];
    if (!c.loaded) {
        stat += "\tmismatches";
        return mism(j, "load", "schema accepted", "rejected", "the schema generated for this type was not accepted: " + c.loadErr);
    }
    auto check = [&](const std::string& f, const std::string& exp, const std::string& got, const std::string& why) {
        stat += "\troute:" + f;
        bool ok = exp == got;
        if (!ok && exp.find('|') != std::string::npos) {     // a set of allowed results
            size_t i = 0;
            while (i <= exp.size()) { size_t e = exp.find('|', i); if (e == std::string::npos) e = exp.size(); if (exp.substr(i, e - i) == got) ok = true; i = e + 1; }
        }
        if (!ok) { stat += "\tmismatches"; out += mism(j, f, exp, got, why); if (got.rfind("exc:", 0) == 0) tainted = true; }
    };
    if (k == "val") {
        std::string in = j["in"], norm = j["norm"];
        bool valid = j["valid"];
        std::string ev = valid ? "valid" : "invalid";
        stat += valid ? "\tvalid" : "\tinvalid";
        check("parse", ev, doParse(c, in), "in-parse verdict of <e>literal</e> differs from the specification");
        check("dv.validate", ev, dvValidate(c, norm), "DatatypeValidator::validate differs from the specification");
        if (j["hc"].get<bool>()) check("dv.canon", "C:" + j["canon"].get<std::string>(), dvCanon(c, norm), "canonical representation differs from the specification");
        else if (!valid) check("dv.canon", "none", dvCanon(c, norm), "canonical representation of an invalid literal");
        if (c.builtin && c.xdt != XSValue::dt_MAXCOUNT && !norm.empty()) {
            check("xsv.validate", ev, xsvValidate(c, norm), "XSValue::validate differs from the specification (and from in-parse validation)");
            if (j["hc"].get<bool>()) {
                check("xsv.canon", "C:" + j["canon"].get<std::string>(), xsvCanon(c, norm), "XSValue::getCanonicalRepresentation differs from the specification");
                if (isIntFamily(c.xdt) || c.xdt == XSValue::dt_boolean) check("xsv.actual", "C:" + j["canon"].get<std::string>(), xsvActualInt(c, norm), "XSValue::getActualValue differs from the value of the specification");
            } else if (!valid) {
                check("xsv.canon", "none", xsvCanon(c, norm), "XSValue::getCanonicalRepresentation of an invalid literal");
                if (isIntFamily(c.xdt) || c.xdt == XSValue::dt_boolean) check("xsv.actual", "none", xsvActualInt(c, norm), "XSValue::getActualValue of an invalid literal");
            }
        }
    } else if (k == "cmp") {
        std::string a = j["norm"], b = j["b"], r = j["r"];
        stat += "\trel:" + r;
        check("dv.compare", cmpExp(r, false), dvCompare(c, a, b), "DatatypeValidator::compare differs from the order of the specification");
        if (!c.prim.empty()) check("x.compare", cmpExp(r, true), xCompare(c, a, b), "XMLDateTime::compare differs from the order of the specification");
    }
    return out;
}

// ---- mode v: record calls on mutated literals -------------------------------------------------------
static std::string mutate(const std::string& s, std::mt19937& g) {
    std::string alpha = s + "0123456789" + ".-+:TZ ";
    std::string o = s;
    int op = o.empty() ? 1 : (int)(g() % 3);
    size_t pos = o.empty() ? 0 : g() % (o.size() + (op == 1 ? 1 : 0));
    char ch = alpha[g() % alpha.size()];
    if (op == 0) o[pos] = ch; else if (op == 1) o.insert(pos, 1, ch); else o.erase(pos, 1);
    return o;
}
int main(int argc, char** argv) {
    std::string mode = argc > 1 ? argv[1] : "t";
    Supervisor sup;
    sup.timeoutSec = 60;
    sup.initChild = []() { XMLPlatformUtils::Initialize(); };
    if (mode == "t") {
        sup.handle = handleT;
        sup.onFail = [](const std::string& line, const std::string& what) -> std::string {
            json j;
            if (!decode_tlc_line(line, j)) return "";
            return mism(j, "call", "returns", what, "a call did not return: " + what);
        };
        return sup.run();
    }
    if (mode == "v") {
        unsigned seed = argc > 2 ? (unsigned)atol(argv[2]) : 1;
        int k = argc > 3 ? atoi(argv[3]) : 1;
        std::string path = argc > 4 ? argv[4] : "/dev/stdout";
        XMLPlatformUtils::Initialize();
        std::ofstream f(path);
        std::string line;
        long n = 0, recs = 0;
        while (std::getline(std::cin, line)) {
            json j;
            if (!decode_tlc_line(line, j)) continue;
            n++;
            TypeCtx& c = ctxOf(j["ty"]);
            if (!c.loaded) continue;
            std::mt19937 g(seed * 7919u + (unsigned)n);
            auto rec = [&](const std::string& fn, const std::string& in, const std::string& b, const std::string& out) {
                f << dumpLine({{"f", fn}, {"ty", j["ty"]}, {"in", in}, {"b", b}, {"out", out}});
                recs++;
            };
            for (int i = 0; i < k; i++) {
                std::string m = mutate(j["k"] == "val" ? j["in"].get<std::string>() : j["norm"].get<std::string>(), g);
                if (j["k"] == "val") {
                    rec("parse", m, "", doParse(c, m));
                    if (!hasWs(m)) {
                        rec("dv.validate", m, "", dvValidate(c, m));
                        rec("dv.canon", m, "", dvCanon(c, m));
                        if (c.builtin && c.xdt != XSValue::dt_MAXCOUNT && !m.empty()) {
                            rec("xsv.validate", m, "", xsvValidate(c, m));
                            rec("xsv.canon", m, "", xsvCanon(c, m));
                        }
                    }
                } else if (!hasWs(m)) {
                    std::string b = j["b"];
                    if (dvValidate(c, m) == "valid") {
                        rec("dv.compare", m, b, dvCompare(c, m, b));
                        if (!c.prim.empty()) rec("x.compare", m, b, xCompare(c, m, b));
                    }
                }
            }
        }
        f.close();
        emit({{"t", "summary"}, {"lines", n}, {"records", recs}});
        return 0;
    }
    fprintf(stderr, "usage: dt_harness t | v <seed> <k> <out>\n");
    return 2;
}
