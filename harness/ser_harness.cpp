// Binder T for the Serializer specification (property C12).
//   ser_harness t <quick|thorough>   stdin: TLC lines [doc, cfg, err, warn, items, reparsed, eq, tags]  (SerializerGen)
//   ser_harness f <quick|thorough>   stdin: TLC lines [mode, unrep, enc, v11, value, items, throws]      (SerializerFmt)
// Every expectation comes from the TLC line.  This file only (a) renders abstract items to text with the fixed
// tables below, (b) builds the document through the DOM API, (c) calls DOMLSSerializer / XMLFormatter /
// XercesDOMParser and (d) projects DOM trees back to the flat abstract form.
#include "vh.hpp"
#include <xercesc/dom/DOM.hpp>
#include <xercesc/framework/MemBufFormatTarget.hpp>
#include <xercesc/framework/MemBufInputSource.hpp>
#include <xercesc/framework/XMLFormatter.hpp>
#include <xercesc/parsers/XercesDOMParser.hpp>
#include <xercesc/sax/ErrorHandler.hpp>
#include <xercesc/sax/SAXParseException.hpp>
#include <xercesc/util/TranscodingException.hpp>
#include <xercesc/util/XMLUni.hpp>
#include <set>
using namespace vh;
using namespace XERCES_CPP_NAMESPACE;

// ---- fixed tables ---------------------------------------------------------------------------------
static const std::map<std::string, uint32_t> kClassCp = {
    {"p", 0x61}, {"lt", 0x3C}, {"amp", 0x26}, {"gt", 0x3E}, {"quot", 0x22}, {"apos", 0x27}, {"cr", 0x0D}, {"lf", 0x0A},
    {"tab", 0x09}, {"rsb", 0x5D}, {"dash", 0x2D}, {"qm", 0x3F}, {"hi", 0xE9}, {"bmp", 0x20AC}, {"sup", 0x1F600},
    {"c0", 0x01}, {"sp", 0x20}};
static const std::map<std::string, std::string> kNames = {{"a", "a"}, {"b", "b"}, {"t", "t"}, {"p", "p"}, {"xmlns", "xmlns"}, {"nh", "\xC3\xA9"}, {"", ""}};
static const std::map<std::string, std::string> kUris = {{"u1", "urn:u1"}, {"u2", "urn:u2"}, {"", ""}};
static const std::map<std::string, std::vector<std::string>> kEncQuick = {
    {"utf", {"UTF-8", "UTF-16", "@string"}}, {"cp", {"windows-1252"}}, {"l1", {"ISO-8859-1"}}, {"ascii", {"US-ASCII"}}};
static const std::map<std::string, std::vector<std::string>> kEncThorough = {
    {"utf", {"UTF-8", "UTF-16", "@string", "UTF-16BE", "UCS-4"}}, {"cp", {"windows-1252", "IBM1140"}}, {"l1", {"ISO-8859-1", "IBM037"}}, {"ascii", {"US-ASCII"}}};
static const char* kXmlnsUri = "http://www.w3.org/2000/xmlns/";

static std::string cpTo8(uint32_t cp) {
    XMLCh b[3];
    size_t n = 0;
    if (cp >= 0x10000) { cp -= 0x10000; b[n++] = XMLCh(0xD800 + (cp >> 10)); b[n++] = XMLCh(0xDC00 + (cp & 0x3FF)); }
    else b[n++] = XMLCh(cp);
    return to8(b, n);
}
static std::string classChar(const std::string& c) { return cpTo8(kClassCp.at(c)); }
static std::string hexUpper(uint32_t v) { char b[16]; snprintf(b, sizeof b, "%X", v); return b; }
static std::string valueOf(const json& v) { std::string s; for (auto& c : v) s += classChar(c.get<std::string>()); return s; }
static std::string qname(const std::string& p, const std::string& n) { return p.empty() ? kNames.at(n) : kNames.at(p) + ":" + kNames.at(n); }

static std::string render(const json& items, const std::string& encDeclName) {
    std::string o;
    for (auto& it : items) {
        const std::string t = it[0];
        if (t == "l") o += it[1].get<std::string>();
        else if (t == "c") o += classChar(it[1]);
        else if (t == "e") o += "&" + it[1].get<std::string>() + ";";
        else if (t == "r") o += "&#x" + hexUpper(kClassCp.at(it[1])) + ";";
        else if (t == "s") o += "\x02";      // wildcard: the transcoder's replacement character(s), see matchWild
        else if (t == "u") o += kUris.at(it[1]);
        else if (t == "n") o += qname(it[1], it[2]);
        else if (t == "decl") o += "<?xml version=\"" + it[1].get<std::string>() + "\" encoding=\"" + encDeclName + "\" standalone=\"no\" ?>";
        else if (t == "bom") {}
        else o += "<?unknown item " + t + "?>";
    }
    return o;
}

// expected text with \x02 wildcards (UnRep_Replace: one or two replacement characters 0x1A or '?', chosen by the transcoder)
static bool matchWild(const std::string& e, size_t i, const std::string& g, size_t k) {
    if (i == e.size()) return k == g.size();
    if (e[i] != '\x02') return k < g.size() && g[k] == e[i] && matchWild(e, i + 1, g, k + 1);
    auto isRep = [&](size_t x) { return x < g.size() && (g[x] == '\x1A' || g[x] == '?'); };
    if (isRep(k) && matchWild(e, i + 1, g, k + 1)) return true;
    return isRep(k) && isRep(k + 1) && matchWild(e, i + 1, g, k + 2);
}

// ---- encodings: bytes -> UTF-8 text ------------------------------------------------------------------
static std::string bomOf(const std::string& enc) {
    if (enc == "UTF-8") return "\xEF\xBB\xBF";
    if (enc == "UTF-16") return "\xFF\xFE";
    if (enc == "UTF-16BE") return "\xFE\xFF";
    if (enc == "UCS-4") return std::string("\xFF\xFE\x00\x00", 4);
    return "";
}
static bool decodeBytes(const std::string& enc, const std::string& b, std::string& out) {
    out.clear();
    if (enc == "UTF-8") { out = b; return true; }
    if (enc == "UTF-16" || enc == "@string" || enc == "UTF-16BE") {
        if (b.size() % 2) return false;
        std::u16string u;
        for (size_t i = 0; i + 1 < b.size(); i += 2) {
            unsigned lo = (unsigned char)b[i], hi = (unsigned char)b[i + 1];
            u.push_back(enc == "UTF-16BE" ? char16_t((lo << 8) | hi) : char16_t((hi << 8) | lo));
        }
        out = to8(reinterpret_cast<const XMLCh*>(u.data()), u.size());
        return true;
    }
    if (enc == "UCS-4") {
        if (b.size() % 4) return false;
        for (size_t i = 0; i + 3 < b.size(); i += 4)
            out += cpTo8((unsigned char)b[i] | ((unsigned char)b[i + 1] << 8) | ((unsigned char)b[i + 2] << 16) | ((uint32_t)(unsigned char)b[i + 3] << 24));
        return true;
    }
    if (enc == "ISO-8859-1" || enc == "US-ASCII") {
        for (unsigned char c : b) { if (enc == "US-ASCII" && c >= 0x80) return false; out += cpTo8(c); }
        return true;
    }
    // other single-byte encodings: the library's own decoder (trusted here; transcoders are property C05)
    XMLTransService::Codes fail;
    XMLTranscoder* tc = XMLPlatformUtils::fgTransService->makeNewTranscoderFor(enc.c_str(), fail, 4096);
    if (!tc) return false;
    std::vector<XMLCh> buf(b.size() + 8);
    std::vector<unsigned char> sizes(b.size() + 8);
    XMLSize_t eaten = 0, n = 0;
    try {
        if (!b.empty()) n = tc->transcodeFrom((const XMLByte*)b.data(), b.size(), buf.data(), buf.size(), eaten, sizes.data());
    } catch (...) { delete tc; return false; }
    delete tc;
    if (eaten != b.size()) return false;
    out = to8(buf.data(), n);
    return true;
}

// ---- DOM building and projection --------------------------------------------------------------------
struct CountingDomHandler : DOMErrorHandler {
    int warn = 0, err = 0, fatal = 0;
    bool handleError(const DOMError& e) override {
        if (e.getSeverity() == DOMError::DOM_SEVERITY_WARNING) warn++;
        else if (e.getSeverity() == DOMError::DOM_SEVERITY_ERROR) err++;
        else fatal++;
        return true;
    }
};
struct CountingSaxHandler : ErrorHandler {
    int warn = 0, err = 0, fatal = 0;
    std::string first;
    void warning(const SAXParseException&) override { warn++; }
    void error(const SAXParseException& e) override { if (first.empty()) first = to8(e.getMessage()); err++; }
    void fatalError(const SAXParseException& e) override { if (first.empty()) first = to8(e.getMessage()); fatal++; }
    void resetErrors() override { warn = err = fatal = 0; first.clear(); }
};

static const XMLCh* orNull(const X& x) { return x.s.empty() ? nullptr : x.c(); }

struct World {
    DOMImplementation* impl = nullptr;
    XercesDOMParser* parser = nullptr;
    CountingSaxHandler sax;
    World() {
        static const XMLCh ls[] = {'L', 'S', 0};
        impl = DOMImplementationRegistry::getDOMImplementation(ls);
        parser = new XercesDOMParser();
        parser->setDoNamespaces(true);
        parser->setValidationScheme(XercesDOMParser::Val_Never);
        parser->setLoadExternalDTD(false);
        parser->setErrorHandler(&sax);
    }
    DOMDocument* build(const json& doc, bool v11, std::string& err) {
        DOMDocument* d = impl->createDocument();
        try {
            if (v11) d->setXmlVersion(X("1.1"));
            std::vector<DOMNode*> at;   // at[depth] = last element at that depth
            DOMElement* lastEl = nullptr;
            for (auto& nd : doc) {
                const std::string k = nd[0], n = nd[2], p = nd[3], u = nd[4];
                const int depth = nd[1];
                const int rank = nd[5];
                const std::string v = valueOf(nd[6]);
                DOMNode* parent = depth == 0 ? (DOMNode*)d : ((k == "attr" || k == "nsdecl") ? (DOMNode*)lastEl : at.at(depth - 1));
                if (k == "elem") {
                    X uri(kUris.at(u)), q(qname(p, n));
                    DOMElement* e = d->createElementNS(orNull(uri), q);
                    parent->appendChild(e);
                    at.resize(depth + 1);
                    at[depth] = e;
                    lastEl = e;
                } else if (k == "attr") {
                    X uri(kUris.at(u)), q(qname(p, n)), val(v);
                    lastEl->setAttributeNS(orNull(uri), q, val);
                } else if (k == "nsdecl") {
                    X uri(kXmlnsUri), q(rank == 3 ? std::string("xmlns") : std::string("xmlns:p")), val(kUris.at(u));
                    lastEl->setAttributeNS(uri, q, val);
                } else if (k == "text") parent->appendChild(d->createTextNode(X(v)));
                else if (k == "cdata") parent->appendChild(d->createCDATASection(X(v)));
                else if (k == "comment") parent->appendChild(d->createComment(X(v)));
                else if (k == "pi") parent->appendChild(d->createProcessingInstruction(X(kNames.at(n)), X(v)));
                else { err = "unknown node kind " + k; d->release(); return nullptr; }
            }
        } catch (const DOMException& e) {
            err = "DOMException " + std::to_string(e.code) + " while building the document";
            d->release();
            return nullptr;
        }
        return d;
    }
};

static std::string revName(const std::string& s) { for (auto& kv : kNames) if (kv.second == s) return kv.first; return "?" + s; }
static std::string revUri(const std::string& s) { for (auto& kv : kUris) if (kv.second == s) return kv.first; return "?" + s; }
static json classesOf(const XMLCh* s) {
    json a = json::array();
    if (!s) return a;
    for (size_t i = 0; s[i]; i++) {
        uint32_t cp = s[i];
        if (cp >= 0xD800 && cp < 0xDC00 && s[i + 1] >= 0xDC00 && s[i + 1] < 0xE000) { cp = 0x10000 + ((cp - 0xD800) << 10) + (s[i + 1] - 0xDC00); i++; }
        std::string c;
        for (auto& kv : kClassCp) if (kv.second == cp) c = kv.first;
        a.push_back(c.empty() ? "U+" + hexUpper(cp) : c);
    }
    return a;
}
static int rankOfQName(const std::string& q) {
    if (q == "b") return 1;
    if (q == "p:b") return 2;
    if (q == "xmlns") return 3;
    if (q == "xmlns:p") return 4;
    if (q == "\xC3\xA9") return 5;
    return 99;
}
static void project(const DOMNode* n, int depth, json& out) {
    switch (n->getNodeType()) {
        case DOMNode::DOCUMENT_NODE:
            for (DOMNode* c = n->getFirstChild(); c; c = c->getNextSibling()) project(c, depth, out);
            break;
        case DOMNode::ELEMENT_NODE: {
            out.push_back({"elem", depth, revName(to8(n->getLocalName() ? n->getLocalName() : n->getNodeName())), to8(n->getPrefix()), revUri(to8(n->getNamespaceURI())), 0, json::array()});
            DOMNamedNodeMap* m = n->getAttributes();
            for (XMLSize_t i = 0; i < m->getLength(); i++) {
                DOMNode* a = m->item(i);
                const std::string q = to8(a->getNodeName());
                if (to8(a->getNamespaceURI()) == kXmlnsUri) out.push_back({"nsdecl", depth + 1, "", "", revUri(to8(a->getNodeValue())), rankOfQName(q), json::array()});
                else out.push_back({"attr", depth + 1, revName(to8(a->getLocalName() ? a->getLocalName() : a->getNodeName())), to8(a->getPrefix()), revUri(to8(a->getNamespaceURI())), rankOfQName(q), classesOf(a->getNodeValue())});
            }
            for (DOMNode* c = n->getFirstChild(); c; c = c->getNextSibling()) project(c, depth + 1, out);
            break;
        }
        case DOMNode::TEXT_NODE: out.push_back({"text", depth, "", "", "", 0, classesOf(n->getNodeValue())}); break;
        case DOMNode::CDATA_SECTION_NODE: out.push_back({"cdata", depth, "", "", "", 0, classesOf(n->getNodeValue())}); break;
        case DOMNode::COMMENT_NODE: out.push_back({"comment", depth, "", "", "", 0, classesOf(n->getNodeValue())}); break;
        case DOMNode::PROCESSING_INSTRUCTION_NODE: out.push_back({"pi", depth, revName(to8(n->getNodeName())), "", "", 0, classesOf(n->getNodeValue())}); break;
        default: out.push_back({std::string("other:") + std::to_string((int)n->getNodeType()), depth, "", "", "", 0, json::array()});
    }
}
static json projectDoc(const DOMNode* n) { json o = json::array(); project(n, 0, o); return o; }

// ---- serialisation -----------------------------------------------------------------------------------
struct SerResult {
    bool ret = false, threw = false;
    std::string exc;
    int warn = 0, err = 0, fatal = 0;
    std::string bytes;
    bool ok() const { return ret && !threw; }
};
static SerResult serialise(World& w, const DOMNode* node, const std::string& enc, bool split, bool decl, bool bom) {
    SerResult r;
    DOMLSSerializer* ser = ((DOMImplementationLS*)w.impl)->createLSSerializer();
    CountingDomHandler h;
    DOMConfiguration* dc = ser->getDomConfig();
    dc->setParameter(XMLUni::fgDOMErrorHandler, (const void*)&h);
    dc->setParameter(XMLUni::fgDOMWRTSplitCdataSections, split);
    dc->setParameter(XMLUni::fgDOMXMLDeclaration, decl);
    dc->setParameter(XMLUni::fgDOMWRTBOM, bom);
    try {
        if (enc == "@string") {
            XMLCh* s = ser->writeToString(node);
            r.ret = s != nullptr;
            if (s) {
                size_t n = XMLString::stringLen(s);
                r.bytes.assign(reinterpret_cast<const char*>(s), n * sizeof(XMLCh));
                XMLString::release(&s);
            }
        } else {
            MemBufFormatTarget tgt;
            DOMLSOutput* o = ((DOMImplementationLS*)w.impl)->createLSOutput();
            o->setByteStream(&tgt);
            o->setEncoding(X(enc));
            try { r.ret = ser->write(node, o); } catch (...) { r.bytes.assign((const char*)tgt.getRawBuffer(), tgt.getLen()); o->release(); throw; }
            r.bytes.assign((const char*)tgt.getRawBuffer(), tgt.getLen());
            o->release();
        }
    } catch (const DOMLSException& e) { r.threw = true; r.exc = "DOMLSException"; }
    catch (const DOMException& e) { r.threw = true; r.exc = "DOMException"; }
    catch (const XMLException& e) { r.threw = true; r.exc = "XMLException:" + to8(e.getType()); }
    r.warn = h.warn; r.err = h.err; r.fatal = h.fatal;
    ser->release();
    return r;
}

static std::string reparseEncoding(const std::string& enc) { return enc == "@string" || enc == "UTF-16" ? "UTF-16LE" : enc == "UCS-4" ? "UCS-4LE" : enc; }

// returns nullptr when the bytes are not a well-formed document (why = first error)
static DOMDocument* reparse(World& w, const std::string& bytes, const std::string& enc, bool hasDecl, std::string& why) {
    w.sax.resetErrors();
    w.parser->resetDocumentPool();
    MemBufInputSource src((const XMLByte*)bytes.data(), bytes.size(), "c12-output", false);
    if (!hasDecl || enc == "@string") src.setEncoding(X(reparseEncoding(enc)));
    try { w.parser->parse(src); }
    catch (const XMLException& e) { why = "XMLException " + to8(e.getMessage()); return nullptr; }
    catch (const DOMException& e) { why = "DOMException"; return nullptr; }
    catch (...) { why = "exception"; return nullptr; }
    if (w.sax.err || w.sax.fatal) { why = w.sax.first; return nullptr; }
    return w.parser->getDocument();
}

static std::string cap(const std::string& k) {
    if (k == "text") return "Text"; if (k == "cdata") return "CdataSection"; if (k == "comment") return "Comment";
    if (k == "pi") return "PI"; if (k == "attr") return "Attr"; if (k == "nsdecl") return "NsDecl"; if (k == "elem") return "Element";
    return k;
}
static std::string printable(const std::string& s) {
    std::string o;
    for (unsigned char c : s) { if (c < 0x20 || c == 0x7F) { char b[8]; snprintf(b, sizeof b, "\\x%02X", c); o += b; } else o.push_back((char)c); }
    return o;
}

static std::map<std::string, int> gPrinted;

// long-run cases of SerializerLong: [doc with v^1, cfg, N, err, warn, pre, unit, suf, Parse(Ser(v^1)), eq, tags] -> the shape of a short
// case with every value repeated N times and the output items pre + unit^N + suf (pure repetition, no expectation is computed here)
static json expandLong(const json& l) {
    const size_t n = l[2].get<size_t>();
    auto scale = [&](const json& doc) {
        json d = doc;
        for (auto& nd : d) {
            json v = json::array();
            for (auto& c : nd[6]) for (size_t i = 0; i < n; i++) v.push_back(c);
            nd[6] = v;
        }
        return d;
    };
    json items = json::array();
    for (auto& it : l[5]) items.push_back(it);
    for (size_t i = 0; i < n; i++) for (auto& it : l[6]) items.push_back(it);
    for (auto& it : l[7]) items.push_back(it);
    return json::array({scale(l[0]), l[1], l[3], l[4], l[3].get<bool>() ? json::array() : items, scale(l[8]), l[9], l[10]});
}
static std::string clip(const std::string& s) { return s.size() <= 400 ? s : s.substr(0, 200) + " ...[" + std::to_string(s.size()) + " bytes]... " + s.substr(s.size() - 120); }

static int modeT(const std::string& tier) {
    static World* w = nullptr;
    const auto& encs = tier == "thorough" ? kEncThorough : kEncQuick;
    Supervisor sup;
    sup.timeoutSec = 120;
    sup.initChild = [&]() { XMLPlatformUtils::Initialize(); w = new World(); };
    sup.handle = [&](const std::string& line, std::string& stat, bool& tainted) -> std::string {
        json j;
        if (!decode_tlc_line(line, j)) { stat = "torn"; return ""; }
        const json orig = j;
        const bool isLong = j.size() == 11;
        if (isLong) j = expandLong(orig);
        const json &doc = j[0], &cfg = j[1], &items = j[4], &rt = j[5];
        const bool expErr = j[2], expWarn = j[3], expEq = j[6];
        const std::string encClass = cfg[0], top = cfg[3];
        const bool split = cfg[1], v11 = cfg[2], bom = cfg[4];
        std::vector<std::pair<std::string, std::string>> tags;
        for (auto& t : j[7]) tags.push_back({t[0], t[1]});
        std::sort(tags.begin(), tags.end());
        std::string action = tags.empty() ? cap(doc.back()[0]) : tags[0].first, contains = tags.empty() ? "" : tags[0].second;
        stat = "cases";
        if (isLong) stat += "\tlong\tlen:" + std::to_string(orig[2].get<size_t>());
        stat += expErr ? "\texpect:error" : "\texpect:ok";
        stat += "\tkind:" + cap(doc.back()[0]);
        std::string out;
        auto mismatch = [&](const std::string& check, const std::string& enc, const std::string& why, json extra) {
            json cls = {{"action", action}, {"contains", contains}, {"check", check}};
            std::string key = cls.dump() + enc;
            stat += "\tmismatches\tmm:" + action + "|" + contains + "|" + check;
            if (gPrinted[key]++ >= 3) return;      // the first few cases of a class are written out, the rest only counted
            extra["line"] = orig;
            for (const char* k : {"expected", "got", "second"}) if (extra.contains(k)) extra[k] = clip(extra[k].get<std::string>());
            if (extra.contains("reparsed") && isLong) extra.erase("reparsed");
            extra["encoding"] = enc;
            extra["mode"] = "T";
            out += dumpLine({{"t", "mismatch"}, {"cls", cls}, {"why", why}, {"case", extra}});
        };
        std::string berr;
        DOMDocument* d = w->build(doc, v11, berr);
        if (!d) { mismatch("harness-build", "", berr, json::object()); return out; }
        if (projectDoc(d) != doc) { mismatch("harness-build", "", "the document built through the DOM API does not project to the case", json::object()); d->release(); return out; }
        const DOMNode* target = top == "elem" ? (const DOMNode*)d->getDocumentElement() : (const DOMNode*)d;
        for (const std::string& enc : encs.at(encClass)) {
            if (enc == "@string" && bom) continue;     // writeToString switches the byte-order mark off
            stat += "\tser";
            const bool hasDecl = top == "decl";
            SerResult r = serialise(*w, target, enc, split, hasDecl, bom);
            std::string got;
            const std::string declName = enc == "@string" ? "UTF-16" : enc;
            json obs = {{"ret", r.ret}, {"threw", r.exc}, {"fatal", r.fatal}, {"errors", r.err}, {"warnings", r.warn}};
            if (expErr) {
                stat += "\tcompared:error";
                if (r.ok()) {
                    // the specification says this content cannot be expressed; what did the implementation write?
                    std::string why, text;
                    decodeBytes(enc, r.bytes, text);
                    DOMDocument* rd = reparse(*w, r.bytes, enc, hasDecl, why);
                    std::string what = !rd ? "output is not well-formed (" + why + ")" : projectDoc(rd) != doc ? "output re-parses to a different tree" : "output re-parses to the same tree";
                    mismatch("error-not-reported", enc, "content that cannot be expressed was written without an error: " + what, {{"obs", obs}, {"got", printable(text)}});
                } else if (r.fatal + r.err == 0) {
                    mismatch("error-handler-not-called", enc, "serialisation failed without a DOMError", {{"obs", obs}});
                }
                continue;
            }
            stat += "\tcompared:ok";
            if (!r.ok()) { mismatch("unexpected-error", enc, "serialisation reported an error for expressible content", {{"obs", obs}}); continue; }
            std::string bytes = r.bytes;
            const std::string expBom = bom && top != "elem" ? bomOf(enc) : "";
            bool bomOk = bytes.compare(0, expBom.size(), expBom) == 0;
            if (bomOk) bytes = bytes.substr(expBom.size());
            std::string exp = render(items, declName);
            bool decoded = decodeBytes(enc, bytes, got);
            bool tokensOk = bomOk && decoded && got == exp;
            std::string why;
            std::string check;
            json extra = {{"obs", obs}, {"expected", printable(exp)}, {"got", printable(got)}};
            DOMDocument* rd = reparse(*w, r.bytes, enc, hasDecl, why);
            if (!rd) { check = "wellformed"; why = "output is not well-formed: " + why; }
            else {
                json rp = projectDoc(rd);
                const DOMNode* rtarget = top == "elem" ? (const DOMNode*)rd->getDocumentElement() : (const DOMNode*)rd;
                if (rp != rt) { check = "reparse"; why = "re-parsed tree differs from the specification's Parse(Ser(doc))"; extra["reparsed"] = rp; }
                else if (target->isEqualNode(rtarget) != expEq) { check = "isEqualNode"; why = std::string("isEqualNode(original, re-parsed) is ") + (expEq ? "false" : "true") + ", the specification says " + (expEq ? "true" : "false"); }
                else {
                    SerResult r2 = serialise(*w, rtarget, enc, split, hasDecl, bom);
                    if (!r2.ok() || r2.bytes != r.bytes) {
                        check = "idempotent"; why = "second serialisation differs from the first";
                        std::string g2; decodeBytes(enc, r2.bytes, g2); extra["second"] = printable(g2);
                    }
                }
            }
            if (check.empty() && (r.warn > 0) != expWarn) { check = "warning"; why = expWarn ? "no warning for a split CDATA section" : "unexpected warning"; }
            if (check.empty() && !tokensOk) {
                // where the recommendation leaves the division of "]]>" to the implementation any well-formed,
                // content-preserving, idempotent output is accepted
                bool freeChoice = false;
                for (auto& t : tags) if (t.first == "CdataSection" && t.second == "]]>") freeChoice = true;
                if (!freeChoice) { check = "tokens"; why = !bomOk ? "byte-order mark missing or wrong" : !decoded ? "output is not valid in the encoding" : "output text differs from the specification's tokens"; }
            }
            if (!check.empty()) mismatch(check, enc, why, extra);
        }
        w->parser->resetDocumentPool();
        d->release();
        return out;
    };
    sup.onFail = [&](const std::string& line, const std::string& what) -> std::string {
        json j;
        if (!decode_tlc_line(line, j)) return "";
        return dumpLine({{"t", "mismatch"}, {"cls", {{"action", cap(j[0].back()[0])}, {"contains", ""}, {"check", "call-did-not-return"}}},
                         {"why", "serialising / re-parsing the case did not return: " + what}, {"case", {{"mode", "T"}, {"line", j}, {"res", what}}}});
    };
    return sup.run();
}

// ---- XMLFormatter alone ----------------------------------------------------------------------------
static int modeF(const std::string& tier) {
    const auto& encs = tier == "thorough" ? kEncThorough : kEncQuick;
    Supervisor sup;
    sup.timeoutSec = 120;
    sup.initChild = [&]() { XMLPlatformUtils::Initialize(); };
    sup.handle = [&](const std::string& line, std::string& stat, bool& tainted) -> std::string {
        json j;
        if (!decode_tlc_line(line, j)) { stat = "torn"; return ""; }
        const std::string mode = j[0], unrep = j[1], encClass = j[2];
        const bool v11 = j[3], expThrow = j[6];
        const std::string value = valueOf(j[4]);
        stat = "cases\tmode:" + mode + "\tunrep:" + unrep;
        std::string out;
        static const std::map<std::string, XMLFormatter::EscapeFlags> em = {{"No", XMLFormatter::NoEscapes}, {"Std", XMLFormatter::StdEscapes}, {"Attr", XMLFormatter::AttrEscapes}, {"Char", XMLFormatter::CharEscapes}};
        static const std::map<std::string, XMLFormatter::UnRepFlags> um = {{"CharRef", XMLFormatter::UnRep_CharRef}, {"Fail", XMLFormatter::UnRep_Fail}, {"Replace", XMLFormatter::UnRep_Replace}};
        for (const std::string& enc : encs.at(encClass)) {
            if (enc == "@string") continue;
            stat += "\tfmt";
            MemBufFormatTarget tgt;
            bool threw = false;
            std::string got;
            try {
                XMLFormatter f(enc.c_str(), v11 ? "1.1" : "1.0", &tgt, XMLFormatter::NoEscapes, XMLFormatter::UnRep_CharRef);
                X v(value);
                f.formatBuf(v.c(), v.s.size(), em.at(mode), um.at(unrep));
            } catch (const TranscodingException&) { threw = true; }
            catch (const XMLException& e) { threw = true; }
            std::string bytes((const char*)tgt.getRawBuffer(), tgt.getLen());
            bool decoded = decodeBytes(enc, bytes, got);
            std::string exp = render(j[5], enc);
            std::string why;
            if (threw != expThrow) why = expThrow ? "no TranscodingException for an unrepresentable character with UnRep_Fail" : "unexpected exception";
            else if (!threw && (!decoded || !matchWild(exp, 0, got, 0))) why = "formatted text differs from the decision table";
            if (!why.empty()) {
                stat += "\tmismatches";
                json cls = {{"action", "XMLFormatter"}, {"contains", mode + "/" + unrep}, {"check", threw != expThrow ? "exception" : "tokens"}};
                if (gPrinted[cls.dump() + enc]++ < 3)
                    out += dumpLine({{"t", "mismatch"}, {"cls", cls}, {"why", why}, {"case", {{"mode", "F"}, {"line", j}, {"encoding", enc}, {"expected", printable(exp)}, {"got", printable(got)}, {"threw", threw}}}});
            }
        }
        return out;
    };
    sup.onFail = [&](const std::string& line, const std::string& what) -> std::string {
        json j;
        if (!decode_tlc_line(line, j)) return "";
        return dumpLine({{"t", "mismatch"}, {"cls", {{"action", "XMLFormatter"}, {"contains", ""}, {"check", "call-did-not-return"}}}, {"why", "formatBuf did not return: " + what}, {"case", {{"mode", "F"}, {"line", j}}}});
    };
    return sup.run();
}

int main(int argc, char** argv) {
    if (argc < 3) return 2;
    std::string mode = argv[1], tier = argv[2];
    std::ios::sync_with_stdio(false);
    if (mode == "t") return modeT(tier);
    if (mode == "f") return modeF(tier);
    return 2;
}
