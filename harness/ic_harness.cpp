// Binder T / L for the IdentityConstraints specification (property C10).
//   ic_harness t                     stdin: TLC lines, one abstract case each (IdentityConstraintsGen / ...Large):
//                                    {"ty","cons":[{nm,kind,on,sel,flds,refer}],"tree":[[depth,name,id,ref,text,nil]...],
//                                     "exp":[kinds],"maybe":[kinds],"tags":[..],"fam":..}
//   ic_harness one <xsd> <xml>       parse one pair of files with every configuration, print the observation (debug aid)
//   ic_harness render                stdin: TLC lines; prints {"xsd":..,"xml":..} for each (debug / replay aid)
// Output: {"t":"mismatch","cls":{..},"case":{..},"why":".."} lines and the Supervisor's final {"t":"summary",...}.
//
// Everything expected comes from the TLC line. The renderers are tables from abstract names / lexical forms /
// XPath records to text. Observation = the set of identity-constraint violation KINDS reported (table kKinds maps
// XMLValid::IC_* codes to kinds); any other error or fatal error is kind "other:<domain><code>" and never expected.
#include "vh.hpp"
#include <xercesc/parsers/SAX2XMLReaderImpl.hpp>
#include <xercesc/parsers/XercesDOMParser.hpp>
#include <xercesc/sax/ErrorHandler.hpp>
#include <xercesc/sax/EntityResolver.hpp>
#include <xercesc/sax/SAXParseException.hpp>
#include <xercesc/sax2/DefaultHandler.hpp>
#include <xercesc/framework/MemBufInputSource.hpp>
#include <xercesc/framework/XMLValidityCodes.hpp>
#include <xercesc/util/XMLUni.hpp>
#include <xercesc/util/XMLException.hpp>
#include <xercesc/util/OutOfMemoryException.hpp>
#include <xercesc/dom/DOM.hpp>
#include <algorithm>
#include <fstream>
#include <sstream>
#include <set>
using namespace vh;
using namespace XERCES_CPP_NAMESPACE;

// ------------------------------------------------------------------------------------------------
// observation of one parse
// ------------------------------------------------------------------------------------------------
struct KindRow { int code; const char* kind; };
static const KindRow kKinds[] = {
    {XMLValid::IC_DuplicateUnique, "dup-unique"},
    {XMLValid::IC_DuplicateKey, "dup-key"},
    {XMLValid::IC_AbsentKeyValue, "key-missing"},
    {XMLValid::IC_KeyNotEnoughValues, "key-missing"},
    {XMLValid::IC_KeyMatchesNillable, "key-nillable"},
    {XMLValid::IC_KeyNotFound, "keyref"},
    {XMLValid::IC_KeyRefOutOfScope, "keyref"},
    {XMLValid::IC_FieldMultipleMatch, "field-multi"},
    {XMLValid::IC_UnknownField, "unknown-field"},
};

struct Rec {
    std::set<std::string> kinds;
    std::map<std::string, int> counts;      // per IC code name, for the sample / diagnosis only
    std::vector<int> codes;
    int handlerErrors = 0, handlerFatals = 0, handlerWarnings = 0;
    std::string exc;
    void clear() { *this = Rec(); }
};
static Rec* gRec = nullptr;

static void noteReport(unsigned int code, const XMLCh* domain, XMLErrorReporter::ErrTypes type) {
    if (!gRec) return;
    if (type == XMLErrorReporter::ErrType_Warning) return;
    bool val = XMLString::equals(domain, XMLUni::fgValidityDomain);
    if (val) {
        for (auto& r : kKinds)
            if (r.code == (int)code) { gRec->kinds.insert(r.kind); gRec->codes.push_back((int)code); return; }
    }
    gRec->kinds.insert(std::string("other:") + (val ? "V" : XMLString::equals(domain, XMLUni::fgXMLErrDomain) ? "X" : "O") + std::to_string(code));
    gRec->codes.push_back(-(int)code);
}

struct CountingHandler : public ErrorHandler {
    void warning(const SAXParseException&) override { if (gRec) gRec->handlerWarnings++; }
    void error(const SAXParseException&) override { if (gRec) gRec->handlerErrors++; }
    void fatalError(const SAXParseException&) override { if (gRec) gRec->handlerFatals++; }
    void resetErrors() override {}
};

static std::string gXsd;   // schema text of the current case, served by the resolver
struct MemResolver : public EntityResolver {
    int served = 0;
    InputSource* resolveEntity(const XMLCh* const, const XMLCh* const systemId) override {
        std::string s = to8(systemId);
        if (s.size() >= 7 && s.compare(s.size() - 7, 7, "c10.xsd") == 0) {
            served++;
            return new MemBufInputSource((const XMLByte*)gXsd.data(), gXsd.size(), systemId, false);
        }
        return nullptr;
    }
};

struct MySAX2 : public SAX2XMLReaderImpl {
    void error(const unsigned int code, const XMLCh* const dom, const XMLErrorReporter::ErrTypes type, const XMLCh* const text,
               const XMLCh* const sys, const XMLCh* const pub, const XMLFileLoc line, const XMLFileLoc col) override {
        noteReport(code, dom, type);
        SAX2XMLReaderImpl::error(code, dom, type, text, sys, pub, line, col);
    }
};
struct MyDOM : public XercesDOMParser {
    void error(const unsigned int code, const XMLCh* const dom, const XMLErrorReporter::ErrTypes type, const XMLCh* const text,
               const XMLCh* const sys, const XMLCh* const pub, const XMLFileLoc line, const XMLFileLoc col) override {
        noteReport(code, dom, type);
        XercesDOMParser::error(code, dom, type, text, sys, pub, line, col);
    }
};

struct Cfg { const char* name; int api; bool sg; int style; };   // api 0 = SAX2, 1 = DOM ; style = XPath rendering style
static const Cfg kCfgs[] = {
    {"sax2-IG", 0, false, 0},
    {"dom-SG", 1, true, 1},
    {"sax2-SG", 0, true, 2},
    {"dom-IG", 1, false, 0},
};
static const int kNCfg = sizeof(kCfgs) / sizeof(kCfgs[0]);

struct Parsers {
    CountingHandler eh;
    MemResolver res;
    DefaultHandler dh;
    MySAX2* s2[2] = {nullptr, nullptr};      // [sg]
    MyDOM* dom[2] = {nullptr, nullptr};
    X loc{"c10.xsd"};
    void make() {
        for (int sg = 0; sg < 2; sg++) {
            const XMLCh* sc = sg ? XMLUni::fgSGXMLScanner : XMLUni::fgIGXMLScanner;
            s2[sg] = new MySAX2();
            s2[sg]->setProperty(XMLUni::fgXercesScannerName, (void*)sc);
            s2[sg]->setErrorHandler(&eh);
            s2[sg]->setContentHandler(&dh);
            s2[sg]->setEntityResolver(&res);
            s2[sg]->setFeature(XMLUni::fgSAX2CoreNameSpaces, true);
            s2[sg]->setFeature(XMLUni::fgSAX2CoreValidation, true);
            s2[sg]->setFeature(XMLUni::fgXercesDynamic, false);
            s2[sg]->setFeature(XMLUni::fgXercesSchema, true);
            s2[sg]->setFeature(XMLUni::fgXercesSchemaFullChecking, true);
            s2[sg]->setFeature(XMLUni::fgXercesIdentityConstraintChecking, true);
            s2[sg]->setProperty(XMLUni::fgXercesSchemaExternalNoNameSpaceSchemaLocation, (void*)loc.c());
            dom[sg] = new MyDOM();
            dom[sg]->useScanner(sc);
            dom[sg]->setErrorHandler(&eh);
            dom[sg]->setEntityResolver(&res);
            dom[sg]->setDoNamespaces(true);
            dom[sg]->setDoSchema(true);
            dom[sg]->setValidationSchemaFullChecking(true);
            dom[sg]->setValidationScheme(XercesDOMParser::Val_Always);
            dom[sg]->setIdentityConstraintChecking(true);
            dom[sg]->setExternalNoNamespaceSchemaLocation(loc.c());
        }
    }
    void drop() {
        for (int sg = 0; sg < 2; sg++) { delete s2[sg]; delete dom[sg]; s2[sg] = nullptr; dom[sg] = nullptr; }
    }
    Parsers() { make(); }
    void parse(const Cfg& c, const std::string& xsd, const std::string& doc, Rec& rec) {
        rec.clear();
        gRec = &rec;
        gXsd = xsd;
        MemBufInputSource src((const XMLByte*)doc.data(), doc.size(), "mem:/c10/doc.xml", false);
        try {
            if (c.api == 0) s2[c.sg]->parse(src);
            else { dom[c.sg]->parse(src); dom[c.sg]->resetDocumentPool(); }
        } catch (const OutOfMemoryException&) { rec.exc = "OutOfMemoryException";
        } catch (const XMLException& e) { rec.exc = "XMLException:" + to8(e.getType());
        } catch (const SAXParseException&) { rec.exc = "SAXParseException";
        } catch (const SAXException&) { rec.exc = "SAXException";
        } catch (const DOMException&) { rec.exc = "DOMException";
        } catch (...) { rec.exc = "unknown"; }
        if (!rec.exc.empty()) rec.kinds.insert("other:exception:" + rec.exc);
        gRec = nullptr;
    }
};
static Parsers* P = nullptr;

// ------------------------------------------------------------------------------------------------
// renderers (tables)
// ------------------------------------------------------------------------------------------------
// lexical forms: [form, n]  ->  text
static std::string renderLex(const json& lx) {
    const std::string f = lx[0];
    const std::string n = std::to_string(lx[1].get<long>());
    if (f == "p") return n;               // 7
    if (f == "z") return "0" + n;         // 07
    if (f == "d") return n + ".0";        // 7.0
    if (f == "s") return "+" + n;         // +7
    throw std::runtime_error("renderLex: form " + f);
}
static bool isLeafName(const std::string& n) { return n == "f" || n == "g"; }

// XPath record {d: bool, s: [name tests], a: "-" | attribute name}; three spellings
static std::string renderPath(const json& p, int style) {
    std::string o;
    bool d = p["d"].get<bool>();
    const json& s = p["s"];
    const std::string a = p["a"];
    if (d) o = ".//";
    else if (style == 1 && (!s.empty() || a != "-")) o = "./";
    bool first = true;
    for (auto& st : s) {
        if (!first) o += "/";
        first = false;
        if (style == 2) o += "child::";
        o += st.get<std::string>();
    }
    if (a != "-") {
        if (!first) o += "/";
        o += (style == 2 ? "attribute::" : "@") + a;
    } else if (s.empty()) {
        if (d) throw std::runtime_error("renderPath: './/' without step");
        o = ".";
    }
    return o;
}
static std::string renderXPath(const json& u, int style) {
    std::string o;
    for (auto& p : u) { if (!o.empty()) o += (style == 1 ? "|" : " | "); o += renderPath(p, style); }
    return o;
}
static const char* kXsdKind(const std::string& k) { return k == "unique" ? "xs:unique" : k == "key" ? "xs:key" : "xs:keyref"; }

static std::string renderXsd(const json& c, int style) {
    const std::string ty = c["ty"];        // "string" | "decimal"
    std::string x = "<?xml version=\"1.0\"?>\n<xs:schema xmlns:xs=\"http://www.w3.org/2001/XMLSchema\">\n";
    static const char* kNames[] = {"r", "a", "b", "i", "f", "g"};
    for (const char* nm : kNames) {
        bool leaf = isLeafName(nm);
        x += std::string(" <xs:element name=\"") + nm + "\" type=\"" + (leaf ? "L" : "N") + "\"" + (std::string(nm) == "g" ? " nillable=\"true\"" : "");
        std::string ics;
        for (auto& ic : c["cons"]) {
            if (ic["on"].get<std::string>() != nm) continue;
            const std::string kind = ic["kind"];
            ics += std::string("  <") + kXsdKind(kind) + " name=\"" + ic["nm"].get<std::string>() + "\"";
            if (kind == "keyref") ics += " refer=\"" + ic["refer"].get<std::string>() + "\"";
            ics += ">\n   <xs:selector xpath=\"" + renderXPath(ic["sel"], style) + "\"/>\n";
            for (auto& f : ic["flds"]) ics += "   <xs:field xpath=\"" + renderXPath(f, style) + "\"/>\n";
            ics += std::string("  </") + kXsdKind(kind) + ">\n";
        }
        x += ics.empty() ? "/>\n" : ">\n" + ics + " </xs:element>\n";
    }
    x += " <xs:complexType name=\"N\">\n  <xs:choice minOccurs=\"0\" maxOccurs=\"unbounded\">\n"
         "   <xs:element ref=\"a\"/><xs:element ref=\"b\"/><xs:element ref=\"i\"/><xs:element ref=\"f\"/><xs:element ref=\"g\"/>\n"
         "  </xs:choice>\n"
         "  <xs:attribute name=\"id\" type=\"xs:" + ty + "\"/>\n  <xs:attribute name=\"ref\" type=\"xs:" + ty + "\"/>\n </xs:complexType>\n";
    x += " <xs:complexType name=\"L\">\n  <xs:simpleContent>\n   <xs:extension base=\"xs:" + ty + "\">\n"
         "    <xs:attribute name=\"id\" type=\"xs:" + ty + "\"/>\n    <xs:attribute name=\"ref\" type=\"xs:" + ty + "\"/>\n"
         "   </xs:extension>\n  </xs:simpleContent>\n </xs:complexType>\n</xs:schema>\n";
    return x;
}

// tree: pre-order list of [depth(1..), name, idLex|[], refLex|[], textLex|[], nil(bool)] below the root element r
static std::string renderXml(const json& c) {
    std::string x = "<r xmlns:xsi=\"http://www.w3.org/2001/XMLSchema-instance\">";
    std::vector<std::string> open;   // names of open elements below r
    auto closeTo = [&](size_t depth) { while (open.size() > depth) { x += "</" + open.back() + ">"; open.pop_back(); } };
    for (auto& n : c["tree"]) {
        size_t d = n[0].get<size_t>();
        const std::string nm = n[1];
        closeTo(d - 1);
        if (open.size() != d - 1) throw std::runtime_error("renderXml: depth jump");
        x += "<" + nm;
        if (!n[2].empty()) x += " id=\"" + renderLex(n[2]) + "\"";
        if (!n[3].empty()) x += " ref=\"" + renderLex(n[3]) + "\"";
        if (n.size() > 5 && n[5].get<bool>()) x += " xsi:nil=\"true\"";
        x += ">";
        if (!n[4].empty()) x += renderLex(n[4]);
        open.push_back(nm);
    }
    closeTo(0);
    x += "</r>\n";
    return x;
}

// ------------------------------------------------------------------------------------------------
// mode t
// ------------------------------------------------------------------------------------------------
static json setToJson(const std::set<std::string>& s) { json a = json::array(); for (auto& k : s) a.push_back(k); return a; }

static std::string handleT(const std::string& line, std::string& stat, bool& tainted) {
    json j;
    if (!decode_tlc_line(line, j)) { stat = "torn"; return ""; }
    std::string out;
    stat = "cases";
    std::set<std::string> exp, maybe;
    for (auto& k : j["exp"]) exp.insert(k.get<std::string>());
    if (j.contains("maybe")) for (auto& k : j["maybe"]) maybe.insert(k.get<std::string>());
    std::string xml;
    std::string xsds[3];
    try {
        xml = renderXml(j);
        for (int s = 0; s < 3; s++) xsds[s] = renderXsd(j, s);
    } catch (const std::exception& e) {
        stat += "\trender_failures";
        return dumpLine({{"t", "mismatch"}, {"cls", {{"action", "render"}, {"why", e.what()}}}, {"case", j}, {"why", std::string("renderer: ") + e.what()}});
    }
    stat += "\tfam:" + (j.contains("fam") ? j["fam"].get<std::string>() : std::string("?"));
    stat += exp.empty() ? "\texp:valid" : "\texp:invalid";
    for (auto& k : exp) stat += "\texpkind:" + k;
    if (!maybe.empty()) stat += "\twith_maybe";
    bool bad = false;
    for (int ci = 0; ci < kNCfg && !bad; ci++) {
        const Cfg& c = kCfgs[ci];
        Rec rec;
        P->parse(c, xsds[c.style], xml, rec);
        stat += "\tparses";
        std::set<std::string> got = rec.kinds;
        std::set<std::string> missing, extra;
        for (auto& k : exp) if (!got.count(k) && !maybe.count(k)) missing.insert(k);
        for (auto& k : got) if (!exp.count(k) && !maybe.count(k)) extra.insert(k);
        // the public ErrorHandler must have been told of an error iff kinds were reported
        bool handlerOk = got.empty() ? (rec.handlerErrors == 0 && rec.handlerFatals == 0) : (rec.handlerErrors + rec.handlerFatals > 0);
        if (missing.empty() && extra.empty() && handlerOk) { stat += "\tcompared"; continue; }
        // repeat with fresh parser objects: is it a property of the case or of parser history?
        P->drop();
        P->make();
        Rec rec2;
        P->parse(c, xsds[c.style], xml, rec2);
        bad = true;
        tainted = true;
        stat += "\tmismatches";
        // does the observation equal the specification's model of the pinned code (all listed deviations on)?
        bool asCoded = false;
        if (j.contains("coded")) {
            std::set<std::string> coded;
            for (auto& k : j["coded"]) coded.insert(k.get<std::string>());
            asCoded = true;
            for (auto& k : coded) if (!got.count(k) && !maybe.count(k)) asCoded = false;
            for (auto& k : got) if (!coded.count(k) && !maybe.count(k)) asCoded = false;
        }
        json cls = {{"action", "validate"}, {"missing", setToJson(missing)}, {"extra", setToJson(extra)}, {"as_coded_model", asCoded},
                    {"dev", asCoded && j.contains("dev") ? j["dev"] : json::array()}};
        stat += asCoded ? "\tmismatch_as_coded_model" : "\tmismatch_unexplained";
        if (asCoded) for (auto& d : j["dev"]) stat += "\tdev:" + d.get<std::string>();
        if (!handlerOk) cls["handler"] = "error handler calls disagree with reported codes";
        if (rec2.kinds != rec.kinds) cls["history_dependent"] = true;
        json cs = {{"mode", "T"}, {"cfg", c.name}, {"abstract", j}, {"xsd", xsds[c.style]}, {"xml", xml}, {"observed", setToJson(got)},
                   {"observed_codes", rec.codes}, {"observed_fresh_parser", setToJson(rec2.kinds)}, {"expected", setToJson(exp)}, {"maybe", setToJson(maybe)},
                   {"fam", j.contains("fam") ? j["fam"] : json("?")}};
        std::string why = std::string(c.name) + ": expected kinds " + setToJson(exp).dump() + " observed " + setToJson(got).dump();
        out += dumpLine({{"t", "mismatch"}, {"cls", cls}, {"case", cs}, {"why", why}});
    }
    return out;
}

static std::string slurp(const char* p) { std::ifstream f(p, std::ios::binary); std::stringstream ss; ss << f.rdbuf(); return ss.str(); }

int main(int argc, char** argv) {
    std::string mode = argc > 1 ? argv[1] : "";
    if (mode == "one" && argc >= 4) {
        Init init;
        P = new Parsers();
        std::string xsd = slurp(argv[2]), xml = slurp(argv[3]);
        for (int ci = 0; ci < kNCfg; ci++) {
            Rec rec;
            P->parse(kCfgs[ci], xsd, xml, rec);
            emit({{"cfg", kCfgs[ci].name}, {"kinds", setToJson(rec.kinds)}, {"codes", rec.codes}, {"handlerErrors", rec.handlerErrors},
                  {"handlerFatals", rec.handlerFatals}, {"served", P->res.served}});
        }
        return 0;
    }
    if (mode == "render") {
        std::string line;
        while (std::getline(std::cin, line)) {
            json j;
            if (!decode_tlc_line(line, j)) { j = json::parse(line, nullptr, false); if (j.is_discarded()) continue; }
            int style = argc > 2 ? atoi(argv[2]) : 0;
            emit({{"xsd", renderXsd(j, style)}, {"xml", renderXml(j)}, {"exp", j["exp"]}});
        }
        return 0;
    }
    if (mode == "t") {
        Supervisor sv;
        sv.timeoutSec = 60;
        static Init* init = nullptr;
        sv.initChild = [] { init = new Init(); P = new Parsers(); };
        sv.handle = [](const std::string& l, std::string& stat, bool& tainted) { return handleT(l, stat, tainted); };
        sv.onFail = [](const std::string& l, const std::string& what) {
            json j;
            decode_tlc_line(l, j);
            return dumpLine({{"t", "mismatch"}, {"cls", {{"action", "validate"}, {"res", what.substr(0, what.find(':'))}}},
                             {"case", {{"mode", "T"}, {"abstract", j}, {"what", what}}}, {"why", "the parse did not return: " + what}});
        };
        return sv.run();
    }
    fprintf(stderr, "usage: ic_harness t | one <xsd> <xml> | render [style]\n");
    return 2;
}
