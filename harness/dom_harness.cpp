// Binders T, W, V for the DomTree specification (property C13).
//   dom_harness t <ndocs>            stdin: TLC lines [pre, op, post]      -> mismatch / summary lines
//   dom_harness w <ndocs>            stdin: TLC lines [[op, post], ...]    -> mismatch / summary lines
//   dom_harness v <ndocs> <seed> <steps> <maxnodes> <out.ndjson>           -> trace of a random history
#include "domworld.hpp"
#include <map>
using namespace vh;
using namespace XERCES_CPP_NAMESPACE;


static bool sameProj(json a, json b) {
    sortAttrSets(a);
    sortAttrSets(b);
    return a == b;
}

// returns empty string if fine, else the reason
static std::string checkStep(DomWorld& w, const json& pre, const json& op, const json& post, json& got, std::string& res, bool& skipped) {
    skipped = false;
    res = w.apply(op);
    std::string bad;
    got = w.project(bad);
    const std::string chosen = op["res"];
    bool inAllowed = false;
    for (auto& x : op["allowed"]) if (x.get<std::string>() == res) inAllowed = true;
    if (!bad.empty()) return "inconsistent getters: " + bad;
    if (!inAllowed) return "result " + res + " not allowed (specification allows " + op["allowed"].dump() + ")";
    if (isErr(res)) {
        if (!sameProj(got, pre)) return "operation failed with " + res + " but changed the tree";
        return "";
    }
    if (isErr(chosen)) { skipped = true; return ""; }   // the specification's success transition is another line
    if (!sameProj(got, post)) return "tree after the operation differs from the specification";
    return "";
}

static json clsOf(const json& op, const std::string& res, const std::string& why, const DomWorld& w) {
    json c;
    c["action"] = op["a"];
    c["res"] = res;
    c["why"] = why.substr(0, why.find_first_of(":(") == std::string::npos ? why.size() : why.find_first_of(":("));
    // operand relations used to identify known findings
    const json& g = op["args"];
    if ((op["a"] == "insertBefore" || op["a"] == "appendChild" || op["a"] == "replaceChild") && g.size() >= 2) {
        c["newChildIsTarget"] = g[0] == g[1];
        DOMNode* ch = w.N(g[1].get<int>());
        DOMNode* p = w.N(g[0].get<int>());
        c["newChildKind"] = ch ? kindOf(ch) : "none";
        c["targetKind"] = p ? kindOf(p) : "none";
    }
    if (op["a"] == "setAttributeNode" && g.size() >= 2) {
        DOMNode* at = w.N(g[1].get<int>());
        (void)at;
    }
    return c;
}

static json opClsStatic(const json& op, const json& pre, const std::string& res, const std::string& why) {
    // classification without touching the (possibly dead) implementation: kinds come from the pre-state projection
    json c;
    c["action"] = op["a"];
    c["res"] = res;
    c["why"] = why;
    const json& g = op["args"];
    auto kindAt = [&](int id) -> std::string { return (id >= 1 && id <= (int)pre.size()) ? pre[id - 1]["k"].get<std::string>() : "none"; };
    if ((op["a"] == "insertBefore" || op["a"] == "appendChild" || op["a"] == "replaceChild") && g.size() >= 2) {
        c["newChildIsTarget"] = g[0] == g[1];
        c["newChildKind"] = kindAt(g[1].get<int>());
        c["targetKind"] = kindAt(g[0].get<int>());
    }
    return c;
}

static int modeT(int nd) {
    static DomWorld* w = nullptr;
    Supervisor sup;
    sup.timeoutSec = 5;
    sup.initChild = [&]() { XMLPlatformUtils::Initialize(); w = new DomWorld(); };
    sup.handle = [&](const std::string& line, std::string& stat, bool& tainted) -> std::string {
        json j;
        if (!decode_tlc_line(line, j)) { stat = "torn"; return ""; }
        const json &pre = j[0], &op = j[1], &post = j[2];
        std::string err;
        stat = "cases";
        if (!w->build(pre, nd, err)) {
            tainted = true;
            stat += "\tmismatches";
            return dumpLine({{"t", "mismatch"}, {"cls", {{"action", "build"}, {"why", err}}}, {"case", j}, {"why", err}});
        }
        json got;
        std::string res;
        bool skipped;
        std::string why = checkStep(*w, pre, op, post, got, res, skipped);
        stat += "\tact:" + op["a"].get<std::string>() + "\tres:" + op["a"].get<std::string>() + ":" + res + (skipped ? "\tskipped_other_line" : "\tcompared");
        if (!why.empty()) {
            tainted = true;      // the implementation may be in a corrupt state: continue in a fresh process
            stat += "\tmismatches";
            return dumpLine({{"t", "mismatch"}, {"cls", clsOf(op, res, why, *w)}, {"why", why},
                      {"case", {{"mode", "T"}, {"ndocs", nd}, {"pre", pre}, {"op", op}, {"expected", post}, {"got", got}, {"res", res}}}});
        }
        return "";
    };
    sup.onFail = [&](const std::string& line, const std::string& what) -> std::string {
        json j;
        if (!decode_tlc_line(line, j)) return "";
        return dumpLine({{"t", "mismatch"}, {"cls", opClsStatic(j[1], j[0], what, "call did not return")}, {"why", "the call did not return: " + what},
                         {"case", {{"mode", "T"}, {"ndocs", nd}, {"pre", j[0]}, {"op", j[1]}, {"expected", j[2]}, {"res", what}}}});
    };
    return sup.run();
}

static int modeW(int nd) {
    static DomWorld* w = nullptr;
    Supervisor sup;
    sup.timeoutSec = 20;
    sup.initChild = [&]() { XMLPlatformUtils::Initialize(); w = new DomWorld(); };
    sup.handle = [&](const std::string& line, std::string& stat, bool& tainted) -> std::string {
        json h;
        if (!decode_tlc_line(line, h)) { stat = "torn"; return ""; }
        stat = "walks";
        w->reset(nd);
        std::string bad0;
        json pre = w->project(bad0);
        for (size_t i = 0; i < h.size(); i++) {
            const json &op = h[i][0], &post = h[i][1];
            json got;
            std::string res;
            bool skipped;
            std::string why = checkStep(*w, pre, op, post, got, res, skipped);
            stat += "\tsteps\tact:" + op["a"].get<std::string>() + "\tres:" + op["a"].get<std::string>() + ":" + res;
            if (!why.empty()) {
                tainted = true;
                stat += "\tmismatches";
                json prefix = json::array();
                for (size_t k = 0; k <= i; k++) prefix.push_back(h[k][0]);
                return dumpLine({{"t", "mismatch"}, {"cls", clsOf(op, res, why, *w)}, {"why", why},
                          {"case", {{"mode", "W"}, {"ndocs", nd}, {"history", prefix}, {"expected", post}, {"got", got}, {"res", res}, {"step", i}}}});
            }
            if (skipped) break;   // the implementation took another allowed branch than this walk: the rest of the walk does not apply
            pre = got;
        }
        return "";
    };
    sup.onFail = [&](const std::string& line, const std::string& what) -> std::string {
        json h;
        if (!decode_tlc_line(line, h)) return "";
        json hist = json::array();
        for (auto& st : h) hist.push_back(st[0]);
        return dumpLine({{"t", "mismatch"}, {"cls", {{"action", "walk"}, {"res", what}, {"why", "call did not return"}}}, {"why", "a call of the walk did not return: " + what},
                         {"case", {{"mode", "W"}, {"ndocs", nd}, {"history", hist}, {"res", what}}}});
    };
    return sup.run();
}

// ---- V: random history on the real DOM, logged for DomTreeTrace -------------------------------
static int modeV(int nd, unsigned seed, int steps, int maxNodes, const char* path) {
    FILE* f = fopen(path, "w");
    if (!f) return 2;
    std::mt19937 rng(seed);
    auto R = [&](int n) { return n <= 0 ? 0 : (int)(rng() % (unsigned)n); };
    DomWorld w;
    w.reset(nd);
    auto put = [&](const json& j) { std::string s = j.dump(); s.push_back('\n'); fwrite(s.data(), 1, s.size(), f); };
    put({{"a", "Reset"}, {"args", {nd}}, {"nm", ""}, {"s", json::array()}, {"res", "ok"}, {"st", json::array()}});
    const char* names[] = {"a", "b", "c", "d"};
    const char* strs[] = {"x", "yx", "", "y", "xxy", "z<&"};
    auto live = [&](std::initializer_list<const char*> kinds) {
        std::vector<int> v;
        for (int i = 1; i < w.nextId(); i++) {
            DOMNode* n = w.N(i);
            if (!n) continue;
            if (kinds.size() == 0) { v.push_back(i); continue; }
            for (auto k : kinds) if (!strcmp(k, kindOf(n))) { v.push_back(i); break; }
        }
        return v;
    };
    auto pick = [&](const std::vector<int>& v) { return v.empty() ? 0 : v[R((int)v.size())]; };
    for (int step = 0; step < steps; step++) {
        json op = {{"a", ""}, {"args", json::array()}, {"nm", ""}, {"s", json::array()}};
        auto all = live({});
        auto notAttr = live({"doc", "elem", "text", "cdata", "comment", "pi", "frag"});
        auto parents = live({"doc", "elem", "elem", "frag"});
        auto docs = live({"doc"});
        auto elems = live({"elem"});
        auto attrs = live({"attr"});
        auto cds = live({"text", "cdata", "comment"});
        auto texts = live({"text", "cdata"});
        bool room = w.nextId() <= maxNodes;
        int choice = R(100);
        std::string nm = names[R(4)];
        std::string s = strs[R(6)];
        // mostly sensible operands, sometimes arbitrary ones (illegal combinations)
        bool wild = R(5) == 0;
        auto P = [&]() { return wild ? pick(notAttr) : pick(parents); };
        if (choice < 14 && room) {
            int k = R(7);
            const char* ops[] = {"createElement", "createElement", "createTextNode", "createComment", "createCDATASection", "createAttribute", "createDocumentFragment"};
            op["a"] = ops[k];
            op["args"] = {pick(docs)};
            if (k <= 1 || k == 5) op["nm"] = nm; else if (k != 6) op["s"] = chars(s);
        } else if (choice < 34) { op["a"] = "appendChild"; op["args"] = {P(), pick(all)}; }
        else if (choice < 46) {
            int p = P();
            int r;
            DOMNode* pn = w.N(p);
            std::vector<int> ks;
            if (pn && !wild) for (DOMNode* x = pn->getFirstChild(); x; x = x->getNextSibling()) ks.push_back(w.id(x));
            r = ks.empty() ? pick(notAttr) : pick(ks);
            op["a"] = "insertBefore"; op["args"] = {p, pick(all), r};
        } else if (choice < 54) {
            int p = P();
            DOMNode* pn = w.N(p);
            std::vector<int> ks;
            if (pn && !wild) for (DOMNode* x = pn->getFirstChild(); x; x = x->getNextSibling()) ks.push_back(w.id(x));
            op["a"] = "removeChild"; op["args"] = {p, ks.empty() ? pick(all) : pick(ks)};
        } else if (choice < 60) {
            int p = P();
            DOMNode* pn = w.N(p);
            std::vector<int> ks;
            if (pn && !wild) for (DOMNode* x = pn->getFirstChild(); x; x = x->getNextSibling()) ks.push_back(w.id(x));
            int o = ks.empty() ? pick(notAttr) : pick(ks);
            int n = pick(all);
            if (n == o) continue;                 // replaceChild(x, x) is not compared (DESIGN.md 6.7)
            op["a"] = "replaceChild"; op["args"] = {p, n, o};
        } else if (choice < 64 && room) {
            int n = pick(notAttr);
            if (n <= nd) continue;
            bool deep = R(2);
            op["a"] = "cloneNode"; op["args"] = {n, deep ? 1 : 0};
        } else if (choice < 67 && room) { op["a"] = "importNode"; op["args"] = {pick(docs), pick(all), R(2)}; }
        else if (choice < 69) { op["a"] = "adoptNode"; op["args"] = {pick(docs), pick(all)}; }
        else if (choice < 70) { int rn = wild ? pick(all) : pick(live({"elem", "attr"}));
            DOMNode* rnn = w.N(rn);
            if (!rnn || to8(rnn->getNodeName()).find(':') != std::string::npos) continue;   // renaming namespaced nodes is not modelled
            op["a"] = R(2) ? "renameNode" : "renameNodeNS"; op["args"] = {pick(docs), rn}; op["nm"] = R(8) == 0 ? "1x" : nm; }
        else if (choice < 76 && room) { int e = pick(elems); if (!e) continue; op["a"] = "setAttribute"; op["args"] = {e}; op["nm"] = nm; op["s"] = chars(s); }
        else if (choice < 79) { int e = pick(elems); if (!e) continue; op["a"] = "removeAttribute"; op["args"] = {e}; op["nm"] = nm; }
        else if (choice < 83) { int e = pick(elems), a = pick(attrs); if (!e || !a) continue; op["a"] = "setAttributeNode"; op["args"] = {e, a}; }
        else if (choice < 86) { int e = pick(elems), a = pick(attrs); if (!e || !a) continue; op["a"] = "removeAttributeNode"; op["args"] = {e, a}; }
        else if (choice < 88) { auto v = live({"text", "cdata", "comment", "pi", "attr"}); int n = pick(v); if (!n) continue; op["a"] = "setNodeValue"; op["args"] = {n}; op["s"] = chars(s); }
        else if (choice < 90) { int n = pick(cds); if (!n) continue; op["a"] = "appendData"; op["args"] = {n}; op["s"] = chars(s); }
        else if (choice < 92) { int n = pick(cds); if (!n) continue; op["a"] = "insertData"; op["args"] = {n, R(6)}; op["s"] = chars(s); }
        else if (choice < 94) { int n = pick(cds); if (!n) continue; op["a"] = "deleteData"; op["args"] = {n, R(6), R(4)}; }
        else if (choice < 96) { int n = pick(cds); if (!n) continue; op["a"] = "replaceData"; op["args"] = {n, R(6), R(4)}; op["s"] = chars(s); }
        else if (choice < 98 && room) { int n = pick(texts); if (!n) continue; op["a"] = "splitText"; op["args"] = {n, R(5)}; }
        else { int n = pick(parents); if (!n) continue; op["a"] = "normalize"; op["args"] = {n}; }
        if (op["a"] == "") continue;
        static const std::map<std::string, int> nodeArgs = {
            {"appendChild", 2}, {"insertBefore", 3}, {"removeChild", 2}, {"replaceChild", 3}, {"cloneNode", 1}, {"importNode", 2},
            {"adoptNode", 2}, {"renameNode", 2}, {"renameNodeNS", 2}, {"setAttributeNode", 2}, {"removeAttributeNode", 2}};
        bool zero = false;
        {
            auto it = nodeArgs.find(op["a"].get<std::string>());
            int k = it == nodeArgs.end() ? 1 : it->second;
            for (int i = 0; i < k && i < (int)op["args"].size(); i++) if (op["args"][i].get<int>() == 0) zero = true;
        }
        if (zero) continue;
        std::string res = w.apply(op);
        std::string bad;
        json st = w.project(bad);
        op["res"] = res;
        op["st"] = st;
        if (!bad.empty()) op["bad"] = bad;
        put(op);
        if (res.rfind("exception:", 0) == 0) break;
    }
    fclose(f);
    return 0;
}

int main(int argc, char** argv) {
    if (argc < 3) return 2;
    std::string mode = argv[1];
    int nd = atoi(argv[2]);
    std::ios::sync_with_stdio(false);
    if (mode == "t") return modeT(nd);
    if (mode == "w") return modeW(nd);
    vh::Init init;
    if (mode == "v" && argc >= 7) return modeV(nd, (unsigned)atol(argv[3]), atoi(argv[4]), atoi(argv[5]), argv[6]);
    return 2;
}
