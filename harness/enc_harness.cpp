// C05 harness: drives xerces-c's transcoders and encoding auto-sensing along the cases of spec/Encodings*.tla.
//   enc_harness names                      list how each plan name resolves (debug)
//   enc_harness v <plan.json> <outdir> <tier> [stride [only-encoding|- [records-per-file]]]
//        binder V: calls every transcoder of the plan (transcodeFrom / transcodeTo / canTranscodeTo and
//        XMLRecognizer::basicEncodingProbe) on the enumerations described in the plan and logs ONE ndjson record
//        per call {k,s,n,law,d,in,max,out,eat,exc}. No expectation is computed here: EncodingsTrace.tla decides
//        every record.
//   enc_harness t                          binder T: rows of EncodingsGen on stdin (document bytes + expectation
//        computed by TLC); parses the bytes with SAX2 and compares content / "some error was reported".
#include "vh.hpp"
#include <xercesc/framework/MemBufInputSource.hpp>
#include <xercesc/framework/XMLRecognizer.hpp>
#include <xercesc/sax2/SAX2XMLReader.hpp>
#include <xercesc/sax2/XMLReaderFactory.hpp>
#include <xercesc/sax2/DefaultHandler.hpp>
#include <xercesc/sax/SAXParseException.hpp>
#include <xercesc/util/XMLException.hpp>
#include <xercesc/util/OutOfMemoryException.hpp>
#include <fstream>
#include <memory>
#include <typeinfo>

using namespace vh;
typedef std::vector<int> IV;

static XMLTranscoder* makeT(const std::string& name) {
    XMLTransService::Codes rc;
    return XMLPlatformUtils::fgTransService->makeNewTranscoderFor(X(name).c(), rc, 4096, XMLPlatformUtils::fgMemoryManager);
}

// ---- record sink: files of bounded size, rotated only at safe points -------------------------------------------
struct Sink {
    std::string dir;
    int part = 0;
    long inFile = 0, total = 0, limit = 150000;
    FILE* f = nullptr;
    std::vector<std::string> files;
    std::vector<long> counts;
    std::string preamble;   // records every file must repeat while a single-byte section is open (its decoding table)
    long preambleN = 0;
    void open() {
        std::string p = dir + "/v-" + std::to_string(part++) + ".ndjson";
        f = fopen(p.c_str(), "w");
        if (!f) { perror(p.c_str()); exit(2); }
        files.push_back(p);
        counts.push_back(0);
        inFile = 0;
        if (!preamble.empty()) { fwrite(preamble.data(), 1, preamble.size(), f); inFile = preambleN; counts.back() = preambleN; total += preambleN; }
    }
    void close() { if (f) fclose(f); f = nullptr; }
    void start(const std::string&) { preamble.clear(); preambleN = 0; if (!f) open(); safePoint(); }
    void safePoint() { if (inFile >= limit) { close(); open(); } }
    void line(const std::string& s, bool toPreamble = false) {
        fwrite(s.data(), 1, s.size(), f);
        inFile++; total++; counts.back()++;
        if (toPreamble) { preamble += s; preambleN++; }
    }
};
static Sink sink;

static void appendArr(std::string& o, const IV& v) {
    o += '[';
    char b[16];
    for (size_t i = 0; i < v.size(); i++) { if (i) o += ','; int n = snprintf(b, sizeof b, "%d", v[i]); o.append(b, n); }
    o += ']';
}
struct Enc { std::string name, kind, svc, law, label; };
static int gFresh = 0;   // 1: the next record is the first call on a new transcoder object
static void rec(const Enc& e, const char* d, const IV& in, int max, const IV& out, long eat, const std::string& exc, bool pre = false) {
    std::string o;
    o.reserve(160 + 4 * (in.size() + out.size()));
    o += "{\"k\":\""; o += e.kind; o += "\",\"s\":\""; o += e.svc; o += "\",\"n\":\""; o += (e.label.empty() ? e.name : e.label); o += "\",\"law\":\""; o += e.law;
    o += "\",\"d\":\""; o += d; o += "\",\"in\":"; appendArr(o, in);
    o += ",\"max\":" + std::to_string(max) + ",\"out\":"; appendArr(o, out);
    o += ",\"eat\":" + std::to_string(eat) + ",\"o\":" + (gFresh ? "1" : "0") + ",\"exc\":\"" + exc + "\"}\n";
    gFresh = 0;
    sink.line(o, pre);
}

// ---- guarded calls ----------------------------------------------------------------------------------------------
static const int GUARD = 16;
struct FromRes { IV out; long eat; std::string exc; };
static FromRes callFrom(XMLTranscoder* t, const IV& in, int maxChars) {
    FromRes r; r.eat = 0;
    std::vector<XMLByte> src(in.size() + 8, 0xAA);   // what follows the block is not a continuation byte pattern the decoder may use
    for (size_t i = 0; i < in.size(); i++) src[i] = (XMLByte)in[i];
    std::vector<XMLCh> dst(maxChars + GUARD, 0x5A5A);
    std::vector<unsigned char> sizes(maxChars + GUARD, 0x5A);
    XMLSize_t eaten = 0;
    XMLSize_t n = 0;
    try {
        n = t->transcodeFrom(src.data(), in.size(), dst.data(), maxChars, eaten, sizes.data());
    } catch (const XMLException& e) { r.exc = to8(e.getType()); return r; }
    catch (const OutOfMemoryException&) { r.exc = "OutOfMemoryException"; return r; }
    catch (...) { r.exc = "foreign"; return r; }
    for (int g = 0; g < GUARD; g++) if (dst[maxChars + g] != 0x5A5A) { r.exc = "overflow"; return r; }
    if (n > (XMLSize_t)maxChars) { r.exc = "overflow"; return r; }
    for (XMLSize_t i = 0; i < n; i++) r.out.push_back(dst[i]);
    r.eat = (long)eaten;
    return r;
}
static FromRes callTo(XMLTranscoder* t, const IV& units, int maxBytes) {
    FromRes r; r.eat = 0;
    std::vector<XMLCh> src(units.size() + 8, 0x0041);
    for (size_t i = 0; i < units.size(); i++) src[i] = (XMLCh)units[i];
    std::vector<XMLByte> dst(maxBytes + GUARD, 0x5A);
    XMLSize_t eaten = 0, n = 0;
    try {
        n = t->transcodeTo(src.data(), units.size(), dst.data(), maxBytes, eaten, XMLTranscoder::UnRep_Throw);
    } catch (const XMLException& e) { r.exc = to8(e.getType()); return r; }
    catch (const OutOfMemoryException&) { r.exc = "OutOfMemoryException"; return r; }
    catch (...) { r.exc = "foreign"; return r; }
    for (int g = 0; g < GUARD; g++) if (dst[maxBytes + g] != 0x5A) { r.exc = "overflow"; return r; }
    if (n > (XMLSize_t)maxBytes) { r.exc = "overflow"; return r; }
    for (XMLSize_t i = 0; i < n; i++) r.out.push_back(dst[i]);
    r.eat = (long)eaten;
    return r;
}
static IV u16(unsigned cp) {
    if (cp < 0x10000) return IV{(int)cp};
    cp -= 0x10000;
    return IV{(int)(0xD800 + (cp >> 10)), (int)(0xDC00 + (cp & 0x3FF))};
}

// a transcoder that is re-created on demand (converters with state must be fresh for every session)
struct TT {
    Enc e;
    XMLTranscoder* t = nullptr;
    bool fresh = false;
    explicit TT(const Enc& en) : e(en) {}
    ~TT() { delete t; }
    XMLTranscoder* get() { if (!t) { t = makeT(e.name); fresh = true; if (!t) { fprintf(stderr, "no transcoder for %s\n", e.name.c_str()); exit(2); } } return t; }
    void renew() { if (e.svc == "icu") { delete t; t = nullptr; get(); } gFresh = 1; }
};

// all sequences over `alpha` of length 1..maxLen
template <class F> static void product(const std::vector<IV>& alpha, int maxLen, F f) {
    std::vector<size_t> idx;
    for (int len = 1; len <= maxLen; len++) {
        idx.assign(len, 0);
        for (;;) {
            IV s;
            for (int i = 0; i < len; i++) s.insert(s.end(), alpha[idx[i]].begin(), alpha[idx[i]].end());
            f(s, len);
            int p = len - 1;
            while (p >= 0 && ++idx[p] == alpha.size()) { idx[p] = 0; p--; }
            if (p < 0) break;
        }
    }
}

// one stream, one call
static void oneCall(TT& tt, const IV& s, int max) {
    tt.renew();
    FromRes r = callFrom(tt.get(), s, max);
    rec(tt.e, "from", s, max, r.out, r.eat, r.exc);
}
// one stream in two calls split at p: the caller offers again what was not eaten (XMLReader's contract)
static void twoCalls(TT& tt, const IV& s, size_t p) {
    tt.renew();
    IV a(s.begin(), s.begin() + p);
    FromRes r = callFrom(tt.get(), a, 64);
    rec(tt.e, "from", a, 64, r.out, r.eat, r.exc);
    if (!r.exc.empty() || r.eat < 0 || r.eat > (long)a.size()) return;
    IV b(s.begin() + r.eat, s.end());
    FromRes r2 = callFrom(tt.get(), b, 64);
    rec(tt.e, "from", b, 64, r2.out, r2.eat, r2.exc);
}

static void unicodeEncoding(const Enc& e, const json& plan, bool thorough, unsigned stride) {
    TT tt(e);
    sink.start("u-" + e.name);
    // (a) byte-class enumeration, (d) every split position, maxChars limits
    std::vector<IV> alphaShort, alphaLong;
    int lenShort, lenLong;
    if (e.kind == "utf8") {
        for (int b : plan["reps8"]) alphaShort.push_back(IV{b});
        for (int b : plan["reps8long"]) alphaLong.push_back(IV{b});
        lenShort = 3; lenLong = 4;
    } else if (e.kind == "utf16le" || e.kind == "utf16be") {
        for (int u : plan["units16"]) alphaShort.push_back(e.kind == "utf16le" ? IV{u & 255, u >> 8} : IV{u >> 8, u & 255});
        alphaShort.push_back(IV{0x41});   // a single odd byte
        alphaLong = alphaShort; lenShort = 3; lenLong = 3;
    } else {
        for (auto& w : plan["words32"]) { IV v = w.get<IV>(); if (e.kind == "ucs4le") v = IV{v[3], v[2], v[1], v[0]}; alphaShort.push_back(v); }
        alphaShort.push_back(IV{0, 0}); alphaShort.push_back(IV{0x41});
        alphaLong = alphaShort; lenShort = 2; lenLong = 2;
    }
    auto perSeq = [&](const IV& s, int len, bool limits, bool splits) {
        oneCall(tt, s, 64);
        if (limits && e.svc == "x" && len >= 2) { oneCall(tt, s, 1); oneCall(tt, s, 2); }
        if (splits) for (size_t p = 1; p < s.size(); p++) twoCalls(tt, s, p);
        sink.safePoint();
    };
    auto inLong = [&](const IV& s) { for (int b : s) { bool f = false; for (auto& a : alphaLong) if (a[0] == b) f = true; if (!f) return false; } return true; };
    // quick: everything for length <= 2; length 3: one call (+ limit 1), splits over the long representatives only
    product(alphaShort, lenShort, [&](const IV& s, int len) {
        bool all = thorough || len <= 2 || e.kind != "utf8";
        if (!all && e.svc == "icu" && !inLong(s)) return;      // quick: converters from the service see length 3 over the long representatives only
        perSeq(s, len, all || len == 3, all || inLong(s));
    });
    if (lenLong > lenShort)
        product(alphaLong, lenLong, [&](const IV& s, int len) { if (len == lenLong && (thorough || e.svc == "x")) perSeq(s, len, thorough, thorough); });
    // (b) code point sweep: encode batches of 16 scalar values, decode the bytes again
    sink.start("c-" + e.name);
    for (unsigned base = 0; base < 0x110000; base += 16 * stride) {
        IV units;
        for (unsigned c = base; c < base + 16 && c < 0x110000; c++) { if (c >= 0xD800 && c <= 0xDFFF) continue; IV u = u16(c); units.insert(units.end(), u.begin(), u.end()); }
        if (units.empty()) continue;
        tt.renew();
        FromRes r = callTo(tt.get(), units, 80);
        rec(e, "to", units, 80, r.out, r.eat, r.exc);
        if (r.exc.empty()) {
            tt.renew();
            FromRes d = callFrom(tt.get(), r.out, 64);
            rec(e, "from", r.out, 64, d.out, d.eat, d.exc);
        }
        sink.safePoint();
    }
    // boundary code points: pairs, every output limit; lone / reversed surrogates to the encoder; canTranscodeTo
    std::vector<unsigned> bnd;
    for (int c : plan["boundary"]) bnd.push_back((unsigned)c);
    for (unsigned c1 : bnd) for (unsigned c2 : {0x41u, 0xE9u, 0x20ACu, 0x10000u}) {
        IV units = u16(c1); IV u2 = u16(c2); units.insert(units.end(), u2.begin(), u2.end());
        for (int mb = (e.svc == "x" ? 1 : 9); mb <= 9; mb++) {   // converters with state are always given room
            tt.renew();
            FromRes r = callTo(tt.get(), units, mb);
            rec(e, "to", units, mb, r.out, r.eat, r.exc);
        }
        if (e.svc == "x") {   // the high surrogate is the last unit of the block: nothing may be eaten of it
            IV cut(units.begin(), units.end() - 1);
            if (!cut.empty()) { FromRes r = callTo(tt.get(), cut, 80); rec(e, "to", cut, 80, r.out, r.eat, r.exc); }
        }
    }
    for (int u : plan["units16"]) for (int v : plan["units16"]) {
        IV units{u, v};
        tt.renew();
        FromRes r = callTo(tt.get(), units, 80);
        rec(e, "to", units, 80, r.out, r.eat, r.exc);
    }
    for (unsigned c = 0; c < 0x110000; c += (thorough ? 16 : 509)) {
        if (c >= 0xD800 && c <= 0xDFFF) continue;
        bool can = tt.get()->canTranscodeTo(c);
        rec(e, "can", IV{(int)c}, 0, IV{can ? 1 : 0}, 0, "");
        if ((c & 0xFFF) == 0) sink.safePoint();
    }
    for (unsigned c : bnd) { bool can = tt.get()->canTranscodeTo(c); rec(e, "can", IV{(int)c}, 0, IV{can ? 1 : 0}, 0, ""); }
}

static std::vector<IV> table(const Enc& e) {
    TT tt(e);
    std::vector<IV> vals;
    for (int b = 0; b < 256; b++) {
        tt.renew();
        FromRes r = callFrom(tt.get(), IV{b}, 1);
        rec(e, "tab", IV{b}, 1, r.out, r.eat, r.exc, true);
        if (r.exc.empty() && !r.out.empty()) vals.push_back(r.out);
    }
    return vals;
}
static void singleByteEncoding(const Enc& e, const json& plan, bool thorough) {
    sink.start("s-" + e.name);
    if (e.law == "ibm1140") { Enc base{"IBM037", "sb", "x", "ebcdic", "IBM037.base"}; table(base); }
    std::vector<IV> decoded = table(e);
    TT tt(e);
    // every character some byte decodes to goes back through the encoder (Enc o Dec = id)
    for (auto& u : decoded) { tt.renew(); FromRes r = callTo(tt.get(), u, 8); rec(e, "to", u, 8, r.out, r.eat, r.exc); }
    // blocks of bytes, with and without an output limit
    for (int b = 0; b < 256; b += 16) {
        IV in;
        for (int i = 0; i < 16; i++) in.push_back(b + i);
        for (int max : {64, 5, 16}) {
            tt.renew();
            FromRes r = callFrom(tt.get(), in, max);
            rec(e, "from", in, max, r.out, r.eat, r.exc);
        }
    }
    // every BMP code point to the encoder (quick: dense below U+3000, every 13th above), supplementary samples
    for (unsigned c = 0; c < 0x10000; c += (thorough || c < 0x300 || (c >= 0x2000 && c < 0x2300) || c >= 0xFF00 ? 1 : 61)) {
        if (c >= 0xD800 && c <= 0xDFFF) continue;
        tt.renew();
        IV units{(int)c};
        FromRes r = callTo(tt.get(), units, 8);
        rec(e, "to", units, 8, r.out, r.eat, r.exc);
        bool can = tt.get()->canTranscodeTo(c);
        rec(e, "can", IV{(int)c}, 0, IV{can ? 1 : 0}, 0, "");
        if ((c & 0x3FF) == 0) sink.safePoint();
    }
    for (unsigned c : {0x10000u, 0x10041u, 0x100E9u, 0x1F600u, 0x20AC0u, 0x10FFFFu, 0x100000u}) {
        tt.renew();
        IV units = u16(c);
        FromRes r = callTo(tt.get(), units, 8);
        rec(e, "to", units, 8, r.out, r.eat, r.exc);
        bool can = tt.get()->canTranscodeTo(c);
        rec(e, "can", IV{(int)c}, 0, IV{can ? 1 : 0}, 0, "");
    }
    // a block that ends in the middle of what would be several characters; output limit smaller than the input
    {
        IV units{0x41, 0x42, 0x43, 0x44};
        for (int mb = (e.svc == "x" ? 1 : 4); mb <= 4; mb++) { tt.renew(); FromRes r = callTo(tt.get(), units, mb); rec(e, "to", units, mb, r.out, r.eat, r.exc); }
    }
}

static const char* encName(XMLRecognizer::Encodings v) {
    switch (v) {
        case XMLRecognizer::EBCDIC: return "EBCDIC";
        case XMLRecognizer::UCS_4B: return "UCS-4BE";
        case XMLRecognizer::UCS_4L: return "UCS-4LE";
        case XMLRecognizer::US_ASCII: return "US-ASCII";
        case XMLRecognizer::UTF_8: return "UTF-8";
        case XMLRecognizer::UTF_16B: return "UTF-16BE";
        case XMLRecognizer::UTF_16L: return "UTF-16LE";
        case XMLRecognizer::XERCES_XMLCH: return "XMLCH";
        default: return "other";
    }
}
static void probes(const json& plan, bool thorough) {
    sink.start("p-probe");
    Enc e{"", "probe", "x", "", ""};
    auto one = [&](const IV& in) {
        std::vector<XMLByte> b(in.size() + 32, 0x5A);
        for (size_t i = 0; i < in.size(); i++) b[i] = (XMLByte)in[i];
        e.name = encName(XMLRecognizer::basicEncodingProbe(b.data(), in.size()));
        rec(e, "probe", in, 0, IV{}, 0, "");
    };
    std::vector<IV> alpha, alpha4;
    for (int b : plan["sense"]) alpha.push_back(IV{b});
    for (int b : plan[thorough ? "sense" : "sense4"]) alpha4.push_back(IV{b});
    std::vector<IV> canon;
    for (auto& c : plan["canon"]) canon.push_back(c.get<IV>());
    product(alpha, 3, [&](const IV& s, int) { one(s); sink.safePoint(); });
    product(alpha4, 4, [&](const IV& s, int len) {
        if (len != 4) return;
        one(s);
        for (auto& c : canon) if (c.size() >= 4 && std::equal(s.begin(), s.end(), c.begin())) one(c);
        sink.safePoint();
    });
    for (auto& c : canon) for (size_t n = 0; n <= c.size(); n++) one(IV(c.begin(), c.begin() + n));
    for (auto& c : canon) for (auto& bom : std::vector<IV>{{239, 187, 191}, {254, 255}, {255, 254}, {0, 0, 254, 255}, {255, 254, 0, 0}}) { IV x = bom; x.insert(x.end(), c.begin(), c.end()); one(x); }
}

static int modeV(int argc, char** argv) {
    if (argc < 5) { fprintf(stderr, "usage: v plan outdir tier [stride]\n"); return 2; }
    std::ifstream pf(argv[2]);
    json root = json::parse(pf);
    json plan = root["plan"];
    sink.dir = argv[3];
    bool thorough = std::string(argv[4]) == "thorough";
    unsigned stride = argc > 5 ? (unsigned)atoi(argv[5]) : (thorough ? 1 : 5);
    std::string only = argc > 6 ? argv[6] : "";
    if (only == "-") only.clear();
    if (argc > 7) sink.limit = atol(argv[7]);
    Init init;
    for (auto& en : plan["encs"]) {
        Enc e{en[0], en[1], en[2], en[3], ""};
        if (!only.empty() && only != e.name) continue;
        std::unique_ptr<XMLTranscoder> t(makeT(e.name));
        if (!t) { fprintf(stderr, "plan encoding %s is not available\n", e.name.c_str()); return 2; }
        bool isIcu = std::string(typeid(*t).name()).find("ICUTranscoder") != std::string::npos;
        if (isIcu != (e.svc == "icu")) { fprintf(stderr, "plan says %s is served by %s but it is %s\n", e.name.c_str(), e.svc.c_str(), typeid(*t).name()); return 2; }
        t.reset();
        if (e.kind == "sb") singleByteEncoding(e, plan, thorough);
        else unicodeEncoding(e, plan, thorough, stride);
    }
    if (only.empty()) probes(plan, thorough);
    sink.close();
    json files = json::array();
    for (size_t i = 0; i < sink.files.size(); i++) files.push_back({sink.files[i], sink.counts[i]});
    emit({{"t", "summary"}, {"records", sink.total}, {"files", files}});
    return 0;
}

// ---- binder T ---------------------------------------------------------------------------------------------------
struct Collect : DefaultHandler {
    std::u16string text;
    int depth = 0, warnings = 0, errors = 0, fatals = 0;
    std::string first;
    void startElement(const XMLCh* const, const XMLCh* const, const XMLCh* const, const Attributes&) override { depth++; }
    void endElement(const XMLCh* const, const XMLCh* const, const XMLCh* const) override { depth--; }
    void characters(const XMLCh* const chars, const XMLSize_t length) override { if (depth > 0) text.append(reinterpret_cast<const char16_t*>(chars), length); }
    void note(const SAXParseException& e) { if (first.empty()) first = to8(e.getMessage()); }
    void warning(const SAXParseException& e) override { warnings++; note(e); }
    void error(const SAXParseException& e) override { errors++; note(e); }
    void fatalError(const SAXParseException& e) override { fatals++; note(e); }
};
static std::string handleRow(const std::string& line, std::string& stat, bool& tainted) {
    json row;
    if (!decode_tlc_line(line, row)) { stat = "torn"; return ""; }
    if (row.contains("plan")) { stat = "plan"; return ""; }
    IV bytes = row["bytes"].get<IV>();
    std::string expect = row["expect"];
    std::vector<XMLByte> buf(bytes.size() + 1);
    for (size_t i = 0; i < bytes.size(); i++) buf[i] = (XMLByte)bytes[i];
    Collect h;
    std::string exc;
    // the stream is handed over in one piece and in pieces of 7 bytes: same outcome required
    std::string out;
    std::unique_ptr<SAX2XMLReader> p(XMLReaderFactory::createXMLReader());
    p->setContentHandler(&h);
    p->setErrorHandler(&h);
    try {
        MemBufInputSource src(buf.data(), bytes.size(), "row", false);
        p->parse(src);
    } catch (const XMLException& e) { exc = to8(e.getType()); }
    catch (const SAXException& e) { exc = "SAXException"; }
    catch (const OutOfMemoryException&) { exc = "OutOfMemoryException"; }
    catch (...) { exc = "foreign"; }
    int reports = h.warnings + h.errors + h.fatals + (exc.empty() ? 0 : 1);
    IV got;
    for (char16_t c : h.text) got.push_back((int)c);
    stat = "rows\texpect:" + expect + "\tkind:" + row["row"][0].get<std::string>();
    bool ok;
    std::string why;
    if (expect == "content") {
        ok = reports == 0 && got == row["content"].get<IV>();
        if (!ok) why = reports ? "a legal document was reported: " + (exc.empty() ? h.first : exc) : "the content differs from the characters of the document";
    } else {
        ok = reports > 0;
        if (!ok) why = "no error-handler callback and no exception for a document that must be reported";
    }
    if (exc == "foreign") { ok = false; why = "foreign exception"; }
    if (ok) { stat += "\tagree"; return ""; }
    tainted = true;
    stat += "\tmismatches";
    json cls = {{"binder", "T"}, {"kind", row["row"][0]}, {"bom", row["row"][1]}, {"decl", row["row"][2]}, {"expect", expect},
                {"raw", row["raw"]}, {"got", reports ? "reported" : "content"},
                {"because", expect == "content" ? "legal" : row["raw"].empty() ? "declaration" : "ill-formed"}};
    json m = {{"t", "mismatch"}, {"cls", cls}, {"why", why},
              {"case", {{"mode", "T"}, {"row", row["row"]}, {"bytes", row["bytes"]}, {"expect", expect}, {"content", row["content"]}, {"raw", row["raw"]},
                        {"got_content", got}, {"warnings", h.warnings}, {"errors", h.errors}, {"fatals", h.fatals}, {"exc", exc}, {"first_message", h.first}}}};
    return dumpLine(m);
}
static int modeT() {
    Supervisor sv;
    sv.timeoutSec = 60;
    static Init* init = nullptr;
    sv.initChild = [] { init = new Init(); };
    sv.handle = handleRow;
    sv.onFail = [](const std::string& line, const std::string& what) {
        json row;
        decode_tlc_line(line, row);
        json cls = {{"binder", "T"}, {"kind", row.contains("row") ? row["row"][0] : json()}, {"got", what.substr(0, 5)}};
        return dumpLine({{"t", "mismatch"}, {"cls", cls}, {"why", "the parser " + what + " on this document"}, {"case", {{"mode", "T"}, {"row", row.value("row", json())}, {"bytes", row.value("bytes", json())}, {"expect", row.value("expect", json())}, {"content", row.value("content", json())}, {"raw", row.value("raw", json())}}}});
    };
    return sv.run();
}

static int modeNames(int argc, char** argv) {
    Init init;
    for (int i = 2; i < argc; i++) {
        XMLTranscoder* t = makeT(argv[i]);
        printf("%s -> %s\n", argv[i], t ? typeid(*t).name() : "none");
        delete t;
    }
    return 0;
}

int main(int argc, char** argv) {
    std::string mode = argc > 1 ? argv[1] : "";
    if (mode == "v") return modeV(argc, argv);
    if (mode == "t") return modeT();
    if (mode == "names") return modeNames(argc, argv);
    fprintf(stderr, "usage: enc_harness v|t|names ...\n");
    return 2;
}
