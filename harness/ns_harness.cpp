// Binders T/W and V for the Namespaces specification (property C06).
//   ns_harness t [scanners]        stdin: TLC lines [ver, tokens, events, err, dom, errs]  -> mismatch / summary lines
//   ns_harness v <seed> <ndocs> <maxelems> <out.ndjson>   SAX2 event streams of random documents, for NamespacesTrace
//   ns_harness render              stdin: TLC lines -> the XML text of every rendering variant (debugging aid)
// Expected results come from the TLA+ specification (the TLC line); this file only renders tokens to XML text
// (table-driven), runs the parsers and compares.
#include "vh.hpp"
#include <xercesc/sax2/SAX2XMLReader.hpp>
#include <xercesc/sax2/XMLReaderFactory.hpp>
#include <xercesc/sax2/DefaultHandler.hpp>
#include <xercesc/sax2/Attributes.hpp>
#include <xercesc/sax/HandlerBase.hpp>
#include <xercesc/sax/AttributeList.hpp>
#include <xercesc/sax/SAXParseException.hpp>
#include <xercesc/parsers/SAXParser.hpp>
#include <xercesc/parsers/XercesDOMParser.hpp>
#include <xercesc/framework/MemBufInputSource.hpp>
#include <xercesc/dom/DOM.hpp>
#include <xercesc/util/XMLUni.hpp>
#include <xercesc/util/OutOfMemoryException.hpp>
#include <algorithm>
#include <memory>
#include <set>
using namespace vh;
using namespace XERCES_CPP_NAMESPACE;

// ---- rendering: tokens -> XML text ------------------------------------------------------------
struct Variant {
    bool declsFirst;   // declaration attributes before / after the other attributes
    bool revDecls;     // declarations in reverse order
    int leaf;          // start tag directly followed by its end tag: 0 <x/>, 1 <x></x>, 2 <x>t</x>
    bool decl10;       // XML 1.0 documents carry an XML declaration (1.1 documents always do)
    const char* name;
};
static const Variant kVariants[] = {
    {true, false, 0, true, "declsFirst,empty,xmldecl"},
    {false, false, 1, true, "declsLast,pair,xmldecl"},
    {false, true, 2, true, "declsLast,reversed,text,xmldecl"},
    {true, true, 1, false, "declsFirst,reversed,pair"},
};
static const int kNVariants = sizeof(kVariants) / sizeof(kVariants[0]);

static const char* const kXmlnsUri = "http://www.w3.org/2000/xmlns/";
static std::string qn(const std::string& p, const std::string& l) { return p.empty() ? l : p + ":" + l; }

// dtd: declarations every element type gets as defaulted xmlns attributes: one ATTLIST per element name that occurs
static std::string render(const json& ver, const json& toks, const Variant& v, const json& dtd = json::array()) {
    std::string o;
    if (ver.get<std::string>() != "1.0" || v.decl10) o += "<?xml version=\"" + ver.get<std::string>() + "\"?>";
    if (!dtd.empty()) {
        std::vector<std::string> names;
        for (auto& t : toks) if (t[0] == "S" && std::find(names.begin(), names.end(), qn(t[1], t[2])) == names.end()) names.push_back(qn(t[1], t[2]));
        o += "<!DOCTYPE " + (names.empty() ? std::string("e") : names[0]) + " [";
        for (auto& n : names) {
            o += "<!ATTLIST " + n;
            for (auto& d : dtd) o += " " + (d[0].get<std::string>().empty() ? std::string("xmlns") : "xmlns:" + d[0].get<std::string>()) + " CDATA '" + d[1].get<std::string>() + "'";
            o += ">";
        }
        o += "]>";
    }
    std::vector<std::string> open;
    for (size_t i = 0; i < toks.size(); i++) {
        const json& t = toks[i];
        if (t[0] == "S") {
            std::string name = qn(t[1], t[2]);
            std::string decls, attrs;
            const json& d = t[3];
            for (size_t k = 0; k < d.size(); k++) {
                const json& x = d[v.revDecls ? d.size() - 1 - k : k];
                decls += " " + qn(x[0].get<std::string>().empty() ? "" : "xmlns", x[0].get<std::string>().empty() ? "xmlns" : x[0].get<std::string>()) +
                         "=\"" + x[1].get<std::string>() + "\"";
            }
            const json& a = t[4];
            for (size_t k = 0; k < a.size(); k++) attrs += " " + qn(a[k][0], a[k][1]) + "=\"" + std::to_string(k + 1) + "\"";
            o += "<" + name + (v.declsFirst ? decls + attrs : attrs + decls);
            bool leaf = i + 1 < toks.size() && toks[i + 1][0] == "E";
            if (leaf && v.leaf == 0) { o += "/>"; i++; continue; }
            o += ">";
            if (leaf && v.leaf == 2) o += "t";
            open.push_back(name);
        } else {
            if (open.empty()) continue;
            o += "</" + open.back() + ">";
            open.pop_back();
        }
    }
    return o;
}

// ---- observation -------------------------------------------------------------------------------
struct ErrCount : public ErrorHandler {
    int warnings = 0, errors = 0, fatals = 0;
    std::string first;
    void warning(const SAXParseException&) override { warnings++; }
    void error(const SAXParseException& e) override { if (!errors && !fatals) first = to8(e.getMessage()); errors++; }
    void fatalError(const SAXParseException& e) override { if (!errors && !fatals) first = to8(e.getMessage()); fatals++; }
    void resetErrors() override {}
    void clear() { warnings = errors = fatals = 0; first.clear(); }
    bool reported() const { return errors + fatals > 0; }
};

static void splitQ(const std::string& q, std::string& p, std::string& l) {
    size_t c = q.find(':');
    if (c == std::string::npos) { p.clear(); l = q; } else { p = q.substr(0, c); l = q.substr(c + 1); }
}

// canonical SAX2 event: ["pm+",p,u] ["pm-",p] ["se",uri,local,qname,[[uri,local,qname]..]] ["ee",uri,local,qname]
struct Sax2Rec : public DefaultHandler {
    json ev = json::array();
    void startPrefixMapping(const XMLCh* const p, const XMLCh* const u) override { ev.push_back({"pm+", to8(p), to8(u)}); }
    void endPrefixMapping(const XMLCh* const p) override { ev.push_back({"pm-", to8(p)}); }
    void startElement(const XMLCh* const uri, const XMLCh* const local, const XMLCh* const qname, const Attributes& at) override {
        json a = json::array();
        for (XMLSize_t i = 0; i < at.getLength(); i++) a.push_back({to8(at.getURI(i)), to8(at.getLocalName(i)), to8(at.getQName(i))});
        ev.push_back({"se", to8(uri), to8(local), to8(qname), a});
    }
    void endElement(const XMLCh* const uri, const XMLCh* const local, const XMLCh* const qname) override {
        ev.push_back({"ee", to8(uri), to8(local), to8(qname)});
    }
};
struct Sax1Rec : public HandlerBase {
    json ev = json::array();
    void startElement(const XMLCh* const name, AttributeList& at) override {
        json a = json::array();
        for (XMLSize_t i = 0; i < at.getLength(); i++) a.push_back(to8(at.getName(i)));
        ev.push_back({"se", to8(name), a});
    }
    void endElement(const XMLCh* const name) override { ev.push_back({"ee", to8(name)}); }
};

static const XMLCh* scannerName(const std::string& s) {
    if (s == "IG") return XMLUni::fgIGXMLScanner;
    if (s == "WF") return XMLUni::fgWFXMLScanner;
    if (s == "SG") return XMLUni::fgSGXMLScanner;
    if (s == "DG") return XMLUni::fgDGXMLScanner;
    return XMLUni::fgIGXMLScanner;
}

struct Parsers {
    std::string scanner;
    std::unique_ptr<SAX2XMLReader> sax2[2];   // namespace-prefixes off / on
    std::unique_ptr<SAXParser> sax1;
    std::unique_ptr<XercesDOMParser> dom;
    // classification aid only: the version of the last XML declaration each parser object has seen (sax2[0], sax2[1], sax1, dom)
    bool saw11[4] = {false, false, false, false};
    bool after11(int which, bool is11, bool hasDecl) {     // true iff this document has no declaration and the last declared version was 1.1
        bool r = !hasDecl && saw11[which];
        if (hasDecl) saw11[which] = is11;
        return r;
    }
    explicit Parsers(const std::string& sc) : scanner(sc) {
        for (int np = 0; np < 2; np++) {
            sax2[np].reset(XMLReaderFactory::createXMLReader());
            sax2[np]->setProperty(XMLUni::fgXercesScannerName, (void*)scannerName(sc));
            sax2[np]->setFeature(XMLUni::fgSAX2CoreNameSpaces, true);
            sax2[np]->setFeature(XMLUni::fgSAX2CoreNameSpacePrefixes, np == 1);
            sax2[np]->setFeature(XMLUni::fgSAX2CoreValidation, false);
            sax2[np]->setFeature(XMLUni::fgXercesSchema, false);
            sax2[np]->setFeature(XMLUni::fgXercesLoadExternalDTD, false);
        }
        sax1.reset(new SAXParser());
        sax1->useScanner(scannerName(sc));
        sax1->setDoNamespaces(true);
        sax1->setValidationScheme(SAXParser::Val_Never);
        sax1->setDoSchema(false);
        sax1->setLoadExternalDTD(false);
        dom.reset(new XercesDOMParser());
        dom->useScanner(scannerName(sc));
        dom->setDoNamespaces(true);
        dom->setValidationScheme(XercesDOMParser::Val_Never);
        dom->setDoSchema(false);
        dom->setLoadExternalDTD(false);
    }
};

template <class F>
static std::string guarded(F f) {   // runs a parse; returns "" or the foreign exception that escaped
    try { f(); }
    catch (const OutOfMemoryException&) { return "exception:OutOfMemory"; }
    catch (const XMLException& e) { return "exception:XMLException:" + to8(e.getMessage()); }
    catch (const SAXParseException&) { return ""; }
    catch (const SAXException& e) { return "exception:SAXException:" + to8(e.getMessage()); }
    catch (const DOMException& e) { return "exception:DOMException:" + std::to_string(e.code); }
    catch (...) { return "exception:unknown"; }
    return "";
}

// ---- expected side: projections of the specification's line -------------------------------------
static void sortRuns(json& ev) {   // prefix-mapping events of one run are not ordered by SAX2: sort them; sort attributes by qname
    size_t i = 0;
    while (i < ev.size()) {
        if (ev[i][0] == "pm+" || ev[i][0] == "pm-") {
            size_t j = i;
            while (j < ev.size() && ev[j][0] == ev[i][0]) j++;
            std::sort(ev.begin() + i, ev.begin() + j, [](const json& a, const json& b) { return a.dump() < b.dump(); });
            i = j;
        } else {
            if (ev[i][0] == "se") std::sort(ev[i][4].begin(), ev[i][4].end(), [](const json& a, const json& b) { return a[2] < b[2]; });
            i++;
        }
    }
}
// specification events -> the shape Sax2Rec records (attribute uri stays a list of allowed uris)
static json expectedSax2(const json& ev, bool np) {
    json o = json::array();
    for (auto& e : ev) {
        if (e[0] == "se") {
            json a = json::array();
            for (auto& x : e[4]) {
                // "*" marks a declaration attribute: SAX2 gives it no namespace name, the Infoset gives it kXmlnsUri (both allowed)
                if (x[0] == "*") { if (np) a.push_back({json::array({"", kXmlnsUri}), x[2], qn(x[1], x[2])}); }
                else a.push_back({json::array({x[0]}), x[2], qn(x[1], x[2])});
            }
            o.push_back({"se", e[1], e[3], qn(e[2], e[3]), a});
        } else if (e[0] == "ee") o.push_back({"ee", e[1], e[3], qn(e[2], e[3])});
        else o.push_back(e);
    }
    sortRuns(o);
    return o;
}
// all distinct kinds of difference between the expected and the recorded stream (empty = equal); "observed" gets the
// implementation's value of the first differing uri
static std::vector<std::string> cmpSax2(const json& exp, json got, std::string& observed) {
    std::vector<std::string> d;
    auto add = [&](const std::string& k) { if (std::find(d.begin(), d.end(), k) == d.end()) d.push_back(k); };
    auto uriDiff = [&](const std::string& k, const json& g) { if (d.empty()) observed = g.get<std::string>(); add(k); };
    sortRuns(got);
    size_t n = std::min(exp.size(), got.size());
    for (size_t i = 0; i < n; i++) {
        const json &e = exp[i], &g = got[i];
        if (e[0] != g[0]) { add("event sequence"); return d; }
        if (e[0] == "se") {
            if (e[1] != g[1]) uriDiff("startElement: uri", g[1]);
            if (e[2] != g[2]) add("startElement: localname");
            if (e[3] != g[3]) add("startElement: qname");
            if (e[4].size() != g[4].size()) { add("startElement: attribute count"); continue; }
            for (size_t k = 0; k < e[4].size(); k++) {
                if (e[4][k][2] != g[4][k][2]) { add("attribute: qname"); continue; }
                if (e[4][k][1] != g[4][k][1]) add("attribute: localname");
                bool ok = false;
                for (auto& u : e[4][k][0]) if (u == g[4][k][0]) ok = true;
                if (!ok) uriDiff("attribute: uri", g[4][k][0]);
            }
        } else if (e[0] == "ee") {
            if (e[1] != g[1]) uriDiff("endElement: uri", g[1]);
            if (e[2] != g[2]) add("endElement: localname");
            if (e[3] != g[3]) add("endElement: qname");
        } else if (e != g) add(e[0] == "pm+" ? "startPrefixMapping" : "endPrefixMapping");
    }
    if (exp.size() != got.size()) {
        const json& x = exp.size() > got.size() ? exp[n] : got[n];
        add(std::string(exp.size() > got.size() ? "missing " : "extra ") + x[0].get<std::string>());
    }
    return d;
}
static json expectedSax1(const json& ev) {
    json o = json::array();
    for (auto& e : ev) {
        if (e[0] == "se") {
            json a = json::array();
            for (auto& x : e[4]) a.push_back(qn(x[1], x[2]));
            std::sort(a.begin(), a.end());
            o.push_back({"se", qn(e[2], e[3]), a});
        } else if (e[0] == "ee") o.push_back({"ee", qn(e[2], e[3])});
    }
    return o;
}

static std::string nz(const XMLCh* s) { return s ? to8(s) : std::string(); }

// lookups on one node against the specification's record of its element
static std::string cmpLookups(const DOMNode* n, const json& rec, json& got) {
    for (auto it = rec["lu"].begin(); it != rec["lu"].end(); ++it) {
        X p(it.key());
        std::string g = nz(n->lookupNamespaceURI(it.key().empty() ? nullptr : p.c()));
        if (g != it.value().get<std::string>()) { got = {{"lookupNamespaceURI", it.key()}, {"got", g}, {"expected", it.value()}}; return "lookupNamespaceURI"; }
    }
    for (auto it = rec["lp"].begin(); it != rec["lp"].end(); ++it) {
        X u(it.key());
        std::string g = nz(n->lookupPrefix(u.c()));
        bool ok = false;
        for (auto& a : it.value()) if (a == g) ok = true;
        if (!ok) { got = {{"lookupPrefix", it.key()}, {"got", g}, {"allowed", it.value()}}; return "lookupPrefix"; }
    }
    for (auto it = rec["df"].begin(); it != rec["df"].end(); ++it) {
        X u(it.key());
        bool g = n->isDefaultNamespace(it.key().empty() ? nullptr : u.c());
        if (g != it.value().get<bool>()) { got = {{"isDefaultNamespace", it.key()}, {"got", g}, {"expected", it.value()}}; return "isDefaultNamespace"; }
    }
    return "";
}

// se = the element's start event of the specification ["se", uri, prefix, local, [[uri|"*", prefix, local]..]]: the DOM record's
// ns/pf/ln/at fields are the same values (DomRec in Namespaces.tla), a declaration attribute's namespaceURI is kXmlnsUri
static std::string cmpDomElem(const DOMElement* e, const json& se, const json& rec, json& got, long& lookups) {
    if (nz(e->getNamespaceURI()) != se[1]) { got = {{"namespaceURI", nz(e->getNamespaceURI())}, {"expected", se[1]}}; return "element namespaceURI"; }
    if (nz(e->getPrefix()) != se[2]) { got = {{"prefix", nz(e->getPrefix())}, {"expected", se[2]}}; return "element prefix"; }
    if (nz(e->getLocalName()) != se[3]) { got = {{"localName", nz(e->getLocalName())}, {"expected", se[3]}}; return "element localName"; }
    if (nz(e->getNodeName()) != qn(se[2], se[3])) { got = {{"nodeName", nz(e->getNodeName())}}; return "element nodeName"; }
    DOMNamedNodeMap* m = e->getAttributes();
    std::vector<json> ga, xa;
    for (XMLSize_t i = 0; m && i < m->getLength(); i++) {
        DOMNode* a = m->item(i);
        ga.push_back({nz(a->getNamespaceURI()), nz(a->getPrefix()), nz(a->getLocalName())});
        if (nz(a->getNodeName()) != qn(nz(a->getPrefix()), nz(a->getLocalName()))) { got = {{"attrNodeName", nz(a->getNodeName())}}; return "attribute nodeName"; }
    }
    for (auto& a : se[4]) xa.push_back(json::array({a[0] == "*" ? json(kXmlnsUri) : a[0], a[1], a[2]}));
    auto lt = [](const json& a, const json& b) { return a.dump() < b.dump(); };
    std::sort(ga.begin(), ga.end(), lt);
    std::sort(xa.begin(), xa.end(), lt);
    if (ga != xa) { got = {{"attrs", ga}, {"expected", xa}}; return "attribute namespaceURI/prefix/localName"; }
    // getAttributeNodeNS finds every attribute by its expanded name
    for (auto& a : xa) {
        X u(a[0].get<std::string>()), l(a[2].get<std::string>());
        DOMAttr* an = e->getAttributeNodeNS(a[0].get<std::string>().empty() ? nullptr : u.c(), l.c());
        if (!an || nz(an->getPrefix()) != a[1]) { got = {{"getAttributeNodeNS", a}}; return "getAttributeNodeNS"; }
    }
    std::string w = cmpLookups(e, rec, got);
    lookups++;
    if (!w.empty()) return "element " + w;
    for (XMLSize_t i = 0; m && i < m->getLength(); i++) {
        w = cmpLookups(m->item(i), rec, got);
        lookups++;
        if (!w.empty()) return "attribute " + w;
    }
    for (DOMNode* c = e->getFirstChild(); c; c = c->getNextSibling())
        if (c->getNodeType() == DOMNode::TEXT_NODE) {
            w = cmpLookups(c, rec, got);
            lookups++;
            if (!w.empty()) return "text " + w;
        }
    return "";
}

static std::string cmpDom(DOMDocument* d, const json& ev, const json& dom, json& got, long& lookups) {
    if (!d || !d->getDocumentElement()) return "no document element";
    std::vector<const json*> ses;
    for (auto& e : ev) if (e[0] == "se") ses.push_back(&e);
    if (ses.size() != dom.size()) return "specification line: start events and DOM records differ in number";
    size_t idx = 0;
    std::string why;
    std::function<void(DOMNode*)> walk = [&](DOMNode* n) {
        if (!why.empty()) return;
        if (n->getNodeType() == DOMNode::ELEMENT_NODE) {
            if (idx >= dom.size()) { why = "extra element"; return; }
            why = cmpDomElem((DOMElement*)n, *ses[idx], dom[idx], got, lookups);
            if (!why.empty()) { got["element"] = idx; return; }
            idx++;
        }
        for (DOMNode* c = n->getFirstChild(); c && why.empty(); c = c->getNextSibling()) walk(c);
    };
    walk(d->getDocumentElement());
    if (why.empty() && idx != dom.size()) why = "missing element";
    if (why.empty() && !dom.empty()) {   // the document node delegates to its document element
        why = cmpLookups(d, dom[0], got);
        lookups++;
        if (!why.empty()) why = "document " + why;
    }
    return why;
}

// ---- T / W ---------------------------------------------------------------------------------------
static std::vector<std::string> gScanners = {"IG", "WF", "SG", "DG"};
static std::map<std::string, int> gSeen;
static std::vector<std::unique_ptr<Parsers>> gParsers;

static std::string errsOf(const json& j) {
    std::string s;
    for (auto& e : j[5]) s += (s.empty() ? "" : "+") + e.get<std::string>();
    return s;
}

static std::string handleCase(const json& j, std::string& stat, bool& tainted) {
    const json &ver = j[0], &toks = j[1], &ev = j[2], &dom = j[4];
    const bool specErr = j[3].get<bool>();
    const json dtd = j.size() > 6 ? j[6] : json::array();
    std::string out;
    stat = "cases";
    stat += specErr ? "\tcases_error" : "\tcases_ok";
    if (specErr) for (auto& e : j[5]) stat += "\terr:" + e.get<std::string>();
    json x2[2] = {expectedSax2(ev, false), expectedSax2(ev, true)};
    json x1 = expectedSax1(ev);
    long lookups = 0, parses = 0;
    bool renew = false;
    bool after11 = false;         // this parse: no XML declaration and the parser object last saw version="1.1" (classification only)
    const bool is11 = ver.get<std::string>() == "1.1";
    bool bigTag = false;          // some start tag has more than 100 attributes (the scanners' duplicate check changes algorithm there)
    bool manyDecls = false;       // some start tag declares more than 12 prefixes: ElemStack's map rows grow (16, 20, 25, 31 ...) only the first
                                  // time a parser object meets such a tag, so these documents are parsed by fresh parser objects
    for (auto& t : toks) if (t[0] == "S" && t[3].size() + t[4].size() > 100) bigTag = true;
    for (auto& t : toks) if (t[0] == "S" && t[3].size() > 12) manyDecls = true;
    (void)tainted;
    auto mismatch = [&](const std::string& api, const std::string& sc, const Variant& v, const std::string& what, bool implErr,
                        const std::string& xml, const json& got, const std::string& msg, const std::string& obs = std::string()) {
        if (what.rfind("exception:", 0) == 0) renew = true;       // continue with fresh parser objects
        stat += "\tmismatches";
        std::string observed = obs == "http://apache.org/xml/UnknownNS" ? "UnknownNS" : obs.empty() ? "" : "other";
        json cls = {{"api", api}, {"scanner", sc}, {"what", what}, {"specErr", specErr}, {"implErr", implErr},
                    {"ver", ver}, {"errs", errsOf(j)}, {"observed", observed}, {"bigTag", bigTag}, {"after11", after11}};
        std::string key = api + "|" + sc + "|" + what + "|" + (specErr ? "specErr" : "specOk") + "|" + (implErr ? "implErr" : "implOk") + "|" +
                          ver.get<std::string>() + "|" + errsOf(j) + "|" + observed + (bigTag ? "|bigTag" : "") + (after11 ? "|after11" : "");
        stat += "\tmm:" + key;
        if (++gSeen[key] > 3) return;        // every difference is counted; only the first few of a class are written out
        out += dumpLine({{"t", "mismatch"}, {"cls", cls}, {"why", api + "/" + sc + ": " + what + " differs from the specification"},
                         {"case", {{"mode", "T"}, {"line", j}, {"xml", xml}, {"variant", v.name}, {"got", got}, {"firstError", msg}}}});
    };
    for (auto& ps : gParsers) {
        if (renew || manyDecls) { std::string sc = ps->scanner; ps.reset(); ps.reset(new Parsers(sc)); renew = false; }
        for (int vi = 0; vi < kNVariants; vi++) {
            const Variant& v = kVariants[vi];
            std::string xml = render(ver, toks, v, dtd);
            MemBufInputSource src((const XMLByte*)xml.data(), xml.size(), "case", false);
            for (int np = 0; np < 2; np++) {
                if ((vi + np) % 2) continue;      // each variant with one of the two settings; both settings over the variants
                Sax2Rec h;
                ErrCount eh;
                SAX2XMLReader* r = ps->sax2[np].get();
                after11 = ps->after11(np, is11, is11 || v.decl10);
                r->setContentHandler(&h);
                r->setErrorHandler(&eh);
                std::string exc = guarded([&] { r->parse(src); });
                parses++;
                const char* api = np ? "SAX2+prefixes" : "SAX2";
                if (!exc.empty()) { mismatch(api, ps->scanner, v, exc.substr(0, exc.find(':', 10)), eh.reported(), xml, h.ev, exc); continue; }
                if (eh.reported() != specErr) { mismatch(api, ps->scanner, v, "error reported", eh.reported(), xml, h.ev, eh.first); continue; }
                std::string obs;
                for (auto& w : cmpSax2(x2[np], h.ev, obs)) mismatch(api, ps->scanner, v, w, eh.reported(), xml, h.ev, eh.first, obs);
            }
            if (vi % 2 == 0) {
                Sax1Rec h;
                ErrCount eh;
                after11 = ps->after11(2, is11, is11 || v.decl10);
                ps->sax1->setDocumentHandler(&h);
                ps->sax1->setErrorHandler(&eh);
                std::string exc = guarded([&] { ps->sax1->parse(src); });
                parses++;
                for (auto& e : h.ev) if (e[0] == "se") std::sort(e[2].begin(), e[2].end());
                if (!exc.empty()) mismatch("SAX1", ps->scanner, v, exc.substr(0, exc.find(':', 10)), eh.reported(), xml, h.ev, exc);
                else if (eh.reported() != specErr) mismatch("SAX1", ps->scanner, v, "error reported", eh.reported(), xml, h.ev, eh.first);
                else if (h.ev != x1) {
                    std::string w = "event sequence";
                    if (h.ev.size() == x1.size()) {
                        for (size_t i = 0; i < x1.size(); i++) {
                            if (h.ev[i] == x1[i]) continue;
                            if (h.ev[i][0] != x1[i][0]) break;
                            w = x1[i][0] == "ee" ? "endElement: qname" : h.ev[i][1] != x1[i][1] ? "startElement: qname" : "attribute: qname";
                            break;
                        }
                    }
                    mismatch("SAX1", ps->scanner, v, w, eh.reported(), xml, h.ev, eh.first);
                }
            }
            if (vi % 2 == 1 || specErr) {
                ErrCount eh;
                after11 = ps->after11(3, is11, is11 || v.decl10);
                ps->dom->setErrorHandler(&eh);
                std::string exc = guarded([&] { ps->dom->parse(src); });
                parses++;
                json got = json::object();
                if (!exc.empty()) mismatch("DOM", ps->scanner, v, exc.substr(0, exc.find(':', 10)), eh.reported(), xml, got, exc);
                else if (eh.reported() != specErr) mismatch("DOM", ps->scanner, v, "error reported", eh.reported(), xml, got, eh.first);
                else if (!specErr) {
                    std::string w = cmpDom(ps->dom->getDocument(), ev, dom, got, lookups);
                    if (!w.empty()) mismatch("DOM", ps->scanner, v, w, eh.reported(), xml, got, eh.first);
                }
                ps->dom->resetDocumentPool();
            }
        }
    }
    if (renew) { auto& ps = gParsers.back(); std::string sc = ps->scanner; ps.reset(); ps.reset(new Parsers(sc)); }
    for (long i = 0; i < parses; i++) stat += "\tparses";
    for (long i = 0; i < lookups; i++) stat += "\tlookup_nodes";
    return out;
}

static int modeT() {
    Supervisor sup;
    sup.timeoutSec = 20;
    sup.initChild = [&]() {
        XMLPlatformUtils::Initialize();
        for (auto& s : gScanners) gParsers.emplace_back(new Parsers(s));
    };
    sup.handle = [&](const std::string& line, std::string& stat, bool& tainted) -> std::string {
        json j;
        if (!decode_tlc_line(line, j) || !j.is_array() || j.size() < 6) { stat = "torn"; return ""; }
        try { return handleCase(j, stat, tainted); }
        catch (const json::exception& e) {      // a bug of this harness, never a verdict about the implementation
            stat = "harness_error";
            return dumpLine({{"t", "harness_error"}, {"what", e.what()}, {"line", j}});
        }
    };
    sup.onFail = [&](const std::string& line, const std::string& what) -> std::string {
        json j;
        if (!decode_tlc_line(line, j)) return "";
        return dumpLine({{"t", "mismatch"}, {"cls", {{"api", "any"}, {"scanner", "any"}, {"what", what}, {"specErr", j[3]}, {"errs", errsOf(j)}}},
                         {"why", "a parse did not return: " + what}, {"case", {{"mode", "T"}, {"line", j}, {"res", what}}}});
    };
    return sup.run();
}

static int modeRender() {
    std::string line;
    while (std::getline(std::cin, line)) {
        json j;
        if (!decode_tlc_line(line, j)) continue;
        for (int vi = 0; vi < kNVariants; vi++) printf("%s\n", render(j[0], j[1], kVariants[vi], j.size() > 6 ? j[6] : json::array()).c_str());
    }
    return 0;
}

// ---- V: random documents, the SAX2 event stream is the trace ----------------------------------------
struct TraceRec : public DefaultHandler {
    FILE* f;
    long n = 0;
    explicit TraceRec(FILE* ff) : f(ff) {}
    void put(const json& j) { std::string s = j.dump(); s.push_back('\n'); fwrite(s.data(), 1, s.size(), f); n++; }
    void startPrefixMapping(const XMLCh* const p, const XMLCh* const u) override {
        put({{"e", "pm+"}, {"p", to8(p)}, {"u", to8(u)}, {"l", ""}, {"a", json::array()}});
    }
    void endPrefixMapping(const XMLCh* const p) override { put({{"e", "pm-"}, {"p", to8(p)}, {"u", ""}, {"l", ""}, {"a", json::array()}}); }
    void startElement(const XMLCh* const uri, const XMLCh* const local, const XMLCh* const qname, const Attributes& at) override {
        json a = json::array();
        std::string p, l;
        for (XMLSize_t i = 0; i < at.getLength(); i++) {
            splitQ(to8(at.getQName(i)), p, l);
            if (p == "xmlns" || (p.empty() && l == "xmlns")) continue;     // declarations are reported as prefix mappings
            if (l != to8(at.getLocalName(i))) l = "#localname-differs";
            a.push_back({to8(at.getURI(i)), p, l});
        }
        splitQ(to8(qname), p, l);
        if (l != to8(local)) l = "#localname-differs";
        put({{"e", "se"}, {"p", p}, {"u", to8(uri)}, {"l", l}, {"a", a}});
    }
    void endElement(const XMLCh* const uri, const XMLCh* const local, const XMLCh* const qname) override {
        std::string p, l;
        splitQ(to8(qname), p, l);
        if (l != to8(local)) l = "#localname-differs";
        put({{"e", "ee"}, {"p", p}, {"u", to8(uri)}, {"l", l}, {"a", json::array()}});
    }
};

static int modeV(unsigned seed, int ndocs, int maxElems, const char* path, const std::vector<std::string>& scanners) {
    FILE* f = fopen(path, "w");
    if (!f) return 2;
    std::mt19937 rng(seed);
    auto R = [&](int n) { return n <= 0 ? 0 : (int)(rng() % (unsigned)n); };
    const char* pfx[] = {"", "a", "b", "c", "d", "e1", "f"};
    const char* uris[] = {"", "urn:1", "urn:2", "urn:3", "http://x/y"};
    TraceRec rec(f);
    long reported = 0;
    for (int d = 0; d < ndocs; d++) {
        bool v11 = R(4) == 0;
        std::string xml = v11 ? "<?xml version=\"1.1\"?>" : "";
        // a scope stack only to choose prefixes that are probably bound; nothing here is an expected result
        std::vector<std::set<std::string>> scope(1);
        std::vector<std::string> open;
        int elems = 0, target = 2 + R(maxElems);
        bool wild = !v11 && R(10) == 0;     // now and then use prefixes without regard to the scope (error documents: the trace is a prefix)
        while (true) {
            bool canOpen = elems < target && open.size() < 9;
            if (!open.empty() && (!canOpen || R(3) == 0)) { xml += "</" + open.back() + ">"; open.pop_back(); scope.pop_back(); if (open.empty()) break; continue; }
            if (!canOpen) break;
            std::set<std::string> sc = scope.back();
            std::string decls;
            int nd = R(4) == 0 ? R(24) : R(3);
            std::set<std::string> declared;
            for (int k = 0; k < nd; k++) {
                std::string p = nd > 6 ? (k == 0 ? std::string() : "m" + std::to_string(k)) : pfx[R(7)];
                if (declared.count(p)) continue;
                declared.insert(p);
                std::string u = uris[R(5)];
                if (u.empty() && !p.empty() && !v11) u = "urn:1";
                decls += " " + (p.empty() ? std::string("xmlns") : "xmlns:" + p) + "=\"" + u + "\"";
                if (u.empty()) sc.erase(p); else sc.insert(p);
            }
            std::vector<std::string> usable(sc.begin(), sc.end());
            usable.push_back("");
            auto pick = [&]() { return wild && R(4) == 0 ? std::string(pfx[R(7)]) : usable[R((int)usable.size())]; };
            std::string ep = pick();
            std::string name = qn(ep, "el" + std::to_string(R(3)));
            std::string attrs;
            int na = R(4);
            for (int k = 0; k < na; k++) {
                std::string ap = R(3) == 0 ? (R(4) == 0 ? "xml" : "") : pick();
                attrs += " " + qn(ap, "at" + std::to_string(k) + (ap == "xml" ? "x" : "")) + "=\"v\"";
            }
            bool first = R(2);
            xml += "<" + name + (first ? decls + attrs : attrs + decls);
            elems++;
            if (R(4) == 0) { xml += "/>"; if (open.empty()) break; continue; }
            xml += ">";
            if (R(3) == 0) xml += "text";
            open.push_back(name);
            scope.push_back(sc);
        }
        while (!open.empty()) { xml += "</" + open.back() + ">"; open.pop_back(); }
        int si = R((int)scanners.size()), np = R(2);
        // a fresh parser for every document: what a parser carries over from earlier documents is property C15's subject
        Parsers ps(scanners[si]);
        rec.put({{"e", "Reset"}, {"p", scanners[si]}, {"u", v11 ? "1.1" : "1.0"}, {"l", np ? "prefixes" : ""}, {"a", json::array()}});
        ErrCount eh;
        SAX2XMLReader* r = ps.sax2[np].get();
        r->setContentHandler(&rec);
        r->setErrorHandler(&eh);
        MemBufInputSource src((const XMLByte*)xml.data(), xml.size(), "doc", false);
        std::string exc = guarded([&] { r->parse(src); });
        if (eh.reported()) reported++;
        rec.put({{"e", "End"}, {"p", ""}, {"u", !exc.empty() ? "exception" : eh.reported() ? "err" : "ok"}, {"l", ""}, {"a", json::array()}});
        if (getenv("NS_V_DUMP")) fprintf(stderr, "%s\n", xml.c_str());
    }
    fclose(f);
    printf("{\"t\":\"summary\",\"docs\":%d,\"events\":%ld,\"docs_with_error\":%ld}\n", ndocs, rec.n, reported);
    return 0;
}

int main(int argc, char** argv) {
    if (argc < 2) return 2;
    std::string mode = argv[1];
    std::ios::sync_with_stdio(false);
    if (mode == "t" || mode == "direct") {
        if (argc >= 3) {
            gScanners.clear();
            std::string s = argv[2];
            size_t i = 0;
            while (i < s.size()) { size_t j = s.find(',', i); if (j == std::string::npos) j = s.size(); gScanners.push_back(s.substr(i, j - i)); i = j + 1; }
        }
        if (mode == "t") return modeT();
    }
    if (mode == "render") return modeRender();
    if (mode == "dump") {            // ns_harness dump <scanner> [prefixes]: SAX2 events of the XML text on stdin
        XMLPlatformUtils::Initialize();
        Parsers ps(argc >= 3 ? argv[2] : "IG");
        std::string xml((std::istreambuf_iterator<char>(std::cin)), std::istreambuf_iterator<char>());
        while (!xml.empty() && xml.back() == '\n') xml.pop_back();
        MemBufInputSource src((const XMLByte*)xml.data(), xml.size(), "doc", false);
        Sax2Rec h;
        ErrCount eh;
        SAX2XMLReader* r = ps.sax2[argc >= 4 ? 1 : 0].get();
        r->setContentHandler(&h);
        r->setErrorHandler(&eh);
        std::string exc = guarded([&] { r->parse(src); });
        for (auto& e : h.ev) printf("%s\n", e.dump().c_str());
        printf("errors=%d fatals=%d first=%s exc=%s\n", eh.errors, eh.fatals, eh.first.c_str(), exc.c_str());
        ErrCount eh2;
        ps.dom->setErrorHandler(&eh2);
        exc = guarded([&] { ps.dom->parse(src); });
        printf("DOM: errors=%d fatals=%d first=%s exc=%s\n", eh2.errors, eh2.fatals, eh2.first.c_str(), exc.c_str());
        return 0;
    }
    if (mode == "direct") {          // no supervisor: for debugging
        XMLPlatformUtils::Initialize();
        for (auto& s : gScanners) gParsers.emplace_back(new Parsers(s));
        std::string line, stat;
        while (std::getline(std::cin, line)) {
            json j;
            bool tainted = false;
            if (!decode_tlc_line(line, j)) continue;
            std::string o = handleCase(j, stat, tainted);
            fwrite(o.data(), 1, o.size(), stdout);
        }
        return 0;
    }
    vh::Init init;
    if (mode == "v" && argc >= 6) {
        std::vector<std::string> sc;
        std::string s = argc >= 7 ? argv[6] : "IG,WF,SG";
        size_t i = 0;
        while (i < s.size()) { size_t j = s.find(',', i); if (j == std::string::npos) j = s.size(); sc.push_back(s.substr(i, j - i)); i = j + 1; }
        return modeV((unsigned)atol(argv[2]), atoi(argv[3]), atoi(argv[4]), argv[5], sc);
    }
    return 2;
}
