"""C13 - DOM mutation: DomTree specification, binders T (transition tests), W (walks), V (trace validation)."""
import json
import os
import tempfile

from vf import common as C

META = dict(
    property_id="C13", engine="DomTree", category="model_checking", design_ref="DESIGN.md §4 C13",
    technique="explicit TLA+ specification (DomTree) model-checked with TLC; every transition of its state graph replayed on the real DOM "
              "(T), simulated walks replayed (W), random implementation histories trace-validated against the specification (V)",
    text="TLC checks exhaustively (small constants) that the DOM Core mutation model keeps every tree invariant of the property and that a "
         "failed operation changes nothing; every transition of that state graph (about 10^6, including all illegal operand combinations) "
         "is executed on xerces-c's DOM through public calls and the public-getter projection is compared with the specification's successor "
         "state; long random histories over two documents are validated step by step by the trace specification.",
    note="Trusted: TLC, the harness's projection through public getters (cross-checked against each other), node identity = creation order. "
         "Bounds: ids/ops of spec/DomTree*.cfg; names/strings from a small alphabet; renameNode, user data, NS-variants and release are not modelled yet.",
)

CONSTS = {
    # tier: (exhaustive cfg for TLC's own check, generator cfg, walks, walk depth, V traces, V steps)
    "quick": dict(check="DomTree.quick.cfg", gen="DomTreeGen.quick.cfg", walks=96, wdepth=30, vtraces=6, vsteps=400, vnodes=30),
    "thorough": dict(check="DomTree.thorough.cfg", gen="DomTreeGen.thorough.cfg", walks=6000, wdepth=60, vtraces=40, vsteps=1500, vnodes=40),
}


def _pipe_tlc_to_harness(out, module, cfg, mode, ndocs, exe, simulate=None, depth=None, workers=None, timeout=3000, nproc=8):
    p = C.Piper([exe, mode, str(ndocs)], timeout=timeout, nproc=nproc)
    res = C.tlc(module, cfg, workers=workers or C.NCPU, on_chunk=p.feed_chunk, simulate=simulate, depth=depth, timeout=timeout, heap="12g")
    p.close()
    if res.rc not in (0,) or not res.ok:
        # simulation mode ends without "No error" line only on failure; both modes print it on success
        if not res.ok:
            raise C.InfraError("TLC generator %s/%s failed: rc=%s\n%s" % (module, cfg, res.rc, "\n".join(res.text[-40:])))
    mism, summ, _ = C.harness_results(p.out)
    cnt = summ.get("counts", {})
    summ["actions"] = {k[4:]: v for k, v in cnt.items() if k.startswith("act:")}
    summ["results"] = {k[4:]: v for k, v in cnt.items() if k.startswith("res:")}
    for k in ("cases", "compared", "skipped_other_line", "walks", "steps", "mismatches"):
        summ[k] = cnt.get(k, 0)
    if cnt.get("torn", 0):
        raise C.InfraError("torn TLC lines reached the harness: %s" % cnt.get("torn"))
    if summ.get("lines", 0) != p.n:
        raise C.InfraError("harness read %s of %s generated lines" % (summ.get("lines"), p.n))
    if p.n == 0:
        raise C.InfraError("TLC generator %s/%s emitted nothing" % (module, cfg))
    for m in mism:
        out.disagree(m["cls"], m["case"], m.get("why", ""))
    return res, summ, p


def run(out, tier):
    k = CONSTS[tier]
    C.build_lib("hooks")
    exe = C.build_harness("dom_harness")
    cov = out.coverage
    # 1. the specification satisfies property C13 (tree invariants, failed operation leaves the tree unchanged)
    r = C.tlc("DomTree", k["check"], workers=C.NCPU, coverage=True, timeout=3000, heap="12g")
    C.tlc_must_pass(r, "DomTree/" + k["check"])
    cov["states"] = r.distinct
    cov["transitions"] = r.generated
    cov["spec_check"] = r.summary()
    cov["checker_cmd"] = r.cmd
    cov["spec_action_coverage"] = {a: v for a, v in r.coverage.items()}
    never = [a for a, v in r.coverage.items() if v[0] == 0]
    if never:
        C.log("specification actions never taken in the exhaustive config:", never)
    cov["spec_actions_never_taken"] = never
    # 2. T: every transition of the state graph is one implementation test
    rg, st, pt = _pipe_tlc_to_harness(out, "DomTreeGen", k["gen"], "t", 1, exe)
    cov["T"] = dict(transitions_replayed=st.get("cases", 0), compared=st.get("compared", 0),
                    other_branch=st.get("skipped_other_line", 0), actions=st.get("actions", {}), results=st.get("results", {}),
                    child_failures=st.get("child_failures", 0), generator=rg.summary())
    # 3. W: random deep behaviours of the two-document configuration
    rw, sw, pw = _pipe_tlc_to_harness(out, "DomTreeWalk", "DomTreeWalk.cfg", "w", 2, exe, simulate=max(1, k["walks"] // 16),
                                      depth=k["wdepth"] + 1, workers=16)
    cov["W"] = dict(walks=sw.get("walks", 0), steps=sw.get("steps", 0), actions=sw.get("actions", {}), results=sw.get("results", {}))
    # 4. V: long random histories recorded from the implementation, validated by DomTreeTrace
    vt = 0
    vev = 0
    tdir = tempfile.mkdtemp(prefix="c13v.", dir=os.path.join(C.BUILD, "tlc"))
    for i in range(k["vtraces"]):
        path = os.path.join(tdir, "t%d.ndjson" % i)
        rc, o = C.run([exe, "v", "2", str(C.seed() * 1000 + i), str(k["vsteps"]), str(k["vnodes"]), path], timeout=300)
        if rc != 0:
            out.disagree(dict(action="history", res="crash", why="recorder died"), dict(mode="V", seed=C.seed() * 1000 + i, rc=rc, out=o[-2000:]),
                         "the implementation crashed while running a random DOM history")
            continue
        acc, matched, total, res = C.validate_trace("DomTreeTrace", "DomTreeTrace.cfg", path, timeout=900)
        vev += matched
        if acc:
            vt += 1
        else:
            acc2, matched2, total2, _ = C.validate_trace("DomTreeTrace", "DomTreeTrace.cfg", path, timeout=900)
            if acc2 or matched2 != matched:
                raise C.InfraError("trace validation is not repeatable on %s" % path)
            lines = open(path).read().splitlines()
            bad = json.loads(lines[matched]) if matched < len(lines) else {}
            keep = os.path.join(C.REPLAY, "C13")
            os.makedirs(keep, exist_ok=True)
            kept = os.path.join(keep, "trace-%d.ndjson" % (C.seed() * 1000 + i))
            with open(kept, "w") as f:
                f.write("\n".join(lines[:matched + 1]) + "\n")
            args = bad.get("args", [])
            cls = dict(action=bad.get("a"), res=bad.get("res"), why="trace rejected")
            if bad.get("a") in ("insertBefore", "appendChild", "replaceChild") and len(args) >= 2:
                cls["newChildIsTarget"] = args[0] == args[1]
            out.disagree(cls, dict(mode="V", trace=kept, line=matched + 1, event={x: bad.get(x) for x in ("a", "args", "nm", "s", "res")},
                                   violated=res.violated),
                         "DomTreeTrace rejects the recorded history at line %d (%s)" % (matched + 1, res.violated or "no matching action"))
    cov["V"] = dict(traces=k["vtraces"], accepted=vt, events=vev)
    cov["traces_validated_against_impl"] = vt + sw.get("walks", 0)
    cov["samples"] = [C.decode_tlc_json(s) for s in pt.samples[:2]] + [dict(walk=C.decode_tlc_json(s)[:3]) for s in pw.samples[:1]]
    cov["exhaustive"] = True
    cov["evaluations"] = st.get("cases", 0) + sw.get("steps", 0) + vev
    cov["distinct_nontrivial"] = st.get("compared", 0)
    cov["rule"] = ("T: every transition of the DomTree state graph under the constants of %s (distinct by construction: TLC emits each "
                   "(state, operation) once); non-trivial = the implementation's result was compared with the specification's successor "
                   "state or error set" % k["gen"])
    out.assumptions += ["constants of spec/%s and spec/%s" % (k["check"], k["gen"]),
                        "public DOM getters are the projection; node identity = creation order",
                        "replaceChild(x,x) is not compared (implementation dependent in DOM Level 3)"]
    import shutil
    shutil.rmtree(tdir, ignore_errors=True)


def replay(out, path):
    """Re-run one recorded disagreement."""
    C.build_lib("hooks")
    exe = C.build_harness("dom_harness")
    d = json.load(open(path)) if path.endswith(".json") else None
    if d is None:
        acc, matched, total, res = C.validate_trace("DomTreeTrace", "DomTreeTrace.cfg", path)
        if not acc:
            out.disagree(dict(action="trace", why="trace rejected"), dict(trace=path, line=matched + 1), "trace rejected")
        return
    case = d["case"]
    if case.get("mode") == "T":
        line = json.dumps(json.dumps([case["pre"], case["op"], case["expected"]]))
        rc, o = C.run([exe, "t", str(case.get("ndocs", 1))], input=line + "\n")
    elif case.get("mode") == "W":
        raise C.InfraError("walk replays need the expected states; re-run the check with the same VERIF_SEED")
    else:
        raise C.InfraError("unknown replay mode")
    mism, summ, _ = C.harness_results(o.splitlines())
    for m in mism:
        out.disagree(m["cls"], m["case"], m.get("why", ""))
    out.coverage.update(evaluations=1, distinct_nontrivial=1, samples=[case.get("op")], states=1, transitions=1, traces_validated_against_impl=0)
