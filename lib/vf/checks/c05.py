"""C05 - transcoders and encoding detection: Encodings specification, binders V (per-call records) and T (documents).

Mutants (mutants/C05/*.diff; status in mutants/C05/RESULTS.txt - the bin/mutant-run batches were still building /
checking when the build session ended because the machine was 10x oversubscribed; re-run
`./bin/mutant-run C05 mutants/C05/*.diff`):
  utf8-offsets              gUTFOffsets[3] altered (every 4-byte sequence decodes to a wrong scalar value)   [V from/UTF-8, T utf8 rows]
  utf8-surrogates           the ED A0..BF check of XMLUTF8Transcoder::transcodeFrom weakened                 [V from/UTF-8, T ill-formed rows]
  utf8-tail                 '>=' -> '>' in the incomplete-tail test of transcodeFrom                          [V from/UTF-8 truncated inputs, splits]
  utf8-encoder-pair-at-end  transcodeTo defers a complete surrogate pair at the end of the block              [V to/UTF-8]
  probe-ucs4-swapped        basicEncodingProbe answers the two UCS-4 byte-order marks the wrong way round      [V probe records, T ucs4 rows with BOM]
  win1252-table             one entry of the windows-1252 decoding table changed (encoder table untouched)    [V to/WINDOWS-1252: Dec o Enc = id]
  ascii-accepts-high        XMLASCIITranscoder::transcodeFrom lets byte 0x80 through                          [V tab/US-ASCII law]
  setencoding-accepts-utf16 XMLReader::setEncoding no longer refuses "UTF-16" on non-UTF-16 bytes             [T rows with contradictory declaration]
"""
import json
import os
import re
import shutil
import tempfile
import threading

from vf import common as C

META = dict(
    property_id="C05", engine="Encodings", category="model_checking", design_ref="DESIGN.md §4 C05",
    technique="explicit TLA+ specification (Encodings) model-checked with TLC; every transcoder call recorded from the real code is "
              "decided by the trace specification (V, per-call postconditions); TLC-rendered documents x encodings x BOM x declaration parsed (T)",
    text="TLC checks exhaustively (byte-class representatives, all streams up to 4 bytes, all split positions and output limits) that the "
         "operational decoders (Table 3-7 automaton, transcodeFrom loop with the stop-before-incomplete-tail contract) deliver exactly the "
         "decoding of a well-formed prefix, reject every ill-formed sequence and are independent of chunking; that the auto-sensing decision "
         "list agrees with XML 1.0 appendix F and that a contradictory declaration cannot go unreported. Every intrinsic and several ICU-backed "
         "transcoders are then called on the class enumeration, on a code point sweep (all code points in the thorough tier), on every byte of "
         "the single-byte code pages and on every split position; each call is one trace record accepted iff its result is one the specification "
         "allows. Documents rendered by TLC in every encoding form, with/without BOM and with absent/matching/contradictory declarations are parsed.",
    note="Trusted: TLC, the harness's recording of arguments and results. Single-byte tables are bound by laws (function, injective, Enc o Dec = id, "
         "canTranscodeTo <=> in range, identity ranges, documented differences, EBCDIC invariant characters), not by their 256 values. ICU converters "
         "are always given ample output room. UnRep_Throw only.",
)

CONSTS = {
    "quick": dict(check="Encodings.quick.cfg", gen="EncodingsGen.quick.cfg", stride=48, per_file=40000, par=8),
    "thorough": dict(check="Encodings.thorough.cfg", gen="EncodingsGen.thorough.cfg", stride=1, per_file=150000, par=12),
}


# ---- small classifiers for the `cls` of a disagreement (labels only; the verdict itself is TLC's) -----------------
def _units_class(u):
    i = 0
    while i < len(u):
        if 0xD800 <= u[i] <= 0xDBFF:
            if i + 1 < len(u) and 0xDC00 <= u[i + 1] <= 0xDFFF:
                i += 2
                continue
            return "unpaired-surrogate"
        if 0xDC00 <= u[i] <= 0xDFFF:
            return "unpaired-surrogate"
        i += 1
    return "well-formed"


def _in_class(r):
    k, d, a = r["k"], r["d"], r["in"]
    if d in ("to",):
        c = _units_class(a)
        if c != "well-formed":
            return c
        if a == [0]:
            return "nul"
        if any(0xD800 <= x <= 0xDBFF for x in a):
            return "supplementary"
        return "bmp"
    if d == "can":
        c = a[0]
        return "nul" if c == 0 else "plane16" if c >= 0x100000 else "supplementary" if c >= 0x10000 else "bmp"
    if d in ("from", "tab"):
        if k == "utf8":
            try:
                bytes(a).decode("utf-8")
                return "well-formed"
            except UnicodeDecodeError as e:
                return "truncated" if e.reason == "unexpected end of data" else "ill-formed"
        if k in ("ucs4le", "ucs4be"):
            cl = "well-formed" if len(a) % 4 == 0 else "partial"
            for i in range(0, len(a) - 3, 4):
                w = a[i:i + 4] if k == "ucs4be" else a[i:i + 4][::-1]
                v = (w[0] << 24) | (w[1] << 16) | (w[2] << 8) | w[3]
                if v > 0x10FFFF:
                    return "above-10FFFF"
                if 0xD800 <= v <= 0xDFFF:
                    cl = "surrogate-value"
            return cl
        if k in ("utf16le", "utf16be"):
            if len(a) % 2:
                return "partial"
            u = [(a[i] | (a[i + 1] << 8)) if k == "utf16le" else ((a[i] << 8) | a[i + 1]) for i in range(0, len(a), 2)]
            return _units_class(u)
        if k == "sb":
            return "byte"
    return "-"


_FAM = dict(utf8="utf8", utf16le="utf16", utf16be="utf16", ucs4le="ucs4", ucs4be="ucs4", sb="sb", probe="probe")


def _classify(r, tabs):
    got = "exc:" + r["exc"] if r["exc"] else "ok"
    cls = dict(binder="V", enc=r["n"], svc=r["s"], kind=r["k"], fam=_FAM.get(r["k"], r["k"]), d=r["d"], input=_in_class(r), got=got)
    if r["d"] == "to" and not r["exc"]:
        cls["emitted"] = len(r["out"])
    if r["d"] == "tab":
        cls["byte"] = r["in"][0]
    if r["k"] == "sb" and r["d"] in ("to", "can") and len(r["in"]) == 1:
        # label: does some byte of this code page decode to the character (is it in range(Dec))?
        cls["in_range"] = r["in"][0] in tabs.get(r["n"], ())
    if r["d"] in ("from", "tab") and not r["exc"]:
        cls["substituted"] = (0xFFFD in r["out"])
    if r["d"] == "can":
        cls["got"] = "yes" if r["out"] == [1] else "no"
    return cls


def _validate_files(out, files, par, stats):
    """Run EncodingsTrace on every file (par at a time); report every rejected record."""
    lock = threading.Lock()
    todo = list(files)
    errors = []

    def work():
        while True:
            with lock:
                if not todo:
                    return
                path, n = todo.pop(0)
            try:
                res = C.tlc("EncodingsTrace", "EncodingsTrace.cfg", workers=1, env={"TRACE": path}, timeout=7200, heap="4g", deadlock=False,
                            tool_opts=["-Xss64m", "-Dtlc2.tool.queue.IStateQueue=StateDeque"])
                text = "\n".join(res.text)
                m = re.search(r"TRACE-RESULT\D+(\d+)\D+(\d+)", text)
                b = re.search(r'"TRACE-NBAD",\s*(\d+)', text)
                if not m or not b or int(m.group(1)) != int(m.group(2)) or int(m.group(2)) != n or res.violated:
                    raise C.InfraError("trace validation of %s did not complete: %s" % (path, "\n".join(res.text[-30:])))
                nbad = int(b.group(1))
                idx = []
                for blk in re.findall(r'"TRACE-BAD",\s*<<([^>]*)>>', text, re.S):
                    idx += [int(x) for x in re.findall(r"\d+", blk)]
                if len(idx) != nbad:
                    raise C.InfraError("trace validation of %s: %d rejected records counted, %d listed" % (path, nbad, len(idx)))
                recs = []
                tabs = {}
                if idx:
                    want = set(idx)
                    with open(path) as f:
                        for ln, line in enumerate(f, 1):
                            if '"d":"tab"' in line:
                                tr = json.loads(line)
                                if not tr["exc"] and len(tr["out"]) == 1:
                                    tabs.setdefault(tr["n"], set()).add(tr["out"][0])
                            if ln in want:
                                recs.append((ln, json.loads(line)))
                with lock:
                    stats["records"] += n
                    stats["rejected"] += nbad
                    stats["files"] += 1
                    stats["tlc_cpu_wall_s"] += res.wall
                    for ln, r in recs:
                        out.disagree(_classify(r, tabs), dict(mode="V", file=os.path.basename(path), line=ln, record=r),
                                     "EncodingsTrace rejects the recorded call %s %s(%s) -> out=%s eat=%s exc=%s" %
                                     (r["n"], r["d"], r["in"][:12], r["out"][:12], r["eat"], r["exc"] or "-"))
            except Exception as ex:  # noqa
                with lock:
                    errors.append(ex)

    ts = [threading.Thread(target=work) for _ in range(par)]
    for t in ts:
        t.start()
    for t in ts:
        t.join()
    if errors:
        raise errors[0] if isinstance(errors[0], C.InfraError) else C.InfraError(str(errors[0]))


def _generate(k):
    lines = []
    rg = C.tlc("EncodingsGen", k["gen"], workers=1, on_json=lines.append, timeout=3000, heap="4g")
    if not rg.ok:
        raise C.InfraError("EncodingsGen failed: " + "\n".join(rg.text[-30:]))
    plan = None
    rows = []
    for ln in lines:
        o = C.decode_tlc_json(ln)
        if "plan" in o:
            plan = o
        else:
            rows.append(ln if ln.endswith("\n") else ln + "\n")
    if plan is None or not rows:
        raise C.InfraError("EncodingsGen emitted no plan / no rows")
    return plan, rows, rg


def _run_T(out, exe, rows):
    p = C.Piper([exe, "t"], timeout=3000, nproc=2)
    p.feed_chunk("".join(rows).encode("utf-8"))
    p.close()
    mism, summ, _ = C.harness_results(p.out)
    cnt = summ.get("counts", {})
    if cnt.get("torn", 0) or summ.get("lines", 0) != len(rows):
        raise C.InfraError("T harness read %s of %s rows (torn %s): %s" % (summ.get("lines"), len(rows), cnt.get("torn"), p.err[-5:]))
    for m in mism:
        out.disagree(m["cls"], m["case"], m.get("why", ""))
    return cnt, summ


def run(out, tier):
    k = CONSTS[tier]
    C.build_lib("hooks")
    exe = C.build_harness("enc_harness")
    cov = out.coverage
    # 1. the specification satisfies the property (operational layer vs declarative layer), and the static laws
    r = C.tlc("EncodingsLaws", k["check"], workers=C.NCPU, coverage=True, timeout=9000, heap="12g")
    C.tlc_must_pass(r, "EncodingsLaws/" + k["check"])
    cov["states"] = r.distinct
    cov["transitions"] = r.generated
    cov["spec_check"] = r.summary()
    cov["checker_cmd"] = r.cmd
    cov["spec_action_coverage"] = dict(r.coverage)
    acts = ("Choose", "Extend", "Call", "Finish", "Sense", "Reconcile")
    never = [a for a in acts if r.coverage.get(a, [0, 0])[0] == 0]
    cov["spec_actions_never_taken"] = never
    if never:
        C.log("specification actions never taken in the exhaustive config:", never)
    # 2. generator: plan for V, rows for T
    plan, rows, rg = _generate(k)
    tdir = tempfile.mkdtemp(prefix="c05.", dir=os.path.join(C.BUILD, "tlc"))
    try:
        with open(os.path.join(tdir, "plan.json"), "w") as f:
            json.dump(plan, f)
        # 3. T: documents x encodings x BOM x declaration
        cnt, summ = _run_T(out, exe, rows)
        cov["T"] = dict(rows=cnt.get("rows", 0), agree=cnt.get("agree", 0), mismatches=cnt.get("mismatches", 0),
                        expect_content=cnt.get("expect:content", 0), expect_reported=cnt.get("expect:reported", 0),
                        kinds={a[5:]: b for a, b in cnt.items() if a.startswith("kind:")}, child_failures=summ.get("child_failures", 0))
        # 4. V: record every call, let TLC decide every record
        vdir = os.path.join(tdir, "v")
        os.makedirs(vdir)
        rc, o = C.run([exe, "v", os.path.join(tdir, "plan.json"), vdir, tier, str(k["stride"]), "-", str(k["per_file"])], timeout=7200)
        if rc != 0:
            out.disagree(dict(binder="V", got="crash", rc=rc), dict(mode="V", out=o[-3000:]), "the recorder died while calling the transcoders")
            files, nrec = [], 0
        else:
            s = json.loads([ln for ln in o.splitlines() if ln.startswith("{")][-1])
            files, nrec = [tuple(x) for x in s["files"]], s["records"]
        stats = dict(records=0, rejected=0, files=0, tlc_cpu_wall_s=0.0)
        _validate_files(out, files, k["par"], stats)
        if stats["records"] != nrec:
            raise C.InfraError("validated %s of %s recorded calls" % (stats["records"], nrec))
        stats["tlc_cpu_wall_s"] = round(stats["tlc_cpu_wall_s"], 1)
        by = {}
        for path, _n in files[:1]:
            pass
        cov["V"] = stats
        samples = []
        if files:
            with open(files[0][0]) as f:
                for i, line in enumerate(f):
                    if i in (0, 5000, 20000):
                        samples.append(json.loads(line))
        cov["samples"] = samples + [C.decode_tlc_json(rows[0])]
    finally:
        shutil.rmtree(tdir, ignore_errors=True)
    cov["traces_validated_against_impl"] = stats["files"] + cov["T"]["rows"]
    cov["exhaustive"] = True
    cov["evaluations"] = stats["records"] + cov["T"]["rows"]
    cov["distinct_nontrivial"] = stats["records"] - stats["rejected"] + cov["T"]["agree"]
    cov["rule"] = ("V: one record per call of transcodeFrom/transcodeTo/canTranscodeTo/basicEncodingProbe on an enumeration without repetition "
                   "(byte-class product, split positions, output limits, code point sweep with stride %d, every byte / BMP sample of the single-byte pages); "
                   "T: one TLC-rendered document per row of the sensing/reconciliation table; counted = records/rows whose result the specification accepted"
                   % k["stride"])
    out.assumptions += ["constants of spec/%s and spec/%s" % (k["check"], k["gen"]),
                        "single-byte code pages are bound by laws, not by their 256 values",
                        "ICU converters are given ample output room; encoders are called with UnRep_Throw",
                        "a contradictory declaration counts as reported if any error-handler callback or exception occurs"]


def replay(out, path):
    """Re-run one recorded disagreement on the current tree."""
    C.build_lib("hooks")
    exe = C.build_harness("enc_harness")
    d = json.load(open(path))
    case = d["case"]
    cov = out.coverage
    if case.get("mode") == "T":
        row = dict(row=case["row"], bytes=case["bytes"], expect=case["expect"], content=case["content"], raw=case["raw"])
        cnt, summ = _run_T(out, exe, [json.dumps(json.dumps(row)) + "\n"])
        cov.update(evaluations=1, distinct_nontrivial=2, samples=[row["row"]], states=1, transitions=1, traces_validated_against_impl=1)
        return
    if case.get("mode") != "V":
        raise C.InfraError("unknown replay mode")
    k = CONSTS["quick"]
    plan, rows, rg = _generate(k)
    tdir = tempfile.mkdtemp(prefix="c05r.", dir=os.path.join(C.BUILD, "tlc"))
    try:
        with open(os.path.join(tdir, "plan.json"), "w") as f:
            json.dump(plan, f)
        vdir = os.path.join(tdir, "v")
        os.makedirs(vdir)
        name = case["record"]["n"].replace(".base", "")
        only = name if case["record"]["k"] != "probe" else "-"
        rc, o = C.run([exe, "v", os.path.join(tdir, "plan.json"), vdir, "quick", str(k["stride"]), only, str(k["per_file"])], timeout=7200)
        if rc != 0:
            raise C.InfraError("recorder failed: " + o[-2000:])
        s = json.loads([ln for ln in o.splitlines() if ln.startswith("{")][-1])
        stats = dict(records=0, rejected=0, files=0, tlc_cpu_wall_s=0.0)
        _validate_files(out, [tuple(x) for x in s["files"]], k["par"], stats)
        want = json.dumps(d["cls"], sort_keys=True)
        out.disagreements = [x for x in out.disagreements if json.dumps(x["cls"], sort_keys=True) == want]
        cov.update(evaluations=stats["records"], distinct_nontrivial=max(2, stats["records"] - stats["rejected"]), samples=[case["record"]],
                   states=1, transitions=1, traces_validated_against_impl=stats["files"])
    finally:
        shutil.rmtree(tdir, ignore_errors=True)
