"""C15 - a parser's result is independent of its history; cached grammars are transparent.

Specification spec/ParserLifecycle.tla (operational: cfg with the cache/use coupling, transient scanner state re-established by
scanReset, progressive-scan sequence ids, grammar resolver bucket / referenced-from-pool / pool / lock flag, document pool;
declarative: OutcomeIsFunctionOfInputs, DeclaredVerdict, ResetEstablishesInit, PoolFrozenWhileLocked, StaleTokenRejected,
AdoptedIntact).  Binder W (spec/ParserLifecycleWalk.tla, harness/life_harness.cpp): every operation history TLC generates
(exhaustively to length 3, simulated to length 24) is executed on ONE real parser object per API (SAXParser, SAX2XMLReader,
XercesDOMParser, DOMLSParser) x scanner (IG, WF, DG, SG); after every parse the canonical dump must equal the dump of the same
parse on a freshly constructed parser and the abstract outcome TLC computed; stale tokens must be refused; the pool's keys must be
the specification's after every step; adopted documents are re-dumped after every later step.

Mutants (mutants/C15/*.diff; `./bin/mutant-run C15 mutants/C15/*.diff`, quick tier):
  no_standalone_reset          IGXMLScanner::scanReset without fStandalone = false                      DETECTED (differs-from-fresh, doc 10 after doc 4)
  no_validation_ctx_reset      IGXMLScanner::scanReset without resetValidationContext()                 DETECTED (differs-from-fresh: duplicate ID / dangling IDREF)
  no_seqid_bump                IGXMLScanner::scanDocument without fSequenceId++                         DETECTED (stale-token-accepted, crash in parseNext)
  no_readermgr_reset_on_fatal  IGXMLScanner::scanDocument releases the ReaderMgr janitor on a first fatal DETECTED (differs-from-fresh after a malformed document)
  cache_ignores_lock           XMLGrammarPoolImpl::cacheGrammar ignores fLocked                         DETECTED
  seeded/C15-a2                GrammarResolver::getGrammar consults fGrammarFromPool without the fUseCachedGrammar guard  see mutants/C15/RESULTS.txt
                               (needs two grammars for one key: schema documents 11/12 name SB for urn:x, loadGrammar(X) caches SA)
Not covered by a source mutant: fDTDElemNonDeclPool->removeAll() (no later dump depends on the undeclared-element pool; it is part of
ResetEstablishesInit on the specification only - a scanReset hook (family H5) would be needed to bind it).
Genuine defects of the pinned tree found by this check: known_findings.d/C15.json.
"""
import json
import os

from vf import common as C

META = dict(
    property_id="C15", engine="ParserLifecycle", category="model_checking", design_ref="DESIGN.md §4 C15",
    technique="explicit TLA+ specification (ParserLifecycle) model-checked with TLC; TLC-generated operation histories (exhaustive and "
              "simulated) replayed on one real parser object per API x scanner and compared with a fresh parser and with the specification's outcome (W)",
    text="TLC checks exhaustively (6 documents, 1 loadable grammar, every operation history of length 3 over parse with handler exception at "
         "callback k, parseFirst/parseNext/parseReset, setFeature, loadGrammar, pool reset/lock/unlock, adoptDocument, resetDocumentPool) that "
         "the outcome of every parse is the outcome of the same parse from the initial state, that scanReset re-establishes the initial "
         "transient state, that a locked pool is frozen, stale tokens are refused and adopted documents stay intact. Every such history, and "
         "random histories of length 24 over 10 documents, are executed on real parser objects of all four APIs and four scanners; each parse "
         "is compared event by event with the same parse on a fresh parser.",
    note="Trusted: TLC, harness/common/parsedump.hpp (canonical dump), the document table of the harness rendering the specification's DocTab. "
         "DTD grammars, plus one pair of XML Schema grammars for one namespace (cached versus inline; not cached from a parse; no PSVI); declaration events of the DOCTYPE are not compared when cached grammars are in use; "
         "state that cannot influence any later dump (undeclared-element pool, counters) is checked on the specification only.",
)

# exhaustive stage of the quick tier: every API on the main scanner, and one API on each of the other scanners
EXH_COMBOS = "SAX/IGXMLScanner,SAX2/IGXMLScanner,DOM/IGXMLScanner,DOMLS/IGXMLScanner,SAX2/DGXMLScanner,SAX/WFXMLScanner,DOM/SGXMLScanner"
CONSTS = {
    "quick": dict(check="ParserLifecycle.quick.cfg", exh="ParserLifecycleWalk.exh.cfg", sims=96, simdepth=25, combos=EXH_COMBOS),
    "thorough": dict(check="ParserLifecycle.thorough.cfg", exh="ParserLifecycleWalk.exh.cfg", sims=2400, simdepth=25, combos="all"),
}
NEG = [("ParserLifecycle.forget.cfg", "a reset line left out of ScanReset"), ("ParserLifecycle.ascoded.cfg", "stale readers after an abandoned progressive run"),
       ("ParserLifecycle.useguard.cfg", "grammars referenced from the pool consulted without the useCachedGrammarInParse guard")]
CACHE_COMBOS = "SAX2/IGXMLScanner,DOM/IGXMLScanner,DOMLS/IGXMLScanner"


def _walks(out, cfg, exe, combos, simulate=None, depth=None, timeout=6000, nproc=8):
    p = C.Piper([exe, "w", combos], timeout=timeout, nproc=nproc)
    res = C.tlc("ParserLifecycleWalk", cfg, workers=8, on_chunk=p.feed_chunk, simulate=simulate, depth=depth, timeout=timeout, heap="8g")
    p.close()
    if not res.ok:
        raise C.InfraError("TLC generator ParserLifecycleWalk/%s failed: rc=%s violated=%s\n%s" % (cfg, res.rc, res.violated, "\n".join(res.text[-40:])))
    mism, summ, _ = C.harness_results(p.out)
    cnt = summ.get("counts", {})
    if cnt.get("torn", 0):
        raise C.InfraError("torn TLC lines reached the harness: %s" % cnt.get("torn"))
    if summ.get("lines", 0) != p.n:
        raise C.InfraError("harness read %s of %s generated histories\n%s" % (summ.get("lines"), p.n, "\n".join(p.err[-20:])))
    if p.n == 0:
        raise C.InfraError("TLC generator ParserLifecycleWalk/%s emitted nothing" % cfg)
    for m in mism:
        out.disagree(m["cls"], m["case"], m.get("why", ""))
    return res, cnt, p


def run(out, tier):
    k = CONSTS[tier]
    C.build_lib("hooks")
    exe = C.build_harness("life_harness")
    cov = out.coverage
    # 1. the specification satisfies property C15
    r = C.tlc("ParserLifecycle", k["check"], workers=8, coverage=True, timeout=6000, heap="8g")
    C.tlc_must_pass(r, "ParserLifecycle/" + k["check"])
    cov["states"] = r.distinct
    cov["transitions"] = r.generated
    cov["spec_check"] = r.summary()
    cov["checker_cmd"] = r.cmd
    acts = {a: v for a, v in r.coverage.items() if a.startswith("Do")}
    cov["spec_action_coverage"] = acts
    cov["spec_actions_never_taken"] = [a for a, v in acts.items() if v[0] == 0]
    if cov["spec_actions_never_taken"]:
        C.log("specification actions never taken in the exhaustive config:", cov["spec_actions_never_taken"])
    # 1a. grammar lookup order over two different grammars for one key (schema documents 11, 12; loadGrammar X): bucket -> referenced-from-pool
    #     only if useCached -> pool only if useCached
    rc_ = C.tlc("ParserLifecycle", "ParserLifecycle.cache.cfg", workers=8, timeout=6000, heap="8g")
    C.tlc_must_pass(rc_, "ParserLifecycle/ParserLifecycle.cache.cfg")
    cov["spec_check_cache"] = rc_.summary()
    # 1b. the declarative layer is not vacuous: the mutated specifications must be refuted by TLC
    neg = {}
    for cfg, what in NEG:
        rn = C.tlc("ParserLifecycle", cfg, workers=4, timeout=3000, heap="4g", extra=("-noGenerateSpecTE",))
        neg[cfg] = dict(what=what, violated=rn.violated)
        if rn.ok or not rn.violated:
            raise C.InfraError("model failure: %s (%s) is not refuted by TLC" % (cfg, what))
    cov["refuted_specification_mutants"] = neg
    # 2. W simulated: long random histories over the whole document pool, all 16 API x scanner combinations
    rs, cs, ps = _walks(out, "ParserLifecycleWalk.sim.cfg", exe, "all", simulate=max(1, k["sims"] // 8), depth=k["simdepth"] + 1)
    # 2b. W directed: every history of length 6 over {parse(schema doc), setFeature(use / schema), loadGrammar(X)}: cached versus inline grammar
    #     for the same key, before and after useCachedGrammarInParse is switched off again
    rd_, cd, pd_ = _walks(out, "ParserLifecycleWalk.cache.cfg", exe, CACHE_COMBOS)
    # 3. W exhaustive: every history of the small configuration.  Skipped when stage 2 already found an unexplained
    #    disagreement (the verdict is VIOLATION either way; on the unchanged tree this stage always runs).
    known = C.load_known()
    unexplained = [d for d in out.disagreements if C.match_known("C15", d["cls"], known) is None]
    if unexplained:
        C.log("stage 2 found %d unexplained disagreements; the exhaustive stage is skipped" % len(unexplained))
        ce, pe, re_ = {}, None, None
    else:
        re_, ce, pe = _walks(out, k["exh"], exe, k["combos"])
    def pick(c):
        keys = ("walks", "runs", "parses", "outcomes_compared", "pools_compared", "pools_compared_locked", "pfirsts", "pnexts", "presets",
                "stale_rejected", "token_ok", "progressive_complete", "sets", "loads", "locks", "unlocks", "resetpools", "resetdocs", "adopts",
                "adopted_redumped", "mismatches", "stopped:after-hazard", "skipped:ls-handler", "skipped:ls-progressive", "pnext_after_end")
        d = {x: c.get(x, 0) for x in keys}
        d["how"] = {x[4:]: v for x, v in c.items() if x.startswith("how:")}
        return d
    cov["W_exhaustive"] = dict(histories=pe.n, generator=re_.summary(), combos=k["combos"], **pick(ce)) if pe else dict(skipped="unexplained disagreement in the simulated stage")
    cov["W_simulated"] = dict(histories=ps.n, depth=k["simdepth"], **pick(cs))
    cov["W_directed_cache"] = dict(histories=pd_.n, combos=CACHE_COMBOS, generator=rd_.summary(), **pick(cd))
    cov["traces_validated_against_impl"] = ce.get("runs", 0) + cs.get("runs", 0) + cd.get("runs", 0)
    cov["samples"] = [C.decode_tlc_json(s) for s in (pe.samples[:2] if pe else [])] + [C.decode_tlc_json(s)[:6] for s in ps.samples[:1]]
    cov["exhaustive"] = True
    cov["evaluations"] = cd.get("parses", 0) + ce.get("parses", 0) + cs.get("parses", 0) + ce.get("progressive_complete", 0) + cs.get("progressive_complete", 0)
    cov["distinct_nontrivial"] = (pe.n if pe else 0) + ps.n + pd_.n
    cov["rule"] = ("evaluations = parses of a reused parser compared event by event with a fresh parser; distinct = operation histories generated by TLC "
                   "(each executed on API x scanner combinations %s; simulated ones on all 16); non-trivial = the history contains at least one parse after another operation" % k["combos"])
    out.assumptions += ["constants of spec/%s, spec/%s and spec/ParserLifecycleWalk.sim.cfg" % (k["check"], k["exh"]),
                        "documents / DTDs of harness/life_harness.cpp render DocTab / GramTab of the specification",
                        "DTD grammars only; declaration events are not compared when cached grammars are used"]


def replay(out, path):
    """Re-run one recorded disagreement: the history is executed again (fresh-parser comparison only)."""
    C.build_lib("hooks")
    exe = C.build_harness("life_harness")
    d = json.load(open(path))
    case = d["case"]
    hist = list(case.get("history", []))
    if case.get("op"):
        hist.append(case["op"])
    combo = case.get("combo", "all")
    rc, o = C.run([exe, "probe", combo], input=json.dumps(hist) + "\n", timeout=300)
    if rc != 0:
        out.disagree(d["cls"], case, "the history does not return (rc=%s)" % rc)
    mism, summ, _ = C.harness_results(o.splitlines())
    for m in mism:
        cls = dict(m["cls"])
        cls["hz"] = d["cls"].get("hz", "")
        out.disagree(cls, m["case"], m.get("why", ""))
    out.coverage.update(evaluations=len(hist), distinct_nontrivial=1, samples=[hist], states=1, transitions=1, traces_validated_against_impl=1)
