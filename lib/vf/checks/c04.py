"""C04 - the parse result is independent of input chunking, buffer alignment and source type.

Specification: spec/ReaderBuf.tla (+ ReaderBufOps.tla) - XMLReader's raw/char double buffer with one action per step of
refreshCharBuffer / xcodeMoreChars / refreshRawBuffer / transcodeFrom, arbitrary short reads, look-ahead refreshes with
spare characters; TLC checks IndexBounds, ByteConservation, CharConservation, Progress, EofSound, DeliveredPrefix,
DeliveredAll (Delivered = Decode(stream) for every partition), LookAheadSound, and termination under fairness of the
consumer (ReaderBuf.live.cfg).  The reader AS CODED is a negative configuration (ReaderBuf.ascoded.cfg): TLC must find the
EofSound counterexample (DESIGN.md 6.1).
Binder T (spec/ReaderBufGen.tla -> harness/reader_harness t): documents with a hazard construct slid over the real refill
points (16384 characters / 49152 bytes, offsets -8..+8), delivered from memory, one byte per read, TLC-chosen partitions and
through a short-reading XMLFileMgr; dumps must be identical and equal to the specification's expected events.
Binder V (spec/ReaderBufTrace.tla): the H1/H2 hook events of those parses validated with the real constants.

Mutants (mutants/C04/*.diff, ./bin/mutant-run C04): see the list at the end of this file's META note.
"""
import glob
import json
import os
import re
import shutil
import tempfile
import threading
import time

from vf import common as C

META = dict(
    property_id="C04", engine="ReaderBuf", category="model_checking", design_ref="DESIGN.md §4 C04",
    technique="explicit TLA+ specification of XMLReader's double buffer (ReaderBuf) model-checked with TLC for every partition of small "
              "streams; TLC-generated boundary-straddling documents and read partitions replayed on the real parser (T); hook traces of "
              "those parses validated against the specification with the real buffer sizes (V)",
    text="TLC proves, for all streams of <= 3-4 characters of 1-4 bytes (incl. surrogate pairs and streams ending inside a sequence), every "
         "partition into reads, two low-water marks and every placement of look-ahead refreshes, that what the reader delivers equals "
         "Decode(stream), that no byte is lost or decoded twice and that end of input is declared soundly. The same step definitions "
         "validate the refreshCharBuffer/xcodeMoreChars/refreshRawBuffer event streams of ~10^4 real parses at the real sizes "
         "(16384/49152), and ~1300 TLC-generated documents that slide 19 hazard constructs over the real refill points are parsed "
         "under 11 deliveries each; dumps (content, errors, line and column) must agree with each other and with the specification.",
    note="Trusted: TLC, the hook lines (add-only, at the ends of the four functions), harness/common/parsedump.hpp as the event "
         "projection, the table-driven renderer. UTF-8 documents only in T (other encodings: C05); external entities/DTD readers are "
         "validated by V when they occur but T pads only the document entity. Mutants detected: see mutants/C04/RESULTS.txt.",
)

TIERS = {
    "quick": dict(check="ReaderBuf.quick.cfg", gen="ReaderBufGen.quick.cfg", trace_every=16, shards=4, stack="ReaderStack.quick.cfg"),
    "thorough": dict(check="ReaderBuf.thorough.cfg", gen="ReaderBufGen.thorough.cfg", trace_every=2, shards=8, stack="ReaderStack.thorough.cfg"),
}


def _bg(fn, *a, **k):
    box = {}

    def run():
        try:
            box["r"] = fn(*a, **k)
        except BaseException as e:      # re-raised by the caller
            box["e"] = e
    t = threading.Thread(target=run, daemon=True)
    t.start()
    return t, box


def _join(tb):
    t, box = tb
    t.join()
    if "e" in box:
        raise box["e"]
    return box["r"]


# ---- trace validation shared with c01 -------------------------------------------------------------------------------------

_RE_V = re.compile(r'<<(\d+), "(\w+)", (\d+)>>')


def split_calls(paths):
    """Read the per-process trace files; return (list of calls, unfinished) where a call is the list of its lines
    (Call .. Return). Lines of a call that never returned (the child died) are dropped - the crash itself is reported by
    the supervisor."""
    calls, unfinished = [], 0
    split_calls.unfinished = []          # (trace file, Call line) of calls that never returned
    nid = 0
    for p in paths:
        cur = None
        with open(p, errors="replace") as f:
            for ln in f:
                if ln.startswith('{"api"'):            # the harness's Call line (keys sorted: api first)
                    if cur is not None:
                        unfinished += 1
                        split_calls.unfinished.append((p, cur[0]))
                    # the harness's ids are per process: renumber so that an id names one call of this run
                    nid += 1
                    try:
                        o = json.loads(ln)
                        o["id"] = nid
                        ln = json.dumps(o, separators=(",", ":")) + "\n"
                    except ValueError:
                        pass
                    cur = [ln]
                elif cur is not None:
                    cur.append(ln)
                    if ln.startswith('{"e":"Return"'):
                        calls.append(cur)
                        cur = None
            if cur is not None:
                unfinished += 1
                split_calls.unfinished.append((p, cur[0]))
    return calls, unfinished


def call_info(call):
    try:
        o = json.loads(call[0])
    except ValueError:
        return {}
    return o


def validate_calls(module, cfg, calls, shards, tdir, out, prop_cls, max_rounds=5, timeout=6000):
    """Validate the calls in `shards` parallel TLC runs. Soft statement failures (TRACE-VIOLATION) and hard rejections are
    reported through out.disagree. Returns dict(events, calls_accepted, calls, violations, rejected)."""
    stats = dict(events=0, calls=len(calls), calls_accepted=0, soft=0, hard=0, statements={})
    if not calls:
        return stats
    byid = {}
    for c in calls:
        byid[call_info(c).get("id")] = c
    # shards of roughly equal event counts
    calls = sorted(calls, key=len, reverse=True)
    bins = [[] for _ in range(max(1, min(shards, len(calls))))]
    sizes = [0] * len(bins)
    for c in calls:
        i = sizes.index(min(sizes))
        bins[i].append(c)
        sizes[i] += len(c)
    lock = threading.Lock()

    def work(i, mycalls):
        rounds = 0
        while mycalls and rounds < max_rounds:
            rounds += 1
            path = os.path.join(tdir, "shard%d-%d.ndjson" % (i, rounds))
            with open(path, "w") as f:
                for c in mycalls:
                    f.writelines(c)
            acc, matched, total, res = C.validate_trace(module, cfg, path, timeout=timeout, heap="6g")
            soft = set()
            for ln in res.text:
                if "TRACE-VIOLATION" in ln:
                    for m in _RE_V.finditer(ln):
                        soft.add((int(m.group(1)), m.group(2), int(m.group(3))))
            bad_ids = set(s[0] for s in soft)
            with lock:
                stats["events"] += matched
                for cid, stmt, subj in sorted(soft):
                    info = call_info(byid.get(cid, ["{}"]))
                    stats["soft"] += 1
                    stats["statements"][stmt] = stats["statements"].get(stmt, 0) + 1
                    cls = dict(binder="V", statement=stmt)
                    cls.update(prop_cls(info))
                    out.disagree(cls, dict(mode="V", call=info, subject=subj),
                                 "the recorded execution violates %s of the specification (call %s: %s)" % (stmt, cid, info.get("d", "")))
            if acc:
                with lock:
                    stats["calls_accepted"] += len([c for c in mycalls if call_info(c).get("id") not in bad_ids])
                return
            if res.violated or [e for e in res.errors if "ostcondition" not in e]:
                raise C.InfraError("trace specification failed on %s: %s\n%s" % (path, res.violated or res.errors[:2], "\n".join(res.text[-30:])))
            # hard rejection at line matched+1: find the call, report it, drop it, validate the rest again
            n = 0
            culprit = None
            for k, c in enumerate(mycalls):
                if n + len(c) > matched:
                    culprit = k
                    break
                n += len(c)
            if culprit is None:
                raise C.InfraError("trace rejected beyond its end: %s" % path)
            c = mycalls[culprit]
            info = call_info(c)
            line = c[matched - n] if matched - n < len(c) else ""
            try:
                ev = json.loads(line)
            except ValueError:
                ev = {}
            keep = os.path.join(C.REPLAY, out.prop)
            os.makedirs(keep, exist_ok=True)
            kept = os.path.join(keep, "trace-%s.ndjson" % info.get("id"))
            with open(kept, "w") as f:
                f.writelines(c[:matched - n + 1])
            cls = dict(binder="V", statement="no-matching-step", event=ev.get("e"))
            cls.update(prop_cls(info))
            with lock:
                stats["hard"] += 1
                stats["calls_accepted"] += len([x for x in mycalls[:culprit] if call_info(x).get("id") not in bad_ids])
                out.disagree(cls, dict(mode="V", call=info, trace=kept, line=matched - n + 1, event=ev),
                             "no step of the specification explains line %d (%s) of the recorded call %s" % (matched - n + 1, line.strip()[:200], info.get("d", "")))
            mycalls = mycalls[culprit + 1:]
        if mycalls:
            with lock:
                stats["not_validated"] = stats.get("not_validated", 0) + len(mycalls)

    ths = [_bg(work, i, b) for i, b in enumerate(bins)]
    for t in ths:
        _join(t)
    return stats


def _cls_of_call(info):
    d = info.get("d", "")
    parts = d.split("/")
    return dict(hz=parts[0] if parts else "", dl=(parts[3].split(":")[0] if len(parts) > 3 else ""))


def _run_T(out, k, exe, tdir, timeout=6000, lines=None):
    tprefix = os.path.join(tdir, "tr")
    tmp = os.path.join(tdir, "tmp")
    os.makedirs(tmp, exist_ok=True)
    p = C.Piper([exe, "t", tprefix, str(k["trace_every"]), tmp, "600"], timeout=timeout, nproc=8)
    if lines is not None:
        for ln in lines:
            p.feed(ln)
        res = None
    else:
        res = C.tlc("ReaderBufGen", k["gen"], workers=2, on_chunk=p.feed_chunk, timeout=timeout, heap="4g")
    p.close()
    if res is not None and not res.ok:
        raise C.InfraError("TLC generator ReaderBufGen/%s failed: rc=%s violated=%s\n%s" % (k["gen"], res.rc, res.violated, "\n".join(res.text[-40:])))
    mism, summ, _ = C.harness_results(p.out)
    infra = [ln for ln in p.out if ln.startswith('{"t":"infra"') or '"t":"infra"' in ln[:30]]
    if infra:
        raise C.InfraError("renderer/table error: " + infra[0][:300])
    cnt = summ.get("counts", {})
    if cnt.get("torn", 0):
        raise C.InfraError("torn TLC lines reached the harness: %s" % cnt.get("torn"))
    if summ.get("lines", 0) != p.n:
        raise C.InfraError("harness read %s of %s generated lines\n%s" % (summ.get("lines"), p.n, "\n".join(p.err[-20:])))
    if p.n == 0:
        raise C.InfraError("generator emitted nothing")
    for m in mism:
        out.disagree(m["cls"], m["case"], m.get("why", ""))
    return res, summ, cnt, p, glob.glob(tprefix + ".*")


def run(out, tier):
    k = TIERS[tier]
    C.build_lib("hooks")
    exe = C.build_harness("reader_harness")
    cov = out.coverage
    os.makedirs(os.path.join(C.BUILD, "tlc"), exist_ok=True)
    tdir = tempfile.mkdtemp(prefix="c04.", dir=os.path.join(C.BUILD, "tlc"))
    try:
        # 1. the specification satisfies the property (runs concurrently with the binders)
        t_check = _bg(C.tlc, "ReaderBuf", k["check"], workers=8, coverage=True, timeout=9000, heap="8g")
        t_live = _bg(C.tlc, "ReaderBuf", "ReaderBuf.live.cfg", workers=2, timeout=9000, heap="4g")
        t_neg = _bg(C.tlc, "ReaderBuf", "ReaderBuf.ascoded.cfg", workers=1, timeout=3000, heap="2g", extra=("-noGenerateSpecTE",))
        # 2. T: TLC-generated straddle cases on the real parser
        rg, summ, cnt, p, tfiles = _run_T(out, k, exe, tdir)
        # 3. V: hook traces of those parses against ReaderBufTrace with the real constants
        calls, unfinished = split_calls(tfiles)
        vs = validate_calls("ReaderBufTrace", "ReaderBufTrace.cfg", calls, k["shards"], tdir, out, _cls_of_call)
        r = _join(t_check)
        C.tlc_must_pass(r, "ReaderBuf/" + k["check"])
        rl = _join(t_live)
        C.tlc_must_pass(rl, "ReaderBuf/ReaderBuf.live.cfg (termination)")
        rn = _join(t_neg)
        if rn.violated != "EofSound":
            raise C.InfraError("negative configuration ReaderBuf.ascoded.cfg: TLC did not find the EofSound counterexample (violated=%s ok=%s)"
                               % (rn.violated, rn.ok))
        cov["states"] = r.distinct
        cov["transitions"] = r.generated
        cov["spec_check"] = r.summary()
        cov["spec_liveness"] = rl.summary()
        cov["spec_negative_as_coded"] = dict(violated=rn.violated, states=rn.distinct)
        cov["checker_cmd"] = r.cmd
        cov["spec_action_coverage"] = {a: v for a, v in r.coverage.items()}
        cov["spec_actions_never_taken"] = [a for a, v in r.coverage.items() if v[0] == 0]
        hz = {a[3:]: v for a, v in cnt.items() if a.startswith("hz:")}
        covhz = {a[4:]: v for a, v in cnt.items() if a.startswith("cov:")}
        cov["T"] = dict(cases=cnt.get("cases", 0), parses=cnt.get("parses", 0), compared_with_one_piece=cnt.get("compared", 0),
                        expectation_ok=cnt.get("expect_ok", 0), expectation_bad=cnt.get("expect_bad", 0),
                        delivery_differs=cnt.get("delivery_differs", 0),
                        deliveries={a[3:]: v for a, v in cnt.items() if a.startswith("dl:")},
                        scanners={a[3:]: v for a, v in cnt.items() if a.startswith("sc:")},
                        returns={a[4:]: v for a, v in cnt.items() if a.startswith("ret:")},
                        hazards=hz, hazards_with_refill_inside=covhz,
                        parses_with_raw_refill_inside_hazard=cnt.get("straddle_raw", 0),
                        parses_with_char_refill_inside_hazard=cnt.get("straddle_char", 0),
                        one_piece_parses_with_refill_inside_hazard=cnt.get("straddle_raw:mem", 0) + cnt.get("straddle_char:mem", 0),
                        cases_with_refill_inside_hazard=cnt.get("cases_straddled", 0),
                        child_failures=summ.get("child_failures", 0), generator=rg.summary() if rg else None)
        cov["V"] = dict(calls=vs["calls"], calls_accepted=vs["calls_accepted"], events=vs["events"], statement_failures=vs["statements"],
                        hard_rejections=vs["hard"], unfinished_calls=unfinished, not_validated=vs.get("not_validated", 0))
        cov["traces_validated_against_impl"] = vs["calls_accepted"]
        cov["samples"] = [C.decode_tlc_json(s) for s in p.samples[:1]]
        for s in cov["samples"]:
            s["dl"] = s["dl"][:4]
        if calls:
            cov["samples"].append(dict(trace_head=[json.loads(x) for x in calls[0][:12]]))
        cov["exhaustive"] = True
        cov["evaluations"] = cnt.get("parses", 0)
        cov["distinct_nontrivial"] = cnt.get("cases_straddled", 0)
        cov["rule"] = ("T: one case per (hazard, refill point, offset) of %s, each parsed under every delivery; non-trivial = the H1 events "
                       "show a raw or character refill strictly inside the hazard construct in at least one delivery" % k["gen"])
        # "badbyte" is one byte long and "trunc" lives behind the root element: nothing can fall strictly inside them
        missing = [h for h in hz if covhz.get(h, 0) == 0 and h not in ("trunc", "badbyte")]
        if missing:
            raise C.InfraError("no refill was observed inside hazard(s) %s: the straddle generator does not cover them" % missing)
        out.assumptions += ["constants of spec/%s (exhaustive) and spec/%s (generator)" % (k["check"], k["gen"]),
                            "hook events CRB/CRE/Raw/Xc/RdrNew/RdrInit/RdrDel/Push/Pop/CleanTo/RdrReset are emitted at the ends of the functions they name",
                            "UTF-8 documents; expected events come from the document structure in ReaderBufGen.tla"]
    finally:
        shutil.rmtree(tdir, ignore_errors=True)


def replay(out, path):
    """Re-run one recorded disagreement: a T case (hazard, refill point, offset) or a kept trace."""
    C.build_lib("hooks")
    exe = C.build_harness("reader_harness")
    os.makedirs(os.path.join(C.BUILD, "tlc"), exist_ok=True)
    tdir = tempfile.mkdtemp(prefix="c04r.", dir=os.path.join(C.BUILD, "tlc"))
    try:
        if path.endswith(".ndjson"):
            lines = open(path).readlines()
            if not any('"Return"' in x for x in lines[-1:]):
                lines.append('{"e":"Return","kind":"Ok","fatals":0}\n')
            calls = [lines]
            vs = validate_calls("ReaderBufTrace", "ReaderBufTrace.cfg", calls, 1, tdir, out, _cls_of_call, max_rounds=1)
            out.coverage.update(evaluations=1, distinct_nontrivial=1, samples=[path], states=1, transitions=1, traces_validated_against_impl=vs["calls_accepted"])
            return
        d = json.load(open(path))
        case = d["case"]
        if case.get("mode") == "V":
            raise C.InfraError("replay the kept trace file %s instead" % case.get("trace"))
        gen = []
        C.tlc("ReaderBufGen", TIERS["thorough"]["gen"], workers=2, on_json=gen.append, timeout=3000)
        sel = []
        for ln in gen:
            c = C.decode_tlc_json(ln)
            if c["hz"] == case["hz"] and c["bk"] == case["bk"] and c["off"] == case["off"]:
                sel.append(ln)
        if not sel:
            raise C.InfraError("case not found in the generator output")
        k = dict(TIERS["thorough"], trace_every=1)
        _run_T(out, k, exe, tdir, lines=sel)
        out.coverage.update(evaluations=len(sel), distinct_nontrivial=len(sel), samples=[case], states=1, transitions=1, traces_validated_against_impl=0)
    finally:
        shutil.rmtree(tdir, ignore_errors=True)
