"""C12 - serialised DOM re-parses to an equal tree; output is always well-formed.

Specification spec/Serializer.tla (+ SerializerMC constants, SerializerGen emitter, SerializerFmt for XMLFormatter alone).
Binder T: every case (document, configuration) that TLC enumerates is built through the DOM API, serialised by
DOMLSSerializer in concrete encodings of the case's encoding class and compared with the specification's expectation:
verdict (error reported / not), output text (rendered from the specification's items with a fixed table), re-parsed tree
(harness projection vs Parse(Ser(doc))), isEqualNode(original, re-parsed) vs the specification's answer, byte equality
of the second serialisation, warning on forced CDATA splits.  XMLFormatter::formatBuf alone is driven through every
(escape mode, unrepresentable-flag, encoding class, version) row on all values of <= 2 characters.
Block loops of XMLFormatter (kTmpBufSize): spec/SerializerChunk.tla models handleUnEscapedChars' loop (every character of a run
written exactly once, in order, for all runs around the block size and all character widths); spec/SerializerLong.tla proves
uniformity of Ser in the repetition count on n = 1..3 and emits one-class values repeated N times (N around 16384 code units /
16384 UTF-8 bytes) for text, attribute value, CDATA and comment in every encoding class - bound through the same binder T.

Mutants (mutants/C12/*.diff; output of bin/mutant-run in mutants/C12/RESULT.txt):
  cr-not-escaped                  chCR removed from the CharEscapes list of XMLFormatter
  gt-not-escaped                  chCloseAngle removed from the CharEscapes list (']]>' reaches text)
  unrep-replace                   DOMLSSerializer writes data with UnRep_Replace instead of character references
  nsdecl-twice                    explicit xmlns attribute no longer suppressed after the fix-up declared the prefix
  cdata-unrep-no-resume           procUnrepCharInCdataSection keeps writing references after the unrepresentable run ended
  xml11-controls-unescaped        XMLFormatter XML 1.1 control-character test inverted (binder F)
  cdata-end-marker-not-at-start   split-cdata-sections=false: ']]>' at the very start of the value no longer reported (!= -1 became > 0)
  seeded/C12-a2                   handleUnEscapedChars decrements by the chars offered, not consumed (long runs truncated): long cases
Genuine defects found on the unchanged tree are listed in known_findings.d/C12.json (17 entries).
"""
import json
import os
import threading

from vf import common as C

META = dict(
    property_id="C12", engine="Serializer", category="model_checking", design_ref="DESIGN.md §4 C12",
    technique="explicit TLA+ specification (Serializer: XMLFormatter decision table, DOMLSSerializer node dispatch, CDATA splitting, "
              "namespace fix-up; declarative layer = token-level well-formedness, Parse, round trip, idempotence) model-checked with TLC; "
              "every enumerated case replayed on DOMLSSerializer / XMLFormatter / XercesDOMParser (binder T)",
    text="TLC checks exhaustively (all documents within the node/character bounds over 16 character classes x 4 encoding classes x "
         "split-cdata-sections x XML 1.0/1.1 x document/element target x BOM) that the serialiser model errs exactly on inexpressible "
         "content and otherwise writes well-formed output that parses back to the same tree (up to forced CDATA splits) and serialises "
         "to the same bytes again; every such case is executed on xerces-c and output text, verdict, re-parsed tree, isEqualNode and "
         "second serialisation are compared with the specification's answers.",
    note="Trusted: TLC; the harness's class->character table and item renderer; XercesDOMParser as the re-parser (its own conformance is "
         "C02/C03); the library's decoders for windows-1252/EBCDIC output. Not modelled: pretty printing, DOMLSSerializerFilter, "
         "entity-reference/doctype/entity nodes, discard-default-content, conflicting prefix bindings on one element, PI data starting "
         "with white space, empty text nodes, file targets.",
)

GEN = ["rich10", "rich11", "struct", "ns", "names"]


def _run_gen(out, name, tier, exe, results, workers):
    cfg = "SerializerGen.%s.%s.cfg" % (name, tier)
    try:
        # timeouts: the largest configuration needs ~5 CPU-minutes; the slack is for a machine shared by many builders
        p = C.Piper([exe, "t", tier], timeout=13000, nproc=4 if name.startswith("rich") else 2)
        r = C.tlc("SerializerGen", cfg, workers=workers, coverage=True, on_chunk=p.feed_chunk, timeout=12000, heap="8g")
        p.close()
        results[name] = (r, p, None)
    except Exception as e:      # reported by the caller (thread)
        results[name] = (None, None, e)


def _collect(out, name, r, p, what):
    C.tlc_must_pass(r, what)
    mism, summ, _ = C.harness_results(p.out)
    cnt = summ.get("counts", {})
    if cnt.get("torn", 0):
        raise C.InfraError("torn TLC lines reached the harness (%s): %s" % (what, cnt.get("torn")))
    if summ.get("lines", 0) != p.n:
        raise C.InfraError("harness read %s of %s generated lines (%s)\n%s" % (summ.get("lines"), p.n, what, "\n".join(p.err[-20:])))
    if p.n == 0:
        raise C.InfraError("TLC generator %s emitted nothing" % what)
    known = C.load_known()
    for m in mism:
        cls = m["cls"]
        # a case may carry several classification tags (specification operator Tags); the disagreement is attributed to the
        # tag under which it is a listed finding, otherwise to the first tag
        line = m["case"].get("line")
        if m["case"].get("mode") == "T" and isinstance(line, list) and len(line) > 7:
            for t in sorted(line[10] if len(line) == 11 else line[7]):       # 11 fields: long-run case of SerializerLong
                cand = dict(cls, action=t[0], contains=t[1])
                if C.match_known("C12", cand, known) is not None:
                    cls = cand
                    break
        out.disagree(cls, m["case"], m.get("why", ""))
    return cnt, summ


def run(out, tier):
    C.build_lib("hooks")
    exe = C.build_harness("ser_harness")
    cov = out.coverage
    results = {}
    # 1+2. one TLC run per configuration both checks the listed property on the specification (INVARIANTS of the cfg) and
    # emits every finished case for the binder.  The two large configurations run first, the small ones next to them.
    groups = [["rich10", "struct"], ["rich11", "ns", "names"]]
    # development aid (used to demonstrate mutants quickly on a loaded machine): VERIF_C12_ONLY=rich11,fmt restricts the run to
    # the named configurations; a disagreement found by a subset is found by the full run, which executes the same cases and more
    only = [x for x in os.environ.get("VERIF_C12_ONLY", "").split(",") if x]
    gen = [g for g in GEN if not only or g in only]
    groups = [[g for g in grp if g in gen] for grp in groups]
    for grp in groups:
        ths = []
        for name in grp:
            t = threading.Thread(target=_run_gen, args=(out, name, tier, exe, results, 8 if name == "rich10" else 4))
            t.start()
            ths.append(t)
        for t in ths:
            t.join()
    states = trans = cases = 0
    per = {}
    actions = {}
    never = set()
    mm = {}
    compared = 0
    samples = []
    for name in gen:
        r, p, e = results[name]
        if e is not None:
            if isinstance(e, C.InfraError):
                raise e
            raise C.InfraError("generator %s failed: %r" % (name, e))
        cnt, summ = _collect(out, name, r, p, "SerializerGen/%s.%s" % (name, tier))
        states += r.distinct
        trans += r.generated
        cases += cnt.get("cases", 0)
        compared += cnt.get("compared:ok", 0) + cnt.get("compared:error", 0)
        per[name] = dict(spec_check=r.summary(), cases=cnt.get("cases", 0), serialisations=cnt.get("ser", 0),
                         expect_ok=cnt.get("expect:ok", 0), expect_error=cnt.get("expect:error", 0),
                         kinds={k[5:]: v for k, v in cnt.items() if k.startswith("kind:")},
                         child_failures=summ.get("child_failures", 0), cmd=r.cmd)
        for a, v in r.coverage.items():
            x = actions.setdefault(a, [0, 0])
            x[0] += v[0]
            x[1] += v[1]
        for k, v in cnt.items():
            if k.startswith("mm:"):
                mm[k[3:]] = mm.get(k[3:], 0) + v
        samples += [C.decode_tlc_json(s) for s in p.samples[2:3]]
    spec_actions = ["AddRoot", "AddElem", "AddAttr", "AddLeaf", "AddChar", "Start", "XmlDecl", "StartTagA", "EndTagA", "TextA", "CdataA",
                    "CommentA", "PIA", "AbortA", "FinishA"]
    never = [a for a in spec_actions if actions.get(a, [0, 0])[0] == 0]
    if never:
        C.log("specification actions never taken:", never)
    # 3. XMLFormatter alone
    if not only or "fmt" in only:
        pf = C.Piper([exe, "f", tier], timeout=9000, nproc=2)
        rf = C.tlc("SerializerFmt", "SerializerFmt.%s.cfg" % tier, workers=4, on_chunk=pf.feed_chunk, timeout=8000, heap="4g")
        pf.close()
        cntf, summf = _collect(out, "fmt", rf, pf, "SerializerFmt")
    else:
        pf, rf, cntf = None, C.TlcResult(), {}
    # 4. the block loop of XMLFormatter: model (SerializerChunk) and scaled cases around kTmpBufSize (SerializerLong)
    cntl, rl, rc_ = {}, C.TlcResult(), C.TlcResult()
    if not only or "long" in only:
        rc_ = C.tlc("SerializerChunk", "SerializerChunk.%s.cfg" % tier, workers=4, coverage=True, timeout=8000, heap="4g")
        C.tlc_must_pass(rc_, "SerializerChunk")
        chunk_never = [a for a in ("AddChar", "Go", "Block", "Finish") if rc_.coverage.get(a, [0, 0])[0] == 0]
        if chunk_never:
            C.log("SerializerChunk actions never taken:", chunk_never)
        pl = C.Piper([exe, "t", tier], timeout=9000, nproc=4)
        rl = C.tlc("SerializerLong", "SerializerLong.%s.cfg" % tier, workers=4, on_chunk=pl.feed_chunk, timeout=8000, heap="4g")
        pl.close()
        cntl, summl = _collect(out, "long", rl, pl, "SerializerLong")
        cov["L"] = dict(cases=cntl.get("cases", 0), serialisations=cntl.get("ser", 0), spec_check=rl.summary(), chunk_model=rc_.summary(),
                        chunk_actions={a: rc_.coverage.get(a) for a in ("AddChar", "Go", "Block", "Finish")},
                        lengths={k[4:]: v for k, v in cntl.items() if k.startswith("len:")})
        samples += [C.decode_tlc_json(s) for s in pl.samples[1:2]]
        cases += cntl.get("cases", 0)
        compared += cntl.get("compared:ok", 0) + cntl.get("compared:error", 0)
    cov["states"] = states + rf.distinct + rl.distinct + rc_.distinct
    cov["transitions"] = trans + rf.generated + rl.generated + rc_.generated
    cov["spec_configs"] = per
    cov["spec_action_coverage"] = {a: actions.get(a, [0, 0]) for a in spec_actions}
    cov["spec_actions_never_taken"] = never
    cov["checker_cmd"] = "; ".join(per[n]["cmd"] for n in gen)
    if only:
        cov["restricted_to"] = only
    cov["T"] = dict(cases=cases, serialisations_compared=compared, mismatch_classes=mm)
    cov["F"] = dict(cases=cntf.get("cases", 0), formatBuf_calls=cntf.get("fmt", 0), spec_check=rf.summary(),
                    modes={k[5:]: v for k, v in cntf.items() if k.startswith("mode:")})
    cov["traces_validated_against_impl"] = cases + cntf.get("cases", 0)
    cov["samples"] = samples[:3] + samples[-1:] + ([C.decode_tlc_json(s) for s in pf.samples[1:2]] if pf else [])
    cov["exhaustive"] = True
    cov["evaluations"] = compared + cntf.get("fmt", 0)
    cov["distinct_nontrivial"] = cases + cntf.get("cases", 0)
    cov["rule"] = ("T: every finished (document, configuration) case of the Serializer state graph under the constants of "
                   "spec/SerializerGen.*.%s.cfg (distinct by construction: TLC emits each case once); each is serialised in every concrete "
                   "encoding of its class (evaluations); F: every XMLFormatter row x value of <= 2 classes. Non-trivial: verdict, output text, "
                   "re-parsed tree, isEqualNode and second serialisation were compared with the specification's answers" % tier)
    out.assumptions += ["constants of spec/SerializerGen.*.%s.cfg and SerializerFmt.%s.cfg" % (tier, tier),
                        "one concrete character per class (harness table); XercesDOMParser is the re-parser",
                        "where the recommendation leaves the division of ']]>' open any well-formed, content-preserving, idempotent output is accepted",
                        "the replacement character of UnRep_Replace is not compared (0x1A or '?', once or twice)"]


def replay(out, path):
    """Re-run one recorded disagreement."""
    C.build_lib("hooks")
    exe = C.build_harness("ser_harness")
    d = json.load(open(path))
    case = d["case"]
    line = json.dumps(json.dumps(case["line"])) + "\n"
    mode = "f" if case.get("mode") == "F" else "t"
    rc, o = C.run([exe, mode, "thorough"], input=line)
    mism, summ, _ = C.harness_results(o.splitlines())
    known = C.load_known()
    for m in mism:
        cls = m["cls"]
        for t in sorted(case["line"][10] if len(case["line"]) == 11 else case["line"][7]) if mode == "t" else []:
            cand = dict(cls, action=t[0], contains=t[1])
            if C.match_known("C12", cand, known) is not None:
                cls = cand
                break
        out.disagree(cls, m["case"], m.get("why", ""))
    out.coverage.update(evaluations=1, distinct_nontrivial=1, samples=[case["line"]], states=1, transitions=1, traces_validated_against_impl=1)
