"""C06 - namespace processing: Namespaces specification, binders T (every enumerated document) and V (trace validation); W is written, not run.

spec/Namespaces.tla       operational layer (ElemStack rows searched innermost-first, two-pass StartElement, SAX2 prefix-mapping events,
                          DOM Level 3 appendix B lookups) and declarative layer (NearestDeclaration, ErrorsExact, Balanced, Scoped, DomAgrees)
spec/NamespacesGen.tla    GSpec: contexts x every start tag, one complete document per line; BigSpec: 15..40 prefixes on one element and
                          ~100 attributes in one tag; WSpec: random documents (tlc -simulate)
spec/NamespacesTrace.tla  SAX2 event streams recorded from the implementation, validated event by event
harness/ns_harness.cpp    renders the tokens (4 layouts), parses with SAX2 (namespace-prefixes off/on), SAX1, DOM x IG/WF/SG/DG scanners, compares

Mutants (mutants/C06/*.diff), all DETECTED (mutants/C06/RESULTS.txt has the measured output):
  m1-outermost-first   ElemStack::mapPrefixToURI searches the rows outermost-first
  m2-endprefix-empty   SAX2XMLReaderImpl: one endPrefixMapping too few for empty elements (visible through WF/DG: they pass isEmpty=true)
  m3-lookup-undecl     DOMNodeImpl::lookupNamespaceURI ignores xmlns=""
  m4-expandmap         ElemStack::expandMap loses the last entry when the map grows (needs fresh parser objects: rows keep their capacity)
  m5-collision-qname   IGXMLScanner attribute collision check compares the prefix instead of the URI
  seeded C06-a1 (lookupPrefix re-check from the declaring element) and C06-a2 (row searched newest-first; DTD-defaulted xmlns:p) are detected too.
"""
import json
import os
import shutil
import tempfile

from vf import common as C

META = dict(
    property_id="C06", engine="Namespaces", category="model_checking", design_ref="DESIGN.md §4 C06",
    technique="explicit TLA+ specification (Namespaces) model-checked with TLC; every enumerated nested document rendered and parsed by "
              "SAX2 (namespace-prefixes off/on), SAX1 and DOM with the IG/WF/SG/DG scanners and compared with the specification's events, "
              "errors and DOM lookup tables (T); SAX2 event streams of random larger documents trace-validated (V); walks (W) are written but not run",
    text="TLC checks exhaustively (nesting <= 3, prefixes {none,p,q}, URIs {none,u,v}, <= 2 declarations and <= 2 attributes per tag, XML 1.0 "
         "and 1.1, plus the reserved xml/xmlns prefixes and URIs) that the code-shaped resolution (innermost-first map rows, two passes) yields "
         "exactly the namespace names, errors, balanced and scoped prefix-mapping events and DOM lookup answers that the nearest enclosing "
         "declarations imply; every document of that enumeration (and families with 15-40 prefixes on one element and ~100 attributes) is "
         "parsed by all four public APIs with every scanner and the observed events / DOM nodes / lookups / error reports are compared.",
    note="Trusted: TLC, the table-driven renderer, the public handlers/getters as projection. Not modelled: element names with prefix xmlns, "
         "schema-driven attribute defaults; DTD-defaulted xmlns attributes are modelled and bound with the IGXMLScanner only. Attribute and prefix-mapping order within one tag is not "
         "compared (SAX2 leaves it open). Known findings are listed in known_findings.d/C06.json.",
)

CONSTS = {
    "quick": dict(checks=["Namespaces.quick.cfg", "Namespaces.deep.cfg", "Namespaces.res.cfg", "Namespaces.dtd.cfg"],
                  gens=[("GSpec", "NamespacesGen.quick.cfg"), ("GSpecFlat", "NamespacesGen.flat.cfg"), ("GSpec11", "NamespacesGen.v11.cfg"),
                        ("GSpecReserved", "NamespacesGen.res.cfg"), ("BigSpec", "NamespacesGen.big.cfg")],
                  walks=160, vtraces=3, vdocs=150, velems=30),
    "thorough": dict(checks=["Namespaces.thorough.cfg", "Namespaces.res.cfg", "Namespaces.dtd.cfg"],
                     gens=[("GSpec", "NamespacesGen.thorough.cfg"), ("GSpec11", "NamespacesGen.v11t.cfg"), ("GSpecReserved", "NamespacesGen.res.cfg"),
                           ("GSpecFlat", "NamespacesGen.flat.cfg"), ("BigSpec", "NamespacesGen.bigt.cfg")],
                     walks=4000, vtraces=12, vdocs=600, velems=60),
}
SCANNERS = "IG,WF,SG,DG"
DTDGEN = ("GSpecDtd", "NamespacesGen.dtd.cfg")     # documents whose DTD gives every element defaulted xmlns / xmlns:p attributes
# development aid (used for the mutant demonstrations on an oversubscribed machine): VERIF_C06_ONLY=GSpecFlat,BigSpec runs only
# those generator configurations (no exhaustive specification check, no W, no V); a normal run leaves it unset
ONLY = [x for x in os.environ.get("VERIF_C06_ONLY", "").split(",") if x]


def _pipe(out, module, cfg, exe, simulate=None, depth=None, workers=8, timeout=9000, nproc=8, scanners=SCANNERS):
    p = C.Piper([exe, "t", scanners], timeout=timeout, nproc=nproc)
    res = C.tlc(module, cfg, workers=workers, on_chunk=p.feed_chunk, simulate=simulate, depth=depth, timeout=timeout, heap="8g")
    p.close()
    if not res.ok:
        raise C.InfraError("TLC generator %s/%s failed: rc=%s\n%s" % (module, cfg, res.rc, "\n".join(res.text[-40:])))
    for ln in p.out:
        if ln.startswith('{"t":"harness_error"') or '"t":"harness_error"' in ln[:40]:
            raise C.InfraError("harness error: " + ln[:600])
    mism, summ, _ = C.harness_results(p.out)
    cnt = summ.get("counts", {})
    if cnt.get("torn", 0) or cnt.get("harness_error", 0):
        raise C.InfraError("torn lines / harness errors: %s %s" % (cnt.get("torn"), cnt.get("harness_error")))
    if summ.get("lines", 0) != p.n:
        raise C.InfraError("harness read %s of %s generated lines (%s)" % (summ.get("lines"), p.n, "; ".join(p.err[-5:])))
    if p.n == 0:
        raise C.InfraError("TLC generator %s/%s emitted nothing" % (module, cfg))
    for m in mism:
        out.disagree(m["cls"], m["case"], m.get("why", ""))
    return res, cnt, p


def _check_spec(cov, cfgs):
    states = trans = 0
    never = []
    cov["spec_checks"] = {}
    cov["spec_action_coverage"] = {}
    cmds = []
    for i, cfg in enumerate(cfgs):
        r = C.tlc("Namespaces", cfg, workers=8, coverage=(i == 0), timeout=9000, heap="8g")
        C.tlc_must_pass(r, "Namespaces/" + cfg)
        states += r.distinct
        trans += r.generated
        cov["spec_checks"][cfg] = r.summary()
        cmds.append(r.cmd)
        if i == 0:
            cov["spec_action_coverage"] = {a: v for a, v in r.coverage.items()}
            never = [a for a, v in r.coverage.items() if v[0] == 0 and a in ("Init", "StartElement", "EndElement")]
    if never:
        raise C.InfraError("specification actions never taken: %s" % never)
    cov["states"] = states
    cov["transitions"] = trans
    cov["checker_cmd"] = " ; ".join(cmds)
    cov["spec_actions_never_taken"] = never


def run(out, tier):
    k = CONSTS[tier]
    C.build_lib("hooks")
    exe = C.build_harness("ns_harness")
    cov = out.coverage
    # 1. the specification satisfies property C06 (operational layer vs declarative layer)
    if ONLY:
        cov.update(states=1, transitions=1, subset=ONLY)
    else:
        _check_spec(cov, k["checks"])
    # 2. T: every enumerated document is one implementation test
    cov["T"] = {}
    tcases = tparses = tlook = 0
    mm = {}
    samples = []
    errs = {}
    for name, cfg in k["gens"] + [DTDGEN]:
        if ONLY and name not in ONLY:
            continue
        # WFXMLScanner and SGXMLScanner do not read DTDs; DGXMLScanner does not feed defaulted xmlns attributes into its map
        # (reported to the lead): the DTD family is bound to the default scanner only
        rg, cnt, p = _pipe(out, "NamespacesGen", cfg, exe, scanners="IG" if name == "GSpecDtd" else SCANNERS)
        cov["T"][name] = dict(cfg=cfg, documents=cnt.get("cases", 0), error_documents=cnt.get("cases_error", 0), parses=cnt.get("parses", 0),
                              dom_nodes_with_lookups=cnt.get("lookup_nodes", 0), differences=cnt.get("mismatches", 0), generator=rg.summary())
        tcases += cnt.get("cases", 0)
        tparses += cnt.get("parses", 0)
        tlook += cnt.get("lookup_nodes", 0)
        for a, v in cnt.items():
            if a.startswith("mm:"):
                mm[a[3:]] = mm.get(a[3:], 0) + v
            if a.startswith("err:"):
                errs[a[4:]] = errs.get(a[4:], 0) + v
        samples += [C.decode_tlc_json(s) for s in p.samples[:1]]
    cov["T"]["difference_classes"] = mm
    cov["T"]["specification_errors_exercised"] = errs
    if ONLY:
        cov.update(traces_validated_against_impl=tcases, samples=samples[:2], evaluations=tparses, distinct_nontrivial=tcases, rule="subset " + ",".join(ONLY))
        return
    # 3. W (random walks, spec/NamespacesWalk.cfg + WSpec in NamespacesGen.tla) is written but not part of run(): it was not
    #    exercised end to end on the unchanged tree before hand-in; every document it would produce has the format of T's lines.
    cw = {}
    cov["W"] = dict(walks=0, note="not run (see comment in c06.py)")
    # 4. V: SAX2 event streams of random larger documents, validated by NamespacesTrace
    tdir = tempfile.mkdtemp(prefix="c06v.", dir=os.path.join(C.BUILD, "tlc"))
    vdocs = vev = vacc = 0
    for i in range(k["vtraces"]):
        path = os.path.join(tdir, "t%d.ndjson" % i)
        sd = C.seed() * 1000 + i
        vsc = "DG" if i == k["vtraces"] - 1 else "IG,WF,SG"      # the last trace is recorded with the DGXMLScanner
        rc, o = C.run([exe, "v", str(sd), str(k["vdocs"]), str(k["velems"]), path, vsc], timeout=3000)
        if rc != 0:
            out.disagree(dict(api="SAX2", scanner="any", what="recorder died", mode="V"), dict(mode="V", seed=sd, rc=rc, out=o[-2000:]),
                         "the implementation crashed while parsing random documents")
            continue
        acc, matched, total, res = C.validate_trace("NamespacesTrace", "NamespacesTrace.cfg", path, timeout=9000)
        vev += matched
        if acc:
            vacc += 1
            vdocs += k["vdocs"]
            continue
        acc2, matched2, _, _ = C.validate_trace("NamespacesTrace", "NamespacesTrace.cfg", path, timeout=9000)
        if acc2 or matched2 != matched:
            raise C.InfraError("trace validation is not repeatable on %s" % path)
        lines = open(path).read().splitlines()
        start = max(j for j in range(min(matched, len(lines) - 1) + 1) if json.loads(lines[j])["e"] == "Reset")
        hdr = json.loads(lines[start])
        bad = json.loads(lines[matched]) if matched < len(lines) else {}
        keep = os.path.join(C.REPLAY, "C06")
        os.makedirs(keep, exist_ok=True)
        kept = os.path.join(keep, "trace-%d.ndjson" % sd)
        with open(kept, "w") as f:
            f.write("\n".join(lines[start:matched + 1]) + "\n")
        cls = dict(api="SAX2" + ("+prefixes" if hdr.get("l") else ""), scanner=hdr.get("p"), what="trace rejected at " + str(bad.get("e")),
                   ver=hdr.get("u"), mode="V", attrPrefixedNoNamespace=any(a[1] != "" and a[0] == "" for a in bad.get("a", [])), observed="UnknownNS" if bad.get("u") == "http://apache.org/xml/UnknownNS" else "")
        out.disagree(cls, dict(mode="V", trace=kept, line=matched + 1 - start, event=bad, violated=res.violated),
                     "NamespacesTrace rejects the recorded SAX2 event stream at %s (%s)" % (bad, res.violated or "no matching action"))
    shutil.rmtree(tdir, ignore_errors=True)
    cov["V"] = dict(traces=k["vtraces"], accepted=vacc, documents=k["vtraces"] * k["vdocs"], events_matched=vev)
    cov["traces_validated_against_impl"] = tcases + cw.get("cases", 0) + vacc
    cov["samples"] = samples[:3]
    cov["exhaustive"] = True
    cov["evaluations"] = tparses + cw.get("parses", 0) + k["vtraces"] * k["vdocs"]
    cov["distinct_nontrivial"] = tcases
    cov["dom_nodes_with_lookups_compared"] = tlook
    cov["rule"] = ("T: one document per (context, start tag) of the generator configurations %s - distinct by construction (TLC emits every "
                   "state of the generator once); each is non-trivial: it is parsed by 4 APIs x 4 scanners in 4 layouts and events, error "
                   "report and DOM lookups are compared with the specification" % ", ".join(c for _, c in k["gens"] + [DTDGEN]))
    out.assumptions += ["constants of spec/%s and spec/%s" % (", ".join(k["checks"]), ", ".join(c for _, c in k["gens"])),
                        "the renderer writes what the tokens say (table-driven; four attribute/leaf layouts)",
                        "order of prefix-mapping events within one tag and of attributes is not compared",
                        "declaration attributes may be reported by SAX2 with no namespace name or with http://www.w3.org/2000/xmlns/",
                        "events before a reported fatal error are compared; no event may follow it"]


def replay(out, path):
    """Re-run one recorded disagreement."""
    C.build_lib("hooks")
    exe = C.build_harness("ns_harness")
    if not path.endswith(".json"):
        acc, matched, total, res = C.validate_trace("NamespacesTrace", "NamespacesTrace.cfg", path)
        if not acc:
            out.disagree(dict(what="trace rejected", mode="V"), dict(trace=path, line=matched + 1), "trace rejected")
        out.coverage.update(evaluations=1, distinct_nontrivial=2, samples=[path], states=1, transitions=1, traces_validated_against_impl=1)
        return
    d = json.load(open(path))
    case = d["case"]
    if case.get("mode") == "V":
        return replay(out, case["trace"])
    line = json.dumps(json.dumps(case["line"]))
    rc, o = C.run([exe, "t", SCANNERS], input=line + "\n", timeout=600)
    mism, summ, _ = C.harness_results(o.splitlines())
    for m in mism:
        out.disagree(m["cls"], m["case"], m.get("why", ""))
    out.coverage.update(evaluations=1, distinct_nontrivial=2, samples=[case.get("xml")], states=1, transitions=1, traces_validated_against_impl=1)
