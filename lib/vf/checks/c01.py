"""C01 - arbitrary input never causes memory errors, UB, hangs or foreign exceptions.

Specification: spec/ParserCall.tla (life-cycle shell: Call -> reports -> Return(kind), kind in {Ok, HandledFatal, XMLException,
SAXException, DOMException, OutOfMemory}; nothing else ends a call), spec/ReaderBuf.tla (double buffer: IndexBounds,
ByteConservation, Progress, EofSound, termination) and spec/ReaderStack.tla (entity stack: BoundedDepth, NumsIncreasing,
CountBounded, ResetEmpty, RecursionReported, termination) - all three model-checked by TLC.
Binder V (spec/ParserCallTrace.tla = ReaderBufTrace): the recorder (harness/reader_harness x, built with ASan+UBSan, one
parser call per case under vh::Supervisor) runs seed documents and their truncation at every byte, byte-level mutations and
entity-heavy documents with a SecurityManager limit under APIs x scanners x a pairwise covering array of features; each
execution yields Call, H1/H2 hook events, Return, validated with the real buffer constants. A sanitizer report, a signal, an
exception type outside ParserCall's kinds or a call that does not return is a disagreement.

Claim level: exploration for the memory-safety part (the sanitizers see only executed inputs); the buffer / stack /
life-cycle statements are model-checked on the specification and monitored on every recorded execution.
Mutants: mutants/C01/*.diff (see mutants/C01/RESULTS.txt).
"""
import hashlib
import json
import os
import random
import shutil
import tempfile

from vf import common as C
from vf.checks import c04 as R

META = dict(
    property_id="C01", engine="ParserCall+ReaderBuf+ReaderStack", category="exploration", design_ref="DESIGN.md §4 C01",
    technique="TLA+ specifications of the parser-call life cycle, the reader double buffer and the entity stack model-checked with TLC; "
              "sanitizer-instrumented recorder over truncations/mutations/entity bombs x APIs x scanners x features; every execution "
              "trace-validated against the specifications (allowed returns only, buffer and stack invariants at the real sizes)",
    text="Every recorded parser call must end with one of the documented return kinds of ParserCall and its hook events must be a behaviour "
         "of ReaderBuf/ReaderStack with the real constants (index bounds, byte conservation, sound end of input, bounded entity depth, "
         "expansion limit respected, all readers released). Crashes, sanitizer reports (ASan+UBSan build), foreign exception types and "
         "hangs are disagreements. Memory safety of code that raises no hooked event is only observed on the executed inputs: exploration.",
    note="Trusted: ASan/UBSan as event sources, vh::Supervisor, TLC. Inputs are bytes of the document entity (external entities, DTDs and "
         "schemas from other resources are disabled here: C19). Budgets: a call must return within the supervisor's per-batch budget "
         "(generous, re-run alone before it counts as a hang).",
)

# ASan + UBSan in RECOVER mode: a UBSan report is logged (and attributed to the call that produced it) instead of ending the
# process, so that one benign-looking report does not hide everything behind it. ASan errors still abort.
C.VARIANTS.setdefault("asanr", ("RelWithDebInfo", "-D%s -Wno-error -fsanitize=address,undefined -fsanitize-recover=undefined -fno-omit-frame-pointer" % C.GUARD, None))
VARIANT = "asanr"

TIERS = {
    "quick": dict(budget_light=300, budget_heavy=1200, mut_per_seed=24, trunc_step=1, rows=24, big=True, shards=4, trace_every=1, rb="ReaderBuf.quick.cfg", rs="ReaderStack.quick.cfg"),
    "thorough": dict(budget_light=300, budget_heavy=1200, mut_per_seed=400, trunc_step=1, rows=64, big=True, shards=8, trace_every=1, rb="ReaderBuf.thorough.cfg", rs="ReaderStack.thorough.cfg"),
}

DTD1 = (b'<?xml version="1.0"?>\n<!DOCTYPE r [\n<!ELEMENT r (a|b)*>\n<!ELEMENT a (#PCDATA)>\n<!ELEMENT b EMPTY>\n'
        b'<!ATTLIST a x CDATA "d&e1;" id ID #IMPLIED>\n<!ATTLIST b k (u|v) "u">\n<!ENTITY e1 "one">\n<!ENTITY e2 "&e1;&e1;<b/>">\n'
        b'<!ENTITY % p1 "<!ENTITY e3 \'three\'>">\n%p1;\n<!NOTATION n SYSTEM "n">\n]>\n<r><a id="i1">t&e2;&e3;</a><b k="v"/><a x="&#x41;&e1;">&#x20AC;</a></r>\n')
SEEDS = [
    ("plain", b'<?xml version="1.0" encoding="UTF-8"?>\n<r a="1" b=\'2\'>t<c/>\r\n<!-- c --><?p d?><![CDATA[x]]>&amp;&#65;</r>\n'),
    ("ns", b'<p:r xmlns:p="u1" xmlns="u2" p:a="1"><c xmlns=""/><p:d xml:lang="en"/></p:r>'),
    ("dtd", DTD1),
    ("utf8mb", '<r a="é">€\U0001d11e<élém/></r>'.encode("utf-8")),
    ("utf16le", b'\xff\xfe' + '<?xml version="1.0" encoding="UTF-16"?><r a="é">€\U0001d11e</r>'.encode("utf-16-le")),
    ("utf16be", b'\xfe\xff' + '<r>€<c/></r>'.encode("utf-16-be")),
    ("ucs4", '<?xml version="1.0" encoding="UCS-4"?><r>€</r>'.encode("utf-32-be")),
    ("latin1", b'<?xml version="1.0" encoding="ISO-8859-1"?><r>\xe9\xe8</r>'),
    ("sjis", b'<?xml version="1.0" encoding="Shift_JIS"?><r>\x82\xa0\x83\x41</r>'),
    ("ebcdic", '<?xml version="1.0" encoding="ebcdic-cp-us"?><r>t</r>'.encode("cp037")),
    ("xml11", b'<?xml version="1.1"?><r>\xc2\x85a&#1;</r>'),
    ("schemaish", b'<r xmlns:xsi="http://www.w3.org/2001/XMLSchema-instance" xsi:noNamespaceSchemaLocation="none.xsd" xsi:nil="true"><c xsi:type="t"/></r>'),
    ("pe", b'<!DOCTYPE r [<!ENTITY % a "<!ELEMENT r ANY>"><!ENTITY % b "%a;">%b;<!ATTLIST r x NMTOKENS #IMPLIED y ENTITY #IMPLIED>\n'
           b'<!ENTITY u SYSTEM "u.gif" NDATA n><!NOTATION n PUBLIC "p">]><r x="a b" y="u"/>'),
    ("cond", b'<!DOCTYPE r [<!ELEMENT r (a,(b|c)+,d?)><!ELEMENT a EMPTY><!ELEMENT b EMPTY><!ELEMENT c EMPTY><!ELEMENT d (#PCDATA|a)*>]><r><a/><b/><c/><d>x<a/></d></r>'),
]
ENCODINGS = [b"UTF-8", b"UTF-16", b"UCS-4", b"US-ASCII", b"ISO-8859-1", b"ebcdic-cp-us", b"Shift_JIS", b"UTF-16LE", b"ISO-10646-UCS-4", b"windows-1252", b"x-none", b"UTF-7"]
OVERLONG = [b"\xc0\xaf", b"\xe0\x80\xaf", b"\xf0\x80\x80\xaf", b"\xf8\x88\x80\x80\x80", b"\xed\xa0\x80", b"\xf4\x90\x80\x80", b"\xff", b"\xfe\xff", b"\xef\xbf\xbe", b"\x00"]


def H(b):
    return ["h", 0, 0, b.hex()]


def Rp(s, n):
    return ["r", 0, n, s]


def Rx(b, n):
    return ["x", 0, n, b.hex()]


def St(s):
    return ["s", 0, len(s), s]


def entity_docs():
    out = []
    lol = b'<!DOCTYPE r [<!ENTITY a0 "aaaaaaaaaa">' + b"".join(b'<!ENTITY a%d "%s">' % (i, b"&a%d;" % (i - 1) * 10) for i in range(1, 7)) + b']><r>&a6;</r>'
    out.append(("laughs", [H(lol)]))
    out.append(("laughs-attr", [H(lol.replace(b"<r>&a6;</r>", b'<r x="&a6;"/>'))]))
    # through an attribute DEFAULT the expansions happen in the DTD scanner; kept small (10^3 expansions) because they turned out not to be limited
    out.append(("laughs-default", [H(lol.replace(b"]><r>&a6;</r>", b'<!ATTLIST r x CDATA "&a3;">]><r/>'))]))
    out.append(("rec-direct", [H(b'<!DOCTYPE r [<!ENTITY a "x&a;">]><r>&a;</r>')]))
    out.append(("rec-indirect", [H(b'<!DOCTYPE r [<!ENTITY a "x&b;"><!ENTITY b "y&c;"><!ENTITY c "z&a;">]><r>&a;</r>')]))
    out.append(("rec-attr", [H(b'<!DOCTYPE r [<!ENTITY a "x&b;"><!ENTITY b "y&a;">]><r q="&a;"/>')]))
    out.append(("rec-pe", [H(b'<!DOCTYPE r [<!ENTITY % a "%b;"><!ENTITY % b "%a;">%a;]><r/>')]))
    out.append(("pe-laughs", [H(b'<!DOCTYPE r [<!ENTITY % a0 "<!--x-->">' + b"".join(b'<!ENTITY %% a%d "%s">' % (i, b"&#37;a%d;" % (i - 1) * 8) for i in range(1, 5)) + b'%a4;]><r/>')]))
    out.append(("same-name-pe-ge", [H(b'<!DOCTYPE r [<!ENTITY a "v"><!ENTITY % b \'<!ATTLIST r x CDATA "&a;">\'><!ENTITY % a "%b;">%a;]><r/>')]))
    out.append(("quad", [H(b'<!DOCTYPE r [<!ENTITY a "'), Rp("a", 20000), H(b'">]><r>'), Rp("&a;", 400), H(b"</r>")]))
    out.append(("unterminated-ent", [H(b'<!DOCTYPE r [<!ENTITY a "<b>"><!ENTITY c "</b>">]><r>&a;&c;</r>')]))
    return out


def big_docs():
    out = []
    out.append(("deep", [Rp("<a>", 6000), Rp("</a>", 6000)]))
    out.append(("deep-unclosed", [Rp("<a>", 20000)]))
    out.append(("deep-ns", [Rp('<p:a xmlns:p="u">', 3000), Rp("</p:a>", 3000)]))
    out.append(("many-attrs", [St("<r")] + [St(' a%d="v"' % i) for i in range(1500)] + [St("/>")]))
    out.append(("dup-attr-late", [St("<r")] + [St(' a%d="v"' % i) for i in range(600)] + [St(' a7="w"/>')]))
    out.append(("long-name", [St("<"), Rp("n", 70000), St("/>")]))
    out.append(("long-name-mismatch", [St("<"), Rp("n", 40000), St("></"), Rp("n", 39999), St("m>")]))
    out.append(("long-attr", [St('<r a="'), Rp("v ", 60000), St('"/>')]))
    out.append(("long-comment-unterminated", [St("<r><!--"), Rp("-x", 50000)]))
    out.append(("long-pi", [St("<?t "), Rp("?", 50000), St("?><r/>")]))
    out.append(("long-cdata", [St("<r><![CDATA["), Rp("]]", 40000), St("]]></r>")]))
    out.append(("long-charrefs", [St("<r>"), Rp("&#x10FFFF;&#xD800;", 3000), St("</r>")]))
    out.append(("many-ns", [St("<r")] + [St(' xmlns:p%d="u%d"' % (i, i)) for i in range(800)] + [St("><p799:c/></r>")]))
    out.append(("big-content-model", [St("<!DOCTYPE r [<!ELEMENT r (")] + [St("(a%d|b%d)?," % (i, i)) for i in range(300)] + [St("z)>]><r><z/></r>")]))
    out.append(("big-mixed", [St("<!DOCTYPE r [<!ELEMENT r (#PCDATA")] + [St("|e%d" % i) for i in range(2000)] + [St(")*>]><r><e5/></r>")]))
    out.append(("ucs4-bom-48k", [H(b"\x00\x00\xfe\xff" + '<?xml version="1.0" encoding="UCS-4"?><r>'.encode("utf-32-be")), Rx(b"\x00\x00\x00x", 13000), H("</r>".encode("utf-32-be"))]))
    out.append(("utf16-lone-high-end", [H(b"\xff\xfe" + "<r>".encode("utf-16-le")), Rx(b"\x01\xdcx\x00", 9000), H("</r><".encode("utf-16-le") + b"\x00\xd8")]))
    out.append(("nul-run", [St("<r>"), Rx(b"\x00", 20000), St("</r>")]))
    out.append(("mb3-run", [St("<r>"), ["u", 8364, 30000, ""], St("</r>")]))      # 90 KB of 3-byte characters: raw refills with left-over bytes
    return out


def covering_rows(rng, nrows):
    """Greedy pairwise covering array over the configuration factors; returns (rows, pairs covered, pairs total)."""
    factors = dict(api=["SAX", "SAX2", "DOM", "DOMLS"], sc=["IGXMLScanner", "WFXMLScanner", "DGXMLScanner", "SGXMLScanner"],
                   ns=[True, False], val=[0, 1, 2], schema=[False, True], xff=[True, False], prog=[False, True], dl=["mem", "one", "part"])
    names = sorted(factors)
    allpairs = set()
    for i, a in enumerate(names):
        for b in names[i + 1:]:
            for x in factors[a]:
                for y in factors[b]:
                    allpairs.add((a, json.dumps(x), b, json.dumps(y)))
    rows, covered = [], set()

    def pairs_of(row):
        s = set()
        for i, a in enumerate(names):
            for b in names[i + 1:]:
                s.add((a, json.dumps(row[a]), b, json.dumps(row[b])))
        return s
    while len(rows) < nrows:
        best, bestgain = None, -1
        for _ in range(40):
            cand = {n: rng.choice(factors[n]) for n in names}
            g = len(pairs_of(cand) - covered)
            if g > bestgain:
                best, bestgain = cand, g
        rows.append(best)
        covered |= pairs_of(best)
    return rows, len(covered), len(allpairs)


def make_cases(k, rng):
    docs = []      # (label, pieces)
    for name, b in SEEDS:
        docs.append(("seed:" + name, [H(b)]))
        for n in range(0, len(b), k["trunc_step"]):
            docs.append(("trunc:%s:%d" % (name, n), [H(b[:n])]))
        for j in range(k["mut_per_seed"]):
            m = bytearray(b)
            kind = rng.choice(["flip", "flip", "splice", "enc", "nul", "overlong", "dup", "del"])
            pos = rng.randrange(len(m))
            if kind == "flip":
                for _ in range(rng.choice([1, 1, 2, 4])):
                    m[rng.randrange(len(m))] ^= 1 << rng.randrange(8)
            elif kind == "splice":
                o = SEEDS[rng.randrange(len(SEEDS))][1]
                q = rng.randrange(len(o))
                m = m[:pos] + o[q:q + rng.randrange(1, 40)] + m[pos:]
            elif kind == "enc":
                e = rng.choice(ENCODINGS)
                if b"encoding=" in m:
                    i = m.index(b"encoding=") + 10
                    jx = m.index(m[i - 1:i], i)
                    m = m[:i] + e + m[jx:]
                else:
                    m = bytearray(b'<?xml version="1.0" encoding="' + e + b'"?>') + m
            elif kind == "nul":
                m = m[:pos] + b"\x00" * rng.choice([1, 2, 7]) + m[pos:]
            elif kind == "overlong":
                m = m[:pos] + rng.choice(OVERLONG) + m[pos:]
            elif kind == "dup":
                q = rng.randrange(pos, min(len(m), pos + 30) + 1)
                m = m[:q] + m[pos:q] * rng.choice([2, 50]) + m[q:]
            else:
                del m[pos:pos + rng.choice([1, 2, 5])]
            docs.append(("mut:%s:%s:%d" % (name, kind, j), [H(bytes(m))]))
    ent = entity_docs()
    big = big_docs() if k["big"] else []
    rows, pc, pt = covering_rows(rng, k["rows"])
    cases = []
    cid = 0
    for i, (label, pieces) in enumerate(docs):
        row = rows[i % len(rows)]
        cid += 1
        # a chunked delivery gives 4 hook events per byte: every execution runs, one chunked execution in eight is trace-validated
        cases.append(dict(row, id=cid, d=label, doc=pieces, limit=0, tr=(row["dl"] == "mem" or i % 8 == 0)))
    for label, pieces in ent:
        for lim in (0, 50, 1000) if not label.startswith("laughs") and label != "quad" else (50, 1000):
            for api in ("SAX2", "DOM", "SAX", "DOMLS"):
                for sc in ("IGXMLScanner", "WFXMLScanner", "DGXMLScanner", "SGXMLScanner"):
                    if (api, sc) not in (("SAX2", "IGXMLScanner"), ("DOM", "DGXMLScanner"), ("SAX", "WFXMLScanner"), ("DOMLS", "SGXMLScanner"), ("SAX2", "DGXMLScanner")):
                        continue
                    cid += 1
                    cases.append(dict(api=api, sc=sc, ns=True, val=0, schema=False, xff=True, prog=False, dl="mem", id=cid, d="ent:%s:lim%d" % (label, lim), doc=pieces, limit=lim))
    for j, (label, pieces) in enumerate(big):
        for r in range(3):
            row = dict(rows[(j * 3 + r) % len(rows)])
            row["dl"] = "mem"
            cid += 1
            cases.append(dict(row, id=cid, d="big:" + label, doc=pieces, limit=0))
    return cases, rows, pc, pt


def _label(d):
    d = d.split("|", 1)[-1]
    parts = d.split(":")
    return parts[1] if parts[0] in ("big", "ent", "seed", "trunc", "mut") and len(parts) > 1 else parts[0]


def _cls_of_call(info):
    d = info.get("d", "").split("|", 1)[-1]
    return dict(input=d.split(":")[0], doc=_label(d), api=info.get("api", ""))


def _san_env(tmp):
    # the recorder's children redirect their stderr to <tmp>/san.<pid>, which is where both sanitizers report
    return {"ASAN_OPTIONS": "abort_on_error=1:detect_leaks=0:allocator_may_return_null=1",
            "UBSAN_OPTIONS": "print_stacktrace=0:halt_on_error=0"}


def _asan_report(tmp, pid):
    """First ASan error line and the first xerces frame of san.<pid>."""
    try:
        t = open(os.path.join(tmp, "san.%s" % pid), errors="replace").read()
    except OSError:
        return "", ""
    kind, where = "", ""
    for ln in t.splitlines():
        if not kind and "ERROR: AddressSanitizer" in ln:
            kind = ln.split("ERROR: AddressSanitizer:")[1].split()[0]
        if kind and not where and " in xercesc_4_0::" in ln:
            where = ln.split(" in xercesc_4_0::")[1].split("(")[0]
            break
    return kind, where


def run(out, tier):
    k = TIERS[tier]
    out.level = "exploration"
    C.build_lib(VARIANT)
    exe = C.build_harness("reader_harness", variant=VARIANT)
    cov = out.coverage
    os.makedirs(os.path.join(C.BUILD, "tlc"), exist_ok=True)
    tdir = tempfile.mkdtemp(prefix="c01.", dir=os.path.join(C.BUILD, "tlc"))
    try:
        t_pc = R._bg(C.tlc, "ParserCall", "ParserCall.cfg", workers=2, coverage=True, timeout=3000, heap="2g")
        t_rs = R._bg(C.tlc, "ReaderStack", k["rs"], workers=4, coverage=True, timeout=9000, heap="4g")
        t_rb = R._bg(C.tlc, "ReaderBuf", k["rb"], workers=6, coverage=True, timeout=9000, heap="8g")
        rng = random.Random(C.seed())
        cases, rows, pc, pt = make_cases(k, rng)
        tprefix = os.path.join(tdir, "tr")
        tmp = os.path.join(tdir, "tmp")
        os.makedirs(tmp, exist_ok=True)
        env = _san_env(tmp)
        byid = {c["id"]: c for c in cases}
        heavy = [c for c in cases if c["d"].startswith("big:") or c["d"].startswith(("ent:laughs", "ent:quad", "ent:pe-laughs"))]
        light = [c for c in cases if c not in heavy]
        outl, errl, nlines = [], [], 0
        # budgets: a light case takes milliseconds, a heavy one well under a second on an idle machine; the budget is per batch,
        # a batch that exceeds it is re-run case by case before anything is called a hang
        for group, budget, batch in ((light, k["budget_light"], 16), (heavy, k["budget_heavy"], 2)):
            p = C.Piper([exe, "x", tprefix, str(k["trace_every"]), tmp, str(budget), str(batch), "8"], timeout=40000, nproc=8, env=env)
            for c in group:
                p.feed(json.dumps(c) + "\n")
            p.close()
            outl += p.out
            errl += p.err
        mism, summ, _ = C.harness_results(outl)
        cnt = summ.get("counts", {})
        if summ.get("lines", 0) != len(cases):
            raise C.InfraError("recorder read %s of %s cases\n%s" % (summ.get("lines"), len(cases), "\n".join(errl[-30:])))
        if [ln for ln in outl if '"t":"infra"' in ln[:40]]:
            raise C.InfraError("renderer error: " + [ln for ln in outl if '"t":"infra"' in ln[:40]][0][:300])
        calls, unfinished = R.split_calls([os.path.join(tdir, x) for x in os.listdir(tdir) if x.startswith("tr.")])
        died = {}
        for path, callline in R.split_calls.unfinished:
            try:
                info = json.loads(callline)
            except ValueError:
                continue
            died[info.get("d", "").split("|")[0]] = path.rsplit(".", 1)[-1]
        nreports = 0
        for m in mism:
            cls = dict(m["cls"])
            cs = m["case"]
            cls["doc"] = _label(cs.get("d", ""))
            why = m.get("why", "")
            if cls.get("kind") == "crash":
                kind, where = _asan_report(tmp, died.get(str(cs.get("id")), ""))
                cls["report"] = kind
                cls["where"] = where
                why += " | sanitizer: %s in %s" % (kind or "(no report: signal/exit only)", where or "?")
                nreports += 1 if kind else 0
            out.disagree(cls, cs, why)
        rets = {}
        kinds = {}
        for ln in outl:
            if ln.startswith('{"call"') or '"t":"ret"' in ln:
                try:
                    o = json.loads(ln)
                except ValueError:
                    continue
                if o.get("t") == "ret":
                    rets[o["id"]] = o
        nontrivial = set()
        for cid, o in rets.items():
            kinds[o["kind"]] = kinds.get(o["kind"], 0) + 1
            if o["kind"] != "Ok":
                nontrivial.add(hashlib.sha1(json.dumps(byid[cid]["doc"]).encode()).hexdigest())
        # a call that never returned: its events are validated as well, closed by a Return kind ParserCall has no action for
        for path, callline in R.split_calls.unfinished:
            body = []
            seen = False
            want = json.loads(callline).get("d")
            for ln in open(path, errors="replace"):
                if ln.startswith('{"api"') and json.loads(ln).get("d") == want:
                    seen, body = True, [callline]
                elif seen:
                    if ln.startswith('{"api"'):
                        break
                    if ln.endswith("}\n"):
                        body.append(ln)
            if body:
                body.append('{"e":"Return","kind":"DidNotReturn","fatals":0}\n')
                calls.append(body[-20000:] if len(body) < 20000 else [body[0]] + body[1:15000] + [body[-1]])
        vs = R.validate_calls("ParserCallTrace", "ParserCallTrace.cfg", calls, k["shards"], tdir, out, _cls_of_call)
        rpc = R._join(t_pc)
        C.tlc_must_pass(rpc, "ParserCall/ParserCall.cfg")
        rrs = R._join(t_rs)
        C.tlc_must_pass(rrs, "ReaderStack/" + k["rs"])
        rrb = R._join(t_rb)
        C.tlc_must_pass(rrb, "ReaderBuf/" + k["rb"])
        cov["states"] = rpc.distinct + rrs.distinct + rrb.distinct
        cov["transitions"] = rpc.generated + rrs.generated + rrb.generated
        cov["spec_checks"] = dict(ParserCall=rpc.summary(), ReaderStack=rrs.summary(), ReaderBuf=rrb.summary())
        cov["spec_action_coverage"] = dict(ParserCall=rpc.coverage, ReaderStack=rrs.coverage, ReaderBuf=rrb.coverage)
        cov["spec_actions_never_taken"] = [a for r in (rpc, rrs, rrb) for a, v in r.coverage.items() if v[0] == 0]
        cov["checker_cmd"] = rrs.cmd
        cov["executions"] = dict(cases=len(cases), skipped_after_failures=cnt.get("skipped_after_failures", 0), returned=len(rets), kinds=kinds, child_failures=summ.get("child_failures", 0),
                                 apis={a[4:]: v for a, v in cnt.items() if a.startswith("api:")},
                                 scanners={a[3:]: v for a, v in cnt.items() if a.startswith("sc:")},
                                 deliveries={a[3:]: v for a, v in cnt.items() if a.startswith("dl:")},
                                 asan_reports=nreports, ubsan_reports=cnt.get("ubsan_reports", 0))
        cov["covering_array"] = dict(rows=len(rows), pairs_covered=pc, pairs_total=pt, sample_rows=rows[:3])
        cov["V"] = dict(calls=vs["calls"], calls_accepted=vs["calls_accepted"], events=vs["events"], statement_failures=vs["statements"],
                        hard_rejections=vs["hard"], unfinished_calls=unfinished, not_validated=vs.get("not_validated", 0))
        cov["traces_validated_against_impl"] = vs["calls_accepted"]
        cov["evaluations"] = len(rets)
        cov["distinct_nontrivial"] = len(nontrivial)
        cov["rule"] = ("inputs: %d seed documents, their truncation at every byte, %d seeded byte-level mutations per seed (bit flips, splices, "
                       "encoding-declaration swaps, NULs, overlong/illegal UTF-8, duplications, deletions), entity-heavy documents with "
                       "expansion limits 0/50/1000 and %d large documents (deep nesting, many attributes, long names, big content models), "
                       "each under one row of a pairwise covering array over api x scanner x namespaces x validation x schema x "
                       "exit-on-first-fatal x progressive x delivery; non-trivial = distinct documents (sha1) whose call did not return Ok"
                       % (len(SEEDS), k["mut_per_seed"], len(big_docs())))
        cov["samples"] = [dict(id=c["id"], d=c["d"], api=c["api"], sc=c["sc"], doc=c["doc"], ret=rets.get(c["id"], {}).get("kind")) for c in (cases[3], cases[len(cases) // 2])]
        if calls:
            cov["samples"].append(dict(trace=[json.loads(x) for x in calls[len(calls) // 3][:14]]))
        cov["exhaustive"] = False
        out.assumptions += ["ASan+UBSan build of /repo's working tree is the event source for memory errors and UB on the executed inputs only",
                            "a call that does not answer within the supervisor budget (300 s per batch of 16 small inputs, 1200 s per 2 large ones; re-run alone) is a hang",
                            "external entities / DTDs / schemas are not loaded (C19)"]
    finally:
        shutil.rmtree(tdir, ignore_errors=True)


def replay(out, path):
    out.level = "exploration"
    C.build_lib(VARIANT)
    exe = C.build_harness("reader_harness", variant=VARIANT)
    os.makedirs(os.path.join(C.BUILD, "tlc"), exist_ok=True)
    tdir = tempfile.mkdtemp(prefix="c01r.", dir=os.path.join(C.BUILD, "tlc"))
    try:
        if path.endswith(".ndjson"):
            lines = open(path).readlines()
            if not lines[-1].startswith('{"e":"Return"'):
                lines.append('{"e":"Return","kind":"Ok","fatals":0}\n')
            vs = R.validate_calls("ParserCallTrace", "ParserCallTrace.cfg", [lines], 1, tdir, out, _cls_of_call, max_rounds=1)
            out.coverage.update(evaluations=1, distinct_nontrivial=2, rule="replay of a kept trace", samples=[path], traces_validated_against_impl=vs["calls_accepted"])
            return
        d = json.load(open(path))
        cs = d["case"]
        if "doc" not in cs:
            raise C.InfraError("the recorded case has no document; replay the kept trace %s" % cs.get("trace"))
        cfgd = cs.get("cfg", {})
        if isinstance(cs["doc"], str):          # large document: regenerate it from its label
            allc, _, _, _ = make_cases(TIERS["quick"], random.Random(C.seed()))
            found = [c for c in allc if c["d"] == cs.get("d")]
            if not found:
                raise C.InfraError("cannot regenerate the document labelled %s" % cs.get("d"))
            cs["doc"] = found[0]["doc"]
        case = dict(id=1, d=cs.get("d", ""), doc=cs["doc"], api=cs.get("api") or cfgd.get("api", "SAX2"), sc=cs.get("sc") or cfgd.get("scanner", "IGXMLScanner"),
                    ns=cfgd.get("ns", True), val=cfgd.get("val", 0), schema=cfgd.get("schema", False), limit=cs.get("limit", 0), dl=cs.get("dl", "mem"), prog=cfgd.get("prog", False))
        env = _san_env(tdir)
        rc, o = C.run([exe, "x", os.path.join(tdir, "tr"), "1", tdir, "900"], input=json.dumps(case) + "\n", env=env, timeout=3000)
        mism, summ, _ = C.harness_results([x for x in o.splitlines() if x.startswith("{")])
        for m in mism:
            out.disagree(m["cls"], m["case"], m.get("why", ""))
        out.coverage.update(evaluations=1, distinct_nontrivial=2, rule="replay of one recorded case", samples=[case])
    finally:
        shutil.rmtree(tdir, ignore_errors=True)
