"""C11 - regular expressions match exactly the language their syntax defines.

Specification spec/Regex.tla: expressions of the XML Schema syntax as uniform tuples, three definitions of their meaning
(denotational language, derivative automaton, priority-ordered backtracking matcher) that TLC proves equal on the bound,
API-shaped actions (Feed, MatchesX, Search, Tokenize, Replace) and the invariants DerivIsLanguage, BacktrackIsLanguage,
CallsOK, SeqsAgree, TokensPartition.

Binders
  T  spec/RegexGen.tla: one line per expression with the verdicts of ALL strings up to the bound (schema mode: derivative
     automaton; XPath mode: leftmost start + set of valid ends), replayed on RegularExpression under the option strings
     X, XF, XH, XFH, "", F, H, FH (+ unknown option letters), with and without a Match object, on the whole string and on
     a window of a padded string. Malformed texts and option strings must give ParseException.
     Family C (RegexGen.C.quick.cfg): every range class [x-y]/[^x-y] over {-,1,a,b} under *, +, {1,} followed by every such class
     (disjoint, shared end point, overlap, containment: the closure must give characters back) and every class of two ranges.
     Family D (RegexGen.D.quick.cfg): x(lit){f}y, (lit){f}y, x(lit){f} with lit of 2-3 characters, f in {0,1} {0,2} {0,} {1,2} ? *,
     strings over {a,b} up to length 5 (fixed-string pre-filter: F vs non-F option sets).
  P  the same lines through the xs:pattern facet of a string DatatypeValidator (the path schema validation takes).
  W  spec/RegexWalk.tla: one compiled object reused over a TLC-chosen sequence of matches / matches+Match / tokenize /
     replace calls (history independence); tokenize/replace results must be one of the cuts the specification allows.

Mutants (mutants/C11/*.diff), each run through the complete quick tier in a scratch worktree:
  rep-max-plus1        {n,m} compiled as {n,m+1}                                           DETECTED (T, schema mode: /-{0,1}/ accepts "--")
  bm-shift             Boyer-Moore shift table off by one (pre-filter rejects a match)    DETECTED (T, XPath mode: /-1/ misses "\t-1")
  subtract-boundary    RangeToken::subtractRanges keeps the subtrahend's last character   DETECTED (T: /[\\--a-[ -\\-]]*/ accepts "-")
  space-no-tab         \\s without TAB                                                     DETECTED (T, schema mode: /\\s-/ rejects "\\t-")
  complement-boundary  RangeToken::complementRanges includes the next range's first char  DETECTED (T: /\\S*/ accepts " ")
  union-first-only     matchUnion returns the first alternative that matches              NOT detected: every string it newly rejects is one whose
                       greedy-first match is shorter than the string, i.e. exactly the class of the open known finding
                       C11-anchored-first-success, so the disagreements are filed under that finding (limit of the classification while
                       that defect is open; once it is fixed the mutant's cases become violations).
  seeded/C11-a1        intersectRanges drops a shared end point (closure becomes possessive)  DETECTED (T family C: /[\\--a]*[\\-]/ rejects "-")
  seeded/C11-a2        findFixedString takes the literal of a {0,m} group as required substring  DETECTED (T family D: /b(aa){0,}/ misses "b" without F)
"""
import json
import os

from vf import common as C

META = dict(
    property_id="C11", engine="Regex", category="model_checking", design_ref="DESIGN.md §4 C11",
    technique="explicit TLA+ specification (Regex: denotational language = derivative automaton = backtracking matcher, checked by TLC); "
              "every expression of the generated universes x every string up to the bound replayed on RegularExpression under all "
              "optimisation option combinations, with/without Match, whole string and window (T), through the xs:pattern facet (P), "
              "and as call sequences on one compiled object (W)",
    text="TLC checks exhaustively on small universes that the derivative automaton and the priority-ordered backtracking matcher of the "
         "specification accept exactly the denotational language and that search/tokenize/replace results are among the cuts the "
         "language allows; the generator specification then emits, for thousands of expressions (all atoms, classes with ranges, "
         "negation and subtraction, multi-character escapes, every quantifier form, nesting to depth 2-3, malformed texts), the "
         "verdict of every string up to length 3-4, and xerces-c's RegularExpression must agree under every option combination.",
    note="Trusted: TLC, the rendering of the AST to text (spec operator Text), the character facts tabulated in Regex.tla for the model "
         "alphabet. Not covered: Unicode category/block tables beyond the model alphabet, i/s/m/x options, back references, "
         "supplementary-plane characters, anchors of the XPath flavour.",
)

CONSTS = {
    "quick": dict(check=["Regex.quick.cfg"], selfcheck="RegexGen.selfcheck.cfg", gens=["RegexGen.A.quick.cfg", "RegexGen.B.quick.cfg", "RegexGen.C.quick.cfg", "RegexGen.D.quick.cfg"],
                  walks=[("RegexWalk.cfg", 60), ("RegexWalk.A.cfg", 30)], wdepth=14),
    "thorough": dict(check=["Regex.quick.cfg", "Regex.thorough.cfg"], selfcheck="RegexGen.selfcheck.cfg",
                     gens=["RegexGen.A.thorough.cfg", "RegexGen.B.thorough.cfg", "RegexGen.C.quick.cfg", "RegexGen.D.quick.cfg"],
                     walks=[("RegexWalk.cfg", 600), ("RegexWalk.A.cfg", 300)], wdepth=14),
}
WORKERS = 8


def _pipe(out, module, cfg, exe, args, simulate=None, depth=None, timeout=6000):
    p = C.Piper([exe] + args, timeout=timeout, nproc=4)
    res = C.tlc(module, cfg, workers=WORKERS, on_chunk=p.feed_chunk, simulate=simulate, depth=depth, timeout=timeout, heap="8g")
    p.close()
    if not res.ok:
        raise C.InfraError("TLC generator %s/%s failed: rc=%s\n%s" % (module, cfg, res.rc, "\n".join(res.text[-40:])))
    mism, summ, _ = C.harness_results(p.out)
    cnt = summ.get("counts", {})
    if cnt.get("torn", 0):
        raise C.InfraError("torn TLC lines reached the harness: %s" % cnt.get("torn"))
    if summ.get("lines", 0) != p.n:
        raise C.InfraError("harness read %s of %s generated lines (%s)" % (summ.get("lines"), p.n, "\n".join(p.err[-5:])))
    if p.n == 0:
        raise C.InfraError("TLC generator %s/%s emitted nothing" % (module, cfg))
    return res, summ, cnt, mism, p


def _report(out, mism):
    for m in mism:
        out.disagree(m["cls"], m["case"], m.get("why", ""))


def run(out, tier):
    k = CONSTS[tier]
    C.build_lib("hooks")
    exe = C.build_harness("regex_harness")
    cov = out.coverage
    # 1. the specification satisfies the listed property: the three definitions agree, API results are language-consistent
    states = trans = 0
    cov["spec_check"] = []
    never = []
    for cfg in k["check"]:
        r = C.tlc("Regex", cfg, workers=WORKERS, coverage=True, timeout=9000, heap="8g")
        C.tlc_must_pass(r, "Regex/" + cfg)
        states += r.distinct
        trans += r.generated
        cov["spec_check"].append(dict(cfg=cfg, **r.summary()))
        cov["checker_cmd"] = r.cmd
        cov["spec_action_coverage"] = {a: v for a, v in r.coverage.items()}
        never += [a for a, v in r.coverage.items() if v[0] == 0 and a[0].isupper()]
    r = C.tlc("RegexGen", k["selfcheck"], workers=WORKERS, timeout=9000, heap="8g")
    C.tlc_must_pass(r, "RegexGen/" + k["selfcheck"])
    cov["spec_check"].append(dict(cfg=k["selfcheck"], **r.summary()))
    states += r.distinct
    trans += r.generated
    cov["states"] = states
    cov["transitions"] = trans
    cov["spec_actions_never_taken"] = never
    if never:
        C.log("specification actions never taken in the exhaustive config:", never)
    # 2. T (+P): every expression of the generator universes x every string up to the bound
    cov["T"] = []
    exprs = evals = compared = 0
    samples = []
    for cfg in k["gens"]:
        rg, summ, cnt, mism, p = _pipe(out, "RegexGen", cfg, exe, ["t", "p"])
        _report(out, mism)
        cov["T"].append(dict(cfg=cfg, expressions=cnt.get("cases", 0), runs_parse_exception=cnt.get("run:PE", 0), runs_schema_mode=cnt.get("run:x", 0),
                             runs_xpath_mode=cnt.get("run:u", 0), pattern_facet_cases=cnt.get("pcases", 0), calls=summ.get("evals", 0),
                             strings_per_expression=summ.get("strings", 0) // max(1, summ.get("exprs", 1)),
                             mismatch_lines=cnt.get("mismatches", 0), child_failures=summ.get("child_failures", 0), generator=rg.summary()))
        exprs += cnt.get("cases", 0)
        evals += summ.get("evals", 0)
        compared += cnt.get("compared", 0) + cnt.get("run:PE", 0)
        for s in p.samples[:1]:
            d = C.decode_tlc_json(s)
            samples.append(dict(binder="T", text=d["t"], runs=d["runs"][:3], strings=len(d["x"]), x=d["x"][:16], p=d["p"][:16], e=d["e"][:16]))
    # 3. W: one compiled object, call sequences
    cov["W"] = []
    walks = 0
    for cfg, num in k["walks"]:
        rw, summ, cnt, mism, p = _pipe(out, "RegexWalk", cfg, exe, ["t"], simulate=max(1, num // WORKERS), depth=k["wdepth"])
        _report(out, mism)
        cov["W"].append(dict(cfg=cfg, walks=cnt.get("walks", 0), steps=cnt.get("steps", 0),
                             ops={a[3:]: v for a, v in cnt.items() if a.startswith("op:")},
                             steps_with_a_choice_of_cut=summ.get("choice_steps", 0),
                             of_which_first_alternative_rule=summ.get("choice_steps_first_alternative_rule", 0)))
        walks += cnt.get("walks", 0)
        evals += summ.get("evals", 0)
        for s in p.samples[:1]:
            d = C.decode_tlc_json(s)
            samples.append(dict(binder="W", text=d["t"], opts=d["opts"], steps=d["steps"][:3]))
    cov["traces_validated_against_impl"] = exprs + walks
    cov["samples"] = samples
    cov["exhaustive"] = True
    cov["evaluations"] = evals
    cov["distinct_nontrivial"] = compared
    cov["rule"] = ("T: every expression of the universes of %s (distinct by construction) compiled under every option string of OptRunsStd; "
                   "distinct_nontrivial counts (expression, option string) pairs whose constructor outcome or whose verdict vector over ALL "
                   "strings up to the bound was compared; evaluations counts individual constructor/matches/tokenize/replace/validate calls" % k["gens"])
    out.assumptions += ["constants and universes of spec/%s" % c for c in k["check"] + k["gens"]] + [
        "model alphabet facts tabulated in spec/Regex.tla (code-point order, \\s \\d \\w \\i \\c membership)",
        "position of a search match: start must be leftmost, end any end valid for that start (set comparison)"]


def replay(out, path):
    """Re-run one recorded disagreement: the case holds the generated line."""
    C.build_lib("hooks")
    exe = C.build_harness("regex_harness")
    d = json.load(open(path))
    case = d["case"]
    line = case.get("line")
    if line is None:
        raise C.InfraError("this replay file has no generated line; re-run the check with the same VERIF_SEED")
    rc, o = C.run([exe, "t", "p"], input=json.dumps(json.dumps(line)) + "\n", timeout=600)
    mism, summ, _ = C.harness_results(o.splitlines())
    for m in mism:
        out.disagree(m["cls"], m["case"], m.get("why", ""))
    out.coverage.update(evaluations=summ.get("evals", 1), distinct_nontrivial=2, samples=[case.get("text")], states=1, transitions=1,
                        traces_validated_against_impl=1)
