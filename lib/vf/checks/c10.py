"""C10 - identity constraints (unique / key / keyref) enforced in the value space.

Specification: spec/IdentityConstraints.tla (declarative layer = XML Schema 1.0 Part 1, 3.11.4/3.11.5 on the tree;
operational layer = streaming machine shaped like IdentityConstraintHandler / XPathMatcherStack / ValueStoreCache /
ValueStore / FieldActivator, with the listed deviations D1..D7 of the pinned code as switches), case families in
IdentityConstraintsMC.tla, generators IdentityConstraintsGen.tla (binder T) and IdentityConstraintsLarge.tla (binder L).

Binders
  T  every enumerated case (constraint set x field type x tree) is rendered to an XSD and an instance and validated
     by SAX2XMLReader / XercesDOMParser x IGXMLScanner / SGXMLScanner with identity-constraint checking on; the set
     of reported IC_* violation kinds must equal the declarative layer's set (modulo the kinds the recommendation
     leaves open on that instance).  A disagreement that equals the specification's model of the pinned code
     (`coded`) is classified by the deviations involved (known findings); anything else is a violation.
  L  large flat instances (10^2..10^3 tuples, seeded description expanded and judged by TLC, step-wise run of the
     operational layer checked against the declarative layer) stress the hash based ValueStore.

Mutants (mutants/C10/*.diff; all seven DETECTED by the quick tier, bin/mutant-run output in mutants/C10/RESULTS.txt):
  lexical-compare          ICValueHasher::isDuplicateOf compares the lexical strings instead of the values
  keyref-innermost-only    ValueStoreCache::endElement drops the child's key tables instead of carrying them up
  second-field-ignored     ValueStore::addValue silently ignores a field that matches a second time
  tuple-every-other-field  ICValueHasher::equals compares only every other field of a tuple (needs colliding tuples: binder L, shape twofield)
  union-last-member        SelectorMatcher::startElement never looks at the last member of a selector union
  hash-lexical             ICValueHasher::getHashVal hashes the lexical form (equal values land in different buckets)
  absent-key-first-node    ValueStore::endValueScope reports an absent key only once a tuple has been stored

Genuine deviations of the pinned code found by this check (known_findings.d/C10.json; D-numbers as in the module
comment of spec/IdentityConstraints.tla): D1 sibling scopes lose key tables, D1+D2 conflicting entries of sibling
tables are not removed, D3 IC_KeyRefOutOfScope for a keyref that selects nothing, D6 nested selected nodes share the
current tuple, D7 .//@a stops below the first element whose attribute matched.
Binder V (hook H10 of DESIGN.md) is not built: the public error reporter seam gives the observation the property names.
"""
import json
import os
import random
import tempfile

from vf import common as C

META = dict(
    property_id="C10", engine="IdentityConstraints", category="model_checking", design_ref="DESIGN.md §4 C10",
    technique="explicit TLA+ specification (IdentityConstraints) model-checked with TLC: streaming value-store machine against the "
              "recommendation's declarative definition and under sibling permutation; every enumerated case replayed on the real "
              "validators (T); large seeded instances judged by TLC and replayed (L)",
    text="TLC checks exhaustively, for every constraint family x field type x tree up to the bound, that the streaming machine "
         "(selector/field matchers, value stores, key tables propagated to ancestors) reports exactly the violations that XML Schema "
         "3.11.4/3.11.5 define on the tree, and that the verdict is unchanged when sibling subtrees are permuted. Every enumerated case "
         "is rendered to a schema and an instance and validated by xerces-c (SAX2 and DOM, IGXMLScanner and SGXMLScanner); the set of "
         "IC_* violation kinds reported must equal the specification's. Large instances (hundreds of tuples, lexically different but "
         "equal values, single duplicates / missing keys / dangling references) are judged by TLC and replayed the same way.",
    note="Trusted: TLC, the table-driven renderer (abstract case -> XSD/XML text), the mapping IC_* code -> kind. Compared: sets of "
         "violation kinds, not counts or messages. Bounds: element vocabulary r a b i f g, attributes id/ref, field types string and "
         "decimal, XPath subset child/descendant/wildcard/union/attribute/'.', trees and families of spec/IdentityConstraintsMC.tla. "
         "Not modelled: namespaces in XPaths, QName/date fields, xsi:nil instances, the eligibility clause of 3.11.5 (secondary keyref "
         "errors after a violated key are not compared).",
)

CONSTS = {
    "quick": dict(checks=["IdentityConstraints.quick.cfg", "IdentityConstraints.quick2.cfg"], gens=["IdentityConstraintsGen.quick.cfg", "IdentityConstraintsGen.quick2.cfg", "IdentityConstraintsGen.quick3.cfg"],
                  large=[(40, 1, "step"), (300, 2, "decl"), (300, 6, "two"), (60, 7, "two-step")], nproc=4),
    "thorough": dict(checks=["IdentityConstraints.thorough.cfg", "IdentityConstraints.thorough2.cfg"], gens=["IdentityConstraintsGen.thorough.cfg"],
                     large=[(60, 1, "step"), (120, 5, "step"), (400, 2, "decl"), (400, 3, "decl"), (1000, 4, "decl"), (300, 6, "two"),
                            (1000, 8, "two"), (1000, 9, "two"), (100, 7, "two-step")], nproc=8),
}


def _pipe(out, module, cfg, exe, nproc, timeout=9000, env=None, workers=8):
    p = C.Piper([exe, "t"], timeout=timeout, nproc=nproc)
    res = C.tlc(module, cfg, workers=workers, on_chunk=p.feed_chunk, timeout=timeout, heap="8g", env=env)
    p.close()
    if not res.ok:
        raise C.InfraError("TLC generator %s/%s failed: rc=%s\n%s" % (module, cfg, res.rc, "\n".join(res.text[-40:])))
    mism, summ, _ = C.harness_results(p.out)
    cnt = summ.get("counts", {})
    if cnt.get("torn", 0):
        raise C.InfraError("torn TLC lines reached the harness: %s" % cnt.get("torn"))
    if summ.get("lines", 0) != p.n:
        raise C.InfraError("harness read %s of %s generated lines\n%s" % (summ.get("lines"), p.n, "\n".join(p.err[-20:])))
    if p.n == 0:
        raise C.InfraError("TLC generator %s/%s emitted nothing" % (module, cfg))
    for m in mism:
        out.disagree(m["cls"], m["case"], m.get("why", ""))
    return res, cnt, p


def _acc(total, cnt):
    for k, v in cnt.items():
        total[k] = total.get(k, 0) + v


def _large_descr(n, seed, shape="keyref"):
    """Reduced description of a large instance: n keys with ids a*k+b in rotating lexical forms, references to them,
    and a few single mutations. Only numbers are chosen here; TLC expands the description into the tree and judges it."""
    rnd = random.Random(C.seed() * 7919 + seed)
    kinds = ["none", "dupkey", "dangling", "missingkey", "dupkey-lex", "valid-lexref"]
    which = kinds[seed % len(kinds)]
    if shape == "twofield":
        # n different two-field tuples that agree in the first field (g groups); odd seeds repeat one tuple
        which = "dup2" if seed % 2 else "none"
    return dict(shape=shape, g=rnd.choice([1, 2, 3]), n=n, a=rnd.choice([1, 3, 7]), b=rnd.randrange(1, 50), mut=which, pos=rnd.randrange(2, n), pos2=rnd.randrange(2, n),
                ty=("decimal" if seed % 2 else "string"), order=rnd.choice(["keys-first", "refs-first", "mixed"]))


def run(out, tier):
    k = CONSTS[tier]
    C.build_lib("hooks")
    exe = C.build_harness("ic_harness")
    cov = out.coverage
    # 1. the specification satisfies C10: streaming machine = declarative definition, verdict independent of sibling order
    cov["states"] = cov["transitions"] = 0
    cov["spec_checks"] = []
    cov["spec_action_coverage"] = {}
    zero = 0
    for cfg in k["checks"]:
        r = C.tlc("IdentityConstraintsMC", cfg, workers=8, coverage=True, timeout=20000, heap="8g")
        C.tlc_must_pass(r, "IdentityConstraintsMC/" + cfg)
        cov["states"] += r.distinct
        cov["transitions"] += r.generated
        cov["spec_checks"].append(dict(cfg=cfg, **r.summary()))
        cov["checker_cmd"] = r.cmd
        for a, v in r.coverage.items():
            w = cov["spec_action_coverage"].setdefault(a, [0, 0])
            w[0] += v[0]
            w[1] += v[1]
        # sub-expressions of the actions that TLC never evaluated (vacuity of a branch of the operational layer)
        zero += len(set(ln for ln in r.text if ln.rstrip().endswith("of module IdentityConstraints: 0")))
    never = [a for a, v in cov["spec_action_coverage"].items() if v[0] == 0]
    if never:
        C.log("specification actions never taken in the exhaustive configs:", never)
    cov["spec_actions_never_taken"] = never
    cov["spec_expressions_never_evaluated"] = zero
    # 2. T: every enumerated case on the real validators
    total = {}
    samples = []
    gens = []
    for cfg in k["gens"]:
        rg, cnt, p = _pipe(out, "IdentityConstraintsGen", cfg, exe, k["nproc"])
        _acc(total, cnt)
        gens.append(dict(cfg=cfg, lines=p.n, generator=rg.summary()))
        samples += [C.decode_tlc_json(s) for s in p.samples[:2]]
    # 3. L: large instances, expanded and judged by TLC (step-wise run of the operational layer = declarative layer)
    ltotal = {}
    lruns = []
    tdir = tempfile.mkdtemp(prefix="c10L.", dir=os.path.join(C.BUILD, "tlc"))
    for i, (n, s, how) in enumerate(k["large"]):
        d = _large_descr(n, s, "twofield" if how.startswith("two") else "keyref")
        path = os.path.join(tdir, "large%d.json" % i)
        with open(path, "w") as f:
            json.dump(d, f)
        # "step": the operational layer runs event by event and TLC checks its verdict against the declarative layer;
        # "decl": the declarative layer alone judges the instance (the largest ones)
        cfg = "IdentityConstraintsLarge.cfg" if how.endswith("step") else "IdentityConstraintsLargeDecl.cfg"
        rl, cnt, p = _pipe(out, "IdentityConstraintsLarge", cfg, exe, 1, env={"C10_LARGE": path}, workers=1)
        _acc(ltotal, cnt)
        lruns.append(dict(descr=d, how=how, tuples=(n if how.startswith("two") else 2 * n), states=rl.distinct, lines=p.n, wall_s=round(rl.wall, 1)))
    import shutil
    shutil.rmtree(tdir, ignore_errors=True)
    cases = total.get("cases", 0)
    cov["T"] = dict(cases=cases, parses=total.get("parses", 0), compared=total.get("compared", 0),
                    expected_valid=total.get("exp:valid", 0), expected_invalid=total.get("exp:invalid", 0),
                    expected_kinds={a[8:]: v for a, v in total.items() if a.startswith("expkind:")},
                    families={a[4:]: v for a, v in total.items() if a.startswith("fam:")},
                    mismatch_as_coded_model=total.get("mismatch_as_coded_model", 0), mismatch_unexplained=total.get("mismatch_unexplained", 0),
                    deviations={a[4:]: v for a, v in total.items() if a.startswith("dev:")}, generators=gens)
    cov["L"] = dict(instances=ltotal.get("cases", 0), parses=ltotal.get("parses", 0), compared=ltotal.get("compared", 0), runs=lruns)
    cov["traces_validated_against_impl"] = cases + ltotal.get("cases", 0)
    cov["samples"] = samples[:3]
    cov["exhaustive"] = True
    cov["evaluations"] = total.get("parses", 0) + ltotal.get("parses", 0)
    cov["distinct_nontrivial"] = total.get("exp:invalid", 0) + ltotal.get("exp:invalid", 0)
    cov["rule"] = ("T: every (constraint set, field type, well-formed tree) of the families of IdentityConstraintsMC.tla within the length cap "
                   "(distinct by construction), each validated by 4 parser configurations; non-trivial = the declarative layer finds at "
                   "least one violation (the valid ones are counted in T.expected_valid)")
    out.assumptions += ["families and bounds of spec/IdentityConstraintsMC.tla with the cfg files " + ", ".join(k["checks"] + k["gens"]),
                        "renderer tables of harness/ic_harness.cpp; IC_* code -> kind table; sets of kinds are compared",
                        "kinds listed in `maybe` (after a multiply matched field; keyref errors after a violated key) are not compared"]


def replay(out, path):
    """Re-run one recorded disagreement."""
    C.build_lib("hooks")
    exe = C.build_harness("ic_harness")
    d = json.load(open(path))
    case = d["case"]
    line = json.dumps(json.dumps(case["abstract"]))
    rc, o = C.run([exe, "t"], input=line + "\n", timeout=600)
    mism, summ, _ = C.harness_results(o.splitlines())
    for m in mism:
        out.disagree(m["cls"], m["case"], m.get("why", ""))
    out.coverage.update(evaluations=1, distinct_nontrivial=1, samples=[case.get("abstract")], states=1, transitions=1, traces_validated_against_impl=1)
