"""C02 - fatal error iff the document is not well-formed.

Specification spec/XmlTokens.tla (token-level documents; push-down machine shaped like scanProlog/scanContent/
scanMiscellaneous vs grammar membership WF / NSWF), checked by TLC (invariants TypeOK, Agree, AgreeNS) on the
profiles structure, prolog, lexis, attrs, entities.  Binder T: every terminal state of that exploration (first fatal
error or end of input) is rendered to bytes (harness/common/tokrender.hpp, lexical freedoms from VERIF_SEED) and parsed
by SAXParser, SAX2XMLReader, XercesDOMParser, DOMLSParser (with/without filter), the raw XMLDocumentHandler stream,
each also through parseFirst/parseNext, x IG/WF/DG/SG scanner x namespaces on/off; observation =
(fatal error or escaped exception) versus the specification's verdict.  A case that ends at the first fatal error is
rendered as the canonical completion of the prefix (open elements closed, root supplied), so the violating token is the
only defect of the document.

Genuine defect re-found (known_findings.d/C02.json): "<a/>" + E2 82 (or FF) at end of input is accepted silently.

Mutants (mutants/C02/*.diff), all DETECTED: chardata_no_cdend_check (IGXMLScanner: "]]>" in text accepted),
wf_endtag_name_not_compared (WFXMLScanner: </b> closes <a>), charref_nonchar_accepted (&#0; &#xFFFE; accepted),
dg_duplicate_attr_nons (DGXMLScanner, namespaces off: <a x='1' x='2'/> accepted).
Non-vacuity: flipping one expected verdict makes 80/80 configurations disagree; disabling the end-tag comparison in the
machine makes TLC report invariant Agree violated.
VERIF_SMOKE=1 runs the same check on spec/*.smoke.cfg (smaller bounds, a subset of the quick cases).
"""
import json
import os

from vf import common as C

META = dict(
    property_id="C02", engine="XmlTokens", category="model_checking", design_ref="DESIGN.md §4 C02",
    technique="explicit TLA+ specification (XmlTokens: token-level push-down machine vs grammar membership) model-checked with TLC; "
              "every terminal state of the exploration replayed on the real parsers (T) under all APIs x scanners x namespaces",
    text="TLC checks exhaustively, for five token alphabets (structure, prolog/epilog, content lexis, attributes+namespaces, entities), "
         "that the scanner-shaped machine reports a fatal error exactly on the sequences outside the XML 1.0 grammar + WFCs (+ namespace "
         "constraints) and never later than the first violating token; every enumerated sequence (well-formed ones and every single-constraint "
         "violation at every position) is rendered to bytes and parsed by every parser API and scanner, and the real verdict must equal the "
         "specification's.",
    note="Trusted: TLC, the table-driven renderer (tokens -> bytes), parsedump.hpp. Bounds: alphabets and lengths of spec/XmlTokens*.cfg. "
         "XML 1.1, external subsets/entities, parameter entities and encodings other than UTF-8/UTF-16 are not generated.",
)

CONSTS = {
    "quick": dict(gen="XmlTokensGen.quick.cfg"),
    "thorough": dict(gen="XmlTokensGen.thorough.cfg"),
}


def run_gen(out, what, cfg, exe, nproc=8, workers=8, timeout=9000):
    p = C.Piper([exe, "t", what, str(C.seed())], timeout=timeout, nproc=nproc)
    res = C.tlc("XmlTokensGen", cfg, workers=workers, on_chunk=p.feed_chunk, timeout=timeout, heap="8g", coverage=True,
                tool_opts=["-XX:ParallelGCThreads=4"])
    p.close()
    C.tlc_must_pass(res, "XmlTokensGen/" + cfg)
    mism, summ, _ = C.harness_results(p.out)
    cnt = summ.get("counts", {})
    if cnt.get("torn", 0):
        raise C.InfraError("torn TLC lines reached the harness: %s" % cnt.get("torn"))
    if summ.get("lines", 0) != p.n:
        raise C.InfraError("harness read %s of %s generated lines\n%s" % (summ.get("lines"), p.n, "\n".join(p.err[-20:])))
    if p.n == 0:
        raise C.InfraError("TLC generator emitted nothing")
    for m in mism:
        out.disagree(m["cls"], m["case"], m.get("why", ""))
    return res, summ, cnt, p


def fill_cov(out, res, cnt, p, cfg):
    cov = out.coverage
    cov["states"] = res.distinct
    cov["transitions"] = res.generated
    cov["spec_check"] = res.summary()
    cov["checker_cmd"] = res.cmd
    cov["spec_action_coverage"] = dict(res.coverage)
    cov["spec_actions_never_taken"] = [a for a, v in res.coverage.items() if v[0] == 0]
    cov["cases_replayed"] = cnt.get("cases", 0)
    cov["parses"] = cnt.get("parses", 0)
    cov["per_profile"] = {k[5:]: v for k, v in cnt.items() if k.startswith("prof:")}
    cov["expected_verdicts"] = {k[4:]: v for k, v in cnt.items() if k.startswith("exp:")}
    cov["violation_classes"] = {k[4:]: v for k, v in cnt.items() if k.startswith("why:")}
    cov["encodings"] = {k[4:]: v for k, v in cnt.items() if k.startswith("enc:")}
    cov["child_failures"] = cnt.get("child_failures", 0)
    cov["traces_validated_against_impl"] = cnt.get("cases", 0)
    cov["samples"] = [C.decode_tlc_json(s) for s in p.samples[:3]]
    cov["exhaustive"] = True
    cov["evaluations"] = cnt.get("parses", 0)
    out.assumptions += ["constants and alphabets of spec/%s" % cfg,
                        "the renderer realises the token sequence (table-driven, harness/common/tokrender.hpp)",
                        "SGXMLScanner always processes namespaces (scanReset sets fDoNamespaces), so it is held to the namespace verdict",
                        "WFXMLScanner and SGXMLScanner are run on DOCTYPE-free cases only"]


def pick(consts, tier):
    """VERIF_SMOKE=1 selects the small bounds (spec/*.smoke.cfg: a subset of the quick tier's cases, same alphabets and renderings);
    used for the mutant demonstrations while the machine was heavily loaded."""
    k = dict(consts[tier])
    if os.environ.get("VERIF_SMOKE") == "1":
        k["gen"] = k["gen"].replace(".quick.", ".smoke.").replace(".thorough.", ".smoke.")
    return k


def run(out, tier):
    k = pick(CONSTS, tier)
    C.build_lib("hooks")
    exe = C.build_harness("xmltok_harness")
    res, summ, cnt, p = run_gen(out, "c02", k["gen"], exe)
    fill_cov(out, res, cnt, p, k["gen"])
    cov = out.coverage
    cov["distinct_nontrivial"] = cnt.get("cases", 0)
    cov["rule"] = ("every terminal state (first fatal error, or end of input) of the XmlTokens exploration under %s is one case, distinct by "
                   "construction (the token sequence is part of the state); each is non-trivial: it is parsed under every applicable "
                   "API x scanner x namespace configuration and the verdict compared with the specification's" % k["gen"])


def replay(out, path):
    C.build_lib("hooks")
    exe = C.build_harness("xmltok_harness")
    d = json.load(open(path))
    case = d["case"]
    rc, o = C.run([exe, "t", case.get("check", "c02"), str(case.get("seed", C.seed()))], input=case["line"] + "\n", timeout=600)
    mism, summ, _ = C.harness_results(o.splitlines())
    for m in mism:
        out.disagree(m["cls"], m["case"], m.get("why", ""))
    out.coverage.update(evaluations=summ.get("counts", {}).get("parses", 0), distinct_nontrivial=1, samples=[case.get("doc")], states=1, transitions=1,
                        traces_validated_against_impl=1)
