"""C20 - XInclude: specification XInclude (explicit-stack machine vs the recursive definition of XInclude 1.0), binder T.

Every file system (inclusion graph) TLC enumerates within the weight bound is written to a scratch directory under .build/c20 and
parsed with XercesDOMParser and DOMLSParser (XInclude + namespaces on). For a defined expansion the DOM must equal the specified
tree (modulo DOM normalisation, xml:base attributes set aside), every element's base URI must resolve a probe reference into the
directory of the document the element came from, the number of resource-error warnings must equal the number of fallbacks used, and
exactly the specified files must be opened (XMLPlatformUtils::fgFileMgr decorator). For a loop or an invalid usage a fatal error of
the specified class must be reported, and the call must return (vh::Supervisor: a hang or crash is a disagreement).
The same TLC run checks the specification's own invariants (XIncludeInv: machine = Expand, LoopSound/LoopComplete, HistIsChain,
DepthBound, BaseFixup) with deadlock checking on (termination); the temporal property Terminates is checked on XInclude.small.cfg.

Non-vacuity (done by hand, 2026-09-22): flipping one expected base directory, one text, the error class, the loads or the warning
count of a generated case makes the harness report it (why = base / tree / not reported / files read / warnings / spurious error);
removing the history pop or the history look-up from the SPECIFICATION makes TLC report XIncludeInv violated on XInclude.small.cfg;
TLC coverage: every action of the machine is taken (evidence: spec_action_coverage, spec_actions_never_taken = []).

Mutants (mutants/C20, `bin/mutant-run C20 mutants/C20/*.diff`):
  history_not_popped                 popFromCurrentInclusionHistoryStack dropped -> a later sibling include of the same file (inside
                                     an included document) is refused as a loop
  history_check_removed              isInCurrentInclusionHistoryStack ignored -> cycles that do not pass through the main document
                                     recurse without bound (crash / hang = disagreement)
  fallback_not_reprocessed           the children of a used xi:fallback are not processed -> include elements stay in the result
                                     (visible in included documents only: the main document is processed bottom-up)
  href_ignores_include_base          href resolved against the main document instead of the include element's base
  base_fixup_only_without_href_dir   no xml:base fix-up when the href has a directory part -> base URIs (and nested hrefs) wrong
"""
import json
import os
import shutil
import tempfile

from vf import common as C

META = dict(
    property_id="C20", engine="XInclude", category="model_checking", design_ref="DESIGN.md §4 C20",
    technique="explicit TLA+ specification (XInclude: stack machine shaped like XIncludeUtils, checked by TLC against the recursive "
              "definition of XInclude 1.0 incl. loop detection and xml:base fix-up); every enumerated inclusion graph is materialised "
              "on disk and parsed by XercesDOMParser and DOMLSParser (binder T)",
    text="TLC checks exhaustively, for all file systems of up to 3 files in 2 directories within a weight bound (self-inclusion, 2- and "
         "3-cycles, cycles through the sub-directory, diamond sharing, missing targets with and without fallback, nested fallbacks, "
         "include as document element, text inclusion, every invalid usage), that the machine terminates, computes exactly the "
         "recursive expansion, reports a loop iff the inclusion graph it walks has a cycle, and that the xml:base fix-ups resolve to "
         "the source document's directory. Each of these file systems is then parsed by the real parsers and tree, base URIs, error "
         "class, files opened and termination are compared.",
    note="Trusted: TLC, the table-driven renderer and the DOM projection of harness/xinclude_harness.cpp (text compared modulo DOM "
         "normalisation; xml:base attributes set aside and checked by resolving a probe reference). Not modelled: xpointer (refused "
         "by the code), encoding attribute, accept headers, xml:base attributes in the sources, DTD notation/entity merging, "
         "not-well-formed XML resources, http hrefs, entity resolvers.",
)

# gen: ONE exhaustive TLC run that checks the invariants of the specification (XIncludeInv) and emits the cases (EmitCase);
# live: a smaller configuration on which the temporal property Terminates is checked as well.
CONSTS = {
    "quick": dict(gen=["XIncludeGen.quick.cfg"], live="XInclude.small.cfg"),
    "thorough": dict(gen=["XIncludeGen.thorough.cfg", "XIncludeGen.deep.cfg"], live="XInclude.small.cfg"),
}


def _scratch():
    base = os.path.join(C.BUILD, "c20")
    os.makedirs(base, exist_ok=True)
    return tempfile.mkdtemp(prefix="fs.", dir=base)


def _replay_lines(out, exe, module, cfg, workers, timeout=6000, nproc=8):
    scratch = _scratch()
    try:
        p = C.Piper([exe, "t", scratch], timeout=timeout, nproc=nproc)
        res = C.tlc(module, cfg, workers=workers, on_chunk=p.feed_chunk, timeout=timeout, heap="8g", coverage=True)
        p.close()
    finally:
        shutil.rmtree(scratch, ignore_errors=True)
    C.tlc_must_pass(res, "%s/%s" % (module, cfg))          # model failure (exit 2), never a VIOLATION
    mism, summ, _ = C.harness_results(p.out)
    cnt = summ.get("counts", {})
    if cnt.get("torn", 0) or cnt.get("ioerror", 0):
        raise C.InfraError("harness trouble: torn=%s ioerror=%s" % (cnt.get("torn", 0), cnt.get("ioerror", 0)))
    if summ.get("lines", 0) != p.n or p.n == 0:
        raise C.InfraError("harness read %s of %s generated lines\n%s" % (summ.get("lines"), p.n, "\n".join(p.err[-20:])))
    for m in mism:
        out.disagree(m["cls"], m["case"], m.get("why", ""))
    if cnt.get("skipped_after_failures", 0) and not mism:
        raise C.InfraError("cases were skipped without a reported failure")
    return res, summ, cnt, p


def run(out, tier):
    k = CONSTS[tier]
    C.build_lib("hooks")
    exe = C.build_harness("xinclude_harness")
    cov = out.coverage
    # 1. the specification satisfies C20: machine = recursive definition, loops reported, history = chain, base fix-up,
    #    termination (deadlock check + step counter; and the temporal property on the smaller configuration);
    # 2. T: the same run emits every file system with its specified outcome; each is parsed by the real parsers.
    rl = C.tlc("XInclude", k["live"], workers=4, timeout=6000, heap="4g")
    C.tlc_must_pass(rl, "XInclude/" + k["live"] + " (liveness: Terminates)")
    r = None
    cnt = {}
    fails = 0
    samples = []
    runs = []
    for cfg in k["gen"]:
        r1, summ1, cnt1, p1 = _replay_lines(out, exe, "XIncludeGen", cfg, workers=8, timeout=40000)
        runs.append(dict(cfg=cfg, cases=cnt1.get("cases", 0), **r1.summary()))
        for a, v in cnt1.items():
            cnt[a] = cnt.get(a, 0) + v
        fails += summ1.get("child_failures", 0)
        samples += p1.samples[:2]
        if r is None:
            r = r1
        else:
            r.distinct += r1.distinct
            r.generated += r1.generated
            for a, v in r1.coverage.items():
                w = r.coverage.setdefault(a, [0, 0])
                r.coverage[a] = [w[0] + v[0], w[1] + v[1]]
    cov["states"] = r.distinct
    cov["transitions"] = r.generated
    cov["spec_check"] = runs
    cov["liveness_check"] = rl.summary()
    cov["checker_cmd"] = r.cmd
    acts = ("Text", "Descend", "Ascend", "OrphanFallback", "Reject", "Enter", "LoadText", "LoopDetected", "LoadXml", "Fail",
            "UseFallback", "NoFallback", "Splice", "Leave", "Finish", "Init")
    cov["spec_action_coverage"] = {a: v for a, v in r.coverage.items() if a in acts}
    never = [a for a in acts if a in r.coverage and r.coverage[a][0] == 0] + [a for a in acts if a not in r.coverage]
    cov["spec_actions_never_taken"] = never
    if never:
        C.log("specification actions never taken in the exhaustive config:", never)
    results = {a[4:]: v for a, v in cnt.items() if a.startswith("res:")}
    cov["T"] = dict(cases=cnt.get("cases", 0), parses=cnt.get("parses", 0), expected_results=results,
                    mismatching_parses=cnt.get("mismatches", 0), child_failures=fails,
                    skipped_after_failures=cnt.get("skipped_after_failures", 0))
    cov["traces_validated_against_impl"] = cnt.get("cases", 0)
    cov["evaluations"] = cnt.get("parses", 0)
    cov["distinct_nontrivial"] = cnt.get("cases", 0)
    cov["samples"] = [C.decode_tlc_json(s) for s in samples[:3]]
    cov["exhaustive"] = True
    cov["rule"] = ("one case = one file system enumerated by TLC (distinct by construction: distinct initial states of %s), parsed by "
                   "two parsers; every case is non-trivial: tree + base URIs + files opened, or error class + termination, are compared"
                   % ", ".join(k["gen"]))
    out.assumptions += ["constants of spec/%s" % ", spec/".join(k["gen"]),
                        "text is compared modulo DOM normalisation (adjacent character data merged)",
                        "for an expected fatal error only its class and the return of parse() are compared, not the partial tree",
                        "resources that are not well-formed XML, xpointer, encoding= and xml:base in source documents are not generated"]


def replay(out, path):
    C.build_lib("hooks")
    exe = C.build_harness("xinclude_harness")
    d = json.load(open(path))
    case = d["case"]["case"]
    scratch = _scratch()
    try:
        rc, o = C.run([exe, "t", scratch], input=json.dumps(json.dumps(case)) + "\n", timeout=600)
    finally:
        shutil.rmtree(scratch, ignore_errors=True)
    mism, summ, _ = C.harness_results(o.splitlines())
    for m in mism:
        out.disagree(m["cls"], m["case"], m.get("why", ""))
    out.coverage.update(evaluations=2, distinct_nontrivial=1, samples=[case], states=1, transitions=1, traces_validated_against_impl=1)
