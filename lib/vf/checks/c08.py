"""C08 - XML Schema structure validation: SchemaStruct specification, binder T.

Specification (spec/SchemaStruct.tla): a typed schema model (element declarations, complex types with derivation, particles
with occurrence ranges over sequence / choice / all, wildcards, substitution groups, attribute uses, value constraints) and an
instance model; DECLARATIVE layer = Structures 1.0 validity (InLang / Valid / UPADecl / RestrictOK); OPERATIONAL layer shaped
like the code (Expand = ComplexTypeInfo::expandContentModel incl. the counting leaf, Deriv/Nullable/Cons = DFAContentModel +
AllContentModel + laxElementValidation, StartTag/FeedItem/EndTag = SchemaValidator::validateElement / checkContent).
TLC checks Agree, SameAsFold, UPAClean, UPAAgree (+ ASSUME RestrictSound) over the template family S1-S11, S13, S14.

Binder T (spec/SchemaStructGen.tla -> harness/xsd_harness.cpp): one line per schema with all its instances; the schema is
rendered to XSD, loaded once per configuration (DOM / SAX2 x IGXMLScanner / SGXMLScanner x full checking off / on) with
loadGrammar + grammar caching, every instance validated; compared: schema load result, verdict (validity error / none; a
fatal error or exception is never allowed), error-kind class, and for valid instances the root's type name (DOMTypeInfo /
PSVI), its attributes after defaulting and the element default text.

Genuine defects of the pinned tree found by this check are listed in known_findings.d/C08.json (printed as
KNOWN-FINDING, exit 0); every other disagreement is a VIOLATION.

Mutants (mutants/C08/*.diff, `./bin/mutant-run C08 mutants/C08/*.diff`; output in mutants/C08/RESULTS.txt). DETECTED by the
quick tier: counting_max_off_by_one, nil_content_accepted, all_duplicate_accepted, block_substitution_needs_abstract. The other
three (other_admits_tns, prohibited_attr_accepted, xsitype_block_first_step_only) were written but their mutant-run had to be
stopped (machine load); the cases that expose them are in the family (S5 ##other + tns child; S9/S11 prohibited use without
wildcard; S7 xsi:type=tZ with block="extension" on the element).
  counting_max_off_by_one            DFAContentModel::handleRepetitions: ++loop > max + 1                    (S1/S2/S4: a{2,3}, a{0,2})
  other_admits_tns                   DFAContentModel::validateContent: ##other admits the target namespace   (S5)
  nil_content_accepted               SchemaValidator::checkContent: character content of a nilled element    (S8)
  prohibited_attr_accepted           IGXMLScanner buildAttList: ProhibitedAttributePresent never raised      (S9, S11)
  all_duplicate_accepted             AllContentModel::validateContent: duplicate optional child accepted     (S3)
  block_substitution_needs_abstract  SubstitutionGroupComparator: block="substitution" ignored               (S6)
  xsitype_block_first_step_only      SchemaValidator::validateElement: block checked on the last step only   (S7)
Non-vacuity was also shown by corrupting expected fields of generated lines (a verdict, a load result, a defaulted
attribute value): each corruption is reported as a mismatch.
"""
import json
import os

from vf import common as C

META = dict(
    property_id="C08", engine="SchemaStruct", category="model_checking", design_ref="DESIGN.md §4 C08",
    technique="explicit TLA+ specification (SchemaStruct) of XML Schema 1.0 structure validation model-checked with TLC (operational "
              "content-model automaton with occurrence counters and per-element validation ladder = declarative Structures validity); "
              "every schema of the template family rendered to XSD and every bounded instance validated by xerces-c (T)",
    text="TLC checks exhaustively, for the template family S1-S11/S13/S14 (occurrence ranges, choice, all-groups, nesting, wildcards, "
         "substitution groups, xsi:type, xsi:nil, attribute uses, content kinds, derivation, UPA, value constraints) and all instances up to the "
         "bound, that the code-shaped validator (expansion + counting automaton + validateElement/checkContent ladder) raises no error "
         "exactly for the instances that are valid per XML Schema 1.0 Structures; each schema is rendered to XSD text, loaded once per "
         "configuration (DOM/SAX2 x IGXMLScanner/SGXMLScanner x full checking off/on) and every instance is validated; verdict "
         "(validity error / none, never fatal), error-kind class, schema load result, root type name and defaulted attributes are compared.",
    note="Trusted: TLC, the table-driven XSD/instance renderers, the code->kind table (kind comparison is 'one reported code stands for an "
         "expected kind'). Bounds: templates and instance lengths of spec/SchemaStruct*.cfg; simple types only xs:string / xs:int; "
         "redefine, groups/attributeGroups, import/include, identity constraints and complex restriction checking are not modelled.",
)

CONSTS = {
    "quick": dict(check="SchemaStruct.quick.cfg", gen="SchemaStructGen.quick.cfg"),
    "thorough": dict(check="SchemaStruct.thorough.cfg", gen="SchemaStructGen.thorough.cfg"),
}


def _pipe(out, module, cfg, exe, timeout=12000, nproc=4, workers=4):
    p = C.Piper([exe, "t"], timeout=timeout, nproc=nproc)
    res = C.tlc(module, cfg, workers=workers, on_chunk=p.feed_chunk, timeout=timeout, heap="6g")
    p.close()
    if not res.ok:
        raise C.InfraError("TLC generator %s/%s failed: rc=%s\n%s" % (module, cfg, res.rc, "\n".join(res.text[-40:])))
    mism, summ, _ = C.harness_results(p.out)
    if summ.get("torn", 0):
        raise C.InfraError("torn TLC lines reached the harness: %s" % summ.get("torn"))
    if summ.get("render_failures", 0):
        raise C.InfraError("the renderer failed on %s schema records" % summ.get("render_failures"))
    if summ.get("lines", 0) != p.n:
        raise C.InfraError("harness read %s of %s generated lines" % (summ.get("lines"), p.n))
    if summ.get("schemas", 0) != p.n:
        raise C.InfraError("harness handled %s of %s generated schemas" % (summ.get("schemas"), p.n))
    if p.n == 0:
        raise C.InfraError("TLC generator %s/%s emitted nothing" % (module, cfg))
    for m in mism:
        out.disagree(m["cls"], m["case"], m.get("why", ""))
    return res, summ, p


def _sample(line):
    j = C.decode_tlc_json(line)
    return dict(template=j[0], params=j[1], types=[t["name"] for t in j[2]["types"]], load=j[3], instances=len(j[4]), first=j[4][:3])


def run(out, tier):
    k = CONSTS[tier]
    C.build_lib("hooks")
    exe = C.build_harness("xsd_harness")
    cov = out.coverage
    # 2. (started first, runs concurrently) T: every schema of the family, every instance
    import threading
    box = {}

    def gen():
        try:
            box["r"] = _pipe(out, "SchemaStructGen", k["gen"], exe, workers=4)
        except BaseException as ex:     # re-raised in the main thread
            box["ex"] = ex
    th = threading.Thread(target=gen, daemon=True)
    th.start()
    # 1. the specification satisfies C08 on itself: operational verdict = declarative validity, UPA of the family
    r = C.tlc("SchemaStruct", k["check"], workers=4, coverage=True, timeout=12000, heap="6g")
    th.join()
    C.tlc_must_pass(r, "SchemaStruct/" + k["check"])
    if "ex" in box:
        raise box["ex"]
    cov["states"] = r.distinct
    cov["transitions"] = r.generated
    cov["spec_check"] = r.summary()
    cov["checker_cmd"] = r.cmd
    cov["spec_action_coverage"] = {a: v for a, v in r.coverage.items()}
    # the two disjuncts of Next that sit under a quantifier are reported as '<Next line .. (l c l c)>: taken:generated'
    import re
    nx = [[int(m.group(1)), int(m.group(2))] for m in (re.match(r"<Next line .*\)>: (\d+):(\d+)", ln) for ln in r.text) if m]
    if len(nx) >= 2:
        cov["spec_action_coverage"]["Open"], cov["spec_action_coverage"]["Item"] = nx[-2], nx[-1]
    never = [a for a in ("Init", "Open", "Item", "Close") if cov["spec_action_coverage"].get(a, [1])[0] == 0]
    cov["spec_actions_never_taken"] = never
    if never:
        raise C.InfraError("specification actions never taken: %s" % never)
    rg, st, p = box["r"]
    cov["T"] = dict(schemas=st.get("schemas", 0), loads=st.get("loads", 0), parses=st.get("parses", 0),
                    expected_valid=st.get("exp_valid", 0), expected_invalid=st.get("exp_invalid", 0),
                    kind_checked=st.get("kind_checked", 0), info_checked=st.get("info_checked", 0),
                    load_errors_expected=st.get("exp_load_error", 0),
                    templates={a[5:]: v for a, v in st.items() if a.startswith("tmpl:")},
                    mismatches=st.get("mismatches", 0),
                    mismatch_kinds={a[3:]: v for a, v in st.items() if a.startswith("mm:")},
                    child_failures=st.get("child_failures", 0), generator=rg.summary())
    ninst = st.get("instances", 0)
    cov["traces_validated_against_impl"] = ninst
    cov["samples"] = [_sample(s) for s in p.samples[:2]]
    cov["exhaustive"] = True
    cov["evaluations"] = st.get("parses", 0) + st.get("loads", 0)
    cov["distinct_nontrivial"] = ninst
    cov["rule"] = ("T: TLC emits each (schema of the family, instance) pair once (sets, distinct by construction) for the constants of %s; "
                   "each pair is validated under 8 configurations (evaluations = parses + schema loads); distinct_nontrivial = number of "
                   "distinct (schema, instance) pairs whose verdict was compared" % k["gen"])
    out.assumptions += ["constants of spec/%s and spec/%s" % (k["check"], k["gen"]),
                        "renderers (schema record -> XSD, instance tuple -> XML) are table-driven and trusted",
                        "error kinds are compared through the code table of harness/xsd_harness.cpp (one reported code must stand for an expected kind)"]


def replay(out, path):
    """Re-run one recorded disagreement (a single schema + instance)."""
    C.build_lib("hooks")
    exe = C.build_harness("xsd_harness")
    d = json.load(open(path))
    case = d["case"]
    if "schema" not in case:
        raise C.InfraError("replay file has no schema record")
    docs = [[case["doc"], case.get("kinds", [])] + ([case["info"]] if "info" in case else [])] if "doc" in case else []
    line = json.dumps(json.dumps([case["tmpl"], case["par"], case["schema"], case["load"], docs]))
    rc, o = C.run([exe, "t"], input=line + "\n", timeout=600)
    mism, summ, _ = C.harness_results(o.splitlines())
    for m in mism:
        out.disagree(m["cls"], m["case"], m.get("why", ""))
    out.coverage.update(evaluations=summ.get("parses", 0) + summ.get("loads", 0), distinct_nontrivial=len(docs), samples=[case.get("xml", case.get("xsd"))],
                        states=1, transitions=1, traces_validated_against_impl=len(docs))
