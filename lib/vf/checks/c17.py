"""C17 - distinct parser / document / transcoder objects are safe to use concurrently.

Specification spec/Concurrency.tla (threads, mutexes, shared cells, the locking protocol per site as coded), checked by TLC
for 2-3 threads and every interleaving; bound to the code by
  W  every interleaving TLC enumerates for ConcurrencyWalk is FORCED on the real library (harness/conc_harness w: each
     worker parks after every lock / unlock / H8 shared-cell access; only the thread TLC scheduled runs); the observed
     step, its value, the returned values and the final abstract state must be the specification's;
  V  2..16 threads run seeded workloads with nothing warmed up; the totally ordered Lock/Unlock/Acc log is validated by
     ConcurrencyTrace (mutual exclusion, guarded writes, init-once, unique scanner ids, functional pool ids on the states
     the implementation visited); per-thread digests must equal the single-threaded digests.

Mutants detected (mutants/C17): getrange_nolock, commoninit_nolock, syncpool_nolock, uripool_plain_when_locked,
doctype_nolock - each deterministically (first unguarded write / first step that differs), none by waiting for an unlucky
schedule.  Timeouts never produce a violation (they are infrastructure failures).
"""
import json
import os
import re
import shutil
import tempfile

from vf import common as C

META = dict(
    property_id="C17", engine="Concurrency", category="model_checking", design_ref="DESIGN.md §4 C17",
    technique="explicit TLA+ specification (Concurrency) of the mutex / lazy-initialisation protocol per site, model-checked with TLC "
              "(every interleaving of 2-3 threads); every enumerated interleaving forced on the real library through a deterministic "
              "scheduler at lock and shared-cell hooks (W); recorded multi-threaded executions trace-validated against the specification (V)",
    text="TLC checks exhaustively that the protocol as coded gives mutual exclusion, guarded writes, init-once, unique scanner ids, "
         "functional string-pool ids, a constant locked pool, no deadlock and termination, and that each of these fails when the lock of "
         "its site is removed. All interleavings of the hooked steps of two threads (and three threads, one call each) are replayed on "
         "xerces-c and compared step by step; executions of 2..16 threads over parsers, a shared locked grammar pool, DOM, regular "
         "expressions, transcoding are validated line by line, so a deleted XMLMutexLock is rejected at its first write.",
    note="Trusted: TLC, the XMLMutexMgr wrapper and the H8 hooks (sequence numbers drawn while the mutex is held), sequential consistency at "
         "event granularity. Not decided: races on memory no hook observes; the C++ memory-model status of the double-checked fast path. "
         "ThreadSanitizer is not used.",
)

CONSTS = {
    "quick": dict(checks=["Concurrency.quick.cfg", "Concurrency.quick2.cfg", "Concurrency.ascoded.cfg"], walks=["ConcurrencyWalk.quick.cfg", "ConcurrencyWalk.three.cfg"],
                  v=[(2, 60), (3, 60), (4, 60), (8, 40), (16, 25), (16, 25)]),
    "thorough": dict(checks=["Concurrency.quick.cfg", "Concurrency.quick2.cfg", "Concurrency.ascoded.cfg", "Concurrency.thorough.cfg"],
                     walks=["ConcurrencyWalk.thorough.cfg", "ConcurrencyWalk.three.cfg"],
                     v=[(n, s) for n in (2, 3, 4, 6, 8, 12, 16) for s in (150, 150, 80)]),
}
# configurations that MUST be violated: the lock of one site deleted / token published before it is complete
NEGATIVE = {
    "Concurrency.neg-gr.cfg": "getRange without its lock",
    "Concurrency.neg-ci.cfg": "commonInit without its lock",
    "Concurrency.neg-rg.cfg": "registry without its lock",
    "Concurrency.neg-spa.cfg": "addOrFind without its lock",
    "Concurrency.neg-dt.cfg": "static document without its lock",
    "Concurrency.neg-lcp.cfg": "converter without its lock",
    "Concurrency.neg-lazymap.cfg": "token published before its match map exists",
}


def _action_coverage(res, module="Concurrency"):
    """TLC labels the sub-actions of Next by the innermost operator and the call site '(l c l c)'; map the call-site line
    back to the name defined on that line (AGrFast == ...)."""
    names = {}
    for i, ln in enumerate(open(os.path.join(C.SPEC, module + ".tla")).read().splitlines(), 1):
        m = re.match(r"^(A[A-Z]\w*|Terminated) ==", ln)
        if m:
            names[i] = m.group(1)
    cov = {}
    for ln in res.text:
        m = re.match(r"<(\w+) line (\d+), col \d+ to line \d+, col \d+ of module (\w+)(?: \((\d+) \d+ \d+ \d+\))?>: (\d+):(\d+)", ln)
        if not m or m.group(3) != module:
            continue
        line = int(m.group(4)) if m.group(4) else int(m.group(2))
        name = names.get(line)
        if name:
            a = cov.setdefault(name, [0, 0])
            a[0] = max(a[0], int(m.group(5)))
            a[1] = max(a[1], int(m.group(6)))
    return cov


def _walk(out, cfg, exe, cov):
    p = C.Piper([exe, "w"], timeout=6000, nproc=8)
    res = C.tlc("ConcurrencyWalk", cfg, workers=4, on_chunk=p.feed_chunk, timeout=6000, heap="6g", deadlock=True)
    rc = p.close()
    if not res.ok:
        raise C.InfraError("TLC generator ConcurrencyWalk/%s failed: rc=%s\n%s" % (cfg, res.rc, "\n".join(res.text[-30:])))
    for ln in p.out:
        if ln.startswith("{") and '"t":"infra"' in ln:
            raise C.InfraError("walk replay infrastructure failure (a thread did not reach its next step in time): " + ln[:400])
    if rc not in (0,):
        raise C.InfraError("walk harness exited with %s: %s" % (rc, "\n".join(p.err[-10:])))
    mism, summ, _ = C.harness_results(p.out)
    cnt = summ.get("counts", {})
    if cnt.get("torn", 0) or summ.get("lines", 0) != p.n or p.n == 0:
        raise C.InfraError("walk harness read %s of %s lines (torn %s)" % (summ.get("lines"), p.n, cnt.get("torn")))
    for m in mism:
        out.disagree(m["cls"], m["case"], m.get("why", ""))
    w = cov.setdefault("W", dict(behaviours=0, steps=0, compared=0, actions={}, returns={}, configs=[]))
    w["behaviours"] += cnt.get("cases", 0)
    w["steps"] += cnt.get("steps", 0)
    w["compared"] += cnt.get("compared", 0)
    w["configs"].append(dict(cfg=cfg, behaviours=cnt.get("cases", 0), generator=res.summary()))
    for k, v in cnt.items():
        if k.startswith("act:"):
            w["actions"][k[4:]] = w["actions"].get(k[4:], 0) + v
        if k.startswith("ret:"):
            w["returns"][k[4:]] = w["returns"].get(k[4:], 0) + v
    return p


def _reject_cls(line, res):
    cls = dict(binder="V", site=line.get("site") or line.get("e"), k=line.get("k", ""))
    if res.violated:
        cls["violated"] = res.violated
    return cls


def _validate(out, path, case, keep_name):
    acc, matched, total, res = C.validate_trace("ConcurrencyTrace", "ConcurrencyTrace.cfg", path, timeout=3000)
    if acc:
        return True, matched
    acc2, matched2, total2, _ = C.validate_trace("ConcurrencyTrace", "ConcurrencyTrace.cfg", path, timeout=3000)
    if acc2 or matched2 != matched:
        raise C.InfraError("trace validation is not repeatable on %s" % path)
    lines = open(path).read().splitlines()
    bad = json.loads(lines[matched]) if matched < len(lines) else {}
    keep = os.path.join(C.REPLAY, "C17")
    os.makedirs(keep, exist_ok=True)
    kept = os.path.join(keep, keep_name)
    with open(kept, "w") as f:
        f.write("\n".join(lines[:matched + 1]) + "\n")
    case = dict(case, trace=kept, line=matched + 1, event=bad, violated=res.violated)
    out.disagree(_reject_cls(bad, res), case,
                 "ConcurrencyTrace rejects the recorded execution at line %d (%s): %s" %
                 (matched + 1, res.violated or "no specification action explains the line", json.dumps(bad)))
    return False, matched


def _unknown(out):
    """disagreements that are not known findings (the run is a VIOLATION already)"""
    known = C.load_known()
    return [d for d in out.disagreements if C.match_known(out.prop, d["cls"], known) is None]


def _spec_checks(out, k, cov):
    states = trans = 0
    acts = {}
    cov["spec_checks"] = []
    for cfg in k["checks"]:
        r = C.tlc("Concurrency", cfg, workers=8, coverage=True, timeout=9000, heap="8g")
        C.tlc_must_pass(r, "Concurrency/" + cfg)
        states += r.distinct
        trans += r.generated
        cov["spec_checks"].append(dict(cfg=cfg, **r.summary()))
        cov.setdefault("checker_cmd", r.cmd)
        for a, v in _action_coverage(r).items():
            acts.setdefault(a, [0, 0])
            acts[a][0] += v[0]
            acts[a][1] += v[1]
    # ... and every declarative property depends on the lock of its site (negative configurations must be violated)
    cov["negative_configs"] = {}
    for cfg, what in NEGATIVE.items():
        r = C.tlc("Concurrency", cfg, workers=4, timeout=9000, heap="4g", extra=("-noGenerateSpecTE",))
        if r.ok or not r.violated:
            raise C.InfraError("model failure: %s (%s) is not violated - the declarative layer is vacuous there\n%s" %
                               (cfg, what, "\n".join(r.text[-20:])))
        cov["negative_configs"][cfg] = dict(what=what, violated=r.violated, states=r.distinct)
    cov["states"] = states
    cov["transitions"] = trans
    cov["spec_action_coverage"] = acts
    # ASkipFirst belongs to the NoLock variants only (negative configurations); AMapAlloc / AMapFill are taken in Concurrency.ascoded.cfg
    never = sorted(a for a, v in acts.items() if v[1] == 0 and a not in ("ASkipFirst",))
    cov["spec_actions_never_taken"] = never
    if never:
        C.log("specification actions never taken:", never)


def _v_stage(out, k, exe, cov, samples):
    tdir = tempfile.mkdtemp(prefix="c17v.", dir=os.path.join(C.BUILD, "tlc"))
    v = cov.setdefault("V", dict(traces=0, accepted=0, events=0, digests_compared=0, runs=[]))
    for i, (n, steps) in enumerate(k["v"]):
        seed = C.seed() * 1000 + i
        path = os.path.join(tdir, "v%d.ndjson" % i)
        case = dict(mode="V", threads=n, seed=seed, steps=steps)
        rc, o = C.run([exe, "v", str(n), str(seed), str(steps), path], timeout=6000)
        if rc in (124, 3):
            raise C.InfraError("V recorder failed without a verdict (never a violation): threads=%d seed=%d rc=%s %s" % (n, seed, rc, o[-300:]))
        if rc != 0:
            out.disagree(dict(binder="V", site="crash", rc=rc), dict(case, out=o[-1500:]),
                         "the library crashed (rc=%s) while %d threads ran independent workloads on distinct objects" % (rc, n))
            continue
        mism, summ, _ = C.harness_results(o.splitlines())
        for m in mism:
            out.disagree(m["cls"], m["case"], m.get("why", ""))
        v["digests_compared"] += summ.get("counts", {}).get("digests_compared", 0)
        ok, matched = _validate(out, path, case, "trace-%d.ndjson" % seed)
        v["traces"] += 1
        v["accepted"] += 1 if ok else 0
        v["events"] += matched
        v["runs"].append(dict(threads=n, steps=steps, seed=seed, events=summ.get("counts", {}).get("events", 0), accepted=ok))
        if i == 0:
            samples.append(dict(trace_head=[json.loads(x) for x in open(path).read().splitlines()[:6]]))
        if _unknown(out) and i >= 1:
            break
    shutil.rmtree(tdir, ignore_errors=True)


def run(out, tier):
    k = CONSTS[tier]
    C.build_lib("hooks")
    exe = C.build_harness("conc_harness")
    cov = out.coverage
    samples = []
    cov["states"] = cov["transitions"] = 0
    # cheap bindings first; once the implementation has disagreed (beyond the known findings) the verdict is fixed and the
    # expensive stages are skipped
    # 1. W on the two-thread / one-call behaviours
    p = _walk(out, "ConcurrencyWalk.pairs.cfg", exe, cov)
    samples += [C.decode_tlc_json(s) for s in p.samples[-2:]]
    # 2. V: recorded executions
    if not _unknown(out):
        _v_stage(out, k, exe, cov, samples)
    if not _unknown(out):
        # 3. the specification satisfies the property (every interleaving of 2-3 threads); negative configurations
        _spec_checks(out, k, cov)
        # 4. W: every enumerated interleaving of the larger configurations forced on the real library
        for cfg in k["walks"]:
            p = _walk(out, cfg, exe, cov)
            samples += [C.decode_tlc_json(s) for s in p.samples[-1:]]
            if _unknown(out):
                break
    else:
        cov["stopped_early"] = "a disagreement was found by the first stages; model checking and the large walk configurations were skipped"
    w = cov["W"]
    v = cov.get("V", dict(accepted=0, events=0))
    cov["traces_validated_against_impl"] = w["behaviours"] + v["accepted"]
    cov["samples"] = samples[:5]
    cov["exhaustive"] = "stopped_early" not in cov
    cov["evaluations"] = w["steps"] + v["events"]
    cov["distinct_nontrivial"] = w["behaviours"]
    cov["rule"] = ("W: every complete interleaving of the ConcurrencyWalk configurations (TLC prints each behaviour once, so they are distinct "
                   "by construction); non-trivial = replayed on the real library with every observable step compared. V: events of recorded "
                   "executions matched by ConcurrencyTrace")
    out.assumptions += ["constants of spec/Concurrency.quick*.cfg, ConcurrencyWalk.*.cfg, ConcurrencyTrace.cfg",
                        "sequential consistency at event granularity; hooks and the mutex-manager wrapper report every access of the listed sites",
                        "V runs with LazyMap (the code as pinned builds the match map of a lazily complemented token on first use; W reports that)"]


def replay(out, path):
    C.build_lib("hooks")
    exe = C.build_harness("conc_harness")
    if path.endswith(".ndjson"):
        acc, matched, total, res = C.validate_trace("ConcurrencyTrace", "ConcurrencyTrace.cfg", path)
        if not acc:
            lines = open(path).read().splitlines()
            bad = json.loads(lines[matched]) if matched < len(lines) else {}
            out.disagree(_reject_cls(bad, res), dict(trace=path, line=matched + 1), "trace rejected")
        out.coverage.update(evaluations=total, distinct_nontrivial=1, samples=[path], states=1, transitions=1, traces_validated_against_impl=1)
        return
    d = json.load(open(path))
    case = d["case"]
    if case.get("mode") == "W":
        line = json.dumps(json.dumps(dict(p=case["p"], h=case["h"], f=case["f"])))
        rc, o = C.run([exe, "w"], input=line + "\n", timeout=600)
        mism, summ, _ = C.harness_results(o.splitlines())
        for m in mism:
            out.disagree(m["cls"], m["case"], m.get("why", ""))
    elif case.get("mode") == "V":
        tdir = tempfile.mkdtemp(prefix="c17r.", dir=os.path.join(C.BUILD, "tlc"))
        p = os.path.join(tdir, "r.ndjson")
        rc, o = C.run([exe, "v", str(case["threads"]), str(case["seed"]), str(case["steps"]), p], timeout=3000)
        mism, summ, _ = C.harness_results(o.splitlines())
        for m in mism:
            out.disagree(m["cls"], m["case"], m.get("why", ""))
        if rc == 0:
            _validate(out, p, case, "replay-%s.ndjson" % case["seed"])
    else:
        raise C.InfraError("unknown replay mode")
    out.coverage.update(evaluations=1, distinct_nontrivial=1, samples=[case.get("p", case)], states=1, transitions=1, traces_validated_against_impl=1)
