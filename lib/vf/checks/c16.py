"""C16 - a serialised grammar pool restores to a behaviourally identical pool.

Specification  spec/XSerGraph.tla      XSerializeEngine store/load protocol on abstract object graphs (sharing, cycles, nulls),
                                       store/load pools, class prototypes, level stamp, block buffer at arbitrary block sizes;
                                       declarative layer: StoreFn, Iso, RoundTrip, FieldSymmetry, LevelRejected, PositionsAgree.
               spec/XSerGraphGen.tla   binder T (mechanism): one case per complete behaviour, replayed on the real engine.
               spec/XSerGraphTrace.tla binder V (mechanism): H7 event streams of real grammar pools (store, load, store again).
Harness        harness/xser_harness.cpp (+ common/xser_grammar.hpp), data in harness/data/c16/.

Binders
  T-engine  every behaviour of XSerGraphGen (graph x block size x tamper) is executed with real XSerializable objects on a real
            XSerializeEngine; store token stream, load token stream, outcome and loaded graph are compared with TLC's.
  V         serializeGrammars(A) / deserializeGrammars -> B / serializeGrammars(B) of 13 real pools are validated event by event
            by XSerGraphTrace (an asymmetric serialize() is rejected for any grammar that instantiates the class).
  T-pool    behaviour level: every instance validates identically (events, defaulted attributes, PSVI, error codes) against A
            and B; grammar and XSModel enumerations are equal; a stream with another level stamp raises XSerializationException
            before anything else is read.
Negative configurations (the invariants have teeth): XSerGraph.coded.cfg (read(bytes) as coded: PositionsAgree is violated -
this is how TLC exhibits the block-end defect) and XSerGraph.asym.cfg (a load layout that drops a field: RoundTrip is violated).

Mutants (mutants/C16/*.diff, ./bin/mutant-run C16 ...): see the list at the end of this file.
"""
import json
import os
import shutil
import tempfile

from vf import common as C

META = dict(
    property_id="C16", engine="XSerGraph", category="model_checking", design_ref="DESIGN.md §4 C16",
    technique="explicit TLA+ specification of the XSerializeEngine store/load protocol (XSerGraph) model-checked with TLC; every behaviour "
              "replayed on the real engine (T); H7 event streams of real grammar pools trace-validated (V); pool A vs "
              "deserialize(serialize(A)) compared on validation dumps and component enumerations (T, behaviour level)",
    text="TLC checks exhaustively, for all object graphs up to the bound (sharing, cycles, nulls, two classes) and every block size, that "
         "the operational store/load machine round-trips every graph up to isomorphism including sharing, that storing the loaded graph "
         "yields the same stream, that the operations performed per object in load mode equal those in store mode, that every item is "
         "read at the offset it was written at, and that a foreign level stamp or class name is refused before any object is created. "
         "Each of these behaviours is executed on the real XSerializeEngine with real XSerializable objects and compared token by token; "
         "the store, load and re-store event streams of real DTD and schema grammar pools are validated event by event against the "
         "specification, which rejects any asymmetric serialize(); the restored pools validate a family of valid and invalid instances "
         "exactly like the originals and enumerate equal components.",
    note="Trusted: TLC, the H7 hook placement (add-only), the harness's table-driven test classes, the dumps through public getters. "
         "Bounds: graphs of spec/XSerGraph*.cfg; 13 hand-written grammar pools in harness/data/c16 (not the C07-C10 generators); a field "
         "dropped from BOTH directions of a serialize() is only seen if an instance or an enumeration depends on it. PSVI is compared only "
         "for grammars whose instances do not trigger an unrelated PSVI crash (defaulted attribute of a user-defined simple type).",
)

CONSTS = {
    "quick": dict(check="XSerGraph.quick.cfg", gen="XSerGraphGen.quick.cfg"),
    "thorough": dict(check="XSerGraph.thorough.cfg", gen="XSerGraphGen.thorough.cfg"),
}
DATA = os.path.join(C.HARNESS, "data", "c16")
TMO = 6000


def _t_engine(out, cfg, exe):
    p = C.Piper([exe, "t"], timeout=TMO, nproc=4)
    res = C.tlc("XSerGraphGen", cfg, workers=8, on_chunk=p.feed_chunk, timeout=TMO, heap="8g")
    p.close()
    if not res.ok:
        raise C.InfraError("TLC generator XSerGraphGen/%s failed: rc=%s\n%s" % (cfg, res.rc, "\n".join(res.text[-40:])))
    mism, summ, _ = C.harness_results(p.out)
    cnt = summ.get("counts", {})
    if cnt.get("torn", 0):
        raise C.InfraError("torn TLC lines reached the harness")
    if summ.get("lines", 0) != p.n or p.n == 0:
        raise C.InfraError("harness read %s of %s generated lines" % (summ.get("lines"), p.n))
    for m in mism:
        out.disagree(m["cls"], m["case"], m.get("why", ""))
    return res, cnt, p


def _run_pools(out, exe, tdir, only=""):
    cmd = [exe, "g", os.path.join(DATA, "manifest.json"), tdir] + ([only] if only else [])
    rc, o = C.run(cmd, timeout=TMO)
    if rc != 0:
        raise C.InfraError("xser_harness g failed rc=%s\n%s" % (rc, o[-3000:]))
    lines = o.splitlines()
    mism, summ, _ = C.harness_results(lines)
    infra = [json.loads(l) for l in lines if l.startswith('{') and '"t":"infra"' in l]
    traces = [json.loads(l) for l in lines if l.startswith('{') and '"t":"trace"' in l]
    if infra:
        raise C.InfraError("data files of harness/data/c16 do not behave as the manifest says: %s" % json.dumps(infra)[:3000])
    for m in mism:
        out.disagree(m["cls"], m["case"], m.get("why", ""))
    return summ.get("counts", {}), summ.get("samples", []), traces, mism


def _concat(traces, path):
    """All pools in one file for one TLC run; src fields are line numbers and are shifted."""
    sections = []
    n = 0
    with open(path, "w") as f:
        for t in traces:
            start = n
            for ln in open(t["path"]):
                if '"src":0' not in ln:
                    o = json.loads(ln)
                    if o.get("src", 0) > 0:
                        o["src"] += start
                    ln = json.dumps(o, separators=(",", ":")) + "\n"
                f.write(ln)
                n += 1
            sections.append((t["grammar"], start + 1, n))
    return sections, n


def _classify_rejection(lines, sections, matched):
    """Line matched+1 (1-based) was not explained by the specification: say in which pool, phase and serialize() it lies."""
    bad = json.loads(lines[matched]) if matched < len(lines) else {}
    sec = next((s for s in sections if s[1] <= matched + 1 <= s[2]), ("?", 1, len(lines)))
    cls_name = ""
    depth = 0
    for i in range(matched - 1, sec[1] - 2, -1):       # innermost serialize() still running
        o = json.loads(lines[i])
        if o.get("d") != bad.get("d"):
            break
        if o["e"] == "XsEnd":
            depth += 1
        elif o["e"] == "XsObj" and o["k"] == 2:
            if depth == 0:
                cls_name = o["c"]
                break
            depth -= 1
    phase = {0: "store", 1: "load", 2: "re-store"}.get(bad.get("d"), "?")
    return dict(binder="V", action=phase, event=bad.get("e"), inClass=cls_name), dict(mode="V", grammar=sec[0], line=matched + 1, event=bad)


def _records(events):
    """Per-object records of one store stream, insensitive to container (hash table) order: (class, sorted direct items)."""
    recs = []
    stack = [["<pool>", []]]
    created = {}
    prev = None
    for o in events:
        e, k = o["e"], o["k"]
        top = stack[-1][1]
        if e == "XsPrim":
            top.append(["prim", k, o["sz"], None if k == 12 else o["v"]])
        elif e == "XsBytes":
            top.append(["bytes", o["n"], o["v"]])
        elif e in ("XsObj", "XsCls", "XsTpl"):
            if top and top[-1][0] == "prim" and top[-1][1] == 7 and not (e == "XsObj" and k == 2):
                top.pop()                                   # the tag primitive: its meaning is this event
            if e == "XsCls":
                if k == 2 and len(top) >= 3:
                    del top[-3:]                            # new-class tag, name length, name bytes: position dependent
                continue
            if e == "XsObj" and k == 2:
                created[o["n"]] = o["c"]
                top.append(["obj", o["c"]])
                stack.append([o["c"], []])
            elif k == 2:
                created[o["n"]] = "<tpl>"
                top.append(["tpl"])
            elif k == 1:
                top.append(["ref", created.get(o["n"], "?")])
            else:
                top.append(["null", e])
        elif e == "XsEnd":
            c, items = stack.pop()
            recs.append(json.dumps([c, sorted(json.dumps(i) for i in items)]))
        elif e == "XsStr":
            top.append(["str", o["n"], k])
    while stack:
        c, items = stack.pop()
        recs.append(json.dumps([c, sorted(json.dumps(i) for i in items)]))
    return sorted(recs)


def _restore_equivalent(out, traces):
    """serialize(deserialize(serialize(A))) is equivalent to serialize(A): equal multisets of per-object records."""
    n = 0
    for t in traces:
        ev = [json.loads(l) for l in open(t["path"])]
        a = _records([o for o in ev if o["d"] == 0 and o["e"].startswith("Xs")])
        b = _records([o for o in ev if o["d"] == 2 and o["e"].startswith("Xs")])
        if not b:
            continue
        if a != b:
            import collections
            ca, cb = collections.Counter(a), collections.Counter(b)
            only_a = list((ca - cb).elements())[:2]
            only_b = list((cb - ca).elements())[:2]
            cname = json.loads((only_a or only_b)[0])[0]
            out.disagree(dict(binder="T-pool", action="restore-equivalence", inClass=cname), dict(mode="G", grammar=t["grammar"], only_in_first=only_a, only_in_second=only_b),
                         "serialising the restored pool %s does not give an equivalent stream: object records of class %s differ" % (t["grammar"], cname))
        else:
            n += 1
    return n


def _validate(out, traces, tdir, cov):
    path = os.path.join(tdir, "all.ndjson")
    sections, n = _concat(traces, path)
    acc, matched, total, res = C.validate_trace("XSerGraphTrace", "XSerGraphTrace.cfg", path, timeout=TMO)
    cov["V"] = dict(pools=len(traces), events=total, matched=matched, accepted=bool(acc), wall_s=round(res.wall, 1))
    if acc:
        return len(traces)
    acc2, matched2, _, _ = C.validate_trace("XSerGraphTrace", "XSerGraphTrace.cfg", path, timeout=TMO)
    if acc2 or matched2 != matched:
        raise C.InfraError("trace validation is not repeatable on %s" % path)
    lines = open(path).read().splitlines()
    cls, case = _classify_rejection(lines, sections, matched)
    keep = os.path.join(C.REPLAY, "C16")
    os.makedirs(keep, exist_ok=True)
    sec = next((s for s in sections if s[0] == case["grammar"]), None)
    if sec:
        kept = os.path.join(keep, "trace-%s.ndjson" % case["grammar"])
        shutil.copy(next(t["path"] for t in traces if t["grammar"] == case["grammar"]), kept)
        case["trace"] = kept
        case["line"] = matched + 1 - (sec[1] - 1)
    out.disagree(cls, case, "XSerGraphTrace rejects the recorded %s stream of pool %s at line %s (%s inside serialize() of %s)"
                 % (cls["action"], case["grammar"], case.get("line"), cls["event"], cls["inClass"] or "the pool"))
    return sum(1 for s in sections if s[2] < matched + 1)


def _expect_violation(cfg, inv_names, what):
    r = C.tlc("XSerGraph", cfg, workers=4, timeout=TMO, heap="6g", extra=("-noGenerateSpecTE",))   # no *_TTrace_* files in spec/
    if r.ok or not r.violated or not any(n in str(r.violated) for n in inv_names):
        raise C.InfraError("negative configuration %s should violate %s but: ok=%s violated=%s" % (cfg, inv_names, r.ok, r.violated))
    return dict(cfg=cfg, violated=str(r.violated), what=what, states=r.distinct)


def run(out, tier):
    k = CONSTS[tier]
    C.build_lib("hooks")
    exe = C.build_harness("xser_harness")
    cov = out.coverage
    # 1. the specification satisfies the property (mechanism level) for every graph up to the bound and every block size
    r = C.tlc("XSerGraph", k["check"], workers=8, coverage=True, timeout=TMO, heap="8g")
    C.tlc_must_pass(r, "XSerGraph/" + k["check"])
    cov["states"] = r.distinct
    cov["transitions"] = r.generated
    cov["spec_check"] = r.summary()
    cov["checker_cmd"] = r.cmd
    acts = ("WriteLevel", "StoreNull", "StoreRef", "StoreNew", "StorePrim", "StoreBytes", "EndObject", "FinishStore",
            "ReadLevel", "LoadObject", "LoadPrim", "LoadBytes", "EndObjectL", "FinishLoad")
    cov["spec_action_coverage"] = {a: v for a, v in r.coverage.items() if a in acts}
    cov["spec_actions_never_taken"] = [a for a in acts if r.coverage.get(a, [0])[0] == 0]
    if cov["spec_actions_never_taken"]:
        raise C.InfraError("specification actions never taken: %s" % cov["spec_actions_never_taken"])
    # 1b. the invariants have teeth: the engine as coded (read(bytes) ending at a block end) and an asymmetric serialize() are refuted
    cov["negative_configs"] = [
        _expect_violation("XSerGraph.coded.cfg", ("PositionsAgree", "NoCorruption"), "read(XMLByte*,len) as coded leaves fBufCur at the block start"),
        _expect_violation("XSerGraph.asym.cfg", ("RoundTrip", "NoCorruption", "FieldSymmetry"), "load layout of VBx drops a field"),
    ]
    # 2. T (mechanism): every behaviour on the real engine
    rg, cnt, p = _t_engine(out, k["gen"], exe)
    cov["T_engine"] = dict(cases=cnt.get("cases", 0), compared_equal=cnt.get("compared", 0), store_streams_equal=cnt.get("store_streams_equal", 0),
                           load_streams_equal=cnt.get("load_streams_equal", 0), graphs_isomorphic=cnt.get("graphs_isomorphic", 0),
                           rejections_confirmed=cnt.get("rejections_confirmed", 0), exact_block_end_cases=cnt.get("exactBlockEnd", 0),
                           mismatches=cnt.get("mismatches", 0), generator=rg.summary())
    # 3. real grammar pools: T (behaviour) and the event streams for V
    os.makedirs(os.path.join(C.BUILD, "tlc"), exist_ok=True)
    tdir = tempfile.mkdtemp(prefix="c16.", dir=os.path.join(C.BUILD, "tlc"))
    try:
        gc, samples, traces, _ = _run_pools(out, exe, tdir)
        cov["T_pool"] = gc
        gc["restore_streams_equivalent"] = _restore_equivalent(out, traces)
        nv = _validate(out, traces, tdir, cov) if traces else 0
    finally:
        shutil.rmtree(tdir, ignore_errors=True)
    cov["traces_validated_against_impl"] = cnt.get("cases", 0) + nv
    cov["samples"] = [C.decode_tlc_json(s) for s in p.samples[:2]] + list(samples)[:3]
    for s in cov["samples"]:
        s.pop("lay", None)
    cov["exhaustive"] = True
    cov["evaluations"] = cnt.get("cases", 0) + gc.get("instances", 0) * 2 + cov.get("V", {}).get("events", 0)
    cov["distinct_nontrivial"] = cnt.get("compared", 0) + cnt.get("mismatches", 0) + gc.get("instances_equal", 0)
    cov["rule"] = ("T-engine: one case per terminal behaviour of XSerGraphGen under %s (distinct graphs x block size x tamper, each emitted once); "
                   "non-trivial = the real engine's token streams, outcome and loaded graph were compared with the specification's; "
                   "T-pool: one evaluation per (instance, pool); V: one per recorded event" % k["gen"])
    out.assumptions += ["constants of spec/%s and spec/%s" % (k["check"], k["gen"]),
                        "hook family H7 (repo commit 337668c) reports every tag decision, primitive and byte run of XSerializeEngine",
                        "grammar pools: harness/data/c16/manifest.json (2 DTDs, 8 schemas, 2 locked pools, 1 pool of 3 grammars)",
                        "S2 = S1 is required up to the values of XMLSize_t primitives (pool-internal ids are renumbered on load)"]


def replay(out, path):
    C.build_lib("hooks")
    exe = C.build_harness("xser_harness")
    d = json.load(open(path))
    case = d["case"]
    cov = out.coverage
    cov.update(evaluations=1, distinct_nontrivial=1, samples=[case], states=1, transitions=1, traces_validated_against_impl=0)
    if case.get("mode") == "T":
        want = (case["B"], json.dumps(case["g"], sort_keys=True), case["tamper"])
        found = []

        def on_json(ln):
            o = C.decode_tlc_json(ln)
            if (o["B"], json.dumps(o["g"], sort_keys=True), o["tamper"]) == want:
                found.append(ln)
        n = len(case["g"]["cls"])
        C.tlc("XSerGraphGen", "XSerGraphGen.thorough.cfg" if n > 3 else "XSerGraphGen.quick.cfg", workers=8, on_json=on_json, timeout=TMO)
        if not found:
            raise C.InfraError("case not generated any more")
        rc, o = C.run([exe, "t"], input=found[0], timeout=600)
        mism, _, _ = C.harness_results(o.splitlines())
        for m in mism:
            out.disagree(m["cls"], m["case"], m.get("why", ""))
    elif case.get("mode") in ("G", "V"):
        os.makedirs(os.path.join(C.BUILD, "tlc"), exist_ok=True)
        tdir = tempfile.mkdtemp(prefix="c16r.", dir=os.path.join(C.BUILD, "tlc"))
        try:
            _, _, traces, _ = _run_pools(out, exe, tdir, only=case["grammar"])
            if traces:
                _validate(out, traces, tdir, cov)
        finally:
            shutil.rmtree(tdir, ignore_errors=True)
    else:
        raise C.InfraError("unknown replay mode")


# Mutants demonstrated with ./bin/mutant-run C16 mutants/C16/*.diff (all DETECTED in the quick tier):
#   attdef-load-drop.diff      SchemaAttDef::serialize: fPSVIScope not read in load mode          -> V (load stream diverges inside SchemaAttDef) / T-pool
#   cti-store-swap.diff        ComplexTypeInfo::serialize: fBlockSet/fFinalSet swapped in store mode -> T-pool (XSModel, restore-equivalence)
#   level-check-weakened.diff  deserializeGrammars: level comparison accepts level+1              -> T-pool (level)
#   elemdecl-both-drop.diff    SchemaElementDecl::serialize: fDefaultValue dropped from BOTH directions -> T-pool only (instances with element defaults)
#   engine-fill-boundary.diff  checkAndFillBuffer refills when an item ends exactly at the block end -> T-engine
