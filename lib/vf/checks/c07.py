"""C07 - DTD validity: ContentModel + DtdValidity specifications, binder T (fast path: content models, full path: attribute /
ID / IDREF / root / standalone scenarios), every expectation emitted by TLC.

Stages (cheapest first): DtdValidity root, idref; ContentModel items, cm; DtdValidity attr. Each stage = TLC's own check of the
specification (operational layer = declarative layer) + binder T. VERIF_FAIL_FAST=1 stops after the first stage with a new disagreement.

Mutants (mutants/C07/*.diff, `VERIF_FAIL_FAST=1 ./bin/mutant-run C07 mutants/C07/*.diff`), all detected in the quick tier:
  idrefs_unchecked             XMLScanner::checkIDRefs condition inverted: dangling IDREF unreported           (stage dv_idref)
  id_reuse_only_if_referenced  DTDValidator: repeated ID reported only if it was referenced                    (stage dv_idref)
  required_not_checked_ns      IGXMLScanner::buildAttList (namespace path only): #REQUIRED not enforced        (stage dv_attr, cfg sax2-IG-ns)
  mixed_last_name              MixedContentModel: last declared name of (#PCDATA|a|b)* rejected                (stage items)
  simple_opt_as_star           SimpleContentModel: (a)? accepts more than one child                            (stage items / cm)
  dfa_followpos_plus           DFAContentModel: followpos of + omitted                                         (stage cm)

Genuine defects found on the unchanged tree: known_findings.d/C07.json (enumerated attribute values not normalised by IGXMLScanner with
namespaces; multi-token values of enumerated/NOTATION attributes accepted).
"""
import json
import os

from vf import common as C

META = dict(
    property_id="C07", engine="ContentModel+DtdValidity", category="model_checking", design_ref="DESIGN.md §4 C07",
    technique="explicit TLA+ specifications (ContentModel: content-spec AST with derivative automaton, position automaton and declarative "
              "language; DtdValidity: attribute/ID/IDREF/root/standalone validity as a document-order state machine against the declarative "
              "XML 1.0 validity constraints) model-checked with TLC; every enumerated (DTD, document) case replayed on the real parsers (T)",
    text="TLC checks exhaustively (small constants) that the operational layers (Brzozowski-derivative automaton with the scanners' "
         "character-data flags; followpos position automaton; document-order attribute/ID state machine) give exactly the verdicts of the "
         "declarative XML 1.0 validity constraints. Every content model of depth <= 2 over 3 names (non-deterministic ones included), EMPTY, "
         "ANY and mixed models are rendered as DTDs and every child/item sequence up to the bound is parsed with validation on by SAX, SAX2 and "
         "DOM over IGXMLScanner and DGXMLScanner (namespaces on and off) and fed to XMLContentModel::validateContent directly; attribute "
         "scenarios are parsed with validation on and off. Compared: validity error reported iff the specification says invalid, never a "
         "fatal error, violated constraint kinds, and the attribute lists (defaults) with validation on and off.",
    note="Trusted: TLC, the table-driven renderers of harness/dtd_harness.cpp (AST -> content spec text, items -> markup, attribute types -> "
         "ATTLIST text), the mapping XMLValid code -> constraint kind. Bounds: constants of spec/ContentModel*.cfg and spec/DtdValidity*.cfg. "
         "Not covered: parameter-entity structured DTDs, conditional sections, external subsets read through an entity resolver (the external "
         "flag of a declaration is rendered through an external parameter entity), NOTATION/unparsed-entity declarations beyond the attribute "
         "value checks, xml:space, content models deeper than the configured depth.",
)

CONSTS = {
    # tier: cm = (check cfg, gen cfg, declared names), items likewise, dv = DtdValidity configs
    "quick": dict(cm=("ContentModel.quick.cfg", "ContentModelGen.quick.cfg", 3),
                  items=("ContentModelItems.quick.cfg", "ContentModelGenItems.quick.cfg", 2),
                  dv=[("attr", "DtdValidity.attr.quick.cfg", "DtdValidityGen.attr.quick.cfg"),
                      ("idref", "DtdValidity.idref.quick.cfg", "DtdValidityGen.idref.quick.cfg"),
                      ("root", "DtdValidity.root.quick.cfg", "DtdValidityGen.root.quick.cfg")]),
    "thorough": dict(cm=("ContentModel.thorough.cfg", "ContentModelGen.thorough.cfg", 3),
                     items=("ContentModelItems.thorough.cfg", "ContentModelGenItems.thorough.cfg", 2),
                     dv=[("attr", "DtdValidity.attr.thorough.cfg", "DtdValidityGen.attr.thorough.cfg"),
                         ("idref", "DtdValidity.idref.thorough.cfg", "DtdValidityGen.idref.thorough.cfg"),
                         ("root", "DtdValidity.root.quick.cfg", "DtdValidityGen.root.quick.cfg")]),
}

NUM_KEYS = ("specs", "cases", "parses", "direct_calls", "expect_valid", "expect_invalid", "ok_valid", "ok_invalid", "mismatches",
            "scenarios", "expect_kinds", "atts_compared")


def _pipe(out, module, cfg, hargs, exe, shards=4, timeout=6000, nproc=8, heap="3g"):
    """TLC generator (as `shards` processes, each taking every shards-th seed: env NSHARDS/SHARD) piped into nproc harnesses."""
    import threading
    p = C.Piper([exe] + hargs, timeout=timeout, nproc=nproc)
    lock = threading.Lock()

    def feed(block):
        with lock:
            p.feed_chunk(block)
    results = [None] * shards

    def one(i):
        results[i] = C.tlc(module, cfg, workers=1, on_chunk=feed, timeout=timeout, heap=heap,
                           env={"NSHARDS": str(shards), "SHARD": str(i)})
    ts = [threading.Thread(target=one, args=(i,)) for i in range(shards)]
    for t in ts:
        t.start()
    for t in ts:
        t.join()
    p.close()
    res = results[0]
    for r in results:
        if r is None or not r.ok:
            raise C.InfraError("TLC generator %s/%s failed: rc=%s\n%s" % (module, cfg, r and r.rc, "\n".join((r.text if r else [])[-40:])))
    res.generated = sum(r.generated for r in results)
    res.distinct = sum(r.distinct for r in results)
    res.wall = max(r.wall for r in results)
    mism, summ, _ = C.harness_results(p.out)
    cnt = summ.get("counts", {})
    if cnt.get("torn", 0):
        raise C.InfraError("torn TLC lines reached the harness: %s" % cnt.get("torn"))
    if summ.get("lines", 0) != p.n:
        raise C.InfraError("harness read %s of %s generated lines (stderr: %s)" % (summ.get("lines"), p.n, p.err[:5]))
    if p.n == 0:
        raise C.InfraError("TLC generator %s/%s emitted nothing" % (module, cfg))
    for m in mism:
        out.disagree(m["cls"], m["case"], m.get("why", ""))
    return res, summ, p


def _spec_check(cov, key, module, cfg, coverage=True):
    r = C.tlc(module, cfg, workers=8, coverage=coverage, timeout=6000, heap="8g")
    C.tlc_must_pass(r, module + "/" + cfg)
    never = [a for a, v in r.coverage.items() if v[0] == 0]
    cov["spec_checks"][key] = dict(r.summary(), cmd=r.cmd, action_coverage=r.coverage, never_taken=never)
    if never:
        C.log("specification actions never taken in %s/%s:" % (module, cfg), never)
    cov["states"] = cov.get("states", 0) + r.distinct
    cov["transitions"] = cov.get("transitions", 0) + r.generated
    cov["spec_actions_never_taken"] = cov.get("spec_actions_never_taken", []) + never
    cov["checker_cmd"] = (cov.get("checker_cmd", "") + " ; " + r.cmd).strip(" ;")
    return r


def _slim(summ):
    d = {k: summ.get(k, 0) for k in NUM_KEYS if k in summ}
    for k, v in summ.items():
        if k.startswith(("spec:", "kind:", "cfg:", "family:")):
            d[k] = v
    d["child_failures"] = summ.get("child_failures", 0)
    return d


def run(out, tier):
    k = CONSTS[tier]
    C.build_lib("hooks")
    exe = C.build_harness("dtd_harness")
    cov = out.coverage
    cov["spec_checks"] = {}
    total_cases = total_parses = nontrivial = 0
    samples = []

    # Stages, cheapest first. Each stage: (1) TLC checks that the specification's operational layer satisfies the declarative one
    # for the stage's constants (model failure = exit 2), (2) binder T: the generator's cases are replayed on the real parsers.
    # VERIF_FAIL_FAST=1 (used when demonstrating mutants) stops after the first stage with a disagreement that is not a known finding.
    known = C.load_known()
    fail_fast = os.environ.get("VERIF_FAIL_FAST") == "1"

    def unmatched():
        return [d for d in out.disagreements if C.match_known("C07", d["cls"], known) is None]

    def tally(key, s, rg, gen, p, sample):
        nonlocal total_cases, total_parses, nontrivial
        cov[key] = dict(_slim(s), generator=rg.summary(), gen_cfg=gen)
        total_cases += s.get("cases", 0)
        total_parses += s.get("parses", 0) + s.get("direct_calls", 0)
        nontrivial += s.get("cases", 0)
        if sample and p.samples:
            samples.append(sample(C.decode_tlc_json(p.samples[0])))

    stages = []
    for fam, chk, gen in sorted(k["dv"], key=lambda x: ("root", "idref", "attr").index(x[0])):
        stages.append(("dv_" + fam, "DtdValidity", chk, "DtdValidityGen", gen, ["dv"], dict(root=1, idref=1, attr=2)[fam], fam != "attr",
                       (lambda v: dict(scenario=v[0], documents=v[1][:3])) if fam != "idref" else None))
    stages.insert(2, ("items", "ContentModel", k["items"][0], "ContentModelGen", k["items"][1], ["cm", str(k["items"][2])], 2, True,
                      lambda v: dict(content_spec=v[0], verdicts=v[1][:12])))
    stages.insert(3, ("cm", "ContentModel", k["cm"][0], "ContentModelGen", k["cm"][1], ["cm", str(k["cm"][2])], 4, False,
                      lambda v: dict(content_spec=v[0], verdicts=v[1][:12])))
    cov["stages_run"] = []
    for key, module, chk, genmod, gen, hargs, shards, with_cov, sample in stages:
        # -coverage triples the cost of the two big configs; their actions are the same as those of the small configs of the same module
        _spec_check(cov, module + ":" + key, module, chk, coverage=with_cov)
        rg, s, p = _pipe(out, genmod, gen, hargs, exe, shards=shards)
        tally("T_" + key, s, rg, gen, p, sample)
        cov["stages_run"].append(key)
        if fail_fast and unmatched():
            C.log("VERIF_FAIL_FAST: stopping after stage %s (%d disagreements)" % (key, len(unmatched())))
            break

    cov["traces_validated_against_impl"] = total_cases
    cov["evaluations"] = total_parses
    cov["distinct_nontrivial"] = nontrivial
    cov["samples"] = samples
    cov["exhaustive"] = True
    cov["rule"] = ("T: TLC enumerates every content spec within the bounds of the generator configs and, for each, every item sequence up to "
                   "MaxLen with the specification's verdict (distinct by construction: one (spec, sequence) pair once); each pair is one case; "
                   "evaluations = parses (5 parser configurations, empty element as <r/> and <r></r>, two item renderings) + direct "
                   "validateContent calls; DtdValidity: every (scenario, document) of the three families once, parsed by the 5 configurations with validation "
                   "on and off; every case is non-trivial in that its verdict (and kinds, attribute lists) is compared")
    out.assumptions += ["constants of spec/%s, spec/%s, %s" % (k["cm"][1], k["items"][1], ", ".join("spec/" + g for _, _, g in k["dv"])),
                        "constraint kinds are compared one way (every violated kind has >= 1 error of its codes); the document-level verdict both ways",
                        "renderers of harness/dtd_harness.cpp realise the abstract DTD/document",
                        "non-deterministic content models: only the language verdict is compared (XML 1.0 makes determinism a compatibility rule)"]


def replay(out, path):
    """Re-run one recorded disagreement: the case carries the rendered document."""
    C.build_lib("hooks")
    exe = C.build_harness("dtd_harness")
    d = json.load(open(path))
    case, cls = d["case"], d["cls"]
    doc = case.get("doc")
    if not doc:
        raise C.InfraError("replay file has no rendered document; re-run the check")
    tmp = os.path.join(C.BUILD, "tlc", "c07-replay-%d.xml" % os.getpid())
    os.makedirs(os.path.dirname(tmp), exist_ok=True)
    with open(tmp, "w") as f:
        f.write(doc)
    with open(tmp + ".ext", "w") as f:
        f.write(case.get("external", ""))
    cfgname = cls.get("cfg", "all") if cls.get("cfg") not in (None, "direct") else "all"
    try:
        rc, o = C.run([exe, "one", cfgname, "1" if case.get("validate", 1) else "0", tmp, tmp + ".ext"])
    finally:
        os.unlink(tmp)
        os.unlink(tmp + ".ext")
    n = 0
    for ln in o.splitlines():
        if not ln.startswith("{"):
            continue
        ob = json.loads(ln)
        n += 1
        exp = cls.get("expected")
        if not case.get("validate", 1):
            exp = "valid"
        if exp in ("valid", "invalid") and ob["verdict"] != exp:
            out.disagree(cls, case, "replay: expected %s, observed %s (%s)" % (exp, ob["verdict"], ob["codes"]))
        elif "expected_atts" in case and ob["verdict"] in ("valid", "invalid") and ob["elems"] != case["expected_atts"]:
            out.disagree(cls, case, "replay: attributes %s, specification %s" % (ob["elems"], case["expected_atts"]))
        elif cls.get("what", "").startswith("kind:"):
            out.disagree(cls, case, "replay: constraint kind %s (codes observed: %s) - see the check for the kind table" % (cls["what"][5:], ob["codes"]))
    if n == 0:
        raise C.InfraError("replay produced no observation:\n" + o[-2000:])
    out.coverage.update(evaluations=n, distinct_nontrivial=1, samples=[doc], states=1, transitions=1, traces_validated_against_impl=n)
