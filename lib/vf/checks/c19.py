"""C19 - no external resource is touched unless permitted; entity expansion is bounded.

Specifications: spec/Resources.tla (gating, resolver-first, base URI; operational actions Ref / Offer / ResolverAnswers /
Open / Blocked ... against the declarative PermittedKind, OnlyPermittedOpened, ResolverFirst, SourceReplacesDefault,
BaseIsContainingEntity) and spec/EntityExpansion.tla (reader stack, recursion check as coded, SecurityManager counter against
ExpansionBound, WithinLimitUnaffected, RecursionReported).
Binder T (harness/res_harness.cpp): every finished behaviour of both specifications is one parse of the real library in a
scratch directory of canary files; decorators of fgFileMgr / fgNetAccessor and the harness's XMLEntityResolver record every
open, fetch and offer, which must equal the specification's ordered log; verdict, number of entity-reference starts and
delivered text must equal the specification's.

Sizes (quick): Resources 384 configurations x 80 document shapes = 30 720 parses; EntityExpansion 16 224 (definitions, document,
limit, which entities are external) cases x sites (content only when an external entity is reached) x 2 scanners = 73 472 parses.

As coded and modelled so (allowed by the property): the resolver gets the system id AS WRITTEN plus the base URI; the base of an
entity is that of its DECLARATION; external parameter entities are fetched whenever the subset naming them is processed; schema
hints are followed whatever the validation scheme; SGXMLScanner forces doSchema (loadSchema alone gates); a blocked DTD/entity is
fatal, a blocked schema is skipped; the recursion check ignores the current reader (self reference reported one level later).

Genuine defects found on the pinned tree (known_findings.d/C19.json, cases keep being generated):
  C19-attdef-expansions-not-counted(-cycle)   DTDScanner::scanEntityRef has no expansion counter (ATTLIST default values)
  C19-schema-document-parser-ignores-switches  XSDDOMParser for schema documents ignores disableDefaultEntityResolution/loadExternalDTD

Mutants (mutants/C19/*.diff) and what catches them in the quick tier:
  ddr_check_removed_entity_reader      'if (disableDefaultEntityResolution) return 0' dropped in createReader(baseURI,..)  -> extra 'open file' under ddr
  load_external_dtd_always             IGXMLScanner 'fLoadExternalDTD || fValidate' -> true                                -> x.dtd offered/opened with ldtd off, val never
  load_schema_ignored_sg               SGXMLScanner 'fLoadSchema || ignoreLoadSchema' -> true                              -> r.xsd fetched with loadSchema off
  expansion_count_dropped_internal_dg  DGXMLScanner '++fEntityExpansionCount' -> no increment (internal entities)          -> no limit error / too many starts
  entity_base_from_referrer            DTDScanner 'decl.setBaseURI(...)' -> 0                                               -> offer with wrong base, wrong file opened
  resolver_source_ignored_subset       createReader(sysId,..) builds the default although the resolver gave a source        -> 'open file' after 'answer src'
  seeded/C19-a1  external branch of IG scanEntityRef resets the counter on every expansion   -> limit not reported / too many starts (external e3)
  seeded/C19-a2  scanEntityDef takes the base from the current reader (null inside an internal PE) -> gi.xml offered with empty base, opened in the wrong directory
"""
import json
import os
import shutil
import tempfile

from vf import common as C

META = dict(
    property_id="C19", engine="Resources+EntityExpansion", category="model_checking", design_ref="DESIGN.md §4 C19",
    technique="explicit TLA+ specifications (Resources, EntityExpansion) model-checked with TLC; every finished behaviour is replayed as a "
              "parse of the real library over canary files with recording file-manager / net-accessor / resolver decorators (binder T)",
    text="TLC checks exhaustively that the code-shaped gating machine (all switch combinations x reference kinds x resolver behaviours) "
         "opens only what the property permits, offers to the resolver first, never opens the default when a source was supplied and "
         "offers the base URI of the containing entity; and that the reader-stack / expansion-counter machine reports every cycle and "
         "stops after at most N expansions while leaving documents within the limit unaffected. Every one of those behaviours is "
         "executed on xerces-c and the recorded offers / opens / fetches / verdicts / expansion counts must be equal.",
    note="Trusted: TLC; the decorators see every open because all library I/O goes through XMLPlatformUtils::fgFileMgr / fgNetAccessor; "
         "the table-driven renderers. Bounds: the canary world of spec/Resources.tla (13 resources, nesting depth 4), 3 entities with "
         "values of at most 2 references. Not modelled: redefine, useCachedGrammarInParse, external-schema-location properties, "
         "loadGrammar, XInclude (C20), standard-URI-conformant, parameter-entity expansion counts.",
)

CONSTS = {
    # res_check: exhaustive configuration for TLC's own check (coverage on); res_gen: generator configurations replayed on the library
    "quick": dict(res_check="Resources.quick.cfg", res_gen=["ResourcesGen.quick.cfg"], exp_check="EntityExpansion.quick.cfg",
                  exp_gen="EntityExpansionGen.quick.cfg"),
    # thorough: A = all switches x all resolver behaviours x namespaces on/off x file:/http:/relative forms (SAX API);
    #           B = the other public APIs (SAX2, DOM, DOMLS) over the quick shapes
    "thorough": dict(res_check="Resources.thorough.cfg", res_gen=["ResourcesGen.thorough.cfg", "ResourcesGen.thoroughB.cfg"],
                     exp_check="EntityExpansion.thorough.cfg", exp_gen="EntityExpansionGen.thorough.cfg"),
}
WORKERS = 8


def _scratch():
    d = os.path.join(C.BUILD, "c19")
    os.makedirs(d, exist_ok=True)
    return tempfile.mkdtemp(prefix="run.", dir=d)


def _check_spec(out, module, cfg, key, on_json=None):
    r = C.tlc(module, cfg, workers=WORKERS, coverage=True, timeout=6000, heap="8g", on_json=on_json)
    C.tlc_must_pass(r, module + "/" + cfg)
    cov = out.coverage
    cov[key] = dict(spec_check=r.summary(), checker_cmd=r.cmd, spec_action_coverage=dict(r.coverage),
                    spec_actions_never_taken=[a for a, v in r.coverage.items() if v[0] == 0])
    if cov[key]["spec_actions_never_taken"]:
        C.log("specification actions never taken in", cfg, ":", cov[key]["spec_actions_never_taken"])
    return r


def _pipe(out, module, cfg, cmd, timeout=6000):
    p = C.Piper(cmd, timeout=timeout, nproc=8)
    res = C.tlc(module, cfg, workers=WORKERS, on_chunk=p.feed_chunk, timeout=timeout, heap="8g")
    p.close()
    if not res.ok:
        raise C.InfraError("TLC generator %s/%s failed: rc=%s\n%s" % (module, cfg, res.rc, "\n".join(res.text[-40:])))
    mism, summ, _ = C.harness_results(p.out)
    cnt = summ.get("counts", {})
    if cnt.get("torn", 0):
        raise C.InfraError("torn TLC lines reached the harness: %s" % cnt.get("torn"))
    if summ.get("lines", 0) != p.n:
        raise C.InfraError("harness read %s of %s generated lines\n%s" % (summ.get("lines"), p.n, "\n".join(p.err[-20:])))
    if cnt.get("cases", 0) == 0:
        raise C.InfraError("TLC generator %s/%s: no case reached the harness\n%s" % (module, cfg, "\n".join(p.err[-20:])))
    for m in mism:
        out.disagree(m["cls"], m["case"], m.get("why", ""))
    return res, cnt, summ, p


def _world(lines):
    for ln in lines:
        try:
            o = C.decode_tlc_json(ln)
        except ValueError:
            continue
        if isinstance(o, dict) and "world" in o:
            return o["world"]
    raise C.InfraError("the Resources generator did not print the canary world")


def run(out, tier):
    k = CONSTS[tier]
    C.build_lib("hooks")
    exe = C.build_harness("res_harness")
    cov = out.coverage
    scratch = _scratch()
    try:
        # 1. the specifications satisfy the property
        r1 = _check_spec(out, "Resources", k["res_check"], "Resources")
        r2 = _check_spec(out, "EntityExpansion", k["exp_check"], "EntityExpansion")
        cov["states"] = r1.distinct + r2.distinct
        cov["transitions"] = r1.generated + r2.generated
        cov["checker_cmd"] = r1.cmd + " ; " + r2.cmd
        # 2. the canary world (a constant of the specification) is printed by a one-configuration generator run
        wl = []
        rw = C.tlc("ResourcesGen", "ResourcesGen.world.cfg", workers=1, timeout=3000, heap="2g", on_json=wl.append)
        world = _world(wl)
        wpath = os.path.join(scratch, "world.json")
        with open(wpath, "w") as f:
            json.dump(world, f)
        # 3. T: every finished behaviour of Resources is one parse over the canary files
        cnt, gens, fails, samples = {}, [], 0, []
        for g in k["res_gen"]:
            rg, c1, summ, p = _pipe(out, "ResourcesGen", g, [exe, "r", wpath, scratch])
            for a, v in c1.items():
                cnt[a] = cnt.get(a, 0) + v
            gens.append(dict(cfg=g, **rg.summary()))
            fails += summ.get("child_failures", 0)
            samples += [C.decode_tlc_json(s) for s in p.samples if '\\"cfg\\"' in s][:2]
        cov["T_resources"] = dict(cases=cnt.get("cases", 0), nontrivial=cnt.get("nontrivial", 0), mismatches=cnt.get("mismatches", 0),
                                  by_scanner={a[4:]: v for a, v in cnt.items() if a.startswith("scn:")},
                                  by_resolver={a[4:]: v for a, v in cnt.items() if a.startswith("res:")},
                                  by_api={a[4:]: v for a, v in cnt.items() if a.startswith("api:")},
                                  by_verdict={a[8:]: v for a, v in cnt.items() if a.startswith("verdict:")},
                                  expected_events={a[3:]: v for a, v in cnt.items() if a.startswith("ev:")},
                                  child_failures=fails, generators=gens, world_resources=len(world))
        # 4. T: every finished behaviour of EntityExpansion is parsed at every reference site by every DTD-aware scanner
        re_, cnt2, summ2, p2 = _pipe(out, "EntityExpansionGen", k["exp_gen"], [exe, "e", scratch])
        cov["T_expansion"] = dict(cases=cnt2.get("cases", 0), parses=cnt2.get("runs", 0), mismatches=cnt2.get("mismatches", 0),
                                  by_site={a[5:]: v for a, v in cnt2.items() if a.startswith("site:")},
                                  by_scanner={a[4:]: v for a, v in cnt2.items() if a.startswith("scn:")},
                                  by_verdict={a[7:]: v for a, v in cnt2.items() if a.startswith("efatal:")},
                                  child_failures=summ2.get("child_failures", 0), generator=re_.summary())
        samples += [C.decode_tlc_json(s) for s in p2.samples if '\\"defs\\"' in s][:2]
        cov["samples"] = samples
        cov["traces_validated_against_impl"] = cnt.get("cases", 0) + cnt2.get("runs", 0)
        cov["evaluations"] = cnt.get("cases", 0) + cnt2.get("runs", 0)
        cov["distinct_nontrivial"] = cnt.get("nontrivial", 0) + cnt2.get("cases", 0)
        cov["exhaustive"] = True
        cov["rule"] = ("one evaluation = one parse of the real library compared with one finished behaviour of a specification; distinct by "
                       "construction (TLC prints each (configuration, document) once); non-trivial = the expected log has at least one "
                       "offer / open besides the document itself, or the case is an entity-expansion case")
        out.assumptions += ["constants of spec/%s, spec/%s" % (", spec/".join(k["res_gen"]), k["exp_gen"]),
                            "all file and network access of the library goes through XMLPlatformUtils::fgFileMgr / fgNetAccessor",
                            "http://h/ is answered from memory by the harness's net accessor (no network exists)",
                            "the resolver of the harness names the sources it supplies by their path under the scratch root"]
    finally:
        shutil.rmtree(scratch, ignore_errors=True)


def replay(out, path):
    """Re-run one recorded disagreement (the TLC line is stored in the case)."""
    C.build_lib("hooks")
    exe = C.build_harness("res_harness")
    d = json.load(open(path))
    case = d["case"]
    scratch = _scratch()
    try:
        if case.get("mode") == "r":
            wl = []
            C.tlc("ResourcesGen", "ResourcesGen.world.cfg", workers=1, timeout=3000, heap="2g", on_json=wl.append)
            wpath = os.path.join(scratch, "world.json")
            with open(wpath, "w") as f:
                json.dump(_world(wl), f)
            rc, o = C.run([exe, "r", wpath, scratch], input=case["line"] + "\n", timeout=600)
        elif case.get("mode") == "e":
            rc, o = C.run([exe, "e", scratch], input=case["line"] + "\n", timeout=600)
        else:
            raise C.InfraError("unknown replay mode")
        mism, summ, _ = C.harness_results(o.splitlines())
        for m in mism:
            out.disagree(m["cls"], m["case"], m.get("why", ""))
        out.coverage.update(evaluations=1, distinct_nontrivial=1, samples=[case.get("doc_text")], states=1, transitions=1,
                            traces_validated_against_impl=1)
    finally:
        shutil.rmtree(scratch, ignore_errors=True)
