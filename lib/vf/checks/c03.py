"""C03 - reported content equals the document's infoset; SAX, SAX2, DOM, DOMLS, pull parse agree.

Second layer of spec/XmlTokens.tla: the machine's output `st.out` (line-end handling, attribute-value scanning and
type normalisation, DTD defaulting, entity inclusion, line counting, shaped like handleEOL / basicAttrValueScan /
normalizeAttValue / buildAttList / scanEntityRef) against the declarative Infoset(tokens) (XML 1.0 2.11, 3.3.2, 3.3.3,
4.4, 4.5 stated by position); TLC invariant InfosetAgree on every accepted sequence of the profiles.
Binder T: every accepted sequence is rendered (every lexical freedom from VERIF_SEED, incl. UTF-8/UTF-16 + BOM) and
parsed by SAXParser, SAX2XMLReader, XercesDOMParser, the raw XMLDocumentHandler stream (each also through
parseFirst/parseNext), DOMLSParser without and with a pass-through filter, with and without entity-reference
reporting, x IG/WF/DG/SG scanner x namespaces on/off; the canonical dump (parsedump.hpp) of each must equal the
projection of the specification's infoset to what that API can show - hence all APIs and scanners agree.
A difference that disappears when the same document is parsed by a fresh parser object is classified
"history-dependence" (the harness reuses one parser object per configuration).

Genuine defects found (known_findings.d/C03.json): DGXMLScanner + SAX2 endElement namespace URI; SAX2 startDTD missing
for a DOCTYPE without subsets; IGXMLScanner (namespaces on) collapses character-reference TAB/LF/CR in tokenized
attribute values; SGXMLScanner parser reuse changes the endElement qname.

Mutants (mutants/C03/*.diff), all DETECTED: eol_lf_after_cr_kept (handleEOL), ig_default_attr_specified_true,
ig_cdata_attr_charref_eol_normalized (normalizeAttValue), ls_filter_drops_cdata_flag (DOMLSParserImpl::docCharacters).
Non-vacuity: appending one character to an expected "ch" event makes every configuration disagree; removing the
line-end rule from the declarative AttChars makes TLC report invariant InfosetAgree violated.
"""
from vf import common as C
from vf.checks import c02

META = dict(
    property_id="C03", engine="XmlTokens", category="model_checking", design_ref="DESIGN.md §4 C03",
    technique="explicit TLA+ specification (XmlTokens, infoset layer: scanner-shaped output vs declarative Infoset) model-checked with TLC; "
              "every accepted sequence replayed on all parser APIs x scanners x namespaces (T) and the canonical event dumps compared with "
              "the specification's infoset",
    text="TLC checks exhaustively on seven token alphabets that the machine's reported content (line ends, attribute-value normalisation by "
         "type, DTD defaults with specified=false, entity inclusion, CDATA flags, comments, PIs, DOCTYPE entity names, line numbers, namespace "
         "names) equals the declaratively defined infoset; every accepted document is rendered with seeded lexical freedoms and parsed through "
         "every API, and each API's canonical dump must equal the specification's list projected to what that API can observe.",
    note="Trusted: TLC, the table-driven renderer and projection, parsedump.hpp. Validation is off (ignorable white space is not classified); "
         "XML 1.1, external subsets/entities, parameter entities, notations, column numbers are not generated/compared; the namespace name of "
         "the unprefixed xmlns attribute is not compared.",
)

CONSTS = {
    "quick": dict(gen="XmlTokensInfoset.quick.cfg"),
    "thorough": dict(gen="XmlTokensInfoset.thorough.cfg"),
}


def run(out, tier):
    k = c02.pick(CONSTS, tier)
    C.build_lib("hooks")
    exe = C.build_harness("xmltok_harness")
    res, summ, cnt, p = c02.run_gen(out, "c03", k["gen"], exe)
    c02.fill_cov(out, res, cnt, p, k["gen"])
    cov = out.coverage
    cov["dumps_compared"] = cnt.get("compared", 0)
    cov["rejected_by_impl"] = cnt.get("rejected_by_impl", 0)
    cov["distinct_nontrivial"] = cnt.get("cases", 0)
    cov["rule"] = ("every accepted terminal state of the XmlTokens exploration under %s is one case (distinct by construction); each is "
                   "non-trivial: its rendering is parsed under every applicable API x scanner x namespace x entity-reference configuration "
                   "and each canonical dump is compared with the specification's infoset" % k["gen"])
    out.assumptions += ["validation off: the ignorable flag is always false", "line numbers are compared on start tags for SAX, SAX2 and the raw stream"]


replay = c02.replay
