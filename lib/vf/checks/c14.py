"""C14 - live views under mutation: DomViews specification (NodeIterator, Range boundary points, getElementsByTagName
lists over the DomTree model), binders T (state injection, DomViewsGen) and W (simulated walks, DomViewsWalk).

Mutants (mutants/C14/*.diff; bin/mutant-run output in mutants/C14/RESULTS.txt; each was run with the one generator
configuration of the quick tier that targets its view kind, selected with VERIF_C14_GENS, plus the walks):
  range_no_remove_notify    range notification loop removed from DOMParentNode::removeChild
  iter_removenode_next      DOMNodeIteratorImpl::removeNode uses nextNode() when moving forward
  deeplist_ignores_changes  DOMDeepNodeListImpl::cacheItem ignores the document's change counter
  range_deltext_end_uses_start  DOMRangeImpl::updateRangeForDeletedText tests the start container in the end-offset branch
  range_insnode_le          DOMRangeImpl::updateRangeForInsertedNode uses <= for the start offset
"""
import json
import os

from vf import common as C

META = dict(
    property_id="C14", engine="DomViews", category="model_checking", design_ref="DESIGN.md §4 C14",
    technique="explicit TLA+ specification DomViews (EXTENDS DomTree) model-checked with TLC; every transition of the state-injection "
              "graph (tree x positioned views x mutation) replayed on the real DOM (T), simulated walks interleaving mutations with "
              "view creation/stepping/queries replayed step by step (W)",
    text="TLC checks exhaustively (small constants) that the code-shaped fix-up model (iterator removeNode, range updateRangeFor*, deep-list "
         "cache) satisfies the declarative layer: iterator reference node stays in the root's subtree, next/previous = nearest accepted node in "
         "document order, surviving nodes never change side of an iterator, range boundary points stay valid and move by the DOM Range 2.12 "
         "rules, boundary comparison = document order, tag-name lists = document-order enumeration whatever the cache holds. Every generated "
         "transition is executed on xerces-c through public calls only; iterator positions are bound observationally (what repeated "
         "nextNode()/previousNode() return), ranges through their getters, lists through item/getLength.",
    note="Trusted: TLC, the harness's projection through public getters, node identity = creation order. Bounds: constants of "
         "spec/DomViewsGen.*.cfg and DomViewsWalk.cfg. Not modelled yet: TreeWalker, range content operations (extract/clone/delete/insert/"
         "surround/toString), selectNode*/setStartBefore..., NS lists, getElementById, XPath results, attribute nodes as range containers.",
)

CONSTS = {
    "quick": dict(gens=["it.quick", "rg.quick", "ls.quick"], walks=64, wdepth=40),
    "thorough": dict(gens=["all.thorough", "it.thorough", "rg.thorough", "ls.thorough"], walks=800, wdepth=40),
}


NW = max(1, int(os.environ.get("VERIF_WORKERS", "8")))     # TLC workers and harness processes (8 on the 16-core reference machine)


def _pipe(out, module, cfg, mode, exe, simulate=None, depth=None, workers=None, timeout=20000, nproc=None, coverage=False):
    workers = workers or NW
    nproc = nproc or NW
    p = C.Piper([exe, mode, "1"], timeout=timeout, nproc=nproc)
    res = C.tlc(module, cfg, workers=workers, on_chunk=p.feed_chunk, simulate=simulate, depth=depth, timeout=timeout, heap="8g", coverage=coverage)
    p.close()
    if not res.ok or res.violated:
        if res.violated or any("violated" in e or "Assert" in e for e in res.errors):
            raise C.InfraError("model failure in %s/%s: violated=%s\n%s" % (module, cfg, res.violated, "\n".join(res.text[-60:])))
        raise C.InfraError("TLC run %s/%s failed: rc=%s\n%s" % (module, cfg, res.rc, "\n".join(res.text[-40:])))
    mism, summ, _ = C.harness_results(p.out)
    cnt = summ.get("counts", {})
    if cnt.get("torn", 0):
        raise C.InfraError("torn TLC lines reached the harness: %s" % cnt.get("torn"))
    if summ.get("lines", 0) != p.n:
        raise C.InfraError("harness read %s of %s generated lines (%s)" % (summ.get("lines"), p.n, "; ".join(p.err[-5:])))
    if p.n == 0:
        raise C.InfraError("TLC generator %s/%s emitted nothing" % (module, cfg))
    for m in mism:
        out.disagree(m["cls"], m["case"], m.get("why", ""))
    return res, cnt, summ, p


def _acts(cnt):
    return {k[4:]: v for k, v in cnt.items() if k.startswith("act:")}


def run(out, tier):
    k = dict(CONSTS[tier])
    if os.environ.get("VERIF_C14_GENS"):          # development aid: run a subset of the generator configurations
        k["gens"] = os.environ["VERIF_C14_GENS"].split(",")
    C.build_lib("hooks")
    exe = C.build_harness("domviews_harness")
    cov = out.coverage
    states = trans = cases = compared = 0
    cov["T"] = {}
    never = set()
    taken = {}
    samples = []
    # 1+2. every generator run is also the exhaustive check of the declarative layer (invariants and action properties are
    #      in the same configuration): a violation there is a model failure (exit 2); every emitted transition is one T case
    for g in k["gens"]:
        cfg = "DomViewsGen.%s.cfg" % g
        r, cnt, summ, p = _pipe(out, "DomViewsGen", cfg, "t", exe, coverage=True)
        states += r.distinct
        trans += r.generated
        cases += cnt.get("cases", 0)
        compared += cnt.get("compared", 0)
        cov["T"][g] = dict(spec_check=r.summary(), lines=p.n, cases=cnt.get("cases", 0), compared=cnt.get("compared", 0),
                           other_branch=cnt.get("skipped_other_branch", 0), mismatches=cnt.get("mismatches", 0),
                           child_failures=summ.get("child_failures", 0), final_actions=_acts(cnt))
        for a, v in r.coverage.items():
            taken[a] = taken.get(a, 0) + v[0]
        samples += [C.decode_tlc_json(s) for s in p.samples[2:3]]
        cov.setdefault("checker_cmd", r.cmd)
    never = sorted(a for a, v in taken.items() if v == 0)
    cov["spec_action_coverage"] = taken
    cov["spec_actions_never_taken"] = never
    if never:
        C.log("specification actions never taken:", never)
    cov["states"] = states
    cov["transitions"] = trans
    # 3. W: random behaviours interleaving mutations, view creation, stepping and queries
    rw, cw, sw, pw = _pipe(out, "DomViewsWalk", "DomViewsWalk.cfg", "w", exe, simulate=max(1, k["walks"] // NW), depth=k["wdepth"] + 1)
    cov["W"] = dict(walks=cw.get("walks", 0), steps=cw.get("steps", 0), compared=cw.get("compared", 0),
                    other_branch=cw.get("skipped_other_branch", 0), child_failures=sw.get("child_failures", 0), actions=_acts(cw))
    samples += [dict(walk=[h["op"] for h in C.decode_tlc_json(s)[0][:12]]) for s in pw.samples[:1]]
    cov["traces_validated_against_impl"] = cases + cw.get("walks", 0)
    cov["samples"] = samples or ["none"]
    cov["exhaustive"] = True
    cov["evaluations"] = cases + cw.get("steps", 0)
    cov["distinct_nontrivial"] = compared
    cov["rule"] = ("T: every transition after the build phase of the DomViewsGen state graphs (%s): each line is a distinct (tree, view "
                   "history, operation) triple by construction; non-trivial = the replay reached the final operation on the specification's "
                   "branch and tree, range boundary points and iterator drain sequences were compared" % ", ".join(k["gens"]))
    out.assumptions += ["constants of " + ", ".join("spec/DomViewsGen.%s.cfg" % g for g in k["gens"]) + " and spec/DomViewsWalk.cfg",
                        "public getters are the projection; node identity = creation order; iterator position observed by draining it on a replay",
                        "replaceChild order (insert, then remove), normalize, setNodeValue boundary behaviour are modelled as coded (DOM Range is silent)"]


def replay(out, path):
    """Re-run one recorded disagreement."""
    C.build_lib("hooks")
    exe = C.build_harness("domviews_harness")
    d = json.load(open(path))
    case = d["case"]
    if case.get("mode") == "T":
        line = json.dumps(json.dumps([case["base"], case["hist"], case["expected_tree"], case["expected_obs"]]))
        rc, o = C.run([exe, "t", str(case.get("ndocs", 1))], input=line + "\n")
    else:
        raise C.InfraError("walk replays need the expected states; re-run the check with the same VERIF_SEED")
    mism, summ, _ = C.harness_results(o.splitlines())
    for m in mism:
        out.disagree(m["cls"], m["case"], m.get("why", ""))
    out.coverage.update(evaluations=1, distinct_nontrivial=1, samples=[case.get("hist")], states=1, transitions=1, traces_validated_against_impl=1)
