"""Shared orchestration for the /verif checks (python3 stdlib only).

Contract (DESIGN.md 1.4, 3):
  exit 0  property held on everything explored (KNOWN-FINDING lines allowed)
  exit 1  + 'VIOLATION property=<id> replay=<path>' : implementation disagrees with the specification
  exit 2  the machinery itself failed (model failure, build failure, torn output) - never a VIOLATION
"""
import fcntl
import json
import os
import re
import shutil
import subprocess
import sys
import tempfile
import threading
import time

ROOT = os.path.dirname(os.path.dirname(os.path.dirname(os.path.abspath(__file__))))
REPO = os.environ.get("VERIF_REPO", "/repo")
BUILD = os.environ.get("VERIF_BUILD", os.path.join(ROOT, ".build"))
SPEC = os.path.join(ROOT, "spec")
HARNESS = os.path.join(ROOT, "harness")
EVID = os.environ.get("VERIF_EVID", os.path.join(ROOT, "evidence"))
REPLAY = os.environ.get("VERIF_REPLAY", os.path.join(ROOT, "replay"))
GUARD = "XERCES_VERIF_HOOKS"
TLA_CP = "/opt/veriftools/tla/tla2tools.jar:/opt/veriftools/tla/CommunityModules-deps.jar"
NCPU = os.cpu_count() or 4


class InfraError(Exception):
    """Machinery failure -> exit 2."""


def log(*a):
    print("[vf]", *a, file=sys.stderr, flush=True)


def seed():
    try:
        return int(os.environ.get("VERIF_SEED", "1"))
    except ValueError:
        return 1


def run(cmd, timeout=600, cwd=None, env=None, check=False, input=None, capture=True):
    e = dict(os.environ)
    if env:
        e.update(env)
    try:
        p = subprocess.run(cmd, cwd=cwd, env=e, timeout=timeout, input=input,
                           stdout=subprocess.PIPE if capture else None,
                           stderr=subprocess.STDOUT if capture else None,
                           text=True, errors="replace")
    except subprocess.TimeoutExpired as ex:
        out = ex.stdout if isinstance(ex.stdout, str) else (ex.stdout or b"").decode("utf-8", "replace")
        return 124, out
    if check and p.returncode != 0:
        raise InfraError("command failed (%d): %s\n%s" % (p.returncode, " ".join(cmd), (p.stdout or "")[-4000:]))
    return p.returncode, p.stdout or ""


# --------------------------------------------------------------------------------------------
# build of /repo's working tree (hook-enabled) and of harness binaries
# --------------------------------------------------------------------------------------------

VARIANTS = {
    # name: (cmake build type, extra C++ flags, compiler)
    "hooks": ("RelWithDebInfo", "-D%s -Wno-error" % GUARD, None),
    "asan": ("RelWithDebInfo",
             "-D%s -Wno-error -fsanitize=address,undefined -fno-sanitize-recover=undefined -fno-omit-frame-pointer" % GUARD,
             None),
}


class _Lock:
    def __init__(self, name):
        os.makedirs(BUILD, exist_ok=True)
        self.path = os.path.join(BUILD, name + ".lock")

    def __enter__(self):
        self.f = open(self.path, "w")
        fcntl.flock(self.f, fcntl.LOCK_EX)
        return self

    def __exit__(self, *a):
        fcntl.flock(self.f, fcntl.LOCK_UN)
        self.f.close()


def lib_dir(variant="hooks"):
    return os.path.join(BUILD, variant)


def build_lib(variant="hooks", targets=("xerces-c",)):
    """(Re)build the library from /repo's current working tree. Incremental via ninja."""
    bdir = lib_dir(variant)
    btype, flags, cxx = VARIANTS[variant]
    # ccache (if installed) makes builds of scratch worktrees (mutants, seeded changes) cheap: only the files a
    # patch touches are really compiled. The cache lives under /verif/.build and is keyed on preprocessed text.
    cc_env = None
    if shutil.which("ccache"):
        cc_env = {"CCACHE_DIR": os.path.join(ROOT, ".build", "ccache"), "CCACHE_BASEDIR": REPO, "CCACHE_NOHASHDIR": "1",
                  "CCACHE_MAXSIZE": "20G"}
    with _Lock("build-" + variant):
        t0 = time.time()
        if not os.path.exists(os.path.join(bdir, "build.ninja")):
            os.makedirs(bdir, exist_ok=True)
            cmd = ["cmake", "-G", "Ninja", "-S", REPO, "-B", bdir,
                   "-DCMAKE_BUILD_TYPE=" + btype, "-DCMAKE_CXX_FLAGS=" + flags]
            if "fsanitize" in flags:
                cmd += ["-DCMAKE_SHARED_LINKER_FLAGS=-fsanitize=address,undefined",
                        "-DCMAKE_EXE_LINKER_FLAGS=-fsanitize=address,undefined"]
            if cc_env:
                cmd += ["-DCMAKE_CXX_COMPILER_LAUNCHER=ccache", "-DCMAKE_C_COMPILER_LAUNCHER=ccache"]
            rc, out = run(cmd, timeout=3600, env=cc_env)
            if rc != 0:
                raise InfraError("cmake configure failed:\n" + out[-3000:])
        rc, out = run(["ninja", "-C", bdir, "-j", os.environ.get("VERIF_BUILD_JOBS", "6")] + list(targets), timeout=7200, env=cc_env)
        if rc != 0:
            raise InfraError("build of /repo working tree failed (variant %s):\n%s" % (variant, out[-6000:]))
        log("library %s up to date (%.1fs)" % (variant, time.time() - t0))
    return bdir


def lib_so(variant="hooks"):
    return os.path.join(lib_dir(variant), "src", "libxerces-c-4.0.so")


def build_harness(name, sources=None, variant="hooks", extra=(), opt="-O1"):
    """Compile harness/<name>.cpp (or the given sources) against the working-tree library."""
    bdir = lib_dir(variant)
    outdir = os.path.join(BUILD, "bin-" + variant)
    os.makedirs(outdir, exist_ok=True)
    exe = os.path.join(outdir, name)
    srcs = [os.path.join(HARNESS, s) for s in (sources or [name + ".cpp"])]
    deps = list(srcs) + [lib_so(variant)]
    cdir = os.path.join(HARNESS, "common")
    deps += [os.path.join(cdir, f) for f in os.listdir(cdir)]
    with _Lock("harness-" + variant + "-" + name):
        if os.path.exists(exe) and all(os.path.getmtime(d) <= os.path.getmtime(exe) for d in deps):
            return exe
        btype, flags, cxx = VARIANTS[variant]
        cmd = ["g++", "-std=c++17", opt, "-g", "-D" + GUARD, "-I" + os.path.join(REPO, "src"),
               "-I" + os.path.join(bdir, "src"), "-I" + os.path.join(bdir), "-I" + cdir]
        if "fsanitize" in flags:
            cmd += ["-fsanitize=address,undefined", "-fno-sanitize-recover=undefined", "-fno-omit-frame-pointer"]
        cmd += list(extra) + srcs + ["-o", exe + ".tmp", "-L" + os.path.join(bdir, "src"),
                                     "-l:libxerces-c-4.0.so", "-Wl,-rpath," + os.path.join(bdir, "src"), "-lpthread"]
        t0 = time.time()
        rc, out = run(cmd, timeout=3600)
        if rc != 0:
            raise InfraError("harness %s does not build:\n%s" % (name, out[-6000:]))
        os.replace(exe + ".tmp", exe)
        log("harness %s built (%.1fs)" % (name, time.time() - t0))
    return exe


# --------------------------------------------------------------------------------------------
# TLC
# --------------------------------------------------------------------------------------------

_RE_STATES = re.compile(r"(\d+) states generated, (\d+) distinct states found")
_RE_DEPTH = re.compile(r"The depth of the complete state graph search is (\d+)")


class TlcResult:
    def __init__(self):
        self.rc = None
        self.generated = 0
        self.distinct = 0
        self.depth = 0
        self.ok = False          # "No error has been found"
        self.violated = None     # name of violated invariant / property, if any
        self.errors = []
        self.text = []           # non-JSON output lines
        self.coverage = {}       # action -> [taken, generated]
        self.wall = 0.0
        self.cmd = ""

    def summary(self):
        return dict(generated=self.generated, distinct=self.distinct, depth=self.depth, ok=self.ok,
                    violated=self.violated, wall_s=round(self.wall, 2))


def _parse_tlc_line(res, line):
    m = _RE_STATES.search(line)
    if m:
        res.generated, res.distinct = int(m.group(1)), int(m.group(2))
    m = _RE_DEPTH.search(line)
    if m:
        res.depth = int(m.group(1))
    if "No error has been found" in line:
        res.ok = True
    m = re.search(r"Invariant (\S+) is violated", line)
    if m:
        res.violated = m.group(1)
    if "Temporal properties were violated" in line or "is violated" in line and res.violated is None:
        res.violated = res.violated or line.strip()
    if line.startswith("Error:"):
        res.errors.append(line.strip())
    m = re.match(r"<(\w+) line \d+, col \d+ to line \d+, col \d+ of module (\w+)>: (\d+):(\d+)", line)
    if m:
        res.coverage[m.group(1)] = [int(m.group(3)), int(m.group(4))]


def _throttle():
    """Optional machine-wide throttle while many people share the box: /verif/.build/throttle.json
    {"workers": n, "nproc": m}. Absent (the normal case) = no limit."""
    try:
        return json.load(open(os.path.join(ROOT, ".build", "throttle.json")))
    except Exception:
        return {}


def tlc(module, cfg, workers=8, simulate=None, depth=None, extra=(), env=None, timeout=1800,
        on_json=None, on_chunk=None, heap="8g", coverage=False, tlc_seed=None, deadlock=True, tool_opts=None):
    """Run TLC on spec/<module>.tla with spec/<cfg>. Lines that are TLA+ strings holding JSON
    (emitted by PrintT(ToJson(..))) are passed, still encoded, to on_json(line)."""
    res = TlcResult()
    th = _throttle()
    if th.get("workers") and workers > 1:
        workers = max(1, min(workers, int(th["workers"])))
    os.makedirs(os.path.join(BUILD, "tlc"), exist_ok=True)
    meta = tempfile.mkdtemp(prefix=module + ".", dir=os.path.join(BUILD, "tlc"))
    cmd = ["java", "-XX:+UseParallelGC", "-Xmx" + heap]
    if tool_opts:
        cmd += tool_opts
    cmd += ["-cp", TLA_CP, "tlc2.TLC", "-workers", str(workers), "-metadir", meta, "-config", cfg]
    if not deadlock:
        cmd += ["-deadlock"]
    if coverage:
        cmd += ["-coverage", "1"]
    if simulate:
        cmd += ["-simulate", "num=%d" % simulate]
        if depth:
            cmd += ["-depth", str(depth)]
        cmd += ["-seed", str(tlc_seed if tlc_seed is not None else seed())]
    cmd += list(extra) + [module + ".tla"]
    res.cmd = " ".join(cmd[cmd.index("tlc2.TLC"):]).replace("tlc2.TLC", "tlc")
    e = dict(os.environ)
    if env:
        e.update(env)
    t0 = time.time()
    p = subprocess.Popen(cmd, cwd=SPEC, env=e, stdout=subprocess.PIPE, stderr=subprocess.STDOUT, bufsize=0)
    timer = threading.Timer(timeout, p.kill)
    timer.start()
    fd = p.stdout.fileno()
    rest = b""

    def handle(block):
        # block: bytes made of whole lines. JSON lines (TLA+ strings) start with '"'.
        if block.startswith(b'"') and _all_json(block):
            if on_chunk:
                on_chunk(block)
            elif on_json:
                for ln in block.decode("utf-8", "replace").splitlines(True):
                    on_json(ln)
            return
        lines = block.split(b"\n")
        if lines and lines[-1] == b"":
            lines.pop()
        buf = []
        for ln in lines:
            if ln.startswith(b'"'):
                buf.append(ln)
            else:
                if buf:
                    _flush_json(buf)
                    buf = []
                t = ln.decode("utf-8", "replace")
                if len(res.text) < 200000:
                    res.text.append(t)
                _parse_tlc_line(res, t + "\n")
        if buf:
            _flush_json(buf)

    def _all_json(block):
        # every line starts with '"'  <=>  no occurrence of newline followed by a non-quote
        i = 0
        n = len(block)
        while True:
            j = block.find(b"\n", i)
            if j < 0 or j + 1 >= n:
                return True
            if block[j + 1] != 0x22:
                return False
            i = j + 1

    def _flush_json(buf):
        if on_chunk:
            on_chunk(b"\n".join(buf) + b"\n")
        elif on_json:
            for ln in buf:
                on_json(ln.decode("utf-8", "replace") + "\n")

    try:
        while True:
            chunk = os.read(fd, 1 << 20)
            if not chunk:
                break
            data = rest + chunk
            k = data.rfind(b"\n")
            if k < 0:
                rest = data
                continue
            rest = data[k + 1:]
            handle(data[:k + 1])
        if rest:
            handle(rest + b"\n")
        p.wait()
    finally:
        timer.cancel()
        shutil.rmtree(meta, ignore_errors=True)
    res.rc = p.returncode
    res.wall = time.time() - t0
    if simulate and res.rc == 0 and not res.errors and res.violated is None:
        res.ok = True        # simulation mode does not print "No error has been found"
        for ln in res.text:
            m = re.search(r"The number of states generated: (\d+)", ln)
            if m:
                res.generated = int(m.group(1))
    return res


def tlc_must_pass(res, what):
    """Exhaustive config must satisfy its own properties; otherwise it is a model failure (exit 2)."""
    if not res.ok or res.violated:
        raise InfraError("model failure in %s: rc=%s violated=%s\n%s" %
                         (what, res.rc, res.violated, "\n".join(res.text[-60:])))


def decode_tlc_json(line):
    """'"{\\"a\\":1}"'  ->  python value."""
    return json.loads(json.loads(line))


class Piper:
    """Feeds TLC-emitted JSON lines (blocks of whole lines, bytes) round-robin to nproc harness processes;
    collects their stdout lines."""

    def __init__(self, cmd, env=None, timeout=3600, nproc=1):
        e = dict(os.environ)
        if env:
            e.update(env)
        th = _throttle()
        if th.get("nproc"):
            nproc = min(nproc, int(th["nproc"]))
        self.ps = [subprocess.Popen(cmd, stdin=subprocess.PIPE, stdout=subprocess.PIPE, stderr=subprocess.PIPE,
                                    env=e, bufsize=0) for _ in range(max(1, nproc))]
        self.out = []
        self.err = []
        self.n = 0
        self.k = 0
        self.samples = []
        self._lock = threading.Lock()
        self._ts = []
        for p in self.ps:
            for fn, stream in ((self._rd, p.stdout), (self._rde, p.stderr)):
                t = threading.Thread(target=fn, args=(stream,), daemon=True)
                t.start()
                self._ts.append(t)
        import queue
        self._qs = [queue.Queue(maxsize=6) for _ in self.ps]
        self._ws = []
        for p, q in zip(self.ps, self._qs):
            t = threading.Thread(target=self._wr, args=(p, q), daemon=True)
            t.start()
            self._ws.append(t)
        self._timer = threading.Timer(timeout, self._killall)
        self._timer.start()

    def _wr(self, p, q):
        dead = False
        while True:
            b = q.get()
            if b is None:
                break
            if dead:
                continue
            try:
                p.stdin.write(b)
            except (BrokenPipeError, ValueError, OSError):
                dead = True
        try:
            p.stdin.close()
        except Exception:
            pass

    def _killall(self):
        for p in self.ps:
            p.kill()

    def _rd(self, stream):
        data = stream.read()
        lines = data.decode("utf-8", "replace").splitlines()
        with self._lock:
            self.out.extend(lines)

    def _rde(self, stream):
        data = stream.read()
        with self._lock:
            self.err.extend(data.decode("utf-8", "replace").splitlines()[:2000])

    def feed_chunk(self, block):
        """block: bytes, whole lines."""
        cnt = block.count(b"\n")
        if len(self.samples) < 3 or (self.k % 50 == 0 and len(self.samples) < 8):
            self.samples.append(block[:block.find(b"\n") + 1].decode("utf-8", "replace"))
        self.n += cnt
        # cut into pieces of <= 256 KiB at line ends and hand them to the writers round-robin
        i = 0
        n = len(block)
        while i < n:
            j = n if n - i <= (1 << 18) else block.rfind(b"\n", i, i + (1 << 18)) + 1
            if j <= i:
                j = block.find(b"\n", i) + 1 or n
            self._qs[self.k % len(self._qs)].put(block[i:j])
            self.k += 1
            i = j

    def feed(self, line):
        self.feed_chunk(line.encode("utf-8") if isinstance(line, str) else line)

    def close(self):
        rc = 0
        for q in self._qs:
            q.put(None)
        for t in self._ws:
            t.join()
        for t in self._ts:
            t.join()
        for p in self.ps:
            p.wait()
            rc = rc or p.returncode
        self._timer.cancel()
        return rc


def harness_results(lines):
    """Harness protocol: every stdout line is a JSON object with key 't':
       {'t':'mismatch', ...case...} | {'t':'summary', ...counters...} | {'t':'sample', ...}"""
    mism, summ, samples = [], {}, []
    for ln in lines:
        if not ln.startswith("{"):
            continue
        try:
            o = json.loads(ln)
        except ValueError:
            raise InfraError("torn harness output line: " + ln[:200])
        if o.get("t") == "mismatch":
            mism.append(o)
        elif o.get("t") == "summary":
            for k, v in o.items():
                if k == "t":
                    continue
                if isinstance(v, (int, float)) and isinstance(summ.get(k, 0), (int, float)):
                    summ[k] = summ.get(k, 0) + v
                elif isinstance(v, dict) and isinstance(summ.get(k, {}), dict):
                    d = summ.setdefault(k, {})
                    for kk, vv in v.items():
                        d[kk] = d.get(kk, 0) + vv if isinstance(vv, (int, float)) else vv
                else:
                    summ[k] = v
        elif o.get("t") == "sample":
            samples.append(o)
    return mism, summ, samples


# --------------------------------------------------------------------------------------------
# trace validation
# --------------------------------------------------------------------------------------------

def validate_trace(module, cfg, trace_path, timeout=900, heap="8g"):
    """Binder V. The trace spec reads IOEnv.TRACE, prints 'TRACE-RESULT <matched> <len>' via a
    POSTCONDITION and fails the postcondition unless the whole trace was consumed.
    Returns (accepted, matched, total, TlcResult)."""
    res = tlc(module, cfg, workers=1, env={"TRACE": trace_path}, timeout=timeout, heap=heap, deadlock=False,
              tool_opts=["-Dtlc2.tool.queue.IStateQueue=StateDeque"])
    matched = total = -1
    for ln in res.text:
        m = re.search(r"TRACE-RESULT\D+(\d+)\D+(\d+)", ln)
        if m:
            matched, total = int(m.group(1)), int(m.group(2))
    if matched < 0:
        raise InfraError("trace validation of %s produced no TRACE-RESULT:\n%s" % (trace_path, "\n".join(res.text[-40:])))
    accepted = (matched == total) and res.violated is None and not [e for e in res.errors if "Postcondition" not in e and "post" not in e.lower()]
    return accepted, matched, total, res


# --------------------------------------------------------------------------------------------
# verdicts, known findings, evidence
# --------------------------------------------------------------------------------------------

def load_known():
    p = os.path.join(ROOT, "known_findings.json")
    if not os.path.exists(p):
        return []
    out = list(json.load(open(p)).get("findings", []))
    import glob
    for f in sorted(glob.glob(os.path.join(ROOT, "known_findings.d", "*.json"))):
        out += json.load(open(f)).get("findings", [])
    return out


def match_known(prop, cls, known=None):
    """A disagreement is a known finding iff an *open* entry of the same property has a 'match'
    dict all of whose items are equal in the disagreement's classification 'cls'."""
    for k in (known if known is not None else load_known()):
        if k.get("property") != prop or k.get("status") != "open":
            continue
        m = k.get("match") or {}
        if m and all(cls.get(a) == b for a, b in m.items()):
            return k
    return None


class Outcome:
    def __init__(self, prop, tier):
        self.prop = prop
        self.tier = tier
        self.t0 = time.time()
        self.disagreements = []   # dicts: {'cls':{..}, 'case':{..}, 'why':str}
        self.coverage = {}
        self.assumptions = []
        self.level = "model_checking"

    def disagree(self, cls, case, why=""):
        self.disagreements.append(dict(cls=cls, case=case, why=why))

    def finish(self):
        known = load_known()
        os.makedirs(EVID, exist_ok=True)
        kf_seen, viol = {}, []
        for d in self.disagreements:
            k = match_known(self.prop, d["cls"], known)
            if k is not None:
                kf_seen.setdefault(k["id"], [k, 0])[1] += 1
            else:
                viol.append(d)
        for kid, (k, n) in sorted(kf_seen.items()):
            print("KNOWN-FINDING: property=%s %s (%s; %d cases this run)" % (self.prop, kid, k.get("what", ""), n))
        # distinct violation classes, first case of each
        seen, reported = set(), []
        for d in viol:
            key = json.dumps(d["cls"], sort_keys=True)
            if key in seen:
                continue
            seen.add(key)
            reported.append(d)
        rdir = os.path.join(REPLAY, self.prop)
        if reported:
            os.makedirs(rdir, exist_ok=True)
        for i, d in enumerate(reported[:20]):
            path = os.path.join(rdir, "%s-%s-%d.json" % (self.tier, time.strftime("%H%M%S"), i))
            with open(path, "w") as f:
                json.dump(d, f, indent=1)
            print("VIOLATION property=%s replay=%s" % (self.prop, path))
            log("  why:", d.get("why", ""), "cls:", json.dumps(d["cls"]))
        cov = dict(self.coverage)
        cov.setdefault("samples", [])
        cov["known_findings_hit"] = {k: v[1] for k, v in kf_seen.items()}
        ev = dict(property_id=self.prop, tier=self.tier, seed=seed(), level=self.level, coverage=cov,
                  assumptions=self.assumptions, wall_s=round(time.time() - self.t0, 2),
                  violations=len(viol))
        with open(os.path.join(EVID, self.prop + ".json"), "w") as f:
            json.dump(ev, f, indent=1)
        sys.stdout.flush()
        return 1 if viol else 0
