SPECIFICATION GSpec
CONSTANTS
  Fams = {"F1", "F2", "F3a", "F3b", "F3c", "F4", "F5", "F7", "F8", "F9"}
  LenCap = 3
  Cases = {}
INVARIANT EmitCase
CHECK_DEADLOCK FALSE
