SPECIFICATION Spec
CONSTANTS
  NEnt = 3
  MaxVal = 2
  MaxValLast = 2
  MaxDoc = 2
  Limits = {99, 0, 1, 2, 3, 4}
  ExtSets = {{}, {3}, {1, 2}}
  Sites = {"content", "attr", "attdef"}
  ScnSet = {"IG", "DG"}
  ApiSet = {"RAW", "SAX2", "DOM"}
INVARIANT TypeOK
INVARIANT ExpansionBound
INVARIANT OverLimitRejected
INVARIANT WithinLimitUnaffected
INVARIANT RecursionReported
INVARIANT NoFalseRecursion
INVARIANT DepthBounded
CHECK_DEADLOCK FALSE
