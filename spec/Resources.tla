----------------------------- MODULE Resources -----------------------------
(* External-resource gating of a parse (property C19, first half), written to be bound to
   xerces-c: ReaderMgr::createReader (both variants), IG/DGXMLScanner::scanDocTypeDecl,
   scanEntityRef, DTDScanner::expandPERef, IG/SGXMLScanner::resolveSchemaGrammar,
   TraverseSchema::resolveSchemaLocation.

   Operational layer : one parse = Init (a configuration and a document shape are chosen), then a
       deterministic run of the named actions
         Decl, Ref(kind, sysId, base), ExpandInternalPE, SkipRef, Offer(sysId, base), ResolverAnswers(src | null),
         Open(file | url), Blocked, EndEntity, UndeclaredRef, Finish
       over an explicit entity stack (the reader stack).  `log` is the observable: every offer to
       the application's resolver with (systemId as written, baseURI), the resolver's answer and
       every file / network open, in order.  The guards of Ref are the table "Permitted as read
       from the code" of DESIGN.md C19, one row per reference kind.
   Declarative layer : PermittedKind (the property text), the invariants OnlyPermittedOpened,
       ResolverFirst, SourceReplacesDefault, BaseIsContainingEntity, NothingWhenDisabled and the
       assumption MergeIsWalk (RFC 2396 5.2 step 6 merge = walking the path segments).

   As coded (named, all allowed by the property):
     - the resolver is offered the system identifier AS WRITTEN together with the base URI; the
       resolved identifier is Resolve(base, sysId) (ResolverFirst checks the opened one is that);
     - the base of an entity reference is the external entity that contains the DECLARATION;
     - an external parameter entity referenced in a DTD subset that is processed is fetched whatever
       loadExternalDTD / the validation scheme say (only the external SUBSET is gated by them);
     - schema hints are followed whatever the validation scheme says (doSchema /\ loadSchema); the schema-only scanner
       (SGXMLScanner) forces doSchema, so there loadSchema alone gates the hints;
     - a blocked DTD / entity (default resolution disabled, resolver gave nothing) is a fatal error,
       a blocked schema is silently skipped.
*)
EXTENDS Naturals, Sequences, FiniteSets, TLC

CONSTANTS Apis,        \* parser APIs the binder runs ("SAX","SAX2","DOM","DOMLS"); behaviour is the same
          Scanners,    \* subset of {"IG","WF","DG","SG"}
          Resolvers,   \* subset of {"none","null","src","part"}
          Vals,        \* subset of {"never","auto","always"}
          NsSet,       \* subset of BOOLEAN: doNamespaces
          SubsetForms, \* how the external subset is written: subset of {"rel","http","file","path"}
          HintForms,   \* how the root schema hint is written
          HintKinds    \* subset of {"none","nsl","sl","nsld"}: none / noNamespaceSchemaLocation / schemaLocation / a schema with a DOCTYPE

DtdScanners == {"IG", "DG"}
SchemaScanners == {"IG", "SG"}

---------------------------------------------------------------------------
\* abstract URIs and RFC 2396 relative resolution

Uri(s, p) == [s |-> s, p |-> p]            \* s in {"path","file","http"}, p = path segments under the root / host
NoUri == Uri("", <<>>)
Front(q) == SubSeq(q, 1, Len(q) - 1)
Last(q) == q[Len(q)]

\* operational: RFC 2396 5.2 step 6 (a) base path without its last segment, (b) append the reference,
\* (c,d) remove "." segments, (e,f) remove "<segment>/.." leftmost first, repeatedly.
RECURSIVE Collapse(_)
Collapse(q) ==
    LET hits == {i \in 1..(Len(q) - 1) : q[i] # ".." /\ q[i + 1] = ".."} IN
    IF hits = {} THEN q
    ELSE LET i == CHOOSE i \in hits : \A j \in hits : i <= j IN Collapse(SubSeq(q, 1, i - 1) \o SubSeq(q, i + 2, Len(q)))
Merge(basep, relp) == Collapse(SelectSeq(Front(basep) \o relp, LAMBDA s : s # "."))

\* declarative: walk the reference segment by segment starting in the directory of the base
RECURSIVE Walk(_, _)
Walk(dir, rel) ==
    IF rel = <<>> THEN dir
    ELSE LET h == Head(rel) IN
         Walk(IF h = "." THEN dir
              ELSE IF h = ".." THEN (IF dir = <<>> \/ Last(dir) = ".." THEN Append(dir, "..") ELSE Front(dir))
              ELSE Append(dir, h), Tail(rel))

Resolve(base, f, p) == IF f = "rel" THEN Uri(base.s, Merge(base.p, p)) ELSE Uri(f, p)
ResolveDecl(base, f, p) == IF f = "rel" THEN Uri(base.s, Walk(Front(base.p), p)) ELSE Uri(f, p)

Segs == {"a", "b", ".", ".."}
SmallPaths == UNION {[1..n -> Segs] : n \in 0..3}
MergeIsWalk == \A b \in {q \in SmallPaths : q # <<>> /\ \A i \in 1..Len(q) : q[i] \notin {".", ".."}} :
                   \A r \in SmallPaths : Merge(b, r) = Walk(Front(b), r)
ASSUME MergeIsWalk

---------------------------------------------------------------------------
\* the canary world: resources by path, each a list of items (what matters of its content)

Item(k, n, f, p, ns) == [k |-> k, n |-> n, f |-> f, p |-> p, ns |-> ns]
\* k: "declge" (external general entity declaration n, SYSTEM f:p)   "pe" (external parameter entity n declared and referenced)
\*    "refge" (reference &n; in content)   "text"   "extsubset" (DOCTYPE external id)
\*    "nsl" / "sl" (xsi:noNamespaceSchemaLocation / xsi:schemaLocation hint for namespace ns)
\*    "include" / "import" (xs:include / xs:import namespace ns)
\*    "ipe" (internal parameter entity n declared and referenced; its replacement text is the pseudo resource at p)
Text == Item("text", "", "", <<>>, "")
Res(p, k, ns, items) == [p |-> p, k |-> k, ns |-> ns, items |-> items,
                         rs |-> p[Len(p)] \in {"x.dtd", "r.xsd", "rn.xsd", "gx.xsd", "rd.xsd"}]   \* rs: supplied by the resolver of behaviour "part"

World == {
    Res(<<"d", "x.dtd">>, "dtd", "", << Item("pe", "p1", "rel", <<"p", "p1.ent">>, ""),
                                        Item("declge", "gx", "rel", <<"e", "gx.xml">>, ""),
                                        Item("ipe", "di", "", <<"%di">>, "") >>),     \* <!ENTITY % di "<!ENTITY gi SYSTEM 'e/gi.xml'>"> %di;
    \* replacement text of the INTERNAL parameter entity di declared and referenced in d/x.dtd (not a file)
    Res(<<"%di">>, "ipe", "", << Item("declge", "gi", "rel", <<"e", "gi.xml">>, "") >>),
    Res(<<"d", "e", "gi.xml">>, "ge", "", << Text >>),
    Res(<<"d", "p", "p1.ent">>, "dtd", "", << Item("declge", "gp", "rel", <<"..", "e", ".", "gp.xml">>, "") >>),
    Res(<<"d", "e", "gx.xml">>, "ge", "", << Text, Item("sl", "", "rel", <<"sch", "gx.xsd">>, "urn:gx") >>),
    Res(<<"d", "e", "gp.xml">>, "ge", "", << Text >>),
    Res(<<"d", "e", "sch", "gx.xsd">>, "xsd", "urn:gx", << >>),
    Res(<<"p0.ent">>, "dtd", "", << Item("declge", "g0", "rel", <<"s", "g0.xml">>, "") >>),
    Res(<<"s", "g0.xml">>, "ge", "", << Text >>),
    Res(<<"s", "g1.xml">>, "ge", "", << Text, Item("refge", "g2", "", <<>>, ""), Text >>),
    Res(<<"s", "t", "g2.xml">>, "ge", "", << Text >>),
    Res(<<"x", "r.xsd">>, "xsd", "", << Item("include", "", "rel", <<"inc", "i.xsd">>, ""),
                                        Item("import", "", "rel", <<"..", "m", "m.xsd">>, "urn:m") >>),
    Res(<<"x", "inc", "i.xsd">>, "xsd", "", << >>),
    Res(<<"m", "m.xsd">>, "xsd", "urn:m", << >>),
    Res(<<"x", "rn.xsd">>, "xsd", "urn:r", << >>),
    \* a schema document that has a DOCTYPE of its own (read by the parser the scanner creates for schema documents)
    Res(<<"x", "rd.xsd">>, "xsd", "", << Item("extsubset", "", "rel", <<"xd", "s.dtd">>, "") >>),
    Res(<<"x", "xd", "s.dtd">>, "dtd", "", << >>) }

DocPath == <<"doc.xml">>
WorldByPath == [p \in {r.p : r \in World} |-> CHOOSE r \in World : r.p = p]     \* constant, evaluated once
InWorld(p) == p \in DOMAIN WorldByPath
ResAt(p) == WorldByPath[p]
\* the resolver of behaviour "part" supplies DTD subsets and hinted schemas only (a lookup by file name in the binder)
PartSupplies(p) == \E r \in World : Last(r.p) = Last(p) /\ r.rs

\* document shapes: independent choices
DocItems(xf, pi, g1, gd, hk, hf) ==
       (IF pi THEN << Item("pe", "p0", "rel", <<"p0.ent">>, "") >> ELSE << >>)
    \o (IF g1 THEN << Item("declge", "g1", "rel", <<"s", "g1.xml">>, ""),
                      Item("declge", "g2", "rel", <<"s", ".", "t", "g2.xml">>, "") >> ELSE << >>)
    \o (IF xf # "none" THEN << Item("extsubset", "", xf, <<"d", "x.dtd">>, "") >> ELSE << >>)
    \o (IF hk = "nsl" THEN << Item("nsl", "", hf, <<"x", "r.xsd">>, "") >>
        ELSE IF hk = "sl" THEN << Item("sl", "", hf, <<"x", "rn.xsd">>, "urn:r") >>
        ELSE IF hk = "nsld" THEN << Item("nsl", "", hf, <<"x", "rd.xsd">>, "") >> ELSE << >>)
    \o << Text >>
    \o (IF g1 THEN << Item("refge", "g1", "", <<>>, "") >> ELSE << >>)
    \o (IF pi THEN << Item("refge", "g0", "", <<>>, "") >> ELSE << >>)
    \o (IF gd THEN << Item("refge", "gx", "", <<>>, ""), Item("refge", "gp", "", <<>>, ""), Item("refge", "gi", "", <<>>, "") >> ELSE << >>)
Shapes == {DocItems(xf, pi, g1, gd, hk, hf) :
             xf \in {"none"} \cup SubsetForms, pi \in BOOLEAN, g1 \in BOOLEAN, gd \in BOOLEAN,
             hk \in HintKinds, hf \in HintForms}
DocShapes == {d \in Shapes : (\E i \in 1..Len(d) : d[i].n = "gx") => (\E i \in 1..Len(d) : d[i].k = "extsubset")}

Configs == [api : Apis, scn : Scanners, res : Resolvers, val : Vals, ns : NsSet,
            ddr : BOOLEAN, ldtd : BOOLEAN, sch : BOOLEAN, lsch : BOOLEAN]

---------------------------------------------------------------------------
VARIABLES cfg, doc, stack, decls, loaded, log, pend, verdict
vars == <<cfg, doc, stack, decls, loaded, log, pend, verdict>>

Frame(u, k, ns) == [u |-> u, k |-> k, ns |-> ns, pc |-> 1]      \* items are looked up: the document's, or the world resource at u.p
NoPend == [on |-> FALSE, kind |-> "", n |-> "", f |-> "", p |-> <<>>, ns |-> "", base |-> NoUri, phase |-> ""]
Ev(e, f, p, b, r) == [e |-> e, f |-> f, p |-> p, b |-> b, r |-> r]
\* e = "offer": f:p = system id as written, b = base URI
\* e = "answer": r in {"src","null"}       e = "open": b = URI opened (s = "http": network)

Init == /\ cfg \in Configs
        /\ doc \in DocShapes
        /\ stack = << >>
        /\ decls = {}
        /\ loaded = {}
        /\ log = << >>
        /\ pend = NoPend
        /\ verdict = "start"

Top == stack[Len(stack)]
TopItems == IF Top.k = "doc" THEN doc ELSE IF Top.k = "none" THEN << >> ELSE ResAt(Top.u.p).items
Cur == TopItems[Top.pc]
Advance == stack' = [stack EXCEPT ![Len(stack)].pc = @ + 1]
Running == verdict = "run" /\ ~pend.on /\ stack # << >>
\* ReaderMgr::getLastExtEntityInfo: the topmost reader of an EXTERNAL entity (readers of internal entities have no system id)
LastExt == LET ix == {i \in 1..Len(stack) : stack[i].k # "ipe"} IN stack[CHOOSE i \in ix : \A j \in ix : j <= i].u
DtdAware == cfg.scn \in DtdScanners
Declared(n) == \E d \in decls : d.n = n
DeclOf(n) == CHOOSE d \in decls : d.n = n
KindOfItem(it) == CASE it.k = "extsubset" -> "dtd" [] it.k = "pe" -> "pe" [] it.k = "refge" -> "ge"
                    [] it.k \in {"nsl", "sl"} -> "hint" [] OTHER -> it.k

\* the main document is opened as given by the application (never offered to the resolver)
OpenDocument ==
    /\ verdict = "start"
    /\ log' = << Ev("open", "", <<>>, Uri("path", DocPath), "") >>
    /\ stack' = << Frame(Uri("path", DocPath), "doc", "") >>
    /\ verdict' = "run"
    /\ UNCHANGED <<cfg, doc, decls, loaded, pend>>

\* guards: "Permitted as read from the code", one row per reference kind -------------------------
InSchema == \E i \in 1..Len(stack) : stack[i].k = "xsd"      \* schema documents are read by a DTD-aware parser of their own
GuardSubset == (DtdAware \/ InSchema) /\ (cfg.ldtd \/ cfg.val \in {"auto", "always"})   \* scanDocTypeDecl: fLoadExternalDTD || fValidate (Val_Auto sets fValidate at DOCTYPE)
GuardHint(ns) == /\ cfg.scn = "SG" \/ (cfg.scn = "IG" /\ cfg.sch /\ cfg.ns)     \* SGXMLScanner::scanReset forces fDoSchema (and namespaces)
                 /\ cfg.lsch /\ ns \notin loaded
GuardInSchema == TRUE                                                       \* include / import while a schema is traversed

\* an entity declaration is recorded with the base URI of the external entity being read
Decl == /\ Running /\ Top.pc <= Len(TopItems) /\ Cur.k = "declge"
        /\ decls' = IF DtdAware /\ ~Declared(Cur.n) THEN decls \cup {[n |-> Cur.n, f |-> Cur.f, p |-> Cur.p, b |-> LastExt]} ELSE decls
        /\ Advance
        /\ UNCHANGED <<cfg, doc, loaded, log, pend, verdict>>

SkipText == /\ Running /\ Top.pc <= Len(TopItems) /\ Cur.k = "text"
            /\ Advance
            /\ UNCHANGED <<cfg, doc, decls, loaded, log, pend, verdict>>

Req(kind, it, base) == [on |-> TRUE, kind |-> kind, n |-> it.n, f |-> it.f, p |-> it.p, ns |-> it.ns, base |-> base, phase |-> "ref"]

\* Ref(kind, sysId, base): a reference that the configuration lets the parser follow
Ref == /\ Running /\ Top.pc <= Len(TopItems)
       /\ \/ /\ Cur.k = "extsubset" /\ GuardSubset
             /\ pend' = Req("dtd", Cur, LastExt)
          \/ /\ Cur.k = "pe" /\ DtdAware                      \* declared and referenced in a subset that is being processed
             /\ pend' = Req("pe", Cur, LastExt)
          \/ /\ Cur.k = "refge" /\ DtdAware /\ Declared(Cur.n)
             /\ pend' = Req("ge", [DeclOf(Cur.n) EXCEPT !.n = Cur.n] @@ [ns |-> ""], DeclOf(Cur.n).b)
          \/ /\ Cur.k \in {"nsl", "sl"} /\ GuardHint(Cur.ns)
             /\ pend' = Req("hint", Cur, LastExt)        \* base = last external entity on the reader stack
          \/ /\ Cur.k \in {"include", "import"} /\ GuardInSchema
             /\ pend' = Req(Cur.k, Cur, LastExt)
       /\ Advance
       /\ UNCHANGED <<cfg, doc, decls, loaded, log, verdict>>

\* %n; for an internal parameter entity: its replacement text becomes the current reader (no resource is touched)
ExpandInternalPE ==
    /\ Running /\ Top.pc <= Len(TopItems) /\ Cur.k = "ipe"
    /\ stack' = Append([stack EXCEPT ![Len(stack)].pc = @ + 1], Frame(Uri("int", Cur.p), "ipe", ""))
    /\ UNCHANGED <<cfg, doc, decls, loaded, log, pend, verdict>>

\* a reference the configuration does not let the parser follow: nothing is offered, nothing is opened
SkipRef == /\ Running /\ Top.pc <= Len(TopItems)
           /\ \/ Cur.k = "extsubset" /\ ~GuardSubset
              \/ Cur.k = "pe" /\ ~DtdAware
              \/ Cur.k \in {"nsl", "sl"} /\ ~GuardHint(Cur.ns)
           /\ Advance
           /\ UNCHANGED <<cfg, doc, decls, loaded, log, pend, verdict>>

\* &n; for an entity whose declaration was not read
UndeclaredRef ==
    /\ Running /\ Top.pc <= Len(TopItems) /\ Cur.k = "refge" /\ ~(DtdAware /\ Declared(Cur.n))
    /\ IF DtdAware THEN Advance /\ verdict' = verdict     \* a DOCTYPE with an unread external subset exists: not a well-formedness error
       ELSE stack' = stack /\ verdict' = "fatal"          \* WF / SG scanners know the predefined entities only
    /\ UNCHANGED <<cfg, doc, decls, loaded, log, pend>>

\* Offer(sysId, base): createReader / resolveSchemaGrammar / resolveSchemaLocation ask the resolver first
Offer == /\ verdict = "run" /\ pend.on /\ pend.phase = "ref"
         /\ IF cfg.res = "none" THEN log' = log /\ pend' = [pend EXCEPT !.phase = "default"]
            ELSE /\ log' = Append(log, Ev("offer", pend.f, pend.p, pend.base, ""))
                 /\ pend' = [pend EXCEPT !.phase = "offered"]
         /\ UNCHANGED <<cfg, doc, stack, decls, loaded, verdict>>

Target == Resolve(pend.base, pend.f, pend.p)
Enter(u) == IF InWorld(u.p) THEN Append(stack, Frame(u, ResAt(u.p).k, ResAt(u.p).ns))
            ELSE Append(stack, Frame(u, "none", ""))

ResolverAnswers ==
    /\ verdict = "run" /\ pend.on /\ pend.phase = "offered"
    /\ LET src == cfg.res = "src" \/ (cfg.res = "part" /\ PartSupplies(pend.p)) IN
       IF src THEN /\ log' = Append(log, Ev("answer", "", <<>>, NoUri, "src"))
                   /\ stack' = Enter(Uri("path", Target.p))       \* the binder's resolver names its sources by path
                   /\ pend' = NoPend
       ELSE /\ log' = Append(log, Ev("answer", "", <<>>, NoUri, "null"))
            /\ stack' = stack
            /\ pend' = [pend EXCEPT !.phase = "default"]
    /\ UNCHANGED <<cfg, doc, decls, loaded, verdict>>

\* Open(file | url): the default source, only when default resolution is not disabled
Open == /\ verdict = "run" /\ pend.on /\ pend.phase = "default" /\ ~cfg.ddr
        /\ log' = Append(log, Ev("open", "", <<>>, Target, ""))
        /\ stack' = Enter(Target)
        /\ pend' = NoPend
        /\ UNCHANGED <<cfg, doc, decls, loaded, verdict>>

\* 'if (disableDefaultEntityResolution) return 0'
Blocked == /\ verdict = "run" /\ pend.on /\ pend.phase = "default" /\ cfg.ddr
           /\ verdict' = IF pend.kind \in {"dtd", "pe", "ge"} /\ ~InSchema THEN "fatal" ELSE verdict   \* trouble in a schema is not fatal to the instance
           /\ pend' = NoPend
           /\ UNCHANGED <<cfg, doc, stack, decls, loaded, log>>

EndEntity == /\ Running /\ Top.pc > Len(TopItems) /\ Len(stack) > 1
             /\ loaded' = IF Top.k = "xsd" THEN loaded \cup {Top.ns} ELSE loaded
             /\ stack' = Front(stack)
             /\ UNCHANGED <<cfg, doc, decls, log, pend, verdict>>

Finish == /\ Running /\ Top.pc > Len(TopItems) /\ Len(stack) = 1
          /\ verdict' = "ok"
          /\ UNCHANGED <<cfg, doc, stack, decls, loaded, log, pend>>

Next == OpenDocument \/ Decl \/ SkipText \/ Ref \/ ExpandInternalPE \/ SkipRef \/ UndeclaredRef \/ Offer \/ ResolverAnswers \/ Open \/ Blocked
        \/ EndEntity \/ Finish
Spec == Init /\ [][Next]_vars

---------------------------------------------------------------------------
\* declarative layer

\* the property text: what a configuration permits to be fetched by default
PermittedKind(c, kind, inxsd) ==
    /\ ~c.ddr
    /\ CASE kind = "dtd" -> (c.scn \in DtdScanners \/ inxsd) /\ (c.ldtd \/ c.val # "never")
         [] kind \in {"pe", "ge"} -> c.scn \in DtdScanners
         [] kind \in {"hint", "include", "import"} -> c.lsch /\ (c.scn = "SG" \/ (c.scn = "IG" /\ c.sch))   \* the schema-only scanner does schema processing by definition
         [] OTHER -> FALSE

\* every reference of the document and of everything in the world, with the path it denotes under RFC 2396
RefKinds == {"extsubset", "pe", "declge", "nsl", "sl", "include", "import"}
RefsOf(p, ck, items) == {[kind |-> KindOfItem(IF items[i].k = "declge" THEN [items[i] EXCEPT !.k = "refge"] ELSE items[i]),
                      f |-> items[i].f, p |-> items[i].p, c |-> p, inxsd |-> (ck = "xsd"),
                      t |-> IF items[i].f = "rel" THEN Walk(Front(p), items[i].p) ELSE items[i].p]
                        : i \in {j \in 1..Len(items) : items[j].k \in RefKinds}}
\* text of an internal parameter entity belongs to the entity in which that parameter entity is declared
ContainerPath(r) == IF r.k = "ipe" THEN (CHOOSE q \in World : \E i \in 1..Len(q.items) : q.items[i].k = "ipe" /\ q.items[i].p = r.p).p ELSE r.p
WorldRefs == UNION {RefsOf(ContainerPath(r), r.k, r.items) : r \in World}          \* constant
AllRefs == RefsOf(DocPath, "doc", doc) \cup WorldRefs

\* The log only grows by appending and every prefix of it is the log of an earlier state, so each invariant
\* constrains the LAST entry (with its predecessors); holding in every reachable state = holding for every entry.
N == Len(log)
LastIs(e) == N > 0 /\ log[N].e = e
OnlyPermittedOpened ==
    LastIs("open") => \/ N = 1 /\ log[N].b = Uri("path", DocPath)
                      \/ \E r \in AllRefs : r.t = log[N].b.p /\ PermittedKind(cfg, r.kind, r.inxsd)
NothingWhenDisabled == (cfg.ddr /\ LastIs("open")) => N = 1
\* Open(r) only after Offer(r) was answered null, when a resolver is installed; the offered pair denotes what is opened
ResolverFirst ==
    (LastIs("open") /\ N > 1) =>
        cfg.res = "none" \/ (/\ N >= 3 /\ log[N - 1].e = "answer" /\ log[N - 1].r = "null" /\ log[N - 2].e = "offer"
                             /\ ResolveDecl(log[N - 2].b, log[N - 2].f, log[N - 2].p) = log[N].b)
\* never the default when the resolver supplied a source
SourceReplacesDefault == (LastIs("open") /\ N > 1) => ~(log[N - 1].e = "answer" /\ log[N - 1].r = "src")
\* the base URI offered is that of the entity that contains the reference (for entities: the declaration)
BaseIsContainingEntity ==
    LastIs("offer") => \E r \in AllRefs : r.f = log[N].f /\ r.p = log[N].p /\ r.c = log[N].b.p
\* every answer follows an offer
AnswersFollowOffers == LastIs("answer") => (N > 1 /\ log[N - 1].e = "offer")
\* a parse ends; without a fatal error every permitted reference of the document itself was followed or offered
TypeOK == /\ verdict \in {"start", "run", "ok", "fatal"}
          /\ Len(stack) <= 7
=============================================================================
