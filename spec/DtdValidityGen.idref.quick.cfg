SPECIFICATION GSpec
CONSTANTS
  Family = "idref"
  NTok = 2
  NTok2 = 2
  MaxVal = 2
  MaxElems = 3
INVARIANT Emit
CHECK_DEADLOCK FALSE
