---------------------------- MODULE SerializerGen ----------------------------
(* Binder T for Serializer: one JSON line per finished case
      [doc, cfg, err, warn, flat output items, Parse(output), Parse(output) = doc, tags]
   The harness builds doc through the DOM API, serialises it with DOMLSSerializer in concrete encodings of the
   class and compares bytes (rendered from the items with a fixed table), verdict, re-parsed tree, isEqualNode
   and the second serialisation. *)
EXTENDS SerializerMC, Json
NodeT(x) == <<x.k, x.d, x.n, x.p, x.u, x.r, x.v>>
DocT(d) == [j \in 1..Len(d) |-> NodeT(d[j])]
CaseOf == LET ok == ~st'.err
              rt == IF ok THEN Parse(st'.out) ELSE <<>> IN
          << DocT(doc), <<cfg.enc, cfg.split, cfg.v11, cfg.top, cfg.bom>>, st'.err, st'.warn,
             (IF ok THEN Flat(st'.out) ELSE <<>>), DocT(rt), ok /\ rt = doc, Tags(doc, cfg) >>
EmitT == (phase' = "done" /\ phase = "ser") => PrintT(ToJson(CaseOf))
=============================================================================
