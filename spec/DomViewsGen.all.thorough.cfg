SPECIFICATION GSpec
CONSTANTS
  MaxId = 4
  NDocs = 1
  NNames = 2
  NStrs = 1
  MaxData = 2
  MaxOps = 1
  MaxKids = 4
  NIt = 1
  NRg = 1
  NLs = 1
  NWk = 0
  MaxViewOps = 3
  MaxPost = 1
  BuildKinds = {"elem", "text", "frag"}
  GModes = {"all", "elem", "allRejB"}
  GListNames = {"a", "*"}
  GKinds = {"it", "rg", "ls"}
  GMut = {"struct", "text"}
  GOkOnly = FALSE
  GFreshMaxId = 3
INVARIANT TreeInv
INVARIANT ViewInv
PROPERTY GIterStable
PROPERTY GRangeMoves
PROPERTY GFailedOpUnchanged
ACTION_CONSTRAINT EmitT
VIEW GView
CHECK_DEADLOCK FALSE
