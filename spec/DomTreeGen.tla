---------------------------- MODULE DomTreeGen ----------------------------
(* Binder T for DomTree (state injection): a BUILD phase enumerates every tree that creation,
   legal appendChild and legal setAttributeNode calls can produce within the id bound; from every
   such tree every operation of the specification (legal or not) is taken once as a FINAL step,
   and one JSON line <<projection before, operation record, projection after>> is printed for it.
   The harness builds `before` through the public API, applies the operation and compares. *)
EXTENDS DomTree, Json
VARIABLE phase
GInit == Init /\ phase = "build"
BuildNext ==
    \/ \E d \in Docs, nm \in Names : CreateElement(d, nm) \/ CreateAttribute(d, nm)
    \/ \E d \in Docs, s \in Strs : CreateText(d, s) \/ CreateComment(d, s) \/ CreateCData(d, s)
    \/ \E d \in Docs : CreateFragment(d) \/ CreatePI(d, NameSeq[1], <<>>)
    \/ \E p \in Live, c \in Live : kind[p] \in ParentKinds /\ parent[c] = 0 /\ kind[c] # "frag" /\ InsErrs(p, c, 0) = {} /\ AppendChild(p, c)
    \/ \E e \in Live, a \in Live : kind[e] = "elem" /\ kind[a] = "attr" /\ ownerEl[a] = 0 /\ AttrByName(e, name[a]) = 0 /\ SetAttributeNode(e, a)
GNext == /\ phase = "build"
         /\ \/ BuildNext /\ last'.res = "ok" /\ phase' = "build" /\ nops' = nops
            \/ OpNext /\ phase' = "done" /\ nops' = nops + 1
GSpec == GInit /\ [][GNext]_<<vars, phase>>
EmitT == phase' = "done" => PrintT(ToJson(<<Proj, last', ProjNext>>))
GView == <<tree, phase>>
=============================================================================
