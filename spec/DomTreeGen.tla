---------------------------- MODULE DomTreeGen ----------------------------
(* Binder T for DomTree: one JSON line per generated transition
   <<projection before, operation record, projection after>>.  Configuration only. *)
EXTENDS DomTree, Json
EmitT == PrintT(ToJson(<<Proj, last', ProjNext>>))
=============================================================================
