SPECIFICATION Spec
CONSTANTS
  MaxObjs = 3
  BlockSizes = {16, 24}
  BytesLens = {3, 20, 28}
  Tampers = {"none", "level", "clsname"}
  ReadVariant = "sound"
  AsymClass = ""
INVARIANTS TypeOK StoreIsFn StreamWellFormed NoCorruption RoundTrip FieldSymmetry PoolsAgree LevelRejected ClassRejected PositionsAgree
CHECK_DEADLOCK FALSE
