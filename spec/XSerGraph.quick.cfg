SPECIFICATION Spec
CONSTANTS
  MaxObjs = 4
  BlockSizes = {16}
  BytesLens = {3, 28}
  Tampers = {"none", "level", "clsname"}
  ReadVariant = "sound"
  AsymClass = ""
INVARIANTS TypeOK StoreIsFn StreamWellFormed NoCorruption RoundTrip FieldSymmetry PoolsAgree LevelRejected ClassRejected PositionsAgree
CHECK_DEADLOCK FALSE
