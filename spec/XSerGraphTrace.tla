---------------------------- MODULE XSerGraphTrace ----------------------------
(* Binder V for XSerGraph (C16): the H7 event streams of a real grammar pool - S1 = serializeGrammars(A),
   L = deserializeGrammars into B, S2 = serializeGrammars(B) - recorded by harness/xser_harness (mode g).

   Every line is a record [e, d, k, n, v, p, c, pos, sz, src]:
     e    XsPrim (k = type code, sz = size, v = value folded to 31 bits, pos = absolute offset)
          XsBytes (n = length, v = hash of the bytes, pos = offset of the first byte)
          XsObj / XsCls / XsTpl  (k = 0 null | 1 back reference / known class | 2 new; n = pool id; p = address renumbered in
                                  order of first appearance within the phase; c = class name; src = line of the event that created id n)
          XsReg (registerObject on load), XsEnd (serialize() of the object returned), XsStr (writeString/readString), XsLevel
          Reset (n = block size, v = blocks written), Phase (d = phase that starts), End
     d    0 = S1, 1 = L, 2 = S2
   The store events are explained by the store side of XSerGraph: the writer block buffer (WPrim/WBytes give the offset of every
   item), the tag decisions against the store pool (null / back reference to an id that exists and was created for the same
   address / new id = count + 1 for an address never seen / class known / class new) and the tag values.
   The load events must consume EXACTLY the stream S1 built, event by event: same kind, type, size, value, offset, id, class
   (FieldSymmetry, PositionsAgree), the reader block buffer (RPrim/RBytes) must put the reader at the same offsets, and the address
   numbering must agree (an object referenced twice in A is one object referenced twice in B: Load(Store(g)) is isomorphic to g
   INCLUDING sharing).  S2 must be S1 again up to the values of XMLSize_t primitives (pool-internal ids are renumbered on load):
   Store(Load(Store(g))) = Store(g).  The state is constant-size; the trace itself is the memory (src witnesses). *)
EXTENDS XSerGraph, Json, IOUtils
Tr == ndJsonDeserialize(IOEnv.TRACE)
N == Len(Tr)

VARIABLES l,        \* next line
          ph,       \* current phase (-1 before Reset)
          cnt,      \* fObjectCount of the engine of this phase
          np,       \* distinct addresses seen in this phase
          si,       \* L / S2: line of the S1 event the next event must equal
          s1end,    \* line of the "Phase 1" marker (end of S1)
          bw, br,   \* writer / reader block buffer of XSerGraph
          classes,  \* class names that have a pool entry in this phase
          stk,      \* addresses of the objects whose serialize() is running
          pendReg,  \* L: id announced by needToLoadObject, to be registered by registerObject (0 = none)
          BS,       \* block size of this pool
          r0        \* line of the Reset record of the current pool (several pools are concatenated in one file)
tv == <<l, ph, cnt, np, si, s1end, bw, br, classes, stk, pendReg, BS, r0>>

SizeOf(t) == CASE t \in {2, 3, 4} -> 1 [] t \in {1, 5} -> 2 [] t \in {6, 7, 10} -> 4 [] OTHER -> 8
AlignOf(t) == IF t \in {12, 13, 14} THEN 1 ELSE SizeOf(t)     \* writeSize / writeInt64 / writeUInt64 copy without aligning
UINT == 7
ULONG == 9
NullTagV == 0            \* fgNullObjectTag
NewClassTagV == 1        \* 0xFFFFFFFF folded modulo 2^31 - 1
TemplateTagV == 0        \* 0xFFFFFFFE folded
ClassTagV(i) == i + 1    \* (0x80000000 | i) folded
NoDataV == 3             \* (unsigned long) -1 folded

E == Tr[l]
Prev(i) == Tr[l - i]
IsPrim(x, t) == x.e = "XsPrim" /\ x.k = t
SamePhase(x) == x.d = E.d

\* ---- the store side: every event of S1 and S2 ----------------------------------------------------------------------------
StoreStep ==
    CASE E.e = "XsPrim" ->
            LET x == WPrimA(bw, BS, E.sz, AlignOf(E.k)) IN
            /\ E.k \in 1..14 /\ E.sz = SizeOf(E.k) /\ x.off = E.pos
            /\ bw' = x.w /\ UNCHANGED <<cnt, np, classes, stk>>
      [] E.e = "XsBytes" ->
            LET x == WBytes(bw, BS, E.n) IN
            /\ E.n >= 0 /\ x.off = E.pos
            /\ bw' = x.w /\ UNCHANGED <<cnt, np, classes, stk>>
      [] E.e = "XsLevel" ->
            /\ IsPrim(Prev(1), UINT) /\ Prev(1).v = E.v /\ Prev(1).pos = 0 /\ E.k = 1
            /\ UNCHANGED <<bw, cnt, np, classes, stk>>
      [] E.e = "XsObj" /\ E.k = 0 ->                    \* write(XSerializable p): null pointer
            /\ IsPrim(Prev(1), UINT) /\ Prev(1).v = NullTagV
            /\ UNCHANGED <<bw, cnt, np, classes, stk>>
      [] E.e = "XsObj" /\ E.k = 1 ->                    \* back reference: the address is in the store pool under id n
            /\ IsPrim(Prev(1), UINT) /\ Prev(1).v = E.n
            /\ E.n \in 1..cnt /\ E.p \in 1..np
            /\ E.src \in (r0 + 1)..(l - 1) /\ Tr[E.src].e = "XsObj" /\ Tr[E.src].k = 2 /\ Tr[E.src].n = E.n /\ Tr[E.src].p = E.p /\ SamePhase(Tr[E.src])
            /\ UNCHANGED <<bw, cnt, np, classes, stk>>
      [] E.e = "XsObj" /\ E.k = 2 ->                    \* new object: its class first, then addStorePool, then serialize()
            /\ Prev(1).e = "XsCls" /\ Prev(1).c = E.c
            /\ E.n = cnt + 1 /\ E.p = np + 1
            /\ cnt' = cnt + 1 /\ np' = np + 1 /\ stk' = Append(stk, E.p) /\ UNCHANGED <<bw, classes>>
      [] E.e = "XsEnd" ->
            /\ stk # <<>> /\ stk[Len(stk)] = E.p
            /\ stk' = SubSeq(stk, 1, Len(stk) - 1) /\ UNCHANGED <<bw, cnt, np, classes>>
      [] E.e = "XsCls" /\ E.k = 1 ->                    \* write(XProtoType p): class already in the pool
            /\ IsPrim(Prev(1), UINT) /\ Prev(1).v = ClassTagV(E.n)
            /\ E.c \in classes /\ E.n \in 1..cnt
            /\ E.src \in (r0 + 1)..(l - 1) /\ Tr[E.src].e = "XsCls" /\ Tr[E.src].k = 2 /\ Tr[E.src].n = E.n /\ Tr[E.src].c = E.c /\ Tr[E.src].p = E.p /\ SamePhase(Tr[E.src])
            /\ UNCHANGED <<bw, cnt, np, classes, stk>>
      [] E.e = "XsCls" /\ E.k = 2 ->                    \* new class: tag, name length, name; then addStorePool
            /\ IsPrim(Prev(3), UINT) /\ Prev(3).v = NewClassTagV
            /\ IsPrim(Prev(2), ULONG) /\ Prev(1).e = "XsBytes" /\ Prev(1).n = Prev(2).v
            /\ E.c \notin classes /\ E.n = cnt + 1 /\ E.p = np + 1
            /\ cnt' = cnt + 1 /\ np' = np + 1 /\ classes' = classes \cup {E.c} /\ UNCHANGED <<bw, stk>>
      [] E.e = "XsTpl" /\ E.k = 0 ->
            /\ IsPrim(Prev(1), UINT) /\ Prev(1).v = NullTagV
            /\ UNCHANGED <<bw, cnt, np, classes, stk>>
      [] E.e = "XsTpl" /\ E.k = 1 ->
            /\ IsPrim(Prev(1), UINT) /\ Prev(1).v = E.n /\ E.n \in 1..cnt /\ E.p \in 1..np
            /\ E.src \in (r0 + 1)..(l - 1) /\ Tr[E.src].e = "XsTpl" /\ Tr[E.src].k = 2 /\ Tr[E.src].n = E.n /\ Tr[E.src].p = E.p /\ SamePhase(Tr[E.src])
            /\ UNCHANGED <<bw, cnt, np, classes, stk>>
      [] E.e = "XsTpl" /\ E.k = 2 ->
            /\ IsPrim(Prev(1), UINT) /\ Prev(1).v = TemplateTagV
            /\ E.n = cnt + 1 /\ E.p = np + 1
            /\ cnt' = cnt + 1 /\ np' = np + 1 /\ UNCHANGED <<bw, classes, stk>>
      [] E.e = "XsStr" /\ E.n = -1 ->
            /\ IsPrim(Prev(1), ULONG) /\ Prev(1).v = NoDataV
            /\ UNCHANGED <<bw, cnt, np, classes, stk>>
      [] E.e = "XsStr" /\ E.n >= 0 ->                   \* [buffer length] data length, the characters
            /\ Prev(1).e = "XsBytes" /\ Prev(1).n = E.n * E.k /\ IsPrim(Prev(2), ULONG) /\ Prev(2).v = E.n
            /\ UNCHANGED <<bw, cnt, np, classes, stk>>
      [] OTHER -> FALSE

\* ---- the load side ------------------------------------------------------------------------------------------------------
SameItem(a, b) == /\ a.e = b.e /\ a.k = b.k /\ a.n = b.n /\ a.v = b.v /\ a.c = b.c /\ a.pos = b.pos /\ a.sz = b.sz
S == Tr[si]
LoadStep ==
    IF E.e = "XsReg" THEN                                \* registerObject: the id announced by needToLoadObject, a fresh address
        /\ pendReg # 0 /\ E.n = pendReg /\ E.n = cnt /\ E.p = np + 1
        /\ np' = np + 1 /\ pendReg' = 0 /\ UNCHANGED <<si, cnt, br, classes, stk>>
    ELSE
        /\ si < s1end
        /\ (pendReg = 0 \/ E.e = "XsPrim")           \* between needToLoadObject and registerObject only primitives (e.g. the hash modulus) are read
        /\ SameItem(E, S)                                \* the load consumes exactly what the store produced
        /\ si' = si + 1
        /\ CASE E.e = "XsPrim" -> LET x == RPrimA(br, BS, E.sz, AlignOf(E.k)) IN x.off = E.pos /\ br' = x.r /\ UNCHANGED <<cnt, np, classes, stk, pendReg>>
             [] E.e = "XsBytes" -> LET x == RBytes(br, BS, E.n) IN x.off = E.pos /\ br' = x.r /\ UNCHANGED <<cnt, np, classes, stk, pendReg>>
             [] E.e = "XsObj" /\ E.k = 2 ->              \* created from the prototype of the class the stream names
                    /\ E.p = S.p /\ E.p = np + 1 /\ E.n = cnt + 1
                    /\ cnt' = cnt + 1 /\ np' = np + 1 /\ stk' = Append(stk, E.p) /\ UNCHANGED <<br, classes, pendReg>>
             [] E.e = "XsObj" /\ E.k = 1 ->              \* sharing: the object returned is the one registered under id n
                    /\ E.p = S.p /\ E.src > s1end /\ E.src < l /\ Tr[E.src].e = "XsObj" /\ Tr[E.src].k = 2 /\ Tr[E.src].n = E.n /\ Tr[E.src].p = E.p
                    /\ UNCHANGED <<br, cnt, np, classes, stk, pendReg>>
             [] E.e = "XsEnd" ->
                    /\ stk # <<>> /\ stk[Len(stk)] = E.p /\ E.p = S.p
                    /\ stk' = SubSeq(stk, 1, Len(stk) - 1) /\ UNCHANGED <<br, cnt, np, classes, pendReg>>
             [] E.e = "XsCls" /\ E.k = 2 ->
                    /\ E.p = S.p /\ E.p = np + 1 /\ E.n = cnt + 1 /\ E.c \notin classes
                    /\ cnt' = cnt + 1 /\ np' = np + 1 /\ classes' = classes \cup {E.c} /\ UNCHANGED <<br, stk, pendReg>>
             [] E.e = "XsCls" /\ E.k = 1 ->              \* the pool entry the index denotes is the prototype of the expected class
                    /\ E.p = S.p /\ E.c \in classes
                    /\ E.src > s1end /\ E.src < l /\ Tr[E.src].e = "XsCls" /\ Tr[E.src].k = 2 /\ Tr[E.src].n = E.n /\ Tr[E.src].c = E.c /\ Tr[E.src].p = E.p
                    /\ UNCHANGED <<br, cnt, np, classes, stk, pendReg>>
             [] E.e = "XsTpl" /\ E.k = 2 ->
                    /\ E.n = cnt + 1 /\ cnt' = cnt + 1 /\ pendReg' = E.n /\ UNCHANGED <<br, np, classes, stk>>
             [] E.e = "XsTpl" /\ E.k = 1 ->
                    /\ E.p = S.p /\ E.src > s1end /\ E.src < l /\ Tr[E.src].e = "XsTpl" /\ Tr[E.src].k = 2 /\ Tr[E.src].n = E.n
                    /\ UNCHANGED <<br, cnt, np, classes, stk, pendReg>>
             [] E.e = "XsLevel" -> E.k = 1 /\ UNCHANGED <<br, cnt, np, classes, stk, pendReg>>
             [] OTHER -> E.p = S.p /\ UNCHANGED <<br, cnt, np, classes, stk, pendReg>>

\* S2 against S1: the same stream up to the values of XMLSize_t primitives (type 12: pool-internal ids).  A hash table whose
\* buckets hold more than one entry is enumerated in the opposite bucket order after a load, so for such pools (Reset.k = 0) S2 is
\* a permutation of S1 at container level: S2 is then required to be a well-formed store stream of the same length (StoreStep), and
\* the equality of the multisets of per-object records is checked on the same file by lib/vf/checks/c16.py (_restore_equivalent).
SameStored(a, b) == /\ a.e = b.e /\ a.k = b.k /\ a.n = b.n /\ a.c = b.c /\ a.pos = b.pos /\ a.sz = b.sz /\ a.p = b.p
                    /\ (a.v = b.v \/ (a.e = "XsPrim" /\ a.k = 12))

TReset == /\ l <= N /\ E.e = "Reset"
          /\ ph' = 0 /\ cnt' = 0 /\ np' = 0 /\ si' = 0 /\ s1end' = 0 /\ bw' = [blk |-> 0, cur |-> 0] /\ br' = [blk |-> 1, cur |-> 0, max |-> E.n]
          /\ (ph \in {-1, 3})                                   \* the previous pool was validated to its End
          /\ classes' = {} /\ stk' = <<>> /\ pendReg' = 0 /\ BS' = E.n /\ r0' = l /\ l' = l + 1
TStore == /\ l <= N /\ E.e \notin {"Reset", "Phase", "End"} /\ E.d = 0 /\ ph = 0
          /\ StoreStep /\ l' = l + 1 /\ UNCHANGED <<ph, si, s1end, br, pendReg, BS, r0>>
TPhase1 == /\ l <= N /\ E.e = "Phase" /\ E.d = 1 /\ ph = 0
           /\ stk = <<>>                                          \* every serialize() returned
           /\ bw.blk + 1 = Tr[r0].v                                \* the final flush: number of blocks of the stream
           /\ ph' = 1 /\ cnt' = 0 /\ np' = 0 /\ classes' = {} /\ si' = r0 + 1 /\ s1end' = l /\ l' = l + 1
           /\ UNCHANGED <<bw, br, stk, pendReg, BS, r0>>
TLoad == /\ l <= N /\ E.e \notin {"Reset", "Phase", "End"} /\ E.d = 1 /\ ph = 1
         /\ LoadStep /\ l' = l + 1 /\ UNCHANGED <<ph, s1end, bw, BS, r0>>
TPhase2 == /\ l <= N /\ E.e = "Phase" /\ E.d = 2 /\ ph = 1
           /\ si = s1end /\ stk = <<>> /\ pendReg = 0             \* the load consumed the whole stream
           /\ ph' = 2 /\ cnt' = 0 /\ np' = 0 /\ classes' = {} /\ si' = r0 + 1 /\ bw' = [blk |-> 0, cur |-> 0] /\ l' = l + 1
           /\ UNCHANGED <<s1end, br, stk, pendReg, BS, r0>>
TRestore == /\ l <= N /\ E.e \notin {"Reset", "Phase", "End"} /\ E.d = 2 /\ ph = 2
            /\ si < s1end /\ si' = si + 1                          \* as many events as S1 (equivalence of contents: see SameStored)
            /\ (Tr[r0].k = 1 => SameStored(E, S))                  \* pools without hash collisions: the very same stream
            /\ StoreStep /\ l' = l + 1 /\ UNCHANGED <<ph, s1end, br, pendReg, BS, r0>>
TEnd == /\ l <= N /\ E.e = "End" /\ ph = 2
        /\ si = s1end /\ stk = <<>>
        /\ ph' = 3 /\ l' = l + 1 /\ UNCHANGED <<cnt, np, si, s1end, bw, br, classes, stk, pendReg, BS, r0>>

TInit == /\ Init /\ B = 16
         /\ l = 1 /\ ph = -1 /\ cnt = 0 /\ np = 0 /\ si = 0 /\ s1end = 0 /\ bw = [blk |-> 0, cur |-> 0] /\ br = [blk |-> 1, cur |-> 0, max |-> 0]
         /\ classes = {} /\ stk = <<>> /\ pendReg = 0 /\ BS = 0 /\ r0 = 0
TNext == (TReset \/ TStore \/ TPhase1 \/ TLoad \/ TPhase2 \/ TRestore \/ TEnd) /\ UNCHANGED vars
TSpec == TInit /\ [][TNext]_<<vars, tv>>

\* invariants on every state the implementation visited
TPools == /\ cnt >= 0 /\ np <= cnt + 1 + Cardinality(classes)
          /\ (ph = 1 => si <= s1end)
Accepted == /\ PrintT(<<"TRACE-RESULT", TLCGet("stats").diameter - 1, N>>)
            /\ TLCGet("stats").diameter - 1 = N
=============================================================================
