------------------------------ MODULE MemLedgerWalk ------------------------------
(* Generator of life-cycle histories for binder W+V of MemLedger: the API-level steps of the specification's behaviours
   (Initialize with / without a user manager, nested; Create per parser class and manager; calls = document x handler
   exception at callback k x parse / progressive left open after k steps / progressive to the end; adoptDocument;
   Destroy in any order; Terminate).  The allocation steps are left to the implementation: the harness executes the
   history and records them.  Initialize and Terminate return in the step after the call; every behaviour is closed
   (all objects destroyed, every Initialize matched) before it is printed. *)
EXTENDS MemLedger, Json, Sequences
VARIABLE hist
core == <<outstanding, owner, mgrOf, objs, objMgr, cmode, call, prog, initCount, globalMgr, mgrAdopted, userDeleted, phase, last>>
FreeBlock == CHOOSE b \in Blocks : Free(b)
OpOf(x) == CASE x[1] = "InitCall" -> <<"init", IF x[2] THEN 1 ELSE 0>>
             [] x[1] = "TermCall" -> <<"term">>
             [] x[1] = "Create" -> <<"create", x[2], x[3], x[4]>>
             [] x[1] = "BeginCall" -> <<"call", x[2], x[3], x[4], x[5]>>
             [] x[1] = "Adopt" -> <<"adopt", x[2], x[3]>>
             [] x[1] = "Destroy" -> <<"destroy", x[2]>>
             [] OTHER -> <<>>
Closing == nops >= MaxOps - 2 * Cardinality(Objs) - 2 * initCount - 2        \* time to wind the behaviour down
Step == \/ phase = "init" /\ InitRet
        \/ phase = "term" /\ TermRet
        \/ call # 0 /\ \E h \in {"ok", "left-open"} : EndCall(h)
        \/ /\ phase = "idle" /\ call = 0
           /\ IF Closing
              THEN IF Live # {} THEN Destroy(CHOOSE o \in Live : TRUE) ELSE IF initCount > 0 THEN TermCall ELSE UNCHANGED core
              ELSE \/ \E u \in BOOLEAN : initCount < 2 /\ InitCall(u)
                   \/ TermCall
                   \/ \E o \in Objs, m \in PMgrs, api \in Apis : (\E b \in Blocks : Free(b)) /\ Create(o, m, FreeBlock, api)
                   \/ \E o \in Objs, d \in Docs, k \in 0..MaxK, mode \in Modes : BeginCall(o, d, k, mode)
                   \/ \E o, d \in Objs : Adopt(o, d, OwnedBy(<<"obj", o>>))
                   \/ \E o \in Objs : Destroy(o)
WInit == Init /\ hist = <<>>
WNext == \/ /\ nops < MaxOps /\ nops' = nops + 1 /\ Step
            /\ hist' = IF OpOf(last') = <<>> \/ last' = last THEN hist ELSE Append(hist, OpOf(last'))
         \/ /\ nops = MaxOps /\ nops' = MaxOps + 1 /\ UNCHANGED <<core, hist>>
WSpec == WInit /\ [][WNext]_<<vars, hist>>
EmitW == (nops = MaxOps + 1) => PrintT(ToJson(hist))
Closed == (nops = MaxOps + 1) => (Live = {} /\ initCount = 0 /\ outstanding = [m \in Mgrs |-> {}])
=============================================================================
