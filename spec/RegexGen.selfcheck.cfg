SPECIFICATION GSpec
CONSTANTS
  AlphaSeq <- Alpha3
  MaxLen = 3
  Uni = "chk"
  OptRuns <- OptRunsStd
INVARIANT GenIsLanguage
CHECK_DEADLOCK FALSE
