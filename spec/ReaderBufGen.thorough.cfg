SPECIFICATION Spec
CONSTANTS
  MaxOff = 8
  Bounds = {"c16", "b48", "m48", "m16"}
  HazardNames = {"mb2", "mb3", "mb4", "mbrun", "crlf", "crcr", "name", "namesp", "comment", "cdata", "charref", "etag", "pi", "attrmb", "badcdend", "badetag", "badbyte", "badcont", "trunc"}
  Parts <- PartsThorough
  FileReads <- FileReadsDef
  DeclNames = {"decl-utf8", "decl-latin1", "decl-ascii", "decl-sjis", "decl-long", "bom-utf8", "nodecl-mb"}
CONSTRAINT Emit
INVARIANT Placed
CHECK_DEADLOCK FALSE
