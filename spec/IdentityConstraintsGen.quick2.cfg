SPECIFICATION GSpec
CONSTANTS
  Fams = {"F1", "F4"}
  LenCap = 4
  Cases = {}
INVARIANT EmitCase
CHECK_DEADLOCK FALSE
