------------------------------- MODULE Regex -------------------------------
(* Property C11: "regular expressions match exactly the language their syntax defines".

   Regular expressions of the XML Schema (Part 2, appendix F) syntax as uniform tuples
       <<op, a, l, r, min, max>>      (a: sequence of 1-char strings; l, r: sub-expression or <<>>)
   with THREE definitions of their meaning that TLC proves equal on the bound:

     (1) DECLARATIVE  InLang(r, s)      denotational language membership (by splitting the string),
     (2) OPERATIONAL  D(r, c), Nullable Brzozowski derivatives: state = residual expression, action Feed(c),
     (3) OPERATIONAL  Ends(r, s, i)     priority-ordered backtracking matcher (greedy, leftmost alternative first):
                                        defines WHERE an unanchored search matches (matches with a Match object,
                                        tokenize, replace).

   Schema mode (option "X") is implicitly anchored: the verdict is membership of the whole string (window).
   Without "X" (XPath flavour) matches() searches: true iff SOME substring is in the language; the reported
   position is the leftmost start; the end is one of the ends valid for that start (the recommendation's
   alternative-priority rule is def. (3); the property only requires consistency, so the binding uses the SET).

   The alphabet is a model alphabet; the facts about its characters (code point order, membership in
   \s \d \w \i \c, '.' vs line ends) are tabulated below from XML Schema Part 2 appendix F.1 / XML 1.0. *)
EXTENDS Integers, Sequences, FiniteSets, TLC

CONSTANTS AlphaSeq,   \* the model alphabet, a sequence of 1-character strings
          MaxLen,     \* bound on string length
          Uni         \* name of the expression universe (see Universe)

Alpha == {AlphaSeq[i] : i \in 1..Len(AlphaSeq)}
\* alphabets for the configurations (cfg: AlphaSeq <- Alpha3 ...); always in increasing code-point order
Alpha2 == <<"a", "b">>
Alpha3 == <<" ", "a", "b">>
Alpha3n == <<"\n", "a", "b">>
Alpha4 == <<" ", "-", "a", "b">>
Alpha4c == <<"-", "1", "a", "b">>
Alpha6 == <<"\t", " ", "-", "1", "a", "b">>
Alpha7 == <<"\t", " ", "-", "1", "=", "a", "b">>
INF == 99
Nil == <<>>

----------------------------------------------------------------------------
(* facts about the model characters *)
Ord(c) == CASE c = "\t" -> 9 [] c = "\n" -> 10 [] c = " " -> 32 [] c = "-" -> 45 [] c = "1" -> 49
            [] c = ":" -> 58 [] c = "=" -> 61 [] c = "A" -> 65 [] c = "_" -> 95 [] c = "a" -> 97 [] c = "b" -> 98
IsS(c) == c \in {"\t", "\n", " "}                       \* \s  = [#x20\t\n\r]
IsD(c) == c \in {"1"}                                   \* \d  = \p{Nd}
IsW(c) == c \in {"1", "=", "A", "a", "b"}               \* \w  = all but \p{P} \p{Z} \p{C}  ('-' Pd, ':' Po, '_' Pc, ' ' Zs, TAB LF Cc; '=' Sm is a word char)
IsI(c) == c \in {":", "A", "_", "a", "b"}               \* \i  = Letter | '_' | ':'
IsC(c) == c \in {"-", "1", ":", "A", "_", "a", "b"}     \* \c  = NameChar
IsDot(c) == c \notin {"\n"}                             \* '.' = [^\n\r]
EscHas(x, c) == CASE x = "s" -> IsS(c) [] x = "S" -> ~IsS(c) [] x = "d" -> IsD(c) [] x = "D" -> ~IsD(c)
                  [] x = "w" -> IsW(c) [] x = "W" -> ~IsW(c) [] x = "i" -> IsI(c) [] x = "I" -> ~IsI(c)
                  [] x = "c" -> IsC(c) [] x = "C" -> ~IsC(c)
EscLetters == {"s", "S", "d", "D", "w", "W", "i", "I", "c", "C"}

----------------------------------------------------------------------------
(* abstract syntax *)
Lit(c)    == <<"lit", <<c>>, Nil, Nil, 0, 0>>           \* the character itself
ELit(c)   == <<"elit", <<c>>, Nil, Nil, 0, 0>>          \* single-character escape  \-  \t  \n
Dot       == <<"any", <<>>, Nil, Nil, 0, 0>>            \* .
Esc(x)    == <<"esc", <<x>>, Nil, Nil, 0, 0>>           \* multi-character escape \s \S \d ...
\* character class: items = flattened pairs lo,hi (hi = "" : lo is an escape letter), neg = 1 for [^...], sub = subtracted class or Nil
Cls(items, neg, sub) == <<"cls", items, sub, Nil, neg, 0>>
Eps       == <<"eps", <<>>, Nil, Nil, 0, 0>>            \* ()   (also the residual "matched")
Empty     == <<"empty", <<>>, Nil, Nil, 0, 0>>          \* residual "dead"
Cat(a, b) == <<"cat", <<>>, a, b, 0, 0>>
Alt(a, b) == <<"alt", <<>>, a, b, 0, 0>>
\* quantifier: form is the surface syntax "?", "*", "+", "n" ({min}), "n," ({min,}), "n,m" ({min,max}); max = INF: unbounded
Rep(a, form, mn, mx) == <<"rep", <<form>>, a, Nil, mn, mx>>
Bad(kind, a) == <<"bad", <<kind>>, a, Nil, 0, 0>>       \* surface text that is not in the grammar (see Render)

AtomOps == {"lit", "elit", "any", "esc", "cls"}
IsAtom(r) == r[1] \in AtomOps

RECURSIVE InCls(_, _)
InCls(n, c) ==
  LET items == n[2]
      pos == \E k \in 1..(Len(items) \div 2) :
                LET lo == items[2 * k - 1]
                    hi == items[2 * k]
                IN IF hi = "" THEN EscHas(lo, c) ELSE Ord(lo) <= Ord(c) /\ Ord(c) <= Ord(hi)
      base == IF n[5] = 1 THEN ~pos ELSE pos
  IN base /\ (n[3] = Nil \/ ~InCls(n[3], c))           \* [G-[S]] : G minus S; negation applies to G only

AtomHas(r, c) == CASE r[1] \in {"lit", "elit"} -> r[2][1] = c
                   [] r[1] = "any" -> IsDot(c)
                   [] r[1] = "esc" -> EscHas(r[2][1], c)
                   [] r[1] = "cls" -> InCls(r, c)

\* syntactic well-formedness (XML Schema Part 2 appendix F): ranges s-e need s <= e, {n,m} needs n <= m, "bad" is no production
RECURSIVE WellFormed(_)
WellFormed(r) ==
  CASE r = Nil -> TRUE
    [] r[1] = "bad" -> FALSE
    [] r[1] = "cls" -> /\ Len(r[2]) >= 2
                       /\ \A k \in 1..(Len(r[2]) \div 2) : r[2][2 * k] = "" \/ Ord(r[2][2 * k - 1]) <= Ord(r[2][2 * k])
                       /\ WellFormed(r[3])
    [] r[1] = "rep" -> r[5] <= r[6] /\ WellFormed(r[3])
    [] r[1] \in {"cat", "alt"} -> WellFormed(r[3]) /\ WellFormed(r[4])
    [] OTHER -> TRUE

----------------------------------------------------------------------------
(* (1) declarative layer: the language of an expression *)
Dec(n) == IF n = 0 THEN 0 ELSE n - 1
DecM(m) == IF m = INF THEN INF ELSE m - 1
RECURSIVE InLang(_, _), InRep(_, _, _, _)
InLang(r, s) ==
  CASE IsAtom(r) -> Len(s) = 1 /\ AtomHas(r, s[1])
    [] r[1] = "eps" -> s = <<>>
    [] r[1] = "empty" -> FALSE
    [] r[1] = "cat" -> \E k \in 0..Len(s) : InLang(r[3], SubSeq(s, 1, k)) /\ InLang(r[4], SubSeq(s, k + 1, Len(s)))
    [] r[1] = "alt" -> InLang(r[3], s) \/ InLang(r[4], s)
    [] r[1] = "rep" -> InRep(r[3], r[5], r[6], s)
\* s is the concatenation of k strings of L(l), mn <= k <= mx
InRep(l, mn, mx, s) ==
  IF s = <<>> THEN mn = 0 \/ InLang(l, <<>>)
  ELSE mx > 0 /\ \E k \in 1..Len(s) : InLang(l, SubSeq(s, 1, k)) /\ InRep(l, Dec(mn), DecM(mx), SubSeq(s, k + 1, Len(s)))

\* declarative search semantics
ValidEnds(r, s, p) == {q \in p..Len(s) : InLang(r, SubSeq(s, p + 1, q))}
Starts(r, s, from) == {p \in from..Len(s) : ValidEnds(r, s, p) # {}}
MinOf(S) == CHOOSE x \in S : \A y \in S : x <= y
Leftmost(r, s, from) == IF Starts(r, s, from) = {} THEN -1 ELSE MinOf(Starts(r, s, from))
SubstringInLang(r, s) == \E p \in 0..Len(s) : ValidEnds(r, s, p) # {}
\* every way of cutting s by successive non-overlapping matches, each starting leftmost (the language must not contain the empty string)
RECURSIVE MatchSeqs(_, _, _)
MatchSeqs(r, s, from) ==
  LET p == Leftmost(r, s, from)
  IN IF p < 0 THEN {<<>>} ELSE UNION {{<<<<p, q>>>> \o t : t \in MatchSeqs(r, s, q)} : q \in ValidEnds(r, s, p) \ {p}}

----------------------------------------------------------------------------
(* (2) operational layer: derivatives *)
RECURSIVE Nullable(_)
Nullable(r) == CASE IsAtom(r) -> FALSE
                 [] r[1] = "eps" -> TRUE
                 [] r[1] = "empty" -> FALSE
                 [] r[1] = "cat" -> Nullable(r[3]) /\ Nullable(r[4])
                 [] r[1] = "alt" -> Nullable(r[3]) \/ Nullable(r[4])
                 [] r[1] = "rep" -> r[5] = 0 \/ Nullable(r[3])
MkCat(a, b) == IF a = Empty \/ b = Empty THEN Empty ELSE IF a = Eps THEN b ELSE IF b = Eps THEN a ELSE Cat(a, b)
MkAlt(a, b) == IF a = Empty THEN b ELSE IF b = Empty THEN a ELSE IF a = b THEN a ELSE Alt(a, b)
MkRep(a, mn, mx) == IF mx = 0 THEN Eps ELSE Rep(a, "r", mn, mx)
RECURSIVE D(_, _)
D(r, c) == CASE IsAtom(r) -> IF AtomHas(r, c) THEN Eps ELSE Empty
             [] r[1] = "eps" -> Empty
             [] r[1] = "empty" -> Empty
             [] r[1] = "cat" -> IF Nullable(r[3]) THEN MkAlt(MkCat(D(r[3], c), r[4]), D(r[4], c)) ELSE MkCat(D(r[3], c), r[4])
             [] r[1] = "alt" -> MkAlt(D(r[3], c), D(r[4], c))
             [] r[1] = "rep" -> IF r[6] = 0 THEN Empty ELSE MkCat(D(r[3], c), MkRep(r[3], Dec(r[5]), DecM(r[6])))
RECURSIVE DerivStr(_, _)
DerivStr(r, s) == IF s = <<>> THEN r ELSE DerivStr(D(r, Head(s)), Tail(s))

----------------------------------------------------------------------------
(* (3) operational layer: backtracking matcher. Ends(r, s, i) = the offsets where a match of r starting at offset i
   can end, in the order a greedy leftmost-alternative-first backtracking matcher finds them. *)
RECURSIVE DedupFrom(_, _)
DedupFrom(seen, q) == IF q = <<>> THEN <<>>
                      ELSE IF Head(q) \in seen THEN DedupFrom(seen, Tail(q))
                      ELSE <<Head(q)>> \o DedupFrom(seen \cup {Head(q)}, Tail(q))
Dedup(q) == DedupFrom({}, q)
SeqRange(q) == {q[k] : k \in 1..Len(q)}
RECURSIVE Ends(_, _, _), CatEnds(_, _, _), RepEnds(_, _, _, _, _), RepMore(_, _, _, _, _, _)
Ends(r, s, i) ==
  CASE IsAtom(r) -> IF i < Len(s) /\ AtomHas(r, s[i + 1]) THEN <<i + 1>> ELSE <<>>
    [] r[1] = "eps" -> <<i>>
    [] r[1] = "empty" -> <<>>
    [] r[1] = "cat" -> Dedup(CatEnds(Ends(r[3], s, i), r[4], s))
    [] r[1] = "alt" -> Dedup(Ends(r[3], s, i) \o Ends(r[4], s, i))
    [] r[1] = "rep" -> RepEnds(r[3], r[5], r[6], s, i)
CatEnds(js, r, s) == IF js = <<>> THEN <<>> ELSE Ends(r, s, Head(js)) \o CatEnds(Tail(js), r, s)
RepEnds(l, mn, mx, s, i) ==
  IF mx = 0 THEN <<i>>
  ELSE LET f == Ends(l, s, i)
           stop == IF mn = 0 \/ (\E k \in 1..Len(f) : f[k] = i) THEN <<i>> ELSE <<>>   \* an empty iteration satisfies every remaining minimum
       IN Dedup(RepMore(f, l, mn, mx, s, i) \o stop)
RepMore(f, l, mn, mx, s, i) ==
  IF f = <<>> THEN <<>>
  ELSE (IF Head(f) > i THEN RepEnds(l, Dec(mn), DecM(mx), s, Head(f)) ELSE <<>>) \o RepMore(Tail(f), l, mn, mx, s, i)

\* classification of disagreements only: the match the matcher finds FIRST from offset 0 is the whole string
GreedyWhole(r, s) == LET e == Ends(r, s, 0) IN IF e # <<>> /\ Head(e) = Len(s) THEN 1 ELSE 0
NoPos == <<>>
RECURSIVE FirstFrom(_, _, _)
FirstFrom(r, s, p) == IF p > Len(s) THEN NoPos
                      ELSE LET e == Ends(r, s, p) IN IF e # <<>> THEN <<p, Head(e)>> ELSE FirstFrom(r, s, p + 1)
\* successive matches as tokenize/replace take them (the language must not contain the empty string)
RECURSIVE PriSeq(_, _, _)
PriSeq(r, s, from) == LET m == FirstFrom(r, s, from) IN IF m = NoPos THEN <<>> ELSE <<m>> \o PriSeq(r, s, m[2])
\* every way tokenize/replace may cut s when the end of each match is any end the matcher can reach (operational counterpart of MatchSeqs)
RECURSIVE OpSeqs(_, _, _)
OpSeqs(r, s, from) ==
  LET m == FirstFrom(r, s, from)
  IN IF m = NoPos THEN {<<>>} ELSE UNION {{<<<<m[1], q>>>> \o t : t \in OpSeqs(r, s, q)} : q \in SeqRange(Ends(r, s, m[1])) \ {m[1]}}
RECURSIVE TokensOf(_, _, _)
TokensOf(s, ms, from) == IF ms = <<>> THEN <<SubSeq(s, from + 1, Len(s))>>
                         ELSE <<SubSeq(s, from + 1, Head(ms)[1])>> \o TokensOf(s, Tail(ms), Head(ms)[2])
\* replacement pattern  L $0 R
RECURSIVE ReplacedOf(_, _, _, _, _)
ReplacedOf(s, ms, from, L, R) ==
  IF ms = <<>> THEN SubSeq(s, from + 1, Len(s))
  ELSE SubSeq(s, from + 1, Head(ms)[1]) \o L \o SubSeq(s, Head(ms)[1] + 1, Head(ms)[2]) \o R \o ReplacedOf(s, Tail(ms), Head(ms)[2], L, R)
RepL == <<"<">>
RepR == <<">">>

----------------------------------------------------------------------------
(* rendering to the surface syntax (sequence of text pieces; the harness concatenates them) *)
ClsChar(c) == IF c = "-" THEN "\\-" ELSE IF c = "\t" THEN "\\t" ELSE IF c = "\n" THEN "\\n" ELSE c
ELitText(c) == IF c = "-" THEN "\\-" ELSE IF c = "\t" THEN "\\t" ELSE IF c = "\n" THEN "\\n" ELSE "\\" \o c
RECURSIVE ItemsText(_, _)
ItemsText(items, k) ==
  IF 2 * k > Len(items) THEN ""
  ELSE LET lo == items[2 * k - 1]
           hi == items[2 * k]
       IN (IF hi = "" THEN "\\" \o lo ELSE IF lo = hi THEN ClsChar(lo) ELSE ClsChar(lo) \o "-" \o ClsChar(hi)) \o ItemsText(items, k + 1)
RECURSIVE ClsText(_)
ClsText(n) == "[" \o (IF n[5] = 1 THEN "^" ELSE "") \o ItemsText(n[2], 1) \o (IF n[3] = Nil THEN "" ELSE "-" \o ClsText(n[3])) \o "]"
QuantText(r) == LET f == r[2][1]
                IN CASE f \in {"?", "*", "+"} -> f
                     [] f = "n" -> "{" \o ToString(r[5]) \o "}"
                     [] f = "n," -> "{" \o ToString(r[5]) \o ",}"
                     [] f = "n,m" -> "{" \o ToString(r[5]) \o "," \o ToString(r[6]) \o "}"
RECURSIVE Text(_)
Paren(r) == "(" \o Text(r) \o ")"
Text(r) ==
  CASE r[1] = "lit" -> r[2][1]
    [] r[1] = "elit" -> ELitText(r[2][1])
    [] r[1] = "any" -> "."
    [] r[1] = "esc" -> "\\" \o r[2][1]
    [] r[1] = "cls" -> ClsText(r)
    [] r[1] = "eps" -> "()"
    [] r[1] = "cat" -> (IF r[3][1] = "alt" THEN Paren(r[3]) ELSE Text(r[3])) \o (IF r[4][1] = "alt" THEN Paren(r[4]) ELSE Text(r[4]))
    [] r[1] = "alt" -> Text(r[3]) \o "|" \o Text(r[4])
    [] r[1] = "rep" -> (IF IsAtom(r[3]) \/ r[3][1] = "eps" THEN Text(r[3]) ELSE Paren(r[3])) \o QuantText(r)
    [] r[1] = "bad" -> LET k == r[2][1]
                           t == Text(r[3])
                       IN CASE k = "rparen" -> t \o ")"            \* unmatched )
                            [] k = "lparen" -> "(" \o t            \* unclosed group
                            [] k = "star0" -> "*" \o t             \* quantifier without atom
                            [] k = "dblq" -> t \o "**"             \* quantifier applied to a quantifier
                            [] k = "badesc" -> t \o "\\q"          \* unknown escape
                            [] k = "trail" -> t \o "\\"            \* lone backslash at the end
                            [] k = "lbrace" -> t \o "{"            \* '{' is not a normal character
                            [] k = "nobrace" -> t \o "{1"          \* unclosed quantity
                            [] k = "opencls" -> t \o "[a"          \* unclosed class
                            [] k = "emptycls" -> t \o "[]"         \* empty class
                            [] k = "rbrack" -> t \o "]"            \* ']' is not a normal character
                            [] k = "badcat" -> t \o "\\p{Foo}"     \* unknown category
                            [] k = "opensub" -> t \o "[a-b-[a]"    \* unclosed subtraction
BadKinds == {"rparen", "lparen", "star0", "dblq", "badesc", "trail", "lbrace", "nobrace", "opencls", "emptycls", "rbrack", "badcat", "opensub"}
\* a short shape signature used to classify disagreements
RECURSIVE Sig(_, _)
Sig(r, d) == IF r = Nil THEN "" ELSE
             IF r[1] \in {"cat", "alt"} THEN (IF d = 0 THEN r[1] ELSE r[1] \o "(" \o Sig(r[3], d - 1) \o "," \o Sig(r[4], d - 1) \o ")")
             ELSE IF r[1] = "rep" THEN (IF d = 0 THEN "rep" ELSE "rep" \o r[2][1] \o "(" \o Sig(r[3], d - 1) \o ")")
             ELSE IF r[1] = "bad" THEN "bad:" \o r[2][1]
             ELSE r[1]

\* classification of disagreements only: shapes for which known findings are recorded
Shape(r) ==
  IF r[1] = "cat" /\ r[3][1] = "rep" /\ r[4][1] = "cls"
  THEN (IF r[3][6] = INF /\ r[3][3][1] = "cls" /\ r[3][3][5] = 0 /\ r[4][5] = 1 THEN "unbounded-class-closure.negated-class" ELSE "")
  ELSE IF r[1] = "cls" /\ Len(r[2]) = 4 /\ r[3] = Nil
  THEN (IF r[2][2] # "" /\ r[2][4] # "" /\ Ord(r[2][1]) <= Ord(r[2][3]) /\ Ord(r[2][3]) <= Ord(r[2][2]) /\ Ord(r[2][4]) > Ord(r[2][2])
        THEN "class-second-range-starts-inside-first-and-extends-it" ELSE "")
  ELSE ""

----------------------------------------------------------------------------
(* options: letters the API defines *)
OptLetters == {"i", "m", "s", "x", "F", "H", "X"}
OptOK(o) == \A k \in 1..Len(o) : o[k] \in OptLetters
IsX(o) == \E k \in 1..Len(o) : o[k] = "X"

----------------------------------------------------------------------------
(* expression universes. A universe is a union of small GROUPS <<kind, expression, name of a partner set>>
   (the generator takes a group in its first step and a member in its second, so that TLC's workers share the work) *)
Lits == {Lit(c) : c \in Alpha}
ELits == {ELit(c) : c \in Alpha \cap {"-", "\t", "\n"}}
Escs == {Esc(x) : x \in EscLetters}
\* character-class building blocks over the alphabet TAB < ' ' < '-' < '1' < 'a' < 'b'
ItemLists == {<<"a", "a", "b", "b">>, <<"a", "b">>, <<"a", "a">>, <<" ", "1">>, <<"s", "", "-", "-">>, <<"d", "">>, <<"w", "">>,
              <<"1", "1", "a", "b">>, <<"\t", "1">>, <<"-", "a">>, <<"I", "", "1", "1">>, <<"c", "", " ", " ">>}
SubLists == {<<"a", "a">>, <<" ", "-">>, <<"S", "">>, <<"1", "b">>}
ClsPlain == {Cls(it, ng, Nil) : it \in ItemLists, ng \in {0, 1}}
ClsSub1 == {Cls(it, ng, Cls(sb, 0, Nil)) : it \in ItemLists, ng \in {0, 1}, sb \in SubLists \ {<<"1", "b">>}}
           \cup {Cls(<<"a", "b">>, 0, Cls(<<"a", "b">>, 0, Cls(<<"a", "a">>, 0, Nil)))}              \* nested subtraction [a-b-[a-b-[a]]]
ClsSub2 == {Cls(it, ng, Cls(sb, sng, Nil)) : it \in ItemLists, ng \in {0, 1}, sb \in SubLists, sng \in {0, 1}}
BadCls == {Cls(<<"b", "a">>, 0, Nil), Cls(<<"a", "b">>, 0, Cls(<<"1", " ">>, 0, Nil)), Cls(<<"a", "a", "1", "-">>, 1, Nil)}   \* reversed ranges
RepFormsFull == {<<"?", 0, 1>>, <<"*", 0, INF>>, <<"+", 1, INF>>, <<"n", 0, 0>>, <<"n", 1, 1>>, <<"n", 2, 2>>, <<"n", 3, 3>>,
                 <<"n,", 0, INF>>, <<"n,", 1, INF>>, <<"n,", 2, INF>>, <<"n,m", 0, 1>>, <<"n,m", 0, 2>>, <<"n,m", 1, 2>>,
                 <<"n,m", 2, 3>>, <<"n,m", 1, 3>>, <<"n,m", 0, 0>>, <<"n,m", 2, 2>>}
RepFormsSmall == {<<"?", 0, 1>>, <<"*", 0, INF>>, <<"+", 1, INF>>, <<"n", 2, 2>>, <<"n,", 2, INF>>, <<"n,m", 1, 2>>}
RepForms3 == {<<"*", 0, INF>>, <<"n,m", 1, 2>>, <<"n,", 2, INF>>}
RepForms2 == {<<"?", 0, 1>>, <<"*", 0, INF>>}
RepFormsChk == RepFormsSmall \cup {<<"n", 0, 0>>}
BadReps == {<<"n,m", 2, 1>>, <<"n,m", 1, 0>>}
Reps(P, F) == {Rep(a, f[1], f[2], f[3]) : a \in P, f \in F}
Cats(P, Q) == {Cat(a, b) : a \in P, b \in Q}
Alts(P, Q) == {Alt(a, b) : a \in P, b \in Q}
Depth1(A, F) == A \cup Reps(A, F) \cup Cats(A, A) \cup Alts(A, A)

L1 == Lit(AlphaSeq[1])
L2 == Lit(AlphaSeq[2])
AtomsQ == Lits \cup ELits \cup {Dot, Eps} \cup Escs \cup ClsPlain \cup ClsSub1
AtomsAll == AtomsQ \cup ClsSub2
AtomsMid == Lits \cup {Dot, Esc("s"), Esc("W"), Cls(<<"a", "b">>, 1, Nil), Cls(<<" ", "1">>, 0, Cls(<<"-", "-">>, 0, Nil)), Eps}
AtomsSmall == {L1, L2, Dot, Cls(<<AlphaSeq[1], AlphaSeq[1]>>, 1, Nil)}
AtomsTiny == {L1, L2, Dot}
Atoms2 == {L2, Dot}
P1Small == Depth1(AtomsSmall, RepFormsSmall)
P1Two == Depth1(Atoms2, {<<"*", 0, INF>>, <<"n,m", 1, 2>>})
Pairs == Cats(AtomsTiny, AtomsTiny) \cup Alts(AtomsTiny, AtomsTiny)
AtomsChk == {L1, L2, Dot, Eps, Esc("s"), Cls(<<AlphaSeq[1], AlphaSeq[2]>>, 1, Nil),
             Cls(<<AlphaSeq[1], AlphaSeq[3]>>, 0, Cls(<<AlphaSeq[2], AlphaSeq[2]>>, 0, Nil))}
Atoms4 == {L1, L2, Dot, Eps}
P1Chk == Depth1(AtomsChk, RepFormsChk)
BadTops == {Bad(k, a) : k \in BadKinds, a \in {L1, Rep(L1, "*", 0, INF), Alt(L1, L2)}}

\* family C: every range class [x-y] / [^x-y] over the alphabet under an unbounded quantifier, followed by every such class
\* (disjoint, shared end point, proper overlap, containment: the closure must give characters back), and classes of two ranges
\* in either order (overlapping, adjacent, nested, unsorted)
RangesOf == {<<AlphaSeq[p[1]], AlphaSeq[p[2]]>> : p \in {q \in (1..Len(AlphaSeq)) \X (1..Len(AlphaSeq)) : q[1] <= q[2]}}
RangeCls == {Cls(rg, ng, Nil) : rg \in RangesOf, ng \in {0, 1}}
TwoRangeCls == {Cls(r1 \o r2, ng, Nil) : r1 \in RangesOf, r2 \in RangesOf, ng \in {0, 1}}
RepFormsC == {<<"*", 0, INF>>, <<"+", 1, INF>>, <<"n,", 1, INF>>}
\* family D: a group holding a literal of 2-3 characters under a quantifier with minimum 0 or 1, between / before / after
\* single-character literals (fixed-string pre-filter: a literal inside an optional group is not a required substring)
Lits2 == {L1, L2}
LitStrs == {Cat(a, b) : a \in Lits2, b \in Lits2} \cup {Cat(a, Cat(b, c)) : a \in Lits2, b \in Lits2, c \in Lits2}
RepFormsD == {<<"n,m", 0, 1>>, <<"n,m", 0, 2>>, <<"n,", 0, INF>>, <<"n,m", 1, 2>>, <<"?", 0, 1>>, <<"*", 0, INF>>}
Named(n) == CASE n = "AtomsQ" -> AtomsQ [] n = "RangeCls" -> RangeCls
              [] n = "QLit" -> Reps(LitStrs, RepFormsD) [] n = "QLitPost" -> Cats(Reps(LitStrs, RepFormsD), Lits2) [] n = "AtomsAll" -> AtomsAll [] n = "AtomsMid" -> AtomsMid [] n = "AtomsSmall" -> AtomsSmall
              [] n = "AtomsTiny" -> AtomsTiny [] n = "AtomsChk" -> AtomsChk [] n = "Atoms4" -> Atoms4 [] n = "BadCls" -> BadCls
              [] n = "P1Small" -> P1Small [] n = "P1Two" -> P1Two [] n = "P1Chk" -> P1Chk [] n = "Pairs" -> Pairs
              [] n = "QTiny" -> Reps(AtomsTiny, RepFormsSmall) [] n = "QTiny3" -> Reps(AtomsTiny, RepForms3)
              [] n = "QPairs" -> Reps(Pairs, RepFormsSmall) [] n = "QPairs2" -> Reps(Pairs, RepForms2)
              [] n = "QPairs3" -> Reps(Pairs, RepForms3)
              [] n = "QQ" -> Cats(Reps(AtomsTiny, RepForms3), Reps(AtomsTiny, RepForms3))
              [] n = "PairsQ" -> Pairs \cup Reps(AtomsTiny, RepFormsSmall)
              [] n = "CatPairs" -> Cats(AtomsTiny, AtomsTiny)
G(kind, e, n) == <<kind, e, n>>
Ones(S) == {G("one", e, "") : e \in S}
CatL(S, n) == {G("cat", e, n) : e \in S}          \* e . x   for x in Named(n)
CatR(S, n) == {G("tac", e, n) : e \in S}          \* x . e
AltL(S, n) == {G("alt", e, n) : e \in S}          \* e | x
RepG(F, n) == {G("rep", Rep(Eps, f[1], f[2], f[3]), n) : f \in F}     \* x{f}
Members(g) == CASE g[1] = "one" -> {g[2]}
                [] g[1] = "cat" -> {Cat(g[2], x) : x \in Named(g[3])}
                [] g[1] = "tac" -> {Cat(x, g[2]) : x \in Named(g[3])}
                [] g[1] = "alt" -> {Alt(g[2], x) : x \in Named(g[3])}
                [] g[1] = "rep" -> {Rep(x, g[2][2][1], g[2][5], g[2][6]) : x \in Named(g[3])}
                [] OTHER -> {}

\* family A: atoms, classes, escapes, every quantifier form, malformed texts            (alphabet Alpha6 / Alpha7)
GroupsA == Ones(AtomsQ \cup BadCls \cup BadTops) \cup RepG(RepFormsSmall, "AtomsQ") \cup RepG(RepFormsFull \cup BadReps, "AtomsMid")
           \cup CatL(AtomsMid, "AtomsMid") \cup AltL(AtomsMid, "AtomsMid") \cup RepG({<<"*", 0, INF>>}, "BadCls")
GroupsA2 == GroupsA \cup Ones(AtomsAll) \cup RepG(RepFormsFull, "AtomsAll")
\* family B: structure; depth <= 2 over a small atom set and some depth-3 shapes         (alphabet Alpha3)
GroupsB == Ones(P1Small) \cup RepG(RepFormsSmall, "P1Small") \cup CatL(P1Small, "P1Two") \cup CatR(P1Small \ P1Two, "P1Two") \cup AltL(P1Small, "P1Two")
           \cup CatL(Reps(AtomsTiny, RepForms3), "QPairs2") \cup CatR(Reps(AtomsTiny, RepForms3), "QPairs2") \cup RepG(RepForms3, "QQ")
           \cup RepG(BadReps, "AtomsTiny") \cup CatL(AtomsTiny, "BadCls")
GroupsB2 == GroupsB \cup CatL(P1Small, "P1Small") \cup AltL(P1Small, "P1Small") \cup CatL(Reps(AtomsTiny, RepFormsSmall), "QPairs")
            \cup CatR(Reps(AtomsTiny, RepFormsSmall), "QPairs")
\* small universes for TLC's own exhaustive check of (1) = (2) = (3)
GroupsChk == Ones(AtomsChk) \cup RepG(RepFormsChk, "AtomsChk") \cup CatL(Atoms4, "Atoms4") \cup AltL(Atoms4, "Atoms4")
             \cup RepG(RepForms3, "PairsQ") \cup CatL(Reps({L1, L2}, {<<"*", 0, INF>>, <<"n,m", 1, 2>>}), "QPairs2")
GroupsChk2 == GroupsChk \cup Ones(P1Chk) \cup RepG(RepFormsChk, "P1Chk") \cup CatL(P1Chk, "AtomsChk") \cup CatR(P1Chk, "Atoms4") \cup AltL(P1Chk, "Atoms4")
              \cup CatL(Reps(AtomsTiny, RepFormsSmall), "QPairs3")
GroupsC == CatL(Reps(RangeCls, RepFormsC), "RangeCls") \cup Ones(TwoRangeCls)
GroupsD == CatL(Lits2, "QLitPost") \cup CatL(Lits2, "QLit") \cup CatR(Lits2, "QLit")
Groups == CASE Uni = "C" -> GroupsC [] Uni = "D" -> GroupsD [] Uni = "A" -> GroupsA [] Uni = "A2" -> GroupsA2 [] Uni = "B" -> GroupsB [] Uni = "B2" -> GroupsB2
            [] Uni = "chk" -> GroupsChk [] Uni = "chk2" -> GroupsChk2
Universe == UNION {Members(g) : g \in Groups}

----------------------------------------------------------------------------
(* the state machine: one compiled expression, a string fed character by character (the derivative automaton),
   and the API calls on the string read so far. `last` is the result record of the last call. *)
VARIABLES rx,     \* the compiled expression
          str,    \* characters fed so far
          res,    \* residual expression = derivative of rx by str
          last    \* result of the last API call on str
vars == <<rx, str, res, last>>

NoCall == [op |-> "none", ok |-> FALSE, pos |-> NoPos, toks |-> <<>>, out |-> <<>>, exc |-> ""]
Init == rx \in {r \in Universe : WellFormed(r)} /\ str = <<>> /\ res = rx /\ last = NoCall

Feed(c) == /\ Len(str) < MaxLen
           /\ res' = D(res, c) /\ str' = Append(str, c) /\ last' = NoCall /\ UNCHANGED rx
\* matches() in schema mode: anchored; the automaton's verdict
MatchesX == /\ last.op = "none"
            /\ last' = [NoCall EXCEPT !.op = "matchesX", !.ok = Nullable(res), !.pos = IF Nullable(res) THEN <<0, Len(str)>> ELSE NoPos]
            /\ UNCHANGED <<rx, str, res>>
\* matches() in XPath mode: search by the backtracking matcher
Search == /\ last.op = "none"
          /\ LET m == FirstFrom(rx, str, 0) IN last' = [NoCall EXCEPT !.op = "search", !.ok = (m # NoPos), !.pos = m]
          /\ UNCHANGED <<rx, str, res>>
Tokenize == /\ last.op = "none"
            /\ last' = IF Nullable(rx) THEN [NoCall EXCEPT !.op = "tokenize", !.exc = "RuntimeException"]
                       ELSE [NoCall EXCEPT !.op = "tokenize", !.ok = TRUE, !.toks = TokensOf(str, PriSeq(rx, str, 0), 0)]
            /\ UNCHANGED <<rx, str, res>>
Replace == /\ last.op = "none"
           /\ last' = IF Nullable(rx) THEN [NoCall EXCEPT !.op = "replace", !.exc = "RuntimeException"]
                      ELSE [NoCall EXCEPT !.op = "replace", !.ok = TRUE, !.out = ReplacedOf(str, PriSeq(rx, str, 0), 0, RepL, RepR)]
           /\ UNCHANGED <<rx, str, res>>
Next == (\E c \in Alpha : Feed(c)) \/ MatchesX \/ Search \/ Tokenize \/ Replace
Spec == Init /\ [][Next]_vars

----------------------------------------------------------------------------
(* the listed property on the specification: operational layers = declarative layer *)
DerivIsLanguage == last.op = "none" => Nullable(res) = InLang(rx, str)                                         \* (2) = (1)
DeadIsDead == res = Empty => \A c \in Alpha : D(res, c) = Empty                               \* the generator prunes dead residuals
BacktrackIsLanguage == last.op = "none" => \A p \in 0..Len(str) : SeqRange(Ends(rx, str, p)) = ValidEnds(rx, str, p)   \* (3) = (1)
EndsNoDup == last.op = "none" => \A p \in 0..Len(str) : Cardinality(SeqRange(Ends(rx, str, p))) = Len(Ends(rx, str, p))
CallsOK ==
  CASE last.op = "matchesX" -> last.ok = InLang(rx, str)                                   \* schema mode: implicitly anchored
    [] last.op = "search" -> /\ last.ok = SubstringInLang(rx, str)
                             /\ last.ok => /\ last.pos[1] = Leftmost(rx, str, 0)
                                           /\ last.pos[2] \in ValidEnds(rx, str, last.pos[1])
    [] last.op = "tokenize" -> IF InLang(rx, <<>>) THEN last.exc = "RuntimeException"
                               ELSE \E ms \in MatchSeqs(rx, str, 0) : last.toks = TokensOf(str, ms, 0)
    [] last.op = "replace" -> IF InLang(rx, <<>>) THEN last.exc = "RuntimeException"
                              ELSE \E ms \in MatchSeqs(rx, str, 0) : last.out = ReplacedOf(str, ms, 0, RepL, RepR)
    [] OTHER -> TRUE
SeqsAgree == last.op = "none" /\ ~Nullable(rx) => OpSeqs(rx, str, 0) = MatchSeqs(rx, str, 0)
\* tokens and gaps partition the string
TokensPartition == last.op = "tokenize" /\ last.ok =>
                      LET ms == PriSeq(rx, str, 0) IN ReplacedOf(str, ms, 0, <<>>, <<>>) = str
=============================================================================
