SPECIFICATION Spec
CONSTANTS
  Classes = {"p"}
  MaxNodes = 3
  MaxChars = 1
  MaxVal = 1
  MaxDepth = 1
  LeafKinds = {"pi", "text"}
  AttrRanks = {1, 5}
  ElemQNames <- NameElems
  Cfgs <- CfgsNames
INVARIANTS TypeOK StepwiseIsSer ErrorIffInexpressible OutputWellFormed RoundTripContent RoundTripExact NsPreserved SplitOnlyWhereForced WarnIffSplit Idempotent
ACTION_CONSTRAINT EmitT
CHECK_DEADLOCK FALSE
