---------------------------- MODULE ContentModel ----------------------------
(* Content models of XML 1.0 element type declarations (and, by extension, XSD particles).

   AST        uniform 4-tuples <<op, n, l, r>> (Nil = <<>> for absent sub-terms), so that any two
              terms can be compared by TLC.  op: "leaf" (n = element name, an integer >= 1; names < 1
              are the non-element items below), "seq", "choice", "opt" (?), "star", "plus" (+),
              "eps" (empty word), "none" (empty language).
   Content    <<kind, names, cm>>: kind "empty" | "any" | "mixed" (names = set of element names)
   spec       | "children" (cm = AST).
   Items      what an element can contain, in document order: n >= 1 child element of type n,
              TEXT (non-blank character data), WS (white space), MISC (comment or PI),
              ESCWS (white space that does not match S: CDATA section / character reference).

   DECLARATIVE layer (XML 1.0 section 3, VC "Element Valid", and 3.2.1/3.2.2):
       InLang(cm, w)          w is in the regular language of cm (structural definition)
       ElementValid(cs, its)  the item sequence satisfies the declared content spec
   OPERATIONAL layer (shape of the code: children collected in document order, one automaton step
   per child - ElemStack::addChild / DFAContentModel transition table - flags for character data -
   IGXMLScanner::scanCharData, fCommentOrPISeen, fReferenceEscaped - and the verdict at the end tag):
       Deriv / Nullable       Brzozowski derivative = the automaton state after one more child
       Feed(cs, st, item)     one observable step;   Verdict(cs, st)  the end-tag decision
       actions Item(i), EndTag over the variables cspec, st, seen, closed
   A second operational reading, shaped like DFAContentModel::buildDFA (positions, firstpos, lastpos,
   followpos, subset construction on the fly), is PosAccepts.
   TLC checks (ContentModel*.cfg):  Agree (end-tag verdict of the fed items = ElementValid) in every state,
   PosAgree (PosAccepts = Nullable of the iterated derivative) for children models. *)
EXTENDS Naturals, Integers, Sequences, FiniteSets, TLC

CONSTANTS NNames,      \* element names 1..NNames are declared
          Depth,       \* content models up to this nesting depth
          MaxLen,      \* child sequences up to this length
          WithItems    \* TRUE: item alphabet includes TEXT/WS/MISC/ESCWS and an undeclared element

Names == 1..NNames
Undeclared == NNames + 1
TEXT == 0
WS == -1
MISC == -2
ESCWS == -3

Nil == <<>>
Leaf(n) == <<"leaf", n, Nil, Nil>>
Cat(l, r) == <<"seq", 0, l, r>>
Choice(l, r) == <<"choice", 0, l, r>>
Opt(l) == <<"opt", 0, l, Nil>>
Star(l) == <<"star", 0, l, Nil>>
Plus(l) == <<"plus", 0, l, Nil>>
Eps == <<"eps", 0, Nil, Nil>>
None == <<"none", 0, Nil, Nil>>

CsEmpty == <<"empty", {}, Nil>>
CsAny == <<"any", {}, Nil>>
CsMixed(ns) == <<"mixed", ns, Nil>>
CsChildren(cm) == <<"children", {}, cm>>

(* ------------------------------------------------------------------ declarative layer *)
Sub(w, i, j) == SubSeq(w, i, j)

RECURSIVE InLang(_, _)
InLang(e, w) ==
  CASE e[1] = "eps"    -> w = <<>>
    [] e[1] = "none"   -> FALSE
    [] e[1] = "leaf"   -> w = <<e[2]>>
    [] e[1] = "seq"    -> \E i \in 0..Len(w) : InLang(e[3], Sub(w, 1, i)) /\ InLang(e[4], Sub(w, i + 1, Len(w)))
    [] e[1] = "choice" -> InLang(e[3], w) \/ InLang(e[4], w)
    [] e[1] = "opt"    -> w = <<>> \/ InLang(e[3], w)
    [] e[1] = "star"   -> w = <<>> \/ \E i \in 1..Len(w) : InLang(e[3], Sub(w, 1, i)) /\ InLang(e, Sub(w, i + 1, Len(w)))
    [] e[1] = "plus"   -> \E i \in 0..Len(w) : InLang(e[3], Sub(w, 1, i)) /\ InLang(Star(e[3]), Sub(w, i + 1, Len(w)))

IsElem(i) == i >= 1
ElemsOf(items) == SelectSeq(items, IsElem)
ItemSet(items) == {items[k] : k \in 1..Len(items)}

(* VC: Element Valid - the element's own declaration against its content. A child of an undeclared
   type is invalid by itself (no declaration matches), whatever the parent's model says. *)
ElementValid(cs, items) ==
  /\ Undeclared \notin ItemSet(items)
  /\ CASE cs[1] = "empty"    -> items = <<>>
       [] cs[1] = "any"      -> TRUE
       [] cs[1] = "mixed"    -> \A i \in ItemSet(items) : IsElem(i) => i \in cs[2]
       [] cs[1] = "children" -> /\ TEXT \notin ItemSet(items)
                                /\ ESCWS \notin ItemSet(items)
                                /\ InLang(cs[3], ElemsOf(items))

(* ------------------------------------------------------------------ operational layer *)
RECURSIVE Nullable(_)
Nullable(e) ==
  CASE e[1] = "eps"    -> TRUE
    [] e[1] = "none"   -> FALSE
    [] e[1] = "leaf"   -> FALSE
    [] e[1] = "seq"    -> Nullable(e[3]) /\ Nullable(e[4])
    [] e[1] = "choice" -> Nullable(e[3]) \/ Nullable(e[4])
    [] e[1] = "opt"    -> TRUE
    [] e[1] = "star"   -> TRUE
    [] e[1] = "plus"   -> Nullable(e[3])

MkSeq(l, r) == IF l = None \/ r = None THEN None ELSE IF l = Eps THEN r ELSE IF r = Eps THEN l ELSE Cat(l, r)
MkChoice(l, r) == IF l = None THEN r ELSE IF r = None THEN l ELSE IF l = r THEN l ELSE Choice(l, r)

RECURSIVE Deriv(_, _)
Deriv(e, a) ==
  CASE e[1] \in {"eps", "none"} -> None
    [] e[1] = "leaf"   -> IF e[2] = a THEN Eps ELSE None
    [] e[1] = "seq"    -> LET d == MkSeq(Deriv(e[3], a), e[4])
                          IN  IF Nullable(e[3]) THEN MkChoice(d, Deriv(e[4], a)) ELSE d
    [] e[1] = "choice" -> MkChoice(Deriv(e[3], a), Deriv(e[4], a))
    [] e[1] = "opt"    -> Deriv(e[3], a)
    [] e[1] = "star"   -> MkSeq(Deriv(e[3], a), e)
    [] e[1] = "plus"   -> MkSeq(Deriv(e[3], a), Star(e[3]))

RECURSIVE DerivAll(_, _)
DerivAll(e, w) == IF w = <<>> THEN e ELSE DerivAll(Deriv(e, Head(w)), Tail(w))
Matches(cm, w) == Nullable(DerivAll(cm, w))

(* per-element scanner state: automaton residual + the flags the scanners keep *)
St0(cs) == [resid |-> IF cs[1] = "children" THEN cs[3] ELSE Eps,
            n |-> 0,             \* items of any kind seen (EMPTY allows none)
            bad |-> FALSE]       \* a violation was already flagged (character data, bad child, undeclared)

Feed(cs, st, i) ==
  LET st1 == [st EXCEPT !.n = @ + 1] IN
  IF i = Undeclared THEN [st1 EXCEPT !.bad = TRUE]
  ELSE CASE cs[1] = "empty"    -> st1
         [] cs[1] = "any"      -> st1
         [] cs[1] = "mixed"    -> IF IsElem(i) /\ i \notin cs[2] THEN [st1 EXCEPT !.bad = TRUE] ELSE st1
         [] cs[1] = "children" -> IF IsElem(i) THEN [st1 EXCEPT !.resid = Deriv(@, i)]
                                  ELSE IF i \in {TEXT, ESCWS} THEN [st1 EXCEPT !.bad = TRUE]
                                  ELSE st1

Verdict(cs, st) ==
  /\ ~st.bad
  /\ CASE cs[1] = "empty"    -> st.n = 0
       [] cs[1] = "children" -> Nullable(st.resid)
       [] OTHER              -> TRUE

RECURSIVE FeedAll(_, _, _)
FeedAll(cs, st, items) == IF items = <<>> THEN st ELSE FeedAll(cs, Feed(cs, st, Head(items)), Tail(items))
Accepts(cs, items) == Verdict(cs, FeedAll(cs, St0(cs), items))

(* ---------------------------------------------------------- position automaton (buildDFA shape) *)
(* positions are numbered left to right over the leaves; Pos(e, base) = <<count, first, last, nullable,
   follow, sym>> with follow/sym as sets of pairs *)
RECURSIVE PA(_, _)
PA(e, b) ==
  CASE e[1] = "eps"  -> [k |-> 0, first |-> {}, last |-> {}, nul |-> TRUE, fol |-> {}, sym |-> {}]
    [] e[1] = "none" -> [k |-> 0, first |-> {}, last |-> {}, nul |-> FALSE, fol |-> {}, sym |-> {}]
    [] e[1] = "leaf" -> [k |-> 1, first |-> {b + 1}, last |-> {b + 1}, nul |-> FALSE, fol |-> {}, sym |-> {<<b + 1, e[2]>>}]
    [] e[1] = "seq"  -> LET L == PA(e[3], b)
                            R == PA(e[4], b + L.k)
                        IN [k |-> L.k + R.k,
                            first |-> IF L.nul THEN L.first \cup R.first ELSE L.first,
                            last |-> IF R.nul THEN L.last \cup R.last ELSE R.last,
                            nul |-> L.nul /\ R.nul,
                            fol |-> L.fol \cup R.fol \cup (L.last \X R.first),
                            sym |-> L.sym \cup R.sym]
    [] e[1] = "choice" -> LET L == PA(e[3], b)
                              R == PA(e[4], b + L.k)
                          IN [k |-> L.k + R.k, first |-> L.first \cup R.first, last |-> L.last \cup R.last,
                              nul |-> L.nul \/ R.nul, fol |-> L.fol \cup R.fol, sym |-> L.sym \cup R.sym]
    [] e[1] = "opt"  -> [PA(e[3], b) EXCEPT !.nul = TRUE]
    [] e[1] = "star" -> LET L == PA(e[3], b) IN [L EXCEPT !.nul = TRUE, !.fol = @ \cup (L.last \X L.first)]
    [] e[1] = "plus" -> LET L == PA(e[3], b) IN [L EXCEPT !.fol = @ \cup (L.last \X L.first)]

(* run: state = set of positions just matched ({0} = start) *)
PosStep(A, S, a) ==
  LET cand == IF S = {0} THEN A.first ELSE {q \in 1..A.k : \E p \in S : <<p, q>> \in A.fol}
  IN {q \in cand : <<q, a>> \in A.sym}
RECURSIVE PosRun(_, _, _)
PosRun(A, S, w) == IF w = <<>> THEN S ELSE PosRun(A, PosStep(A, S, Head(w)), Tail(w))
PosAccepts(cm, w) ==
  LET A == PA(cm, 0)
      S == PosRun(A, {0}, w)
  IN IF S = {0} THEN A.nul ELSE S \cap A.last # {}

(* ------------------------------------------------------------------ enumeration of models *)
RECURSIVE Models(_)
Models(d) == IF d = 0 THEN {Leaf(n) : n \in Names}
             ELSE LET S == Models(d - 1)
                  IN S \cup {Opt(x) : x \in S} \cup {Star(x) : x \in S} \cup {Plus(x) : x \in S}
                       \cup {Cat(x, y) : x \in S, y \in S} \cup {Choice(x, y) : x \in S, y \in S}

Specs == {CsChildren(m) : m \in Models(Depth)}
           \cup (IF WithItems THEN {CsEmpty, CsAny} \cup {CsMixed(ns) : ns \in SUBSET Names} ELSE {})
Alphabet == IF WithItems THEN Names \cup {Undeclared, TEXT, WS, MISC, ESCWS} ELSE Names

(* ------------------------------------------------------------------ state machine *)
VARIABLES cspec, st, seen, closed
vars == <<cspec, st, seen, closed>>

Init == /\ cspec \in Specs
        /\ st = St0(cspec)
        /\ seen = <<>>
        /\ closed = FALSE

Item(i) == /\ ~closed
           /\ Len(seen) < MaxLen
           /\ st' = Feed(cspec, st, i)
           /\ seen' = Append(seen, i)
           /\ UNCHANGED <<cspec, closed>>

EndTag == /\ ~closed
          /\ closed' = TRUE
          /\ UNCHANGED <<cspec, st, seen>>

Next == (\E i \in Alphabet : Item(i)) \/ EndTag
Spec == Init /\ [][Next]_vars

(* the listed property on the specification: the end-tag verdict is the declarative validity *)
Agree == Verdict(cspec, st) = ElementValid(cspec, seen)
PosAgree == cspec[1] = "children" /\ ItemSet(seen) \subseteq Names => PosAccepts(cspec[3], seen) = Nullable(st.resid)
TypeOK == /\ st.n = Len(seen)
          /\ closed \in BOOLEAN
=============================================================================
