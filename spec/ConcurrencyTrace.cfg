SPECIFICATION TSpec
CONSTANTS
  Threads = {1,2,3,4,5,6,7,8,9,10,11,12,13,14,15,16,17}
  Slots = {1,2,3,4,5,6,7,8,9,10,11,12,13,14,15,16,17,18,19,20,21,22,23,24,25,26,27,28,29,30,31,32,33,34,35,36,37,38,39,40}
  Pools = {"SP1","SP2","SP3","SP4","SP5","SP6","SP7","SP8"}
  Strs = {1}
  ConstStrs <- NoConst
  Grams = {1}
  Grams0 = {}
  RegLen0 = 1
  ProgChoices <- TraceProgs
  NoLock = {}
  LazyMap = TRUE
INVARIANTS MutualExclusion OwnerConsistent AtMostOneLockHeld GuardedWrite UnlockedReadsOnlyWhereDoubleChecked
  InitOnceAsCoded UniqueScannerIds StringPoolIdsFunctional LockedPoolConstant
PROPERTY PoolAppendOnly
POSTCONDITION Accepted
CHECK_DEADLOCK FALSE
