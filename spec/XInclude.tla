----------------------------- MODULE XInclude -----------------------------
(* XInclude processing (property C20), written to be bound to xerces-c's XIncludeUtils.

   A FILE SYSTEM  fs : file id -> <<kind, dir, content>>
       kind "xml"  : content = the document element, an ITEM
       kind "text" : content = a string (with markup characters)
       kind "none" : no such file (the href of an include naming it cannot be fetched)
     dir is 0 (the directory of the main document) or 1 (its sub-directory); file 1 is the document
     handed to the parser. hrefs are relative references; the model keeps the file they denote.
   ITEMS (source documents)
       <<"tx", s>>                      character data
       <<"el", name, kids>>             an element that is not in the XInclude namespace
       <<"inc", target, parse, xptr, fbs, bad>>
                                        xi:include: parse in {"none" (attribute absent), "xml", "text", "bogus"}, xptr in {0,1},
                                        fbs = sequence of xi:fallback bodies (0, 1 or 2), bad = "none" | "inc" (an xi:include
                                        child) | "other" (another xi: element child)
       <<"fb", kids>>                   xi:fallback that is not a child of xi:include
   RESULT ITEMS   <<"tx", s>> | <<"src", f>> (the bytes of file f as text) | <<"el", name, xb, kids>>
       xb is the xml:base fix-up of the element, abstracted to the directory step it makes (0 = none).

   Operational layer : an explicit-stack machine shaped like XIncludeUtils::parseDOMNodeDoingXInclude / doDOMNodeXInclude:
       frames (the DOM positions being processed), `hist` (the inclusion history stack), actions
       Text, Descend, Ascend, OrphanFallback, Enter / Reject, LoadXml, LoadText, LoopDetected, Fail, UseFallback, NoFallback,
       Splice (fallback content in place), Leave (included content in place, history popped), Finish.
   Declarative layer : Expand - the XInclude 1.0 recursive definition (section 4): an include is replaced by the recursively
       processed top-level items of the document, by one text item, or by the processed fallback; loop <=> the target is the
       main document or already on the chain of inclusions => fatal; invalid usage => fatal.
       Invariants: Correct (operational result = Expand), LoopSound / LoopComplete (LoopReported), HistIsChain, DepthBound,
       BaseFixup (resolving the xml:base chain leads to the directory of the document the element came from).
   Termination: `steps` grows with every action, there is no state constraint, and every state other than done/failed has a
       successor (deadlock check on; Stop is the only stuttering): TLC finishing the search means every behaviour ends.

   Named deviations (the specification follows XInclude 1.0, the code differs; see known_findings.d/C20.json):
     - xerces-c processes the includes of the MAIN document bottom-up while parsing, so an include inside an xi:fallback (or as a
       direct child) of another include of the main document is expanded even when the fallback is not used.
   Modelled as the code behaves (the property is silent):
     - any xpointer attribute is refused (XPointer is not supported), not only with parse="text";
     - an included document whose document element is an include may expand to text or several items.
*)
EXTENDS Naturals, Integers, Sequences, FiniteSets, TLC

CONSTANTS NF,         \* files 1..NF
          Budget,     \* generation bound: total weight of the file system (includes + fallbacks + oddities)
          DirCodes,   \* set of directory assignments, coded: file 1 is in directory 0, file k >= 2 in directory bit (k-2) of the code
          Odd         \* BOOLEAN: generate the invalid usages (bogus parse, xpointer, bad children, two fallbacks, orphan fallback)

Files == 1..NF
Main == 1
TextBody == "<t>&x"

VARIABLES fs, stack, hist, pc, cur, err, loads, edges, warn, steps, eager
vars == <<fs, stack, hist, pc, cur, err, loads, edges, warn, steps, eager>>

Kind(f) == fs[f][1]
Dir(f) == fs[f][2]
Root(f) == fs[f][3]

---------------------------------------------------------------------------
\* generation of file systems (bounded by weight)

Inc(t, p, x, fbs, bad) == <<"inc", t, p, x, fbs, bad>>
Tx(s) == <<"tx", s>>
El(n, k) == <<"el", n, k>>

BasicFb == { <<>>, <<Tx("q")>>, <<El("f", <<Tx("q")>>)>> }

RECURSIVE IncW(_)
IncW(w) ==
       (IF w = 1 THEN {Inc(t, p, 0, <<>>, "none") : t \in Files, p \in {"none", "text"}} ELSE {})
  \cup (IF w = 2 THEN {Inc(t, p, 0, <<b>>, "none") : t \in Files, p \in {"none", "text"}, b \in BasicFb} ELSE {})
  \cup (IF w = 2 /\ Odd THEN {Inc(t, "xml", 0, <<>>, "none") : t \in Files}
                        \cup {Inc(t, "bogus", 0, <<>>, "none") : t \in Files}
                        \cup {Inc(t, p, 1, <<>>, "none") : t \in Files, p \in {"none", "text"}}
                        \cup {Inc(t, "none", 0, <<>>, b) : t \in Files, b \in {"inc", "other"}}
                        \cup {Inc(t, "none", 0, << <<>>, <<Tx("q")>> >>, "none") : t \in Files}
        ELSE {})
  \cup (IF w >= 2 THEN {Inc(t, "none", 0, <<b>>, "none") : t \in Files,
                                                     b \in {<<i>> : i \in IncW(w - 1)} \cup {<<El("f", <<i>>)>> : i \in IncW(w - 1)}}
        ELSE {})
\* weights: an include 1; a fallback without includes +1; an invalid usage +1; a fallback that holds an include: the weight of that include

\* document elements by weight
RootNames == <<"r1", "r2", "r3", "r4">>
DocW(w, r) ==
       (IF w = 0 THEN {El(r, <<Tx("z")>>)} ELSE {})
  \cup (IF w = 1 /\ Odd THEN {El(r, <<<<"fb", <<Tx("q")>>>>>>)} ELSE {})
  \cup (IF w >= 1 THEN {El(r, <<Tx("a"), i, Tx("b")>>) : i \in IncW(w)} \cup IncW(w) ELSE {})
  \cup UNION {{El(r, <<El("e", <<i>>), j, Tx("b")>>) : i \in IncW(a), j \in IncW(w - a)} : a \in 1..(w - 1)}

FileW(f, d, w) ==
       {<<"xml", d, r>> : r \in DocW(w, RootNames[f])}
  \cup (IF w = 0 /\ f # Main THEN {<<"text", d, TextBody>>, <<"none", d, <<>>>>} ELSE {})

\* targets mentioned anywhere in an item
RECURSIVE Targets(_)
Targets(it) ==
  CASE it[1] = "tx" -> {}
    [] it[1] = "el" -> UNION {Targets(it[3][i]) : i \in 1..Len(it[3])}
    [] it[1] = "fb" -> UNION {Targets(it[2][i]) : i \in 1..Len(it[2])}
    [] it[1] = "inc" -> {it[2]} \cup UNION {UNION {Targets(it[5][k][i]) : i \in 1..Len(it[5][k])} : k \in 1..Len(it[5])}

RECURSIVE HasInc(_)
HasInc(it) ==
  CASE it[1] = "tx" -> FALSE
    [] it[1] = "el" -> \E i \in 1..Len(it[3]) : HasInc(it[3][i])
    [] it[1] = "fb" -> \E i \in 1..Len(it[2]) : HasInc(it[2][i])
    [] it[1] = "inc" -> TRUE

\* an include of a document does not name a text file with parse xml (a resource that is not well-formed XML is outside the model)
RECURSIVE WellTargeted(_, _)
WellTargeted(it, f) ==
  CASE it[1] = "tx" -> TRUE
    [] it[1] = "el" -> \A i \in 1..Len(it[3]) : WellTargeted(it[3][i], f)
    [] it[1] = "fb" -> \A i \in 1..Len(it[2]) : WellTargeted(it[2][i], f)
    [] it[1] = "inc" -> /\ (it[3] # "text" => f[it[2]][1] # "text")
                        /\ \A k \in 1..Len(it[5]) : \A i \in 1..Len(it[5][k]) : WellTargeted(it[5][k][i], f)

Mentions(f, a) == IF f[a][1] = "xml" THEN Targets(f[a][3]) ELSE {}
ReachFrom(f) == LET R1 == {Main} \cup Mentions(f, Main)
                    R2 == R1 \cup UNION {Mentions(f, a) : a \in R1}
                    R3 == R2 \cup UNION {Mentions(f, a) : a \in R2}
                IN R3
\* every file that carries weight, or exists, is mentioned on some path from the main document; unmentioned files are absent
Tidy(f) == \A a \in Files : a \in ReachFrom(f) \/ f[a][1] = "none"

Pow2(n) == IF n = 0 THEN 1 ELSE IF n = 1 THEN 2 ELSE IF n = 2 THEN 4 ELSE 8
DirOf(c) == [k \in Files |-> IF k = Main THEN 0 ELSE (c \div Pow2(k - 2)) % 2]
ASSUME NF = 3
\* table of file contents by (file, directory, weight): a constant, evaluated once
FW == [f \in Files, d \in {0, 1}, w \in 0..Budget |-> FileW(f, d, w)]
WellFormedFs(f) == Tidy(f) /\ \A a \in Files : f[a][1] = "xml" => WellTargeted(f[a][3], f)
\* all file systems of total weight <= Budget (file 1 has weight >= 1), each exactly once
ChooseFs(f) == \E c \in DirCodes :
               \E w1 \in 1..Budget : \E c1 \in FW[1, DirOf(c)[1], w1] :
               \E w2 \in 0..(Budget - w1) : \E c2 \in FW[2, DirOf(c)[2], w2] :
               \E w3 \in 0..(Budget - w1 - w2) : \E c3 \in FW[3, DirOf(c)[3], w3] :
                  WellFormedFs(<<c1, c2, c3>>) /\ f = <<c1, c2, c3>>

---------------------------------------------------------------------------
\* declarative layer: XInclude 1.0 section 4 as a recursive function

Ok(items) == [ok |-> TRUE, err |-> "", items |-> items]
Bad(e) == [ok |-> FALSE, err |-> e, items |-> <<>>]

RECURSIVE ExpItems(_, _, _), ExpItem(_, _, _)
\* items of document src (directory of its base URI: Dir(src)), chain = the documents being included (a set), main included
ExpItems(its, src, chain) ==
  IF its = <<>> THEN Ok(<<>>)
  ELSE LET h == ExpItem(its[1], src, chain)
       IN IF ~h.ok THEN h
          ELSE LET t == ExpItems(Tail(its), src, chain)
               IN IF ~t.ok THEN t ELSE Ok(h.items \o t.items)

ExpItem(it, src, chain) ==
  CASE it[1] = "tx" -> Ok(<<it>>)
    [] it[1] = "el" -> LET r == ExpItems(it[3], src, chain)
                       IN IF r.ok THEN Ok(<< <<"el", it[2], Dir(src), r.items>> >>) ELSE r
    [] it[1] = "fb" -> Bad("orphan-fallback")
    [] it[1] = "inc" ->
         LET t == it[2]  p == it[3]  fbs == it[5]
             Fallback == IF fbs = <<>> THEN Bad("no-fallback") ELSE ExpItems(fbs[1], src, chain)
         IN IF Len(fbs) > 1 THEN Bad("multi-fallback")
            ELSE IF it[6] # "none" THEN Bad("bad-child")
            ELSE IF it[4] = 1 THEN Bad("xpointer")
            ELSE IF p \notin {"none", "xml", "text"} THEN Bad("bad-parse")
            ELSE IF p = "text" THEN (IF Kind(t) = "none" THEN Fallback
                                     ELSE IF Kind(t) = "text" THEN Ok(<<Tx(Root(t))>>) ELSE Ok(<< <<"src", t>> >>))
            ELSE IF t \in chain THEN Bad("loop")
            ELSE IF Kind(t) # "xml" THEN Fallback
            ELSE ExpItems(<<Root(t)>>, t, chain \cup {t})

OneElement(items) == Len(items) = 1 /\ items[1][1] = "el"
Expand == LET r == ExpItems(<<Root(Main)>>, Main, {Main})
          IN IF r.ok /\ ~OneElement(r.items) THEN Bad("root-not-element") ELSE r

---------------------------------------------------------------------------
\* operational layer

Frame(k, src, todo, name, step) == [k |-> k, src |-> src, todo |-> todo, done |-> <<>>, name |-> name, step |-> step]
Top == stack[Len(stack)]
HeadIt == Top.todo[1]
Running == pc = "run" /\ Top.todo # <<>>
SetTop(f) == [stack EXCEPT ![Len(stack)] = f]
\* the head item of the top frame is consumed and `items` are appended to what the frame has produced
Produce(items) == SetTop([Top EXCEPT !.todo = Tail(@), !.done = @ \o items])
Step == steps' = steps + 1

Init == /\ ChooseFs(fs)
        /\ stack = <<Frame("top", Main, <<Root(Main)>>, "", 0)>>
        /\ hist = <<>>
        /\ pc = "run"
        /\ cur = <<>>
        /\ err = ""
        /\ loads = <<Main>>
        /\ edges = {}
        /\ warn = 0
        /\ steps = 0
        /\ eager = FALSE

Text == /\ Running /\ HeadIt[1] = "tx"
        /\ stack' = Produce(<<HeadIt>>)
        /\ Step /\ UNCHANGED <<fs, hist, pc, cur, err, loads, edges, warn, eager>>

\* parseDOMNodeDoingXInclude on an ordinary element: walk the children
Descend == /\ Running /\ HeadIt[1] = "el"
           /\ stack' = Append(stack, Frame("el", Top.src, HeadIt[3], HeadIt[2], 0))
           /\ Step /\ UNCHANGED <<fs, hist, pc, cur, err, loads, edges, warn, eager>>

Ascend == /\ pc = "run" /\ Top.todo = <<>> /\ Top.k = "el"
          /\ LET below == stack[Len(stack) - 1]
                 el == <<"el", Top.name, 0, Top.done>>
             IN stack' = [SubSeq(stack, 1, Len(stack) - 1) EXCEPT ![Len(stack) - 1] = [below EXCEPT !.todo = Tail(@), !.done = Append(@, el)]]
          /\ Step /\ UNCHANGED <<fs, hist, pc, cur, err, loads, edges, warn, eager>>

FailWith(e) == /\ pc' = "failed" /\ err' = e
               /\ Step /\ UNCHANGED <<fs, stack, hist, cur, loads, edges, warn, eager>>

OrphanFallback == Running /\ HeadIt[1] = "fb" /\ FailWith("orphan-fallback")

\* doDOMNodeXInclude, first half: attributes and children of the include element
StaticError(it) ==
  IF Len(it[5]) > 1 THEN "multi-fallback"
  ELSE IF it[6] # "none" THEN "bad-child"
  ELSE IF it[4] = 1 THEN "xpointer"
  ELSE IF it[3] \notin {"none", "xml", "text"} THEN "bad-parse"
  ELSE ""
Reject == /\ Running /\ HeadIt[1] = "inc" /\ StaticError(HeadIt) # ""
          /\ pc' = "failed" /\ err' = StaticError(HeadIt)
          /\ eager' = (eager \/ (Top.src = Main /\ HeadIt[6] = "inc"))
          /\ Step /\ UNCHANGED <<fs, stack, hist, cur, loads, edges, warn>>
Enter == /\ Running /\ HeadIt[1] = "inc" /\ StaticError(HeadIt) = ""
         /\ pc' = "load" /\ cur' = HeadIt
         /\ Step /\ UNCHANGED <<fs, stack, hist, err, loads, edges, warn, eager>>

CurT == cur[2]
CurIsText == cur[3] = "text"
\* an include element of the main document with an include nested in its children is where the code's bottom-up pass differs
NoteEager == eager' = (eager \/ (Top.src = Main /\ \E i \in 1..Len(cur[5][1]) : HasInc(cur[5][1][i])))

\* doXIncludeTEXTFileDOM: one text node
LoadText == /\ pc = "load" /\ CurIsText /\ Kind(CurT) # "none"
            /\ stack' = Produce(IF Kind(CurT) = "text" THEN <<Tx(Root(CurT))>> ELSE << <<"src", CurT>> >>)
            /\ loads' = Append(loads, CurT)
            /\ pc' = "run"
            /\ (IF cur[5] # <<>> THEN NoteEager ELSE eager' = eager)
            /\ Step /\ UNCHANGED <<fs, hist, cur, err, edges, warn>>

\* doXIncludeXMLFileDOM: refuse what is on the history stack or is the document being parsed
LoopDetected == /\ pc = "load" /\ ~CurIsText
                /\ (CurT = Main \/ \E i \in 1..Len(hist) : hist[i] = CurT)
                /\ edges' = edges \cup {<<Top.src, CurT>>}
                /\ pc' = "failed" /\ err' = "loop"
                /\ Step /\ UNCHANGED <<fs, stack, hist, cur, loads, warn, eager>>

\* ... otherwise parse it; its top-level items are put in place of the include element and processed there
LoadXml == /\ pc = "load" /\ ~CurIsText
           /\ CurT # Main /\ \A i \in 1..Len(hist) : hist[i] # CurT
           /\ Kind(CurT) = "xml"
           /\ hist' = Append(hist, CurT)
           /\ stack' = Append(stack, Frame("incl", CurT, <<Root(CurT)>>, "", Dir(CurT) - Dir(Top.src)))
           /\ loads' = Append(loads, CurT)
           /\ edges' = edges \cup {<<Top.src, CurT>>}
           /\ pc' = "run"
           /\ (IF cur[5] # <<>> THEN NoteEager ELSE eager' = eager)
           /\ Step /\ UNCHANGED <<fs, cur, err, warn>>

\* resource error (a warning is reported), the fallback decides
Fail == /\ pc = "load"
        /\ Kind(CurT) = "none"
        /\ (~CurIsText => CurT # Main /\ \A i \in 1..Len(hist) : hist[i] # CurT)
        /\ pc' = "fallback" /\ warn' = warn + 1
        /\ Step /\ UNCHANGED <<fs, stack, hist, cur, err, loads, edges, eager>>

UseFallback == /\ pc = "fallback" /\ cur[5] # <<>>
               /\ stack' = Append(stack, Frame("fbk", Top.src, cur[5][1], "", 0))
               /\ pc' = "run"
               /\ Step /\ UNCHANGED <<fs, hist, cur, err, loads, edges, warn, eager>>

NoFallback == pc = "fallback" /\ cur[5] = <<>> /\ FailWith("no-fallback")

\* the xml:base fix-up: the top-level elements get the step from the including element's directory to the included document's
Fix(items, step) == [i \in 1..Len(items) |-> IF items[i][1] = "el" THEN <<"el", items[i][2], items[i][3] + step, items[i][4]>> ELSE items[i]]
PopInto(items) == LET below == stack[Len(stack) - 1]
                  IN [SubSeq(stack, 1, Len(stack) - 1) EXCEPT ![Len(stack) - 1] = [below EXCEPT !.todo = Tail(@), !.done = @ \o items]]

Splice == /\ pc = "run" /\ Top.todo = <<>> /\ Top.k = "fbk"
          /\ stack' = PopInto(Top.done)
          /\ Step /\ UNCHANGED <<fs, hist, pc, cur, err, loads, edges, warn, eager>>

Leave == /\ pc = "run" /\ Top.todo = <<>> /\ Top.k = "incl"
         /\ stack' = PopInto(Fix(Top.done, Top.step))
         /\ hist' = SubSeq(hist, 1, Len(hist) - 1)          \* popFromCurrentInclusionHistoryStack
         /\ Step /\ UNCHANGED <<fs, pc, cur, err, loads, edges, warn, eager>>

Finish == /\ pc = "run" /\ Top.todo = <<>> /\ Top.k = "top"
          /\ IF OneElement(Top.done) THEN pc' = "done" /\ err' = err ELSE pc' = "failed" /\ err' = "root-not-element"
          /\ Step /\ UNCHANGED <<fs, stack, hist, cur, loads, edges, warn, eager>>

Stop == pc \in {"done", "failed"} /\ UNCHANGED vars

Next == \/ Text \/ Descend \/ Ascend \/ OrphanFallback \/ Reject \/ Enter \/ LoadText \/ LoopDetected \/ LoadXml \/ Fail
        \/ UseFallback \/ NoFallback \/ Splice \/ Leave \/ Finish \/ Stop
Spec == Init /\ [][Next]_vars

---------------------------------------------------------------------------
\* the result, with base URIs resolved along the xml:base chain (directory 0 = where the main document is)

RECURSIVE Abs(_, _)
Abs(items, dir) == [i \in 1..Len(items) |->
                      IF items[i][1] = "el" THEN <<"el", items[i][2], dir + items[i][3], Abs(items[i][4], dir + items[i][3])>>
                      ELSE items[i]]
Result == Abs(stack[1].done, Dir(Main))

\* Correct: the machine computes exactly the declarative expansion, and fails exactly when it is undefined, for the same reason.
\* BaseFixup is part of it: Expand labels every element with the directory of its source document, Result resolves the fix-ups.
Correct == /\ pc = "done" => Expand.ok /\ Result = Expand.items
           /\ pc = "failed" => ~Expand.ok /\ err = Expand.err

\* LoopReported. edges = inclusions performed or attempted (including document, included document).
TC == LET Comp(r, s) == {<<a, c>> : a \in Files, c \in Files} \cap {p \in Files \X Files : \E b \in Files : <<p[1], b>> \in r /\ <<b, p[2]>> \in s}
          R1 == edges
          R2 == R1 \cup Comp(R1, R1)
          R3 == R2 \cup Comp(R2, R1)
      IN R3 \cup Comp(R3, R1)
LoopComplete == pc = "done" => \A f \in Files : <<f, f>> \notin TC
LoopSound == err = "loop" => \E f \in Files : <<f, f>> \in TC
\* the history stack is the chain of documents whose content is being processed, without repetition and without the main document
InclFrames == SelectSeq(stack, LAMBDA fr : fr.k = "incl")
HistIsChain == /\ Len(hist) = Len(InclFrames) /\ \A i \in 1..Len(hist) : hist[i] = InclFrames[i].src
               /\ \A i, j \in 1..Len(hist) : i # j => hist[i] # hist[j]
               /\ \A i \in 1..Len(hist) : hist[i] # Main
DepthBound == Len(hist) <= NF - 1
\* directories stay in {0,1}: no fix-up leads outside
RECURSIVE DirsOk(_)
DirsOk(items) == \A i \in 1..Len(items) : items[i][1] = "el" => items[i][3] \in {0, 1} /\ DirsOk(items[i][4])
BaseFixup == pc = "done" => DirsOk(Result)
TypeOk == /\ pc \in {"run", "load", "fallback", "done", "failed"}
          /\ (pc = "failed") = (err # "")
          /\ warn <= steps
XIncludeInv == TypeOk /\ Correct /\ LoopComplete /\ LoopSound /\ HistIsChain /\ DepthBound /\ BaseFixup

OnlyInit == steps = 0     \* (CONSTRAINT for counting file systems)
Terminates == <>(pc \in {"done", "failed"})
FairSpec == Spec /\ WF_vars(Next)
=============================================================================
