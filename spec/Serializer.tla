------------------------------ MODULE Serializer ------------------------------
(* DOMLSSerializer / XMLFormatter model (property C12), written to be bound to xerces-c.

   Data.  A document is a FLAT sequence of node records in document order,
       [k kind, d depth, n local name, p prefix, u namespace URI, r attribute rank, v value],
   (attributes and namespace-declaration attributes directly follow their element at depth+1, sorted by
   the rank of their qualified name = the order of xerces-c's attribute map).  Values are sequences of
   CHARACTER CLASSES (one concrete character per class is fixed by the binder's table):
       p plain  lt <  amp &  gt >  quot "  apos '  cr  lf  tab  rsb ]  dash -  qm ?
       hi  U+00E9 (not in US-ASCII)   bmp U+20AC (not in ISO-8859-1)   sup U+1F600 (supplementary)
       c0  U+0001 (no XML 1.0 Char; XML 1.1 only as a character reference)   sp (only produced by Parse)
   A case is (doc, cfg) with cfg = [enc in {utf, cp, l1, ascii}, split, v11, top in {decl, doc, elem}, bom].

   Operational layer (shaped like DOMLSSerializerImpl::processNode / XMLFormatter::formatBuf):
       Item       the XMLFormatter decision table  (mode, unrep flag, class, encoding, version) -> item
       StepFn     one node-visit of the serialiser: XmlDecl, StartTag (with namespace fix-up), EndTag,
                  Text, Cdata (splitting), Comment, PI; a fatal error aborts.
       the state machine build -> ser -> done applies StepFn step by step (named actions).
   Output = sequence of TOKENS (decl, stag, etag, chars, cdata, comment, pi) holding items
       <<"c",cls>> literal character   <<"e",cls>> predefined entity   <<"r",cls>> &#x..; reference
       <<"x",cls>> must-fail marker    <<"s",cls>> replacement character (UnRep_Replace)   <<"u",uri>> URI text.

   Declarative layer (vocabulary of XML 1.0/1.1, Namespaces in XML, DOM L3 LS):
       WellFormed(out)     token sequence is a well-formed, namespace-well-formed document in the encoding
       Parse(out)          the tree an XML processor reports for it (EOL and attribute-value normalisation,
                           character references, merging of adjacent character data, prefix resolution)
       RoundTripContent    Coarse(Parse(out)) = Coarse(doc)   (division of character data ignored, nothing else)
       RoundTripExact      no split forced and no adjacent text nodes and no fix-up  =>  Parse(out) = doc
       SplitOnlyWhereForced, NsPreserved, Idempotent (Ser(Parse(out)) = out), ErrorIffInexpressible.
   TLC checks that the operational layer satisfies all of them for every case within the constants.

   The specification states what the property REQUIRES.  Known deviations of the pinned code are found by
   the binder and listed in known_findings.d/C12.json (they are not modelled away here).
*)
EXTENDS Naturals, Sequences, FiniteSets, TLC

CONSTANTS Classes,     \* classes the generator draws values from
          MaxNodes, MaxChars, MaxDepth, MaxVal,
          LeafKinds,   \* subset of {"text","cdata","comment","pi"} the generator adds
          AttrRanks,   \* subset of 1..5 : attribute kinds the generator adds (see AttrTable)
          ElemQNames,  \* set of <<prefix, local, uri>> for elements
          Cfgs         \* set of configurations

---------------------------------------------------------------------------------------------
\* character classes and encodings

WsClasses == {"cr", "lf", "tab", "sp"}
Rep(enc, c) == CASE enc = "utf" -> TRUE
                 [] enc = "cp" -> c # "sup"                       \* windows-1252, IBM1140: U+20AC is there
                 [] enc = "l1" -> c \notin {"bmp", "sup"}
                 [] enc = "ascii" -> c \notin {"hi", "bmp", "sup"}
XmlChar(v11, c) == c # "c0" \/ v11            \* production Char of the version
Restricted(v11, c) == v11 /\ c = "c0"         \* XML 1.1 RestrictedChar: only as a character reference
NameRep(enc, nm) == nm # "nh" \/ Rep(enc, "hi")   \* the name "nh" is U+00E9; all other names are ASCII
PreEnt == {"amp", "lt", "gt", "quot", "apos"}

\* XMLFormatter escape lists (gEscapeChars)
EscList(mode) == CASE mode = "No" -> {}
                   [] mode = "Std" -> {"amp", "gt", "quot", "lt", "apos"}
                   [] mode = "Attr" -> {"amp", "lt", "quot", "lf", "cr", "tab"}
                   [] mode = "Char" -> {"amp", "lt", "gt", "cr"}
Escaped(mode, v11, c) == c \in EscList(mode) \/ (mode # "No" /\ v11 /\ c = "c0")

\* the decision table: one character -> one output item
Item(mode, unrep, enc, v11, c) ==
    IF ~Rep(enc, c) THEN CASE unrep = "CharRef" -> <<"r", c>>
                           [] unrep = "Fail" -> <<"x", c>>
                           [] unrep = "Replace" -> <<"s", c>>
    ELSE IF Escaped(mode, v11, c) THEN (IF c \in PreEnt THEN <<"e", c>> ELSE <<"r", c>>)
    ELSE <<"c", c>>
FormatBuf(mode, unrep, enc, v11, v) == [j \in 1..Len(v) |-> Item(mode, unrep, enc, v11, v[j])]
Fails(items) == \E j \in 1..Len(items) : items[j][1] = "x"

---------------------------------------------------------------------------------------------
\* sequences

Range(s) == {s[i] : i \in 1..Len(s)}
Last(s) == s[Len(s)]
Front(s) == SubSeq(s, 1, Len(s) - 1)
HasSub(v, w) == \E i \in 1..(Len(v) + 1 - Len(w)) : SubSeq(v, i, i + Len(w) - 1) = w
RECURSIVE Concat(_)
Concat(ss) == IF ss = <<>> THEN <<>> ELSE Head(ss) \o Concat(Tail(ss))

---------------------------------------------------------------------------------------------
\* nodes, attribute table, tokens

Node(k, d, n, p, u, r, v) == [k |-> k, d |-> d, n |-> n, p |-> p, u |-> u, r |-> r, v |-> v]
IsAttrK(k) == k \in {"attr", "nsdecl"}
\* rank -> kind of attribute, qualified name as <<prefix, local>>; the order is the UTF-16 order of the qualified names
\*   b < p:b < xmlns < xmlns:p < U+00E9
AttrTable == << [k |-> "attr", q |-> <<"", "b">>], [k |-> "attr", q |-> <<"p", "b">>], [k |-> "nsdecl", q |-> <<"", "xmlns">>],
                [k |-> "nsdecl", q |-> <<"xmlns", "p">>], [k |-> "attr", q |-> <<"", "nh">>] >>
RankOf(q) == CHOOSE r \in 1..Len(AttrTable) : AttrTable[r].q = q
DeclaredPrefix(r) == IF r = 3 THEN "" ELSE "p"      \* for nsdecl ranks

Tok(t, n, a, i, e) == [t |-> t, n |-> n, a |-> a, i |-> i, e |-> e]
NoName == <<"", "">>
ATok(q, items) == [q |-> q, i |-> items]
UriItems(u) == IF u = "" THEN <<>> ELSE << <<"u", u>> >>

---------------------------------------------------------------------------------------------
\* operational layer: the serialiser

\* namespace scopes: sequence (outermost first) of sets of <<prefix, uri>>
RECURSIVE Lookup(_, _)
Lookup(scopes, pfx) == IF scopes = <<>> THEN "none"
                       ELSE IF \E b \in Last(scopes) : b[1] = pfx THEN (CHOOSE b \in Last(scopes) : b[1] = pfx)[2]
                       ELSE Lookup(Front(scopes), pfx)

S0 == [pos |-> 0, open |-> <<>>, ns |-> <<>>, out |-> <<>>, err |-> FALSE, warn |-> FALSE, fin |-> FALSE]

AfterAttrs(doc, i) == IF \E j \in (i + 1)..Len(doc) : ~IsAttrK(doc[j].k)
                      THEN CHOOSE j \in (i + 1)..Len(doc) : ~IsAttrK(doc[j].k) /\ \A m \in (i + 1)..(j - 1) : IsAttrK(doc[m].k)
                      ELSE Len(doc) + 1
HasKids(doc, i) == AfterAttrs(doc, i) <= Len(doc) /\ doc[AfterAttrs(doc, i)].d > doc[i].d

Invalid(cfg, v) == \E c \in Range(v) : ~XmlChar(cfg.v11, c)          \* ensureValidString
Unrep(cfg, v) == \E c \in Range(v) : ~Rep(cfg.enc, c)
\* characters that cannot stand literally in markup that admits no references (CDATA section, comment, PI)
NeedsRef(cfg, c) == ~Rep(cfg.enc, c) \/ c = "cr" \/ Restricted(cfg.v11, c)
NoLiteral(cfg, v) == \E c \in Range(v) : NeedsRef(cfg, c)
Lits(v) == [j \in 1..Len(v) |-> <<"c", v[j]>>]

\* CDATA section with split-cdata-sections: maximal sections of literal characters; "]]>" is divided as "]]" | ">";
\* characters that need a reference are written between the sections.
RECURSIVE CdataToks(_, _, _, _, _)
CdataToks(cfg, v, j, cur, acc) ==
    LET flush == IF cur = <<>> THEN acc ELSE Append(acc, Tok("cdata", NoName, <<>>, Lits(cur), FALSE)) IN
    IF j > Len(v) THEN flush
    ELSE IF NeedsRef(cfg, v[j]) THEN
        LET f == flush IN
        IF f # <<>> /\ Last(f).t = "chars"
        THEN CdataToks(cfg, v, j + 1, <<>>, Append(Front(f), Tok("chars", NoName, <<>>, Append(Last(f).i, <<"r", v[j]>>), FALSE)))
        ELSE CdataToks(cfg, v, j + 1, <<>>, Append(f, Tok("chars", NoName, <<>>, << <<"r", v[j]>> >>, FALSE)))
    ELSE IF v[j] = "gt" /\ Len(cur) >= 2 /\ cur[Len(cur)] = "rsb" /\ cur[Len(cur) - 1] = "rsb"
        THEN CdataToks(cfg, v, j + 1, <<"gt">>, flush)
    ELSE CdataToks(cfg, v, j + 1, Append(cur, v[j]), acc)
SplitForced(cfg, v) == NoLiteral(cfg, v) \/ HasSub(v, <<"rsb", "rsb", "gt">>)

CommentBad(v) == HasSub(v, <<"dash", "dash">>) \/ (v # <<>> /\ Last(v) = "dash")
PIBad(v) == HasSub(v, <<"qm", "gt">>)

Abort(s) == [s EXCEPT !.err = TRUE]     \* a fatal error: the exception leaves write() in the next step (Abort)
Emit(s, toks) == [s EXCEPT !.out = s.out \o toks, !.pos = s.pos + 1]

\* start tag of element doc[i] with its attributes and the namespace fix-up
StartTag(doc, cfg, s) ==
    LET i == s.pos
        el == doc[i]
        last == AfterAttrs(doc, i) - 1
        \* fix-up for the element's own name, against the enclosing scopes
        needEl == (el.u # "" \/ (el.p = "" /\ Lookup(s.ns, "") \notin {"none", ""})) /\ Lookup(s.ns, el.p) # el.u
        sc0 == IF needEl THEN {<<el.p, el.u>>} ELSE {}
        at0 == IF needEl THEN << ATok(IF el.p = "" THEN <<"", "xmlns">> ELSE <<"xmlns", el.p>>, UriItems(el.u)) >> ELSE <<>>
        \* attributes in map order; F[j] = [sc, at, bad] after attributes i+1..j
        F[j \in i..last] ==
            IF j = i THEN [sc |-> sc0, at |-> at0, bad |-> FALSE]
            ELSE LET a == doc[j]
                     f == F[j - 1]
                     q == AttrTable[a.r].q IN
                 IF a.k = "nsdecl"
                 THEN IF \E b \in f.sc : b[1] = DeclaredPrefix(a.r) THEN f          \* already declared by the fix-up: dropped
                      ELSE [f EXCEPT !.sc = @ \cup {<<DeclaredPrefix(a.r), a.u>>}, !.at = Append(@, ATok(q, UriItems(a.u)))]
                 ELSE LET items == FormatBuf("Attr", "CharRef", cfg.enc, cfg.v11, a.v)
                          needA == a.p # "" /\ Lookup(Append(s.ns, f.sc), a.p) # a.u
                          decl == IF needA THEN << ATok(<<"xmlns", a.p>>, UriItems(a.u)) >> ELSE <<>> IN
                      [sc |-> IF needA THEN f.sc \cup {<<a.p, a.u>>} ELSE f.sc,
                       at |-> f.at \o decl \o << ATok(q, items) >>,
                       bad |-> f.bad \/ Invalid(cfg, a.v) \/ ~NameRep(cfg.enc, q[2])]
        r == F[last]
    IN IF ~NameRep(cfg.enc, el.n) \/ r.bad THEN Abort(s)
       ELSE IF HasKids(doc, i)
            THEN [s EXCEPT !.out = Append(@, Tok("stag", <<el.p, el.n>>, r.at, <<>>, FALSE)), !.pos = last + 1,
                           !.open = Append(@, [q |-> <<el.p, el.n>>, d |-> el.d]), !.ns = Append(@, r.sc)]
            ELSE [s EXCEPT !.out = Append(@, Tok("stag", <<el.p, el.n>>, r.at, <<>>, TRUE)), !.pos = last + 1]

Leaf(doc, cfg, s) ==
    LET nd == doc[s.pos]
        v == nd.v IN
    CASE nd.k = "text" ->
            IF Invalid(cfg, v) THEN Abort(s)
            ELSE Emit(s, << Tok("chars", NoName, <<>>, FormatBuf("Char", "CharRef", cfg.enc, cfg.v11, v), FALSE) >>)
      [] nd.k = "cdata" ->
            IF Invalid(cfg, v) THEN Abort(s)
            ELSE IF cfg.split THEN [Emit(s, CdataToks(cfg, v, 1, <<>>, <<>>)) EXCEPT !.warn = s.warn \/ SplitForced(cfg, v)]
            ELSE IF SplitForced(cfg, v) THEN Abort(s)
            ELSE Emit(s, << Tok("cdata", NoName, <<>>, Lits(v), FALSE) >>)
      [] nd.k = "comment" ->
            IF Invalid(cfg, v) \/ NoLiteral(cfg, v) \/ CommentBad(v) THEN Abort(s)
            ELSE Emit(s, << Tok("comment", NoName, <<>>, Lits(v), FALSE) >>)
      [] nd.k = "pi" ->
            IF Invalid(cfg, v) \/ NoLiteral(cfg, v) \/ PIBad(v) \/ ~NameRep(cfg.enc, nd.n) THEN Abort(s)
            ELSE Emit(s, << Tok("pi", <<"", nd.n>>, <<>>, Lits(v), FALSE) >>)

StepKind(doc, s) ==
    IF s.fin THEN "none"
    ELSE IF s.err THEN "Abort"
    ELSE IF s.pos = 0 THEN "XmlDecl"
    ELSE IF s.open # <<>> /\ (s.pos > Len(doc) \/ doc[s.pos].d <= Last(s.open).d) THEN "EndTag"
    ELSE IF s.pos > Len(doc) THEN "Finish"
    ELSE CASE doc[s.pos].k = "elem" -> "StartTag" [] doc[s.pos].k = "text" -> "Text" [] doc[s.pos].k = "cdata" -> "Cdata"
           [] doc[s.pos].k = "comment" -> "Comment" [] doc[s.pos].k = "pi" -> "PI"

StepFn(doc, cfg, s) ==
    LET kd == StepKind(doc, s) IN
    CASE kd = "XmlDecl" -> [s EXCEPT !.pos = 1,
                                     !.out = (IF cfg.top # "elem" /\ cfg.bom THEN << Tok("bom", NoName, <<>>, <<>>, FALSE) >> ELSE <<>>)
                                             \o (IF cfg.top = "decl" THEN << Tok("decl", NoName, <<>>, <<>>, cfg.v11) >> ELSE <<>>)]
      [] kd = "EndTag" -> [s EXCEPT !.out = Append(@, Tok("etag", Last(s.open).q, <<>>, <<>>, FALSE)), !.open = Front(@), !.ns = Front(@)]
      [] kd = "Finish" -> [s EXCEPT !.fin = TRUE]
      [] kd = "Abort" -> [s EXCEPT !.fin = TRUE]
      [] kd = "StartTag" -> StartTag(doc, cfg, s)
      [] kd \in {"Text", "Cdata", "Comment", "PI"} -> Leaf(doc, cfg, s)

RECURSIVE Run(_, _, _)
Run(doc, cfg, s) == IF s.fin THEN s ELSE Run(doc, cfg, StepFn(doc, cfg, s))
Ser(doc, cfg) == Run(doc, cfg, S0)

\* the output as the flat sequence of items that is written to the target (the binder renders these with a fixed table)
L(x) == <<"l", x>>
NameI(q) == <<"n", q[1], q[2]>>
FlatAttr(a) == << L(" "), NameI(a.q), L("=\"") >> \o a.i \o << L("\"") >>
FlatTok(tok) ==
    CASE tok.t = "bom" -> << <<"bom", "">> >>
      [] tok.t = "decl" -> << <<"decl", IF tok.e THEN "1.1" ELSE "1.0">> >>
      [] tok.t = "stag" -> << L("<"), NameI(tok.n) >> \o Concat([j \in 1..Len(tok.a) |-> FlatAttr(tok.a[j])]) \o << L(IF tok.e THEN "/>" ELSE ">") >>
      [] tok.t = "etag" -> << L("</"), NameI(tok.n), L(">") >>
      [] tok.t = "chars" -> tok.i
      [] tok.t = "cdata" -> << L("<![CDATA[") >> \o tok.i \o << L("]]>") >>
      [] tok.t = "comment" -> << L("<!--") >> \o tok.i \o << L("-->") >>
      [] tok.t = "pi" -> << L("<?"), NameI(tok.n) >> \o (IF tok.i = <<>> THEN <<>> ELSE << L(" ") >> \o tok.i) \o << L("?>") >>
Flat(toks) == Concat([j \in 1..Len(toks) |-> FlatTok(toks[j])])

---------------------------------------------------------------------------------------------
\* declarative layer

\* what an XML processor passes to the application for a run of items
RECURSIVE DecChars(_, _)
DecChars(items, j) ==    \* content and CDATA/comment/PI: literal CR LF and CR become LF (XML 2.11); references are not normalised
    IF j > Len(items) THEN <<>>
    ELSE IF items[j] = <<"c", "cr">>
         THEN (IF j < Len(items) /\ items[j + 1] = <<"c", "lf">> THEN <<>> ELSE <<"lf">>) \o DecChars(items, j + 1)
         ELSE <<items[j][2]>> \o DecChars(items, j + 1)
RECURSIVE DecAttr(_, _)
DecAttr(items, j) ==     \* attribute-value normalisation (XML 3.3.3) after end-of-line handling
    IF j > Len(items) THEN <<>>
    ELSE IF items[j][1] = "c" /\ items[j][2] \in {"cr", "lf", "tab"}
         THEN (IF items[j][2] = "cr" /\ j < Len(items) /\ items[j + 1] = <<"c", "lf">> THEN <<>> ELSE <<"sp">>) \o DecAttr(items, j + 1)
         ELSE <<items[j][2]>> \o DecAttr(items, j + 1)
UriOf(items) == IF items = <<>> THEN "" ELSE items[1][2]

ItemsOK(cfg, items, literalOnly, forbiddenLit) ==
    \A j \in 1..Len(items) :
        LET it == items[j] IN
        /\ it[1] \in (IF literalOnly THEN {"c"} ELSE {"c", "e", "r"})
        /\ it[1] = "c" => /\ Rep(cfg.enc, it[2]) /\ XmlChar(cfg.v11, it[2]) /\ ~Restricted(cfg.v11, it[2])
                          /\ it[2] \notin forbiddenLit
        /\ it[1] = "e" => it[2] \in PreEnt
        /\ it[1] = "r" => XmlChar(cfg.v11, it[2])
LitSub(items, w) == HasSub(items, [j \in 1..Len(w) |-> <<"c", w[j]>>])

OwnScope(tok) == {<<(IF tok.a[j].q = <<"", "xmlns">> THEN "" ELSE tok.a[j].q[2]), UriOf(tok.a[j].i)>> :
                      j \in {m \in 1..Len(tok.a) : tok.a[m].q = <<"", "xmlns">> \/ tok.a[m].q[1] = "xmlns"}}
IsNsAttr(a) == a.q = <<"", "xmlns">> \/ a.q[1] = "xmlns"

TokOK(cfg, tok, scopes) ==
    CASE tok.t = "chars" -> ItemsOK(cfg, tok.i, FALSE, {"lt", "amp"}) /\ ~LitSub(tok.i, <<"rsb", "rsb", "gt">>)
      [] tok.t = "cdata" -> ItemsOK(cfg, tok.i, TRUE, {}) /\ ~LitSub(tok.i, <<"rsb", "rsb", "gt">>)
      [] tok.t = "comment" -> ItemsOK(cfg, tok.i, TRUE, {}) /\ ~LitSub(tok.i, <<"dash", "dash">>) /\ (tok.i = <<>> \/ Last(tok.i) # <<"c", "dash">>)
      [] tok.t = "pi" -> ItemsOK(cfg, tok.i, TRUE, {}) /\ ~LitSub(tok.i, <<"qm", "gt">>) /\ NameRep(cfg.enc, tok.n[2])
                         /\ (tok.i = <<>> \/ tok.i[1][2] \notin WsClasses)
      [] tok.t = "stag" ->
            LET sc == Append(scopes, OwnScope(tok)) IN
            /\ NameRep(cfg.enc, tok.n[2])
            /\ \A j, m \in 1..Len(tok.a) : j # m => tok.a[j].q # tok.a[m].q                      \* unique attribute names
            /\ \A j \in 1..Len(tok.a) : /\ NameRep(cfg.enc, tok.a[j].q[2])
                                        /\ IsNsAttr(tok.a[j]) => (tok.a[j].q[1] = "xmlns" => tok.a[j].i # <<>>)  \* no xmlns:p=""
                                        /\ ~IsNsAttr(tok.a[j]) => /\ ItemsOK(cfg, tok.a[j].i, FALSE, {"lt", "amp", "quot"})
                                                                  /\ (tok.a[j].q[1] # "" => Lookup(sc, tok.a[j].q[1]) \notin {"none", ""})
            /\ tok.n[1] # "" => Lookup(sc, tok.n[1]) \notin {"none", ""}                          \* prefix bound
            \* no two attributes with the same expanded name: cannot arise with one prefix and one local name per rank
      [] OTHER -> TRUE

\* nesting: exactly one root element, tags balanced with equal names, character data only inside the root
RECURSIVE Nest(_, _, _, _, _)
Nest(cfg, toks, j, stack, scopes) ==
    IF j > Len(toks) THEN stack = <<>>
    ELSE LET tok == toks[j] IN
         /\ TokOK(cfg, tok, scopes)
         /\ CASE tok.t = "stag" -> /\ (stack = <<>> => \A m \in 1..(j - 1) : toks[m].t # "stag")
                                   /\ IF tok.e THEN Nest(cfg, toks, j + 1, stack, scopes)
                                      ELSE Nest(cfg, toks, j + 1, Append(stack, tok.n), Append(scopes, OwnScope(tok)))
              [] tok.t = "etag" -> stack # <<>> /\ Last(stack) = tok.n /\ Nest(cfg, toks, j + 1, Front(stack), Front(scopes))
              [] tok.t \in {"chars", "cdata"} -> stack # <<>> /\ Nest(cfg, toks, j + 1, stack, scopes)
              [] tok.t \in {"bom", "decl"} -> (\A m \in 1..(j - 1) : toks[m].t = "bom") /\ (tok.t = "bom" => j = 1) /\ Nest(cfg, toks, j + 1, stack, scopes)
              [] OTHER -> Nest(cfg, toks, j + 1, stack, scopes)
WellFormed(cfg, toks) == /\ Nest(cfg, toks, 1, <<>>, <<>>)
                         /\ \E j \in 1..Len(toks) : toks[j].t = "stag"
                         /\ (cfg.v11 => \E j \in 1..Len(toks) : toks[j].t = "decl" /\ toks[j].e)

SortAttrs(nodes) == LET F[r \in 0..Len(AttrTable)] == IF r = 0 THEN <<>> ELSE F[r - 1] \o SelectSeq(nodes, LAMBDA x : x.r = r) IN F[Len(AttrTable)]

RECURSIVE P(_, _, _, _, _)
P(toks, j, depth, scopes, acc) ==
    IF j > Len(toks) THEN acc
    ELSE LET tok == toks[j] IN
      CASE tok.t = "stag" ->
             LET sc == Append(scopes, OwnScope(tok))
                 uri == IF Lookup(sc, tok.n[1]) = "none" THEN "" ELSE Lookup(sc, tok.n[1])
                 attrs == [m \in 1..Len(tok.a) |->
                             LET a == tok.a[m]
                                 r == RankOf(a.q) IN
                             IF IsNsAttr(a) THEN Node("nsdecl", depth + 1, "", "", UriOf(a.i), r, <<>>)
                             ELSE Node("attr", depth + 1, a.q[2], a.q[1], (IF a.q[1] = "" THEN "" ELSE Lookup(sc, a.q[1])), r, DecAttr(a.i, 1))]
                 acc2 == Append(acc, Node("elem", depth, tok.n[2], tok.n[1], uri, 0, <<>>)) \o SortAttrs(attrs) IN
             IF tok.e THEN P(toks, j + 1, depth, scopes, acc2) ELSE P(toks, j + 1, depth + 1, sc, acc2)
        [] tok.t = "etag" -> P(toks, j + 1, depth - 1, Front(scopes), acc)
        [] tok.t = "chars" ->
             LET v == DecChars(tok.i, 1) IN
             IF v = <<>> THEN P(toks, j + 1, depth, scopes, acc)
             ELSE IF acc # <<>> /\ Last(acc).k = "text" /\ Last(acc).d = depth /\ toks[j - 1].t = "chars"
                  THEN P(toks, j + 1, depth, scopes, Append(Front(acc), [Last(acc) EXCEPT !.v = @ \o v]))
                  ELSE P(toks, j + 1, depth, scopes, Append(acc, Node("text", depth, "", "", "", 0, v)))
        [] tok.t = "cdata" -> P(toks, j + 1, depth, scopes, Append(acc, Node("cdata", depth, "", "", "", 0, DecChars(tok.i, 1))))
        [] tok.t = "comment" -> P(toks, j + 1, depth, scopes, Append(acc, Node("comment", depth, "", "", "", 0, DecChars(tok.i, 1))))
        [] tok.t = "pi" -> P(toks, j + 1, depth, scopes, Append(acc, Node("pi", depth, tok.n[2], "", "", 0, DecChars(tok.i, 1))))
        [] OTHER -> P(toks, j + 1, depth, scopes, acc)
Parse(toks) == P(toks, 1, 0, <<>>, <<>>)

\* character data of maximal runs of adjacent Text/CDATA nodes merged into one node of kind "chars"
RECURSIVE Coarse(_, _, _)
Coarse(doc, j, acc) ==
    IF j > Len(doc) THEN acc
    ELSE IF doc[j].k \in {"text", "cdata"}
         THEN IF acc # <<>> /\ Last(acc).k = "chars" /\ Last(acc).d = doc[j].d /\ doc[j - 1].k \in {"text", "cdata"} /\ doc[j - 1].d = doc[j].d
              THEN Coarse(doc, j + 1, Append(Front(acc), [Last(acc) EXCEPT !.v = @ \o doc[j].v]))
              ELSE Coarse(doc, j + 1, Append(acc, [doc[j] EXCEPT !.k = "chars"]))
         ELSE Coarse(doc, j + 1, Append(acc, doc[j]))
NoNsDecls(doc) == SelectSeq(doc, LAMBDA x : x.k # "nsdecl")
AdjacentText(doc) == \E j \in 2..Len(doc) : doc[j].k = "text" /\ doc[j - 1].k = "text" /\ doc[j - 1].d = doc[j].d

\* what cannot be expressed as well-formed XML in the given configuration (independent of the serialiser's ladder)
Inexpressible(doc, cfg) ==
    \E j \in 1..Len(doc) :
        LET nd == doc[j] IN
        \/ Invalid(cfg, nd.v)
        \/ nd.k \in {"elem", "attr", "pi"} /\ ~NameRep(cfg.enc, nd.n)
        \/ nd.k = "comment" /\ (NoLiteral(cfg, nd.v) \/ CommentBad(nd.v))
        \/ nd.k = "pi" /\ (NoLiteral(cfg, nd.v) \/ PIBad(nd.v))
        \/ nd.k = "cdata" /\ ~cfg.split /\ SplitForced(cfg, nd.v)
SplitNeeded(doc, cfg) == \E j \in 1..Len(doc) : doc[j].k = "cdata" /\ SplitForced(cfg, doc[j].v)

\* classification tags of a case (used to identify known findings; not an expectation)
Tags(doc, cfg) ==
    LET T(j) == LET nd == doc[j] IN
          (IF nd.k = "cdata" /\ HasSub(nd.v, <<"rsb", "rsb", "gt">>) THEN {<<"CdataSection", "]]>">>} ELSE {})
     \cup (IF nd.k = "cdata" /\ "cr" \in Range(nd.v) THEN {<<"CdataSection", "CR">>} ELSE {})
     \cup (IF nd.k = "cdata" /\ "c0" \in Range(nd.v) THEN {<<"CdataSection", "C0">>} ELSE {})
     \cup (IF nd.k = "cdata" /\ "sup" \in Range(nd.v) /\ ~Rep(cfg.enc, "sup") THEN {<<"CdataSection", "supplementary">>} ELSE {})
     \cup (IF nd.k = "comment" /\ CommentBad(nd.v) THEN {<<"Comment", "--">>} ELSE {})
     \cup (IF nd.k = "comment" /\ "cr" \in Range(nd.v) THEN {<<"Comment", "CR">>} ELSE {})
     \cup (IF nd.k = "comment" /\ Restricted(cfg.v11, "c0") /\ "c0" \in Range(nd.v) THEN {<<"Comment", "C0">>} ELSE {})
     \cup (IF nd.k = "pi" /\ PIBad(nd.v) THEN {<<"PI", "?>">>} ELSE {})
     \cup (IF nd.k = "pi" /\ "cr" \in Range(nd.v) THEN {<<"PI", "CR">>} ELSE {})
     \cup (IF nd.k = "pi" /\ Restricted(cfg.v11, "c0") /\ "c0" \in Range(nd.v) THEN {<<"PI", "C0">>} ELSE {})
     \cup (IF nd.k = "text" /\ Restricted(cfg.v11, "c0") /\ "c0" \in Range(nd.v) THEN {<<"Text", "C0">>} ELSE {})
     \cup (IF nd.k = "attr" /\ Restricted(cfg.v11, "c0") /\ "c0" \in Range(nd.v) THEN {<<"Attr", "C0">>} ELSE {})
     \cup (IF nd.k = "attr" /\ ~NameRep(cfg.enc, nd.n) THEN {<<"AttrName", "unrepresentable">>} ELSE {})
     \cup (IF nd.k = "elem" /\ nd.p = "" /\ \E i \in 1..(j - 1) : doc[i].k = "nsdecl" /\ doc[i].r = 3 /\ doc[i].d <= nd.d
           THEN {<<"NsFixup", IF nd.u = "" THEN "no-namespace element under explicit default declaration"
                              ELSE "unprefixed element under explicit default declaration">>} ELSE {})
     \cup (IF nd.k = "elem" /\ nd.p = "" /\ \E i \in 2..(j - 1) : /\ doc[i].k = "elem" /\ doc[i].p = "" /\ doc[i].u = "" /\ doc[i].d < nd.d
                                                                      /\ \E h \in 1..(i - 1) : doc[h].k \in {"elem", "nsdecl"} /\ doc[h].p = "" /\ doc[h].u # ""
           THEN {<<"NsFixup", IF nd.u = "" THEN "no-namespace element under an element that undeclared the default namespace"
                              ELSE "unprefixed namespaced element under an element that undeclared the default namespace">>} ELSE {})
    IN UNION {T(j) : j \in 1..Len(doc)}

---------------------------------------------------------------------------------------------
\* state machine: build a document, choose a configuration, serialise it step by step

VARIABLES doc, cfg, phase, st
vars == <<doc, cfg, phase, st>>

NoCfg == [enc |-> "utf", split |-> TRUE, v11 |-> FALSE, top |-> "decl", bom |-> FALSE]
Init == doc = <<>> /\ cfg = NoCfg /\ phase = "build" /\ st = S0

NChars(d) == LET F[j \in 0..Len(d)] == IF j = 0 THEN 0 ELSE F[j - 1] + Len(d[j].v) IN F[Len(d)]
HasValue(k) == k \in {"attr", "text", "cdata", "comment", "pi"}
Complete(d) == d # <<>> /\ (Last(d).k \in {"text", "cdata"} => Last(d).v # <<>>)

\* the owner element's position for a new node placed at depth dd after document d
ValidDepth(d, dd) == /\ dd >= 1 /\ dd <= MaxDepth
                     /\ dd <= (IF Last(d).k = "elem" THEN Last(d).d + 1 ELSE Last(d).d)
\* per-element consistency of prefix use (conflicting bindings on ONE element are not generated)
OwnerIdx(d) == CHOOSE i \in 1..Len(d) : d[i].k = "elem" /\ \A m \in (i + 1)..Len(d) : IsAttrK(d[m].k)
PrefixUses(d, i) == {<<d[m].p, d[m].u>> : m \in {x \in i..Len(d) : d[x].k \in {"elem", "attr"} /\ d[x].p # ""}}
                    \cup {<<DeclaredPrefix(d[m].r), d[m].u>> : m \in {x \in i..Len(d) : d[x].k = "nsdecl"}}
                    \cup (IF d[i].p = "" THEN {<<"", d[i].u>>} ELSE {})
Consistent(d, i) == \A x, y \in PrefixUses(d, i) : x[1] = y[1] => x[2] = y[2]

AddRoot == /\ phase = "build" /\ doc = <<>>
           /\ \E q \in ElemQNames : doc' = << Node("elem", 0, q[2], q[1], q[3], 0, <<>>) >>
           /\ UNCHANGED <<cfg, phase, st>>
AddElem == /\ phase = "build" /\ Complete(doc) /\ Len(doc) < MaxNodes
           /\ \E q \in ElemQNames, dd \in 1..MaxDepth :
                 /\ ValidDepth(doc, dd)
                 /\ doc' = Append(doc, Node("elem", dd, q[2], q[1], q[3], 0, <<>>))
           /\ UNCHANGED <<cfg, phase, st>>
AddAttr == /\ phase = "build" /\ doc # <<>> /\ Len(doc) < MaxNodes
           /\ Last(doc).k = "elem" \/ IsAttrK(Last(doc).k)
           /\ \E r \in AttrRanks, u \in {"", "u1", "u2"} :
                 LET t == AttrTable[r]
                     dd == IF Last(doc).k = "elem" THEN Last(doc).d + 1 ELSE Last(doc).d
                     nd == IF t.k = "nsdecl" THEN Node("nsdecl", dd, "", "", u, r, <<>>) ELSE Node("attr", dd, t.q[2], t.q[1], u, r, <<>>) IN
                 /\ IsAttrK(Last(doc).k) => Last(doc).r < r
                 /\ t.k = "attr" => (u = "") = (t.q[1] = "")          \* prefixed attributes have a namespace, others none
                 /\ (t.k = "nsdecl" /\ r = 4) => u # ""               \* xmlns:p="" is not allowed
                 /\ doc' = Append(doc, nd)
                 /\ Consistent(doc', OwnerIdx(doc'))
           /\ UNCHANGED <<cfg, phase, st>>
AddLeaf == /\ phase = "build" /\ Complete(doc) /\ Len(doc) < MaxNodes
           /\ \E k \in LeafKinds, dd \in 1..MaxDepth :
                 /\ ValidDepth(doc, dd)
                 /\ doc' = Append(doc, Node(k, dd, (IF k = "pi" THEN "t" ELSE ""), "", "", 0, <<>>))
           /\ UNCHANGED <<cfg, phase, st>>
AddChar == /\ phase = "build" /\ doc # <<>> /\ HasValue(Last(doc).k) /\ NChars(doc) < MaxChars /\ Len(Last(doc).v) < MaxVal
           /\ \E c \in Classes :
                 /\ (Last(doc).k = "pi" /\ Last(doc).v = <<>>) => c \notin WsClasses     \* PI data cannot start with white space
                 /\ doc' = [doc EXCEPT ![Len(doc)].v = Append(@, c)]
           /\ UNCHANGED <<cfg, phase, st>>
Start == /\ phase = "build" /\ Complete(doc)
         /\ \E c \in Cfgs : cfg' = c
         /\ phase' = "ser" /\ UNCHANGED <<doc, st>>

\* one step of the serialiser (the named actions below differ only in the kind of step that is due)
Advance == /\ st' = StepFn(doc, cfg, st)
           /\ phase' = IF st'.fin THEN "done" ELSE "ser"
           /\ UNCHANGED <<doc, cfg>>
XmlDecl == phase = "ser" /\ StepKind(doc, st) = "XmlDecl" /\ Advance
StartTagA == phase = "ser" /\ StepKind(doc, st) = "StartTag" /\ Advance
EndTagA == phase = "ser" /\ StepKind(doc, st) = "EndTag" /\ Advance
TextA == phase = "ser" /\ StepKind(doc, st) = "Text" /\ Advance
CdataA == phase = "ser" /\ StepKind(doc, st) = "Cdata" /\ Advance
CommentA == phase = "ser" /\ StepKind(doc, st) = "Comment" /\ Advance
PIA == phase = "ser" /\ StepKind(doc, st) = "PI" /\ Advance
AbortA == phase = "ser" /\ StepKind(doc, st) = "Abort" /\ Advance
FinishA == phase = "ser" /\ StepKind(doc, st) = "Finish" /\ Advance
Next == AddRoot \/ AddElem \/ AddAttr \/ AddLeaf \/ AddChar \/ Start
        \/ XmlDecl \/ StartTagA \/ EndTagA \/ TextA \/ CdataA \/ CommentA \/ PIA \/ AbortA \/ FinishA
Spec == Init /\ [][Next]_vars

---------------------------------------------------------------------------------------------
\* the listed property, on every finished serialisation

Done == phase = "done"
Ok == Done /\ ~st.err
StepwiseIsSer == Done => st = Ser(doc, cfg)                                   \* the step actions compute Ser
ErrorIffInexpressible == Done => (st.err <=> Inexpressible(doc, cfg))
OutputWellFormed == Ok => WellFormed(cfg, st.out)
RoundTripContent == Ok => Coarse(NoNsDecls(Parse(st.out)), 1, <<>>) = Coarse(NoNsDecls(doc), 1, <<>>)
FixupAdded == Ok /\ Len(SelectSeq(Parse(st.out), LAMBDA x : x.k = "nsdecl")) # Len(SelectSeq(doc, LAMBDA x : x.k = "nsdecl"))
RoundTripExact == (Ok /\ ~SplitNeeded(doc, cfg) /\ ~AdjacentText(doc) /\ ~FixupAdded) => Parse(st.out) = doc
NamesOf(d) == LET e == SelectSeq(d, LAMBDA x : x.k \in {"elem", "attr"}) IN [j \in 1..Len(e) |-> <<e[j].k, e[j].d, e[j].n, e[j].p, e[j].u>>]
NsPreserved == Ok => NamesOf(Parse(st.out)) = NamesOf(doc)       \* every element and attribute keeps its expanded name and prefix
SplitOnlyWhereForced == (Ok /\ ~SplitNeeded(doc, cfg)) => SelectSeq(Parse(st.out), LAMBDA x : x.k = "cdata") = SelectSeq(doc, LAMBDA x : x.k = "cdata")
WarnIffSplit == Ok => (st.warn <=> SplitNeeded(doc, cfg))
Idempotent == Ok => LET again == Ser(Parse(st.out), cfg) IN ~again.err /\ Flat(again.out) = Flat(st.out)     \* same bytes
TypeOK == phase \in {"build", "ser", "done"} /\ st.pos \in 0..(MaxNodes + 1)
=============================================================================
