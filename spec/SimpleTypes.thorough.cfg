SPECIFICATION Spec
CONSTANTS
  GridSel = {"dec", "int", "dt", "date", "time", "gym", "gy", "gmd", "gd", "gm", "dur", "bool", "hex", "b64", "str", "name", "float", "list", "union"}
  FullTriples = TRUE
INVARIANTS InvValid InvWs InvOrder InvCanon
ACTION_CONSTRAINT CountActions
CHECK_DEADLOCK FALSE
