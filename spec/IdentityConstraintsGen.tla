------------------------- MODULE IdentityConstraintsGen -------------------------
(* Binder T for IdentityConstraints: one JSON line per enumerated case with
     exp    the violation kinds of the declarative layer (the recommendation)          - the expected observation
     maybe  kinds that are not compared on this instance (see MaybeKinds)
     coded  the kinds the operational layer reports with every listed deviation of the pinned code switched on
     dev    when coded differs from exp: the deviations that, switched on alone, already change the verdict
   The harness renders schema and instance from the abstract case, validates with the real parsers and compares the
   reported IC_* error kinds with exp (modulo maybe); a disagreement that equals `coded` is classified by `dev`. *)
EXTENDS IdentityConstraintsMC, Json
VARIABLE gphase
gvars == <<cs, st, nx, phase, gphase>>
Differs(a, b, maybe) == (a \ maybe) # (b \ maybe)
CaseLine(C) ==
    LET exp == DeclKinds(C)
        maybe == MaybeGiven(C, exp)
        coded == OpKinds(Devs, C)
        dev == IF Differs(coded, exp, maybe) THEN {d \in Devs : Differs(OpKinds({d}, C), exp, maybe)} ELSE {}
    IN [ty |-> C.ty, cons |-> C.cons, tree |-> C.tree, fam |-> C.fam, exp |-> exp, maybe |-> maybe, coded |-> coded, dev |-> dev]
GInit == cs \in MCCases /\ st = S0 /\ nx = 0 /\ phase = "run" /\ gphase = "new"
GNext == gphase = "new" /\ gphase' = "emit" /\ UNCHANGED <<cs, st, nx, phase>>
GSpec == GInit /\ [][GNext]_gvars
EmitCase == gphase = "emit" => PrintT(ToJson(CaseLine(cs)))
=============================================================================
