------------------------------ MODULE ParserLifecycleWalk ------------------------------
(* Binder W for ParserLifecycle: operation histories with, for every step, the record the specification expects to be
   observable (abstract outcome of a parse, rejection of a stale token, pool keys, lock flag, effective cache/use features,
   hazard name).  Used both exhaustively (breadth-first: every history of length MaxOps - 1 is printed once) and with
   -simulate (random long histories).  The last step of a behaviour is a single deterministic Finish step so that the
   history is printed exactly once. *)
EXTENDS ParserLifecycle, Json
VARIABLE hist
Exp == [how |-> last'.out.how, verr |-> last'.out.verr, nse |-> last'.out.nse, full |-> last'.full, ok |-> last'.ok, rej |-> last'.rej,
        done |-> last'.done, hz |-> last'.hz, hzdg |-> last'.hzdg, vis |-> last'.vis, schema |-> cfg'.schema, pool |-> pool', locked |-> locked', cache |-> cfg'.cache, use |-> cfg'.use, val |-> cfg'.val]
WInit == Init /\ hist = <<>>
WNext == \/ /\ nops < MaxOps - 1 /\ Next /\ hist' = Append(hist, <<last'.op, Exp>>)
         \/ /\ nops = MaxOps - 1 /\ nops' = MaxOps /\ UNCHANGED <<cfg, tr, seqId, run, issued, stores, docpool, last, hist>>
WSpec == WInit /\ [][WNext]_<<vars, hist>>
EmitW == (nops = MaxOps) => PrintT(ToJson(hist))
=============================================================================
