SPECIFICATION GSpec
CONSTANTS
  NNames = 2
  Depth = 1
  MaxLen = 4
  WithItems = TRUE
  Sample = 0
ACTION_CONSTRAINT Emit
CHECK_DEADLOCK FALSE
