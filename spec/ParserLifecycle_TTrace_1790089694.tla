---- MODULE ParserLifecycle_TTrace_1790089694 ----
EXTENDS Sequences, TLCExt, Toolbox, ParserLifecycle, Naturals, TLC

_expression ==
    LET ParserLifecycle_TEExpression == INSTANCE ParserLifecycle_TEExpression
    IN ParserLifecycle_TEExpression!expression
----

_trace ==
    LET ParserLifecycle_TETrace == INSTANCE ParserLifecycle_TETrace
    IN ParserLifecycle_TETrace!trace
----

_inv ==
    ~(
        TLCGet("level") = Len(_TETrace)
        /\
        last = ([cfg |-> [val |-> 1, cache |-> FALSE, use |-> FALSE, ns |-> TRUE], doc |-> 1, out |-> [how |-> "ok", verr |-> FALSE, nse |-> 3], hzdg |-> FALSE, op |-> <<"parse", 1, 0>>, full |-> TRUE, ok |-> TRUE, rej |-> FALSE, done |-> TRUE, hz |-> "", k |-> 0])
        /\
        cfg = ([val |-> 1, cache |-> FALSE, use |-> FALSE, ns |-> TRUE])
        /\
        fromPool = ({})
        /\
        pool = ({})
        /\
        run = ([cfg |-> [val |-> 0, cache |-> FALSE, use |-> FALSE, ns |-> TRUE], active |-> FALSE, tok |-> 0, doc |-> 0, rest |-> <<>>, out |-> [how |-> "ok", verr |-> FALSE, nse |-> 0]])
        /\
        freed = ({})
        /\
        curDoc = (1)
        /\
        bucket = ({"dtd"})
        /\
        curAdopted = (FALSE)
        /\
        nextDoc = (2)
        /\
        owned = ({})
        /\
        nops = (2)
        /\
        issued = ({})
        /\
        locked = (FALSE)
        /\
        seqId = (1)
        /\
        tr = ([ids |-> {"x"}, g |-> "A", sa |-> FALSE, depth |-> 0, refs |-> {"x"}, noDTD |-> TRUE, validate |-> TRUE, gext |-> FALSE, undecl |-> {}, exp |-> 1, rd |-> 0, errs |-> 0])
        /\
        adopted = ({})
    )
----

_init ==
    /\ curAdopted = _TETrace[1].curAdopted
    /\ nops = _TETrace[1].nops
    /\ seqId = _TETrace[1].seqId
    /\ bucket = _TETrace[1].bucket
    /\ issued = _TETrace[1].issued
    /\ fromPool = _TETrace[1].fromPool
    /\ pool = _TETrace[1].pool
    /\ last = _TETrace[1].last
    /\ curDoc = _TETrace[1].curDoc
    /\ tr = _TETrace[1].tr
    /\ run = _TETrace[1].run
    /\ freed = _TETrace[1].freed
    /\ locked = _TETrace[1].locked
    /\ cfg = _TETrace[1].cfg
    /\ adopted = _TETrace[1].adopted
    /\ owned = _TETrace[1].owned
    /\ nextDoc = _TETrace[1].nextDoc
----

_next ==
    /\ \E i,j \in DOMAIN _TETrace:
        /\ \/ /\ j = i + 1
              /\ i = TLCGet("level")
        /\ curAdopted  = _TETrace[i].curAdopted
        /\ curAdopted' = _TETrace[j].curAdopted
        /\ nops  = _TETrace[i].nops
        /\ nops' = _TETrace[j].nops
        /\ seqId  = _TETrace[i].seqId
        /\ seqId' = _TETrace[j].seqId
        /\ bucket  = _TETrace[i].bucket
        /\ bucket' = _TETrace[j].bucket
        /\ issued  = _TETrace[i].issued
        /\ issued' = _TETrace[j].issued
        /\ fromPool  = _TETrace[i].fromPool
        /\ fromPool' = _TETrace[j].fromPool
        /\ pool  = _TETrace[i].pool
        /\ pool' = _TETrace[j].pool
        /\ last  = _TETrace[i].last
        /\ last' = _TETrace[j].last
        /\ curDoc  = _TETrace[i].curDoc
        /\ curDoc' = _TETrace[j].curDoc
        /\ tr  = _TETrace[i].tr
        /\ tr' = _TETrace[j].tr
        /\ run  = _TETrace[i].run
        /\ run' = _TETrace[j].run
        /\ freed  = _TETrace[i].freed
        /\ freed' = _TETrace[j].freed
        /\ locked  = _TETrace[i].locked
        /\ locked' = _TETrace[j].locked
        /\ cfg  = _TETrace[i].cfg
        /\ cfg' = _TETrace[j].cfg
        /\ adopted  = _TETrace[i].adopted
        /\ adopted' = _TETrace[j].adopted
        /\ owned  = _TETrace[i].owned
        /\ owned' = _TETrace[j].owned
        /\ nextDoc  = _TETrace[i].nextDoc
        /\ nextDoc' = _TETrace[j].nextDoc

\* Uncomment the ASSUME below to write the states of the error trace
\* to the given file in Json format. Note that you can pass any tuple
\* to `JsonSerialize`. For example, a sub-sequence of _TETrace.
    \* ASSUME
    \*     LET J == INSTANCE Json
    \*         IN J!JsonSerialize("ParserLifecycle_TTrace_1790089694.json", _TETrace)

=============================================================================

 Note that you can extract this module `ParserLifecycle_TEExpression`
  to a dedicated file to reuse `expression` (the module in the 
  dedicated `ParserLifecycle_TEExpression.tla` file takes precedence 
  over the module `ParserLifecycle_TEExpression` below).

---- MODULE ParserLifecycle_TEExpression ----
EXTENDS Sequences, TLCExt, Toolbox, ParserLifecycle, Naturals, TLC

expression == 
    [
        \* To hide variables of the `ParserLifecycle` spec from the error trace,
        \* remove the variables below.  The trace will be written in the order
        \* of the fields of this record.
        curAdopted |-> curAdopted
        ,nops |-> nops
        ,seqId |-> seqId
        ,bucket |-> bucket
        ,issued |-> issued
        ,fromPool |-> fromPool
        ,pool |-> pool
        ,last |-> last
        ,curDoc |-> curDoc
        ,tr |-> tr
        ,run |-> run
        ,freed |-> freed
        ,locked |-> locked
        ,cfg |-> cfg
        ,adopted |-> adopted
        ,owned |-> owned
        ,nextDoc |-> nextDoc
        
        \* Put additional constant-, state-, and action-level expressions here:
        \* ,_stateNumber |-> _TEPosition
        \* ,_curAdoptedUnchanged |-> curAdopted = curAdopted'
        
        \* Format the `curAdopted` variable as Json value.
        \* ,_curAdoptedJson |->
        \*     LET J == INSTANCE Json
        \*     IN J!ToJson(curAdopted)
        
        \* Lastly, you may build expressions over arbitrary sets of states by
        \* leveraging the _TETrace operator.  For example, this is how to
        \* count the number of times a spec variable changed up to the current
        \* state in the trace.
        \* ,_curAdoptedModCount |->
        \*     LET F[s \in DOMAIN _TETrace] ==
        \*         IF s = 1 THEN 0
        \*         ELSE IF _TETrace[s].curAdopted # _TETrace[s-1].curAdopted
        \*             THEN 1 + F[s-1] ELSE F[s-1]
        \*     IN F[_TEPosition - 1]
    ]

=============================================================================



Parsing and semantic processing can take forever if the trace below is long.
 In this case, it is advised to uncomment the module below to deserialize the
 trace from a generated binary file.

\*
\*---- MODULE ParserLifecycle_TETrace ----
\*EXTENDS IOUtils, ParserLifecycle, TLC
\*
\*trace == IODeserialize("ParserLifecycle_TTrace_1790089694.bin", TRUE)
\*
\*=============================================================================
\*

---- MODULE ParserLifecycle_TETrace ----
EXTENDS ParserLifecycle, TLC

trace == 
    <<
    ([last |-> [cfg |-> [val |-> 0, cache |-> FALSE, use |-> FALSE, ns |-> TRUE], doc |-> 0, out |-> [how |-> "ok", verr |-> FALSE, nse |-> 0], hzdg |-> FALSE, op |-> <<"init">>, full |-> FALSE, ok |-> TRUE, rej |-> FALSE, done |-> FALSE, hz |-> "", k |-> 0],cfg |-> [val |-> 0, cache |-> FALSE, use |-> FALSE, ns |-> TRUE],fromPool |-> {},pool |-> {},run |-> [cfg |-> [val |-> 0, cache |-> FALSE, use |-> FALSE, ns |-> TRUE], active |-> FALSE, tok |-> 0, doc |-> 0, rest |-> <<>>, out |-> [how |-> "ok", verr |-> FALSE, nse |-> 0]],freed |-> {},curDoc |-> 0,bucket |-> {},curAdopted |-> FALSE,nextDoc |-> 1,owned |-> {},nops |-> 0,issued |-> {},locked |-> FALSE,seqId |-> 0,tr |-> [ids |-> {}, g |-> "none", sa |-> FALSE, depth |-> 0, refs |-> {}, noDTD |-> TRUE, validate |-> FALSE, gext |-> FALSE, undecl |-> {}, exp |-> 0, rd |-> 0, errs |-> 0],adopted |-> {}]),
    ([last |-> [cfg |-> [val |-> 1, cache |-> FALSE, use |-> FALSE, ns |-> TRUE], doc |-> 0, out |-> [how |-> "ok", verr |-> FALSE, nse |-> 0], hzdg |-> FALSE, op |-> <<"set", "val", 1>>, full |-> FALSE, ok |-> TRUE, rej |-> FALSE, done |-> FALSE, hz |-> "", k |-> 0],cfg |-> [val |-> 1, cache |-> FALSE, use |-> FALSE, ns |-> TRUE],fromPool |-> {},pool |-> {},run |-> [cfg |-> [val |-> 0, cache |-> FALSE, use |-> FALSE, ns |-> TRUE], active |-> FALSE, tok |-> 0, doc |-> 0, rest |-> <<>>, out |-> [how |-> "ok", verr |-> FALSE, nse |-> 0]],freed |-> {},curDoc |-> 0,bucket |-> {},curAdopted |-> FALSE,nextDoc |-> 1,owned |-> {},nops |-> 1,issued |-> {},locked |-> FALSE,seqId |-> 0,tr |-> [ids |-> {}, g |-> "none", sa |-> FALSE, depth |-> 0, refs |-> {}, noDTD |-> TRUE, validate |-> FALSE, gext |-> FALSE, undecl |-> {}, exp |-> 0, rd |-> 0, errs |-> 0],adopted |-> {}]),
    ([last |-> [cfg |-> [val |-> 1, cache |-> FALSE, use |-> FALSE, ns |-> TRUE], doc |-> 1, out |-> [how |-> "ok", verr |-> FALSE, nse |-> 3], hzdg |-> FALSE, op |-> <<"parse", 1, 0>>, full |-> TRUE, ok |-> TRUE, rej |-> FALSE, done |-> TRUE, hz |-> "", k |-> 0],cfg |-> [val |-> 1, cache |-> FALSE, use |-> FALSE, ns |-> TRUE],fromPool |-> {},pool |-> {},run |-> [cfg |-> [val |-> 0, cache |-> FALSE, use |-> FALSE, ns |-> TRUE], active |-> FALSE, tok |-> 0, doc |-> 0, rest |-> <<>>, out |-> [how |-> "ok", verr |-> FALSE, nse |-> 0]],freed |-> {},curDoc |-> 1,bucket |-> {"dtd"},curAdopted |-> FALSE,nextDoc |-> 2,owned |-> {},nops |-> 2,issued |-> {},locked |-> FALSE,seqId |-> 1,tr |-> [ids |-> {"x"}, g |-> "A", sa |-> FALSE, depth |-> 0, refs |-> {"x"}, noDTD |-> TRUE, validate |-> TRUE, gext |-> FALSE, undecl |-> {}, exp |-> 1, rd |-> 0, errs |-> 0],adopted |-> {}])
    >>
----


=============================================================================

---- CONFIG ParserLifecycle_TTrace_1790089694 ----
CONSTANTS
    DocIds = { 1 , 2 , 3 , 4 , 5 , 8 }
    Loadable = { "A" }
    Vals = { 0 , 1 }
    MaxOps = 2
    MaxK = 2
    Feats = { "val" , "cache" , "use" }
    AsCoded = FALSE
    Forget = { "ids" }

INVARIANT
    _inv

CHECK_DEADLOCK
    \* CHECK_DEADLOCK off because of PROPERTY or INVARIANT above.
    FALSE

INIT
    _init

NEXT
    _next

CONSTANT
    _TETrace <- _trace

ALIAS
    _expression
=============================================================================
\* Generated on Tue Sep 22 15:09:06 UTC 2026